"""Differential probe for behaviour-preserving refactorings of pyab_experiment.

Run as:  PYTHONPATH=/tmp/wt/TI/src /venv/bin/python probe.py
Prints one deterministic JSON document.  The output must be byte-identical
with and without the patch under test.
"""

import hashlib
import io
import json
import random
import sys
import threading

# sly writes grammar diagnostics (conflicts, unused tokens ...) to the stderr
# object that is current when the classes are built: capture it.
_real_stderr = sys.stderr
_captured = io.StringIO()
sys.stderr = _captured
try:
    from pyab_experiment.binning.binning import (
        deterministic_choice,
        deterministic_proba,
    )
    from pyab_experiment.codegen.python.python_generator import PythonCodeGen
    from pyab_experiment.experiment_evaluator import ExperimentEvaluator
    from pyab_experiment.language.grammar import ExperimentParser
    from pyab_experiment.language.lexer import ExperimentLexer
    from pyab_experiment.utils.stats import confidence_interval, probit
    from pyab_experiment.utils.wraper_functions import generate_code, parse_source
finally:
    sys.stderr = _real_stderr


def sha(text):
    return hashlib.sha256(text.encode("utf-8", "surrogatepass")).hexdigest()


def err(e):
    out = {"class": type(e).__name__, "str": str(e)[:300]}
    for attr in ("error_index",):
        if hasattr(e, attr):
            out[attr] = getattr(e, attr)
    if hasattr(e, "text") and isinstance(getattr(e, "text"), str):
        out["text_sha"] = sha(e.text)
    return out


# --------------------------------------------------------------------------
# texts
# --------------------------------------------------------------------------
def prog(body, name="exp"):
    return "def " + name + "{ " + body + " }"


R1 = 'return "a" weighted 1, "b" weighted 2'

LEX_TEXTS = [
    "",
    " ",
    "\n\n\n",
    "def x { return 1 weighted 1 }",
    "if iff ifx if_ if9 _if IF If iF",
    "in inn in_ in1 int _in IN",
    "not note not_ notin not in not  in not\tin not\nin not\n\n in not \n in",
    "not inx not in_ not in9 not iné",
    "else elsex else_ elseif else if else  if else\tif else\nif else\n \n if",
    "elseifx elseif_ elseif9 else ifx else if_",
    "def define def_ salt salty splitters splitterss weighted weighted1 return returns",
    "and andy and_ or ore or_ ors",
    "ifé iné noté defé elseé oré",
    "ifé",
    "in٣",
    "not iné",
    "not in٣",
    "elseifé",
    "else ifé",
    "orª",
    "and²",
    "and٠",
    "xé",
    "éx",
    "abc_def ABC __x__ a1b2 _ _1 a.b",
    "0 1 007 12345678901234567890 1.5 0.0 00.00 1. .5 1.2.3 1..2 1e5 1.5e3",
    "٣ ١٢.٥ 1.٥ ٣.5 ٣x x٣",
    "-1 - 1 --1 -1.5 -x -'a'",
    "\"abc\" 'abc' \"\" '' \"a'b\" 'a\"b' \"a\\\"b\" 'a\\'b' \"a\\\\\" 'x\\n'",
    "\"abc",
    "'abc",
    "\"abc\ndef\"",
    "'abc\ndef'",
    "\"abc\rdef\" 'a b' \"é中\U0001F600\"",
    "\"a\" \"b\"\"c\" 'd''e' \"f\"'g'",
    "\"//not a comment\" '/* nor this */'",
    "a // comment\nb",
    "a // comment",
    "a //",
    "a / b",
    "a /",
    "// only",
    "//\n//\n",
    "a // c1 /* not block \n b",
    "a /* block */ b",
    "a /**/ b",
    "a /*/ b",
    "a /*/ b */ c",
    "a /* x\ny\n\nz */ b\nc",
    "a /* x\n y */ /* z */ b",
    "a /* /* nested */ b */ c",
    "a /* unterminated",
    "a /* unterminated\n\n",
    "a /* // */ b",
    "a /* * / */ b",
    "a /***/ b /****/ c /* **/ d",
    "a */ b",
    "a * b",
    "/* é 中 */ x",
    "/* a */ */",
    "/* a \r\n b */ c\r\nd",
    "a\r\nb\rc\n\rd",
    "a \nb",
    "a\n b",
    "a \n b",
    "a\t\n\tb",
    "a\n\n\nb\n \n\nc",
    "a\fb\vc\xa0d e f　g\x1ch\x1fi\x85j",
    "a\x00b",
    "a﻿b",
    "a​b",
    "( ) - , : { }",
    "(){},:-",
    "== >= <= > < != = ! => =< <> === !== >== <<= >>",
    "a==b a>=b a<=b a>b a<b a!=b a=b",
    "a = b",
    "a ! b",
    "@",
    "a @ b",
    "a # b",
    "a ; b",
    "a [ b",
    "a + b",
    "a \\ b",
    "a $ b",
    "a ` b",
    "a ~ b",
    "a ? b",
    "a % b",
    "a ^ b",
    "a & b",
    "a | b",
    "a . b",
    "é",
    "a\n\n @",
    "a /* \n\n */ @",
    "a \n @",
    "x" * 300,
    "1" * 50,
    "if" * 20,
    "notin" * 5,
    "not in" * 5,
]

PARSE_TEXTS = [
    prog(R1),
    prog("return 1 weighted 1"),
    prog("return -1 weighted 1, -2.5 weighted 0.25, 'x' weighted 0"),
    prog("return 1.0 weighted 1.0, 1 weighted 1"),
    prog("return \"0123\" weighted 1, '1e5' weighted 2, \"-3\" weighted 3"),
    prog("return 1 weighted 0"),
    prog("return 1 weighted 0, 2 weighted 0"),
    prog("return 1 weighted 0.0"),
    prog("return 1 weighted " + "9" * 400 + ".0"),
    prog("return 1 weighted " + "9" * 400),
    prog("return " + "9" * 400 + ".5 weighted 1, -" + "9" * 400 + ".5 weighted 1"),
    prog("if x == " + "9" * 400 + ".5 { " + R1 + " }"),
    prog("if x == -" + "9" * 400 + ".5 { " + R1 + " }"),
    prog("if x in (1, " + "9" * 400 + ".5, -" + "9" * 400 + ".5) { " + R1 + " }"),
    prog("return 1 weighted " + "9" * 400 + " @"),
    prog("return 1 weighted " + "9" * 400 + " 5"),
    prog("return 1 weighted " + "9" * 400 + ", 2 weighted 1 @"),
    prog("return 1 weighted " + "9" * 400 + ", 2 weighted 1 }"),
    prog("return 1 weighted 1, 2 weighted " + "9" * 400 + " @"),
    prog("return 1 weighted 1, 2 weighted " + "9" * 400 + ", 3 weighted 2"),
    prog("return 1 weighted " + "9" * 400 + ", 2 weighted " + "8" * 400) + " @",
    prog("return 1 weighted " + "9" * 400 + ", 2 weighted " + "8" * 400 + ","),
    prog("return 1 weighted " + "9" * 400 + ", 2 weighted 'a\n"),
    prog("if a == 1 { return 1 weighted " + "9" * 400 + " } else { return 1 weighted 1 @ }"),
    prog("if a == 1 { return 1 weighted " + "9" * 400 + " @ } else { return 1 weighted 1 }"),
    prog("return 1 weighted " + "9" * 5000),
    prog("return " + "9" * 5000 + " weighted 1"),
    prog("return 1 weighted " + "9" * 5000 + ".0"),
    prog("if a in (1, " + "9" * 5000 + ") { return 1 weighted 1 }"),
    prog("@ return 1 weighted " + "9" * 5000),
    prog("return 1 weighted -1"),
    prog("return 1 weighted 'a'"),
    prog("return x weighted 1"),
    prog("return (1,2) weighted 1"),
    prog("return 1 weighted 1,"),
    prog("return 1 weighted 1 2 weighted 2"),
    prog("return"),
    prog(""),
    prog("salt: 'abc' " + R1),
    prog('salt: "a\'b\\\\c" ' + R1),
    prog("salt: '' " + R1),
    prog("salt: \"é中\U0001F600\" " + R1),
    prog("salt: abc " + R1),
    prog("salt: 12 " + R1),
    prog("salt 'abc' " + R1),
    prog("salt: 'abc' salt: 'abc' " + R1),
    prog("splitters: a " + R1),
    prog("splitters: a, b, c " + R1),
    prog("splitters: b, a, b, a " + R1),
    prog("splitters: a, " + R1),
    prog("splitters: , a " + R1),
    prog("splitters: a b " + R1),
    prog("splitters: 'a' " + R1),
    prog("splitters: 1 " + R1),
    prog("splitters: " + R1),
    prog("splitters: a salt: 'x' " + R1),
    prog("salt: 'x' splitters: a " + R1),
    prog("salt: 'x' splitters: a, kwargs, self " + R1),
    prog("salt: 'x' splitters: iff, inn, nota, orr, elsee, def_ " + R1),
    prog("splitters: if " + R1),
    prog("splitters: a, in " + R1),
    prog("splitters: ifé " + R1),
    "def exp{" + R1 + "}",
    "def exp {" + R1 + "} extra",
    "def exp {" + R1 + "} }",
    "def exp {" + R1,
    "def exp " + R1 + " }",
    "def {" + R1 + "}",
    "def 1x {" + R1 + "}",
    "def if {" + R1 + "}",
    "def iff {" + R1 + "}",
    "def def_ {" + R1 + "}",
    "exp {" + R1 + "}",
    "def exp {" + R1 + "} def exp2 {" + R1 + "}",
    "def exp {" + R1 + "} /* trailing",
    "def exp {" + R1 + "} // trailing",
    "def exp { /* unterminated " + R1 + "}",
    "",
    "   ",
    "// nothing",
    "@",
    "def exp { return 1 weighted 1 } @",
    "def exp { return 1 weighted 1 @ }",
    "def exp { @ return 1 weighted 1 }",
    "def exp { return 'a weighted 1 }",
    "def exp { return 'a\n' weighted 1 }",
    "def exp { return 1 weighted 1.}",
    "def exp { return 1 weighted .5}",
    "def exp { return 1 weighted 1.2.3}",
    "def exp { return 1 weighted 1e5}",
    "def exp { return ٣ weighted ١.٥ }",
    prog("if a == 1 { " + R1 + " }"),
    prog("if a == 1 { " + R1 + " } else { " + R1 + " }"),
    prog("if a == 1 { " + R1 + " } else if b != 2 { " + R1 + " }"),
    prog("if a == 1 { " + R1 + " } elseif b != 2 { " + R1 + " } else { " + R1 + " }"),
    prog("if a == 1 { " + R1 + " } else\nif b != 2 { " + R1 + " } else { " + R1 + " }"),
    prog("if a == 1 { " + R1 + " } else { " + R1 + " } else { " + R1 + " }"),
    prog("if a == 1 { " + R1 + " } else { " + R1 + " } else if b == 1 { " + R1 + " }"),
    prog("else { " + R1 + " }"),
    prog("else if a == 1 { " + R1 + " }"),
    prog("if a == 1 { " + R1 + " } " + R1),
    prog("if a == 1 { } else { " + R1 + " }"),
    prog("if a == 1 " + R1),
    prog("if { " + R1 + " }"),
    prog("if a { " + R1 + " }"),
    prog("if a == { " + R1 + " }"),
    prog("if == 1 { " + R1 + " }"),
    prog("if a == 1 == 2 { " + R1 + " }"),
    prog("if a == b { if c < d { if e >= f { " + R1 + " } } }"),
    prog(
        "if a == b { if c < d { " + R1 + " } else { " + R1 + " } } "
        "else if g in h { if i not in j { " + R1 + " } } else { " + R1 + " }"
    ),
    prog("if a < 1 { " + R1 + " }"),
    prog("if a > 1 { " + R1 + " }"),
    prog("if a <= 1 { " + R1 + " }"),
    prog("if a >= 1 { " + R1 + " }"),
    prog("if a != 1 { " + R1 + " }"),
    prog("if a in (1,2) { " + R1 + " }"),
    prog("if a not in (1,2) { " + R1 + " }"),
    prog("if a not   in (1,2) { " + R1 + " }"),
    prog("if a not\tin (1,2) { " + R1 + " }"),
    prog("if a not\nin (1,2) { " + R1 + " }"),
    prog("if a notin (1,2) { " + R1 + " }"),
    prog("if a not (1,2) { " + R1 + " }"),
    prog("if a in not (1,2) { " + R1 + " }"),
    prog("if not a in (1,2) { " + R1 + " }"),
    prog("if not a not in (1,2) { " + R1 + " }"),
    prog("if not not a == 1 { " + R1 + " }"),
    prog("if not not not a == 1 { " + R1 + " }"),
    prog("if not (not a == 1) { " + R1 + " }"),
    prog("if not a == 1 and b == 2 { " + R1 + " }"),
    prog("if not a == 1 or b == 2 { " + R1 + " }"),
    prog("if not (a == 1 and b == 2) { " + R1 + " }"),
    prog("if a == 1 and not b == 2 { " + R1 + " }"),
    prog("if a == 1 or not b == 2 { " + R1 + " }"),
    prog("if a == 1 and not b == 2 and c == 3 { " + R1 + " }"),
    prog("if a == 1 and not b == 2 or c == 3 { " + R1 + " }"),
    prog("if a == 1 or not b == 2 and c == 3 { " + R1 + " }"),
    prog("if a == 1 and b == 2 and c == 3 { " + R1 + " }"),
    prog("if a == 1 or b == 2 or c == 3 { " + R1 + " }"),
    prog("if a == 1 or b == 2 and c == 3 { " + R1 + " }"),
    prog("if a == 1 and b == 2 or c == 3 { " + R1 + " }"),
    prog("if a == 1 and (b == 2 or c == 3) { " + R1 + " }"),
    prog("if (a == 1 or b == 2) and c == 3 { " + R1 + " }"),
    prog("if a == 1 or b == 2 and c == 3 or d == 4 and e == 5 { " + R1 + " }"),
    prog("if a == 1 and b == 2 or c == 3 and d == 4 or e == 5 { " + R1 + " }"),
    prog("if not a == 1 and not b == 2 or not c == 3 { " + R1 + " }"),
    prog("if (a == 1) { " + R1 + " }"),
    prog("if ((a == 1)) { " + R1 + " }"),
    prog("if (((a == 1))) and ((b == 2)) { " + R1 + " }"),
    prog("if (a) == 1 { " + R1 + " }"),
    prog("if ((a)) == 1 { " + R1 + " }"),
    prog("if ((a)) == ((1)) { " + R1 + " }"),
    prog("if (a == 1 { " + R1 + " }"),
    prog("if a == 1) { " + R1 + " }"),
    prog("if () == 1 { " + R1 + " }"),
    prog("if (a,) == 1 { " + R1 + " }"),
    prog("if (,a) == 1 { " + R1 + " }"),
    prog("if (a,,b) == 1 { " + R1 + " }"),
    prog("if (a b) == 1 { " + R1 + " }"),
    prog("if (a, b == 1 { " + R1 + " }"),
    prog("if (1) in ((1),(2)) { " + R1 + " }"),
    prog("if (1,2) in ((1,2),(3,4)) { " + R1 + " }"),
    prog("if (1,(2,(3,(4,5)))) == x { " + R1 + " }"),
    prog("if ((((1,2),3),4),5) == x { " + R1 + " }"),
    prog("if (a, 'b', 1, -2.5, (c, 'd')) != (x, y) { " + R1 + " }"),
    prog("if x in ('a', \"b\", 'c\"d', \"e'f\", 'g\\\\h') { " + R1 + " }"),
    prog("if x in (-1, -2.0, 3, 4.0) { " + R1 + " }"),
    prog("if 1 == 1 { " + R1 + " }"),
    prog("if 'a' == \"a\" { " + R1 + " }"),
    prog("if 18 == 18.0 { " + R1 + " }"),
    prog("if x == '02134' { " + R1 + " }"),
    prog("if x == 02134 { " + R1 + " }"),
    prog("if x == - 5 { " + R1 + " }"),
    prog("if x == --5 { " + R1 + " }"),
    prog("if x == -y { " + R1 + " }"),
    prog("if x - 1 == 2 { " + R1 + " }"),
    prog("if iff == inn and nota != orr or elsee < def_ { " + R1 + " }"),
    prog("if andy == 1 and ore == 2 { " + R1 + " }"),
    prog("if a == 1 and and b == 2 { " + R1 + " }"),
    prog("if a == 1 and { " + R1 + " }"),
    prog("if and a == 1 { " + R1 + " }"),
    prog("if a == 1 or { " + R1 + " }"),
    prog("if not { " + R1 + " }"),
    prog("if a == 1 not b == 2 { " + R1 + " }"),
    prog("if if == 1 { " + R1 + " }"),
    prog("if a == if { " + R1 + " }"),
    prog("if return == 1 { " + R1 + " }"),
    prog("if a == weighted { " + R1 + " }"),
    prog("if in in in { " + R1 + " }"),
    prog("if a == 1 { return 'x' weighted 1 } else { return 'x' weighted 1, 'y' weighted 1 }"),
    prog("if aé == 1 { " + R1 + " }"),
    prog("if a == 1 é { " + R1 + " }"),
    prog("ifé a == 1 { " + R1 + " }"),
    prog("if a == 1 andé b == 2 { " + R1 + " }"),
    prog("if a iné b { " + R1 + " }"),
    prog("if a not iné b { " + R1 + " }"),
    prog("if a == 1 { " + R1 + " } elseé { " + R1 + " }"),
    prog("if a == 1 { " + R1 + " } else ifé b == 1 { " + R1 + " }"),
    # line numbers in messages: trailing blanks swallow the newline
    "def exp {\n  return 1\n  weighted\n  x }",
    "def exp { \n  return 1 \n  weighted \n  x }",
    "def exp {\n\n\n/* a\nb\nc */\n  return 1 weighted x }",
    "def exp {\r\n  return 1\r\n  weighted\r\n  x }",
    "def exp {\n  if a not\n in b\n { return 1 weighted x } }",
    "def exp {\n  if a == 1 { return 1 weighted 1 } else\n\n if x }",
    "def exp {\n // c\n // d\n return 'a\nb' weighted 1 }",
    "\n\n\ndef exp { return 1 weighted 1 }\n\n\n}",
    "/* c */ def /* c */ exp /* c */ { /* c */ return /* c */ 1 /* c */ weighted /* c */ 1 /* c */ } /* c */",
    "// c\ndef // c\nexp // c\n{ // c\nreturn // c\n1 // c\nweighted // c\n1 // c\n} // c",
    "def exp { return 1 weighted 1 /* } */ }",
    "def exp { return 1 weighted 1 // }\n }",
    "def exp { return '/*' weighted 1, '*/' weighted 2, '//' weighted 3 }",
]

CALL_KWARGS = [
    {},
    {"a": 1},
    {"a": 1, "b": 2},
    {"a": 1, "b": 2, "c": 3, "d": 4, "e": 5},
    {"a": 0, "b": 0, "c": 0, "d": 0, "e": 0},
    {"a": "a", "b": "b", "c": "c", "x": "a", "y": "b"},
    {"a": 1, "b": 1, "c": 2, "d": 3, "e": 4, "f": 4, "g": 1, "h": (1, 2), "i": 5, "j": (1,)},
    {"a": 2, "b": 1, "c": 2, "d": 1, "e": 4, "f": 4, "g": 3, "h": (1, 2), "i": 1, "j": (1,)},
    {"x": 1}, {"x": -1}, {"x": 3}, {"x": 4.0}, {"x": "a"}, {"x": "b"}, {"x": 'c"d'},
    {"x": "g\\h"}, {"x": float("inf")}, {"x": float("-inf")}, {"x": -5}, {"x": "02134"},
    {"x": 2134}, {"x": (1, (2, (3, (4, 5))))}, {"x": ((((1, 2), 3), 4), 5)},
    {"x": (1, 2), "y": 3},
    {"a": "z", "x": "z", "y": 3},
    {"iff": 1, "inn": 1, "nota": 2, "orr": 3, "elsee": 1, "def_": 2, "kwargs": 9, "self": 8},
    {"andy": 1, "ore": 2},
    {"a": 1, "extra": 42},
    {"a": None, "b": None},
]


def describe_value(v):
    return f"{type(v).__name__}:{v!r}"


def lex_dump(text):
    lexer = ExperimentLexer()
    out = []
    error = None
    try:
        for tok in lexer.tokenize(text):
            out.append(
                [tok.type, describe_value(tok.value), tok.lineno, tok.index, tok.end]
            )
    except Exception as e:  # noqa: BLE001
        error = err(e)
    return {
        "tokens": out,
        "error": error,
        "final": [
            type(lexer).__name__,
            getattr(lexer, "lineno", None),
            getattr(lexer, "index", None),
        ],
    }


def run_generated(code, fn_name, kwargs_list, ids=("u1", "u2", "é中", "", "0", 17)):
    ns = {}
    random.seed(99)  # programs without splitters fall back to random.choices
    try:
        exec(compile(code, "<gen>", "exec"), ns)  # noqa: S102
    except Exception as e:  # noqa: BLE001
        return {"exec_error": err(e)}
    fn = ns[fn_name]
    results = []
    for kw in kwargs_list:
        try:
            results.append(describe_value(fn(**kw)))
        except Exception as e:  # noqa: BLE001
            results.append("!" + type(e).__name__ + ":" + str(e)[:120])
    return results


def parse_dump(text, with_exec=True):
    out = {}
    try:
        ast = parse_source(text)
    except Exception as e:  # noqa: BLE001
        return {"parse_error": err(e)}
    if ast is None:
        return {"ast": None}
    out["ast_repr"] = repr(ast)
    out["ast_json"] = ast.json()
    for expose in (False, True):
        key = "exposed" if expose else "nested"
        try:
            raw = PythonCodeGen(ast, expose_experiment_variant_function=expose).generate()
            raw_tab = PythonCodeGen(
                ast, indentation_char="    ", expose_experiment_variant_function=expose
            ).generate()
            out[key + "_raw"] = raw
            out[key + "_raw4_sha"] = sha(raw_tab)
        except Exception as e:  # noqa: BLE001
            out[key + "_gen_error"] = err(e)
            continue
        try:
            pretty = generate_code(text, expose_internal_fn=expose)
            out[key + "_black_sha"] = sha(pretty)
        except Exception as e:  # noqa: BLE001
            out[key + "_black_error"] = {"class": type(e).__name__}
            pretty = None
        if with_exec:
            fields = ast.splitting_fields or []
            kwl = []
            for kw in CALL_KWARGS:
                kw2 = dict(kw)
                for n, f in enumerate(fields):
                    kw2.setdefault(f, f"id{n}")
                kwl.append(kw2)
            out[key + "_run_raw"] = run_generated(raw, ast.id, kwl)
            if pretty is not None:
                out[key + "_run_black_same"] = (
                    run_generated(pretty, ast.id, kwl) == out[key + "_run_raw"]
                )
    return out


# --------------------------------------------------------------------------
# sections
# --------------------------------------------------------------------------
def section_lex():
    return [{"text": t if len(t) < 80 else sha(t), **lex_dump(t)} for t in LEX_TEXTS]


def section_parse():
    res = []
    for t in PARSE_TEXTS:
        d = parse_dump(t)
        res.append({"text": t if len(t) < 200 else sha(t), **d})
    return res


def section_bucketing():
    out = {}
    ids = [f"user{n}" for n in range(200)] + ["", "0", "é", "中文", "\U0001F600", "a" * 1000]
    weights_list = [
        None,
        [1, 1, 1],
        [1, 2, 3],
        [0.5, 0.25, 0.25],
        [0, 0, 1],
        [1, 0, 0],
        [0, 1, 0],
        [1e-9, 1, 1e9],
        [3, 3.4, 5],
    ]
    pop = ["A", "B", "C"]
    for salt in ["", "s1", "é"]:
        for w in weights_list:
            picks = "".join(deterministic_choice(salt + i, pop, w) for i in ids)
            out[f"{salt!r}/{w!r}"] = sha(picks) + ":" + picks[:40]
    out["proba"] = [repr(deterministic_proba(i)) for i in ids[:20] + ids[-6:]]
    bad = []
    for args, kw in [
        (("x", pop, [0, 0, 0]), {}),
        (("x", pop, [1, 2]), {}),
        (("x", pop, [1, 2, float("inf")]), {}),
        (("x", pop, [1, 2, 3]), {"cum_weights": [1, 2, 3]}),
        (("x", pop), {"cum_weights": [1, 2, 3]}),
        (("x", pop), {"cum_weights": [1, 2]}),
        (("x", [], None), {}),
        (("x", [], []), {}),
        (("x", pop, [-1, -1, -1]), {}),
        (("x", pop, [float("nan"), 1, 1]), {}),
    ]:
        try:
            bad.append(describe_value(deterministic_choice(*args, **kw)))
        except Exception as e:  # noqa: BLE001
            bad.append(err(e))
    out["bad"] = bad
    random.seed(1234)
    out["none_id"] = [deterministic_choice(None, pop, [1, 2, 3]) for _ in range(10)]
    return out


def section_stats():
    out = {}
    for a in (0.5, 0.975, 0.025, 0.001, 0.9995, 0.3):
        out[f"probit({a})"] = repr(probit(a))
    out["probit()"] = repr(probit())
    for args in (
        (10, 0.5, 0.95, "agresti-coull"),
        (10000, 0.1, 0.999, "agresti-coull"),
        (10000, 0.1, 0.999, "wald"),
        (100, 0.0, 0.9, "Wald"),
        (100, 1.0, 0.9, "AGRESTI-COULL"),
        (1, 0.5, 0.5, "wald"),
    ):
        out[repr(args)] = repr(confidence_interval(*args))
    out["default"] = repr(confidence_interval())
    for args in ((10, 0.5, 0.95, "wilson"), (0, 0.5, 0.95, "wald"), (10, 0.5, 1.0, "wald")):
        try:
            out[repr(args)] = repr(confidence_interval(*args))
        except Exception as e:  # noqa: BLE001
            out[repr(args)] = err(e)
    return out


EV_A = prog("splitters: uid " + R1, "ev")
EV_B = prog("salt: 'zz' splitters: uid if k in ('p', 'q') { return 'x' weighted 1, 'y' weighted 3 } else { return 'z' weighted 1 }", "ev")
EV_C = prog("if k == 1 { return 'only' weighted 1 }", "other_name")
EV_BAD = [
    prog("return 1 weighted", "ev"),
    "def ev { return 1 weighted 1 } @",
    "",
    "def ev { ifé }",
    prog("return 'a\n' weighted 1", "ev"),
]


def section_evaluator():
    out = []

    def call(ev, **kw):
        try:
            return describe_value(ev(**kw))
        except Exception as e:  # noqa: BLE001
            return "!" + type(e).__name__ + ":" + str(e)[:100]

    def snap(ev):
        return [
            ev._checksum,
            "".join(call(ev, uid=f"u{n}", k="p")[-2] for n in range(60)),
            call(ev, uid="u1", k="zz"),
            call(ev, k=1),
            call(ev),
            "run_experiment" in vars(ev),
        ]

    ev = ExperimentEvaluator(EV_A)
    out.append(["A", snap(ev)])
    history = [EV_A, EV_B, EV_BAD[0], EV_BAD[0], EV_B, EV_C, EV_BAD[1], EV_BAD[2], EV_A, EV_BAD[3], EV_BAD[4], EV_A + " ", EV_A]
    for n, text in enumerate(history):
        try:
            ev.recompile(text)
            status = "ok"
        except Exception as e:  # noqa: BLE001
            status = err(e)
        out.append([n, status, snap(ev)])
    for text in EV_BAD:
        try:
            ExperimentEvaluator(text)
            out.append("constructed?!")
        except Exception as e:  # noqa: BLE001
            out.append(err(e))
    # two evaluators do not share state
    e1, e2 = ExperimentEvaluator(EV_A), ExperimentEvaluator(EV_B)
    out.append([snap(e1), snap(e2)])
    e1.recompile(EV_C)
    out.append([snap(e1), snap(e2)])
    return out


def section_threads():
    texts = [t for t in PARSE_TEXTS if len(t) < 400][:120]
    expected = [sha(json.dumps(parse_dump(t, with_exec=False), sort_keys=True)) for t in texts]
    failures = []
    lock = threading.Lock()

    def worker(k):
        local = []
        order = list(range(len(texts)))
        random.Random(k).shuffle(order)
        for i in order:
            got = sha(json.dumps(parse_dump(texts[i], with_exec=False), sort_keys=True))
            if got != expected[i]:
                local.append(i)
        ev = ExperimentEvaluator(EV_B)
        for n in range(50):
            ev.recompile(EV_A if n % 2 else EV_B)
            r = ev(uid=f"u{n}", k="p")
            if r not in ("a", "b", "x", "y"):
                local.append(("ev", n, r))
        with lock:
            failures.extend(local)

    threads = [threading.Thread(target=worker, args=(k,)) for k in range(8)]
    for t in threads:
        t.start()
    for t in threads:
        t.join()
    # one shared evaluator called from many threads
    shared = ExperimentEvaluator(EV_B)
    want = [shared(uid=f"u{n}", k="q") for n in range(300)]
    bad = []

    def reader():
        got = [shared(uid=f"u{n}", k="q") for n in range(300)]
        if got != want:
            bad.append(1)

    threads = [threading.Thread(target=reader) for _ in range(8)]
    for t in threads:
        t.start()
    for t in threads:
        t.join()
    return {"failures": sorted(map(str, failures)), "n": len(texts), "shared_bad": len(bad), "digest": sha("".join(expected))}


# --------------------------------------------------------------------------
# seeded fuzzing
# --------------------------------------------------------------------------
SPELL = [
    "def", "salt", "splitters", "if", "else", "else if", "elseif", "else\nif", "weighted",
    "return", "and", "or", "not", "in", "not in", "not  in", "not\tin", "(", ")", "-", ",",
    ":", "{", "}", "==", ">=", "<=", ">", "<", "!=", "a", "b", "c", "x", "iff", "inn",
    "nota", "_", "1", "2", "0", "1.5", "0.0", "'s'", '"t"', "''", "/* c */", "// c\n", "\n",
    " ", "@", "=", "é", "notin", "ifé",
]


class Gen:
    def __init__(self, rng):
        self.r = rng

    def ws(self):
        return self.r.choice([" ", " ", " ", "  ", "\n", " \n", "\t", " /* c */ ", " // c\n", "\n\n"])

    def ident(self):
        return self.r.choice(["a", "b", "c", "x", "y", "iff", "inn", "nota", "orr", "elsee", "def_", "andy", "_", "_1", "a1"])

    def literal(self):
        k = self.r.randrange(6)
        if k == 0:
            return str(self.r.randrange(5))
        if k == 1:
            return self.r.choice(["0.5", "1.0", "2.25", "10.0"])
        if k == 2:
            return "-" + self.r.choice(["", " "]) + str(self.r.randrange(5))
        if k == 3:
            return "-" + self.r.choice(["0.5", "3.0"])
        if k == 4:
            return self.r.choice(["'a'", "'b'", "'c'", "''", "'a b'", "'it\"s'"])
        return self.r.choice(['"a"', '"b"', '"x y"', '""', '"it\'s"'])

    def term(self, depth=0):
        k = self.r.randrange(10)
        if k < 4:
            return self.ident()
        if k < 8 or depth > 2:
            return self.literal()
        n = self.r.randrange(1, 4)
        return "(" + self.r.choice(["", " "]) + (self.r.choice([",", ", ", " , "])).join(self.term(depth + 1) for _ in range(n)) + ")"

    def op(self):
        return self.r.choice(["==", "!=", "<", ">", "<=", ">=", " in ", " not in ", " not  in ", " not\tin ", "==", "=="])

    def pred(self, depth=0):
        k = self.r.randrange(12)
        if k < 5 or depth > 3:
            return self.term() + self.r.choice(["", " "]) + self.op() + self.r.choice(["", " "]) + self.term()
        if k < 7:
            return "not " + self.pred(depth + 1)
        if k < 9:
            return self.pred(depth + 1) + " and " + self.pred(depth + 1)
        if k < 11:
            return self.pred(depth + 1) + " or " + self.pred(depth + 1)
        return "(" + self.pred(depth + 1) + ")"

    def ret(self):
        n = self.r.randrange(1, 4)
        groups = [self.literal() + " weighted " + self.r.choice(["1", "2", "0.5", "3", "1.0"]) for _ in range(n)]
        return "return " + (self.r.choice([", ", ",", " ,\n"])).join(groups)

    def cond(self, depth=0):
        if depth > 2 or self.r.randrange(3) == 0:
            return self.ret()
        s = "if " + self.pred() + self.ws() + "{" + self.ws() + self.cond(depth + 1) + self.ws() + "}"
        for _ in range(self.r.randrange(3)):
            s += self.ws() + self.r.choice(["else if", "elseif", "else  if", "else\nif"]) + " " + self.pred() + "{" + self.cond(depth + 1) + "}"
        if self.r.randrange(2):
            s += self.ws() + "else" + self.ws() + "{" + self.cond(depth + 1) + "}"
        return s

    def program(self):
        s = "def " + self.ident() + self.ws() + "{" + self.ws()
        if self.r.randrange(2):
            s += "salt" + self.r.choice([":", " : ", ": "]) + self.r.choice(["'s1'", '"s2"', "''"]) + self.ws()
        if self.r.randrange(2):
            n = self.r.randrange(1, 4)
            s += "splitters:" + self.ws() + ", ".join(self.ident() for _ in range(n)) + self.ws()
        s += self.cond() + self.ws() + "}"
        return s


FUZZ_KWARGS = [
    {"a": 1, "b": 2, "c": 0, "x": "a", "y": "b", "iff": 1, "inn": (1, 2), "nota": "a b", "orr": 0.5, "elsee": -1, "def_": "", "andy": 3, "_": 2, "_1": 1, "a1": 4},
    {"a": "a", "b": "b", "c": "c", "x": 1, "y": 2, "iff": "a", "inn": "a b", "nota": 0, "orr": 1, "elsee": 2, "def_": 3, "andy": 4, "_": "", "_1": -1, "a1": 0.5},
    {"a": 0, "b": 0, "c": 0, "x": 0, "y": 0, "iff": 0, "inn": 0, "nota": 0, "orr": 0, "elsee": 0, "def_": 0, "andy": 0, "_": 0, "_1": 0, "a1": 0},
]


def fuzz_outcome(text, run=True):
    try:
        ast = parse_source(text)
    except Exception as e:  # noqa: BLE001
        return "E:" + type(e).__name__ + ":" + str(e)[:200]
    if ast is None:
        return "None"
    res = "OK:" + repr(ast)
    if run:
        for expose in (False, True):
            code = PythonCodeGen(ast, expose_experiment_variant_function=expose).generate()
            res += "|" + sha(code)
            res += "|" + json.dumps(run_generated(code, ast.id, FUZZ_KWARGS))
    return res


def section_fuzz():
    rng = random.Random(20240607)
    gen = Gen(rng)
    out = {"samples": []}
    digest = hashlib.sha256()
    counts = {}

    def record(kind, text, run=True):
        o = fuzz_outcome(text, run)
        digest.update(sha(text).encode())
        digest.update(sha(o).encode())
        k = kind + "/" + o.split(":", 2)[0] + (":" + o.split(":", 2)[1] if o.startswith("E:") else "")
        counts[k] = counts.get(k, 0) + 1
        return o

    # 1. valid random programs
    valid = []
    for n in range(400):
        t = gen.program()
        valid.append(t)
        o = record("valid", t)
        if n < 12:
            out["samples"].append([t, o[:600]])
    # 2. single token-level mutations of valid programs
    for n in range(1500):
        t = rng.choice(valid)
        pos = rng.randrange(len(t) + 1)
        k = rng.randrange(3)
        if k == 0:
            t2 = t[:pos] + rng.choice(SPELL) + t[pos:]
        elif k == 1:
            t2 = t[:pos] + t[pos + rng.randrange(1, 6):]
        else:
            t2 = t[:pos] + " " + rng.choice(SPELL) + " " + t[pos + rng.randrange(0, 4):]
        o = record("mut", t2, run=True)
        if n < 12:
            out["samples"].append([t2, o[:300]])
    # 3. token soup
    for n in range(1500):
        t = "def x {" + " ".join(rng.choice(SPELL) for _ in range(rng.randrange(1, 12))) + "}"
        o = record("soup", t, run=False)
        if n < 8:
            out["samples"].append([t, o[:300]])
    # 4. predicate soup: every short sequence of predicate tokens
    ptoks = ["a", "1", "==", "in", "not in", "not", "and", "or", "(", ")", ","]
    for n in range(2500):
        seq = " ".join(rng.choice(ptoks) for _ in range(rng.randrange(1, 9)))
        t = "def x { if " + seq + " { return 1 weighted 1 } }"
        record("pred", t, run=False)
    # 5. lexer soup (characters)
    chars = list("abdefilnorst_ 019.\"'/*\n\t(){},:-=<>!@") + ["é", "٣", "\xa0", "\r"]
    lexdigest = hashlib.sha256()
    for n in range(3000):
        t = "".join(rng.choice(chars) for _ in range(rng.randrange(1, 25)))
        lexdigest.update(sha(json.dumps(lex_dump(t), sort_keys=True)).encode())
    out["counts"] = counts
    out["digest"] = digest.hexdigest()
    out["lex_digest"] = lexdigest.hexdigest()
    return out


def section_exhaustive_predicates():
    """every token sequence up to length 5 over a small predicate alphabet"""
    import itertools

    alphabet = ["a", "1", "==", "not", "and", "or", "(", ")", ",", "not in"]
    digest = hashlib.sha256()
    counts = {}
    for n in range(1, 6):
        for seq in itertools.product(alphabet, repeat=n):
            t = "def x { if " + " ".join(seq) + " { return 1 weighted 1 } }"
            o = fuzz_outcome(t, run=False)
            digest.update(o.encode())
            k = o.split(":", 2)[0]
            counts[k] = counts.get(k, 0) + 1
    return {"digest": digest.hexdigest(), "counts": counts}


def section_api():
    """public surface that other modules rely on"""
    toks = ExperimentLexer.tokens
    return {
        "lexer_tokens": sorted(map(str, toks)),
        "parser_tokens_same_object": ExperimentParser.tokens is ExperimentLexer.tokens,
        "parse_none_tokens": err_or(lambda: ExperimentParser().parse(iter([]))),
        "parser_reuse": parser_reuse(),
        "lexer_reuse": lexer_reuse(),
    }


def err_or(f):
    try:
        return describe_value(f())
    except Exception as e:  # noqa: BLE001
        return err(e)


def parser_reuse():
    """the same lexer / parser objects used for several texts, good and bad"""
    lexer, parser = ExperimentLexer(), ExperimentParser()
    out = []
    for t in [PARSE_TEXTS[0], prog("return 1 weighted 1 2"), PARSE_TEXTS[0], "def x { return 'a\n", PARSE_TEXTS[110], "@", PARSE_TEXTS[2], prog("if a == 1 and { " + R1 + " }"), PARSE_TEXTS[120], "def x { /* open", PARSE_TEXTS[0], "*/" + PARSE_TEXTS[0]]:
        try:
            out.append(repr(parser.parse(lexer.tokenize(t))))
        except Exception as e:  # noqa: BLE001
            out.append(err(e))
    return out


def lexer_reuse():
    lexer = ExperimentLexer()
    out = []
    for t in ["a /* b", "c */ d", "e\n\nf", "@", "g"]:
        try:
            out.append([[k.type, k.value, k.lineno, k.index] for k in lexer.tokenize(t)] + [type(lexer).__name__])
        except Exception as e:  # noqa: BLE001
            out.append([err(e), type(lexer).__name__])
    return out


def main():
    doc = {
        "import_stderr": _captured.getvalue(),
        "api": section_api(),
        "lex": section_lex(),
        "parse": section_parse(),
        "bucketing": section_bucketing(),
        "stats": section_stats(),
        "evaluator": section_evaluator(),
        "threads": section_threads(),
        "fuzz": section_fuzz(),
        "exhaustive_predicates": section_exhaustive_predicates(),
    }
    print(json.dumps(doc, sort_keys=True, indent=1, ensure_ascii=True))


if __name__ == "__main__":
    main()

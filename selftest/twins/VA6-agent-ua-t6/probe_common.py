"""Differential probe: prints a deterministic JSON summary of the observable
behaviour of pyab_experiment.  Run with
    PYTHONPATH=/tmp/wt/UA/src /venv/bin/python probe.py
The output must be byte-identical with and without the patch."""

import hashlib
import json
import math
import random
import threading
import warnings

from pyab_experiment.binning.binning import deterministic_choice, deterministic_proba
from pyab_experiment.codegen.python.python_generator import PythonCodeGen
from pyab_experiment.data_structures.syntax_tree import (
    BooleanOperatorEnum,
    LogicalOperatorEnum,
)
from pyab_experiment.experiment_evaluator import ExperimentEvaluator, ParseError
from pyab_experiment.utils import stats
from pyab_experiment.utils.wraper_functions import generate_code, parse_source

warnings.simplefilter("error")  # a warning anywhere would show up as an error class


def err(e):
    return {"error": type(e).__name__, "msg": str(e)[:300]}


def short(x):
    if isinstance(x, float) and (math.isnan(x) or math.isinf(x)):
        return repr(x)
    if isinstance(x, (int, float, str, bool)) or x is None:
        return [type(x).__name__, x]
    return [type(x).__name__, repr(x)]


VALID = {
    "plain": "def e1 { return 'a' weighted 1, 'b' weighted 1 }",
    "salted": 'def e2 { salt: "sél \\ \' q" splitters: uid return "A" weighted 3, "B" weighted 1.5, 7 weighted 0, -2.5 weighted 2 }',
    "kwprefix": (
        "def definition { splitters: iffy, notable, inner, orbit, android, "
        "else_if, returned\n if iffy == 1 and notable not  in (1, 'in', (2, (3))) "
        "or inner in ('x') { return 'k1' weighted 1, 'k2' weighted 2 } "
        "else   if orbit >= -3.25 { return 1 weighted 1, 1.0 weighted 1 } "
        "elseif android != 'else' { return 'z' weighted 0.0, 'y' weighted 5 } "
        "else { return \"d\" weighted 1 } }"
    ),
    "comments": (
        "/* block \n * comment */ def c1 { // inline 'x'\n splitters: a /* mid */ , b\n"
        " if a == \"//not comment\" { return '/*s*/' weighted 1 } // tail\n"
        " else { return 'o' weighted 2, \"p\\\\n\" weighted 1 } }\n/* end */"
    ),
    "nested": (
        "def n1 { salt: 'n' splitters: k if x > 1 { if y < 2 { if not (z == 3 or "
        "w <= 4) { return 'deep' weighted 1 } else { return 'deep2' weighted 1, "
        "'deep3' weighted 1 } } else if y in (5, 6.5, 'seven') { return 2 weighted 1 "
        "} } else if x == -1 { return 'neg' weighted 1 } }"
    ),
    "unicode": "def u1 { salt: '日本' splitters: uid return 'äö' weighted 1, '\U0001f600' weighted 2, 'ß' weighted 3 }",
    "bigfloat": "def b1 { splitters: uid if v < 1" + "0" * 400 + ".0 and v > -1" + "0" * 400 + ".0 and v not in (-9" + "9" * 400 + ".5, 2) { return 'x' weighted 1 } else { return 'y' weighted 1 } }",
    "samefield": "def s1 { splitters: uid, grp if grp == 'g' and uid != 'u9' { return 'in' weighted 1, 'out' weighted 9 } else { return 'none' weighted 1 } }",
    "identcmp": "def i1 { if lhs < rhs { return 'lt' weighted 1 } else if lhs == rhs { return 'eq' weighted 1 } else { return 'gt' weighted 1 } }",
    "shadow": "def partial { splitters: str, map if deterministic_choice == 1 { return 'p' weighted 1, 'q' weighted 1 } else { return 'r' weighted 1 } }",
    "zerow": "def z1 { splitters: uid return 'a' weighted 0, 'b' weighted 0 }",
    "quotes": "def q1 { splitters: uid if f == 'it\"s' or f == \"it's\" { return \"a'b\\\\\" weighted 1 } else { return \"\\\\\" weighted 1, '{}' weighted 1 } }",
}

INVALID = {
    "empty": "",
    "ws": "  \n\t ",
    "nodef": "return 'a' weighted 1",
    "badchar": "def x { return 'a' weighted 1 ; }",
    "unterminated_comment": "def x { /* return 'a' weighted 1 }",
    "unterminated_string": "def x { return 'a weighted 1 }",
    "negweight": "def x { return 'a' weighted -1 }",
    "kw_as_id": "def if { return 'a' weighted 1 }",
    "missing_brace": "def x { return 'a' weighted 1",
    "two_defs": "def x { return 'a' weighted 1 } def y { return 'b' weighted 1 }",
    "salt_after": "def x { splitters: a salt: 's' return 'a' weighted 1 }",
    "else_alone": "def x { else { return 'a' weighted 1 } }",
    "multiline_string": "def x { return 'a\nb' weighted 1 }",
    "tuple_return": "def x { return (1,2) weighted 1 }",
    "dollar": "def $x { return 1 weighted 1 }",
    "line3": "def x {\n\n if a == { return 1 weighted 1 } }",
}

IDS = ["u%d" % i for i in range(40)] + ["", " ", "é", "\U0001f600", "0", "None"]


def field_values():
    rnd = random.Random(7)
    pool = [0, 1, -1, 2, 3, 4, 5, 6.5, "x", "g", "seven", "else", "a", "it's",
            'it"s', "//not comment", -3.25, 10.0, "in", (2, (3,)), 1e308]
    return rnd, pool


def run_function(fn, names):
    rnd, pool = field_values()
    out = []
    for i, uid in enumerate(IDS):
        kwargs = {}
        for n in names:
            kwargs[n] = rnd.choice(pool)
        for key in ("uid", "k", "a", "str"):
            if key in names:
                kwargs[key] = uid
        if "grp" in names:
            kwargs["grp"] = "g" if i % 2 else "h"
        random.seed(i)
        try:
            out.append(short(fn(extra_kw=i, **kwargs)))
        except Exception as e:  # noqa: BLE001
            out.append(err(e))
    return hashlib.sha256(json.dumps(out, sort_keys=True, default=repr).encode()).hexdigest(), out[:6]


def probe_programs():
    res = {}
    for name, text in {**VALID, **INVALID}.items():
        entry = {}
        try:
            ast = parse_source(text)
            entry["ast"] = ast.json() if ast is not None else None
            entry["ast_repr_sha"] = hashlib.sha256(repr(ast).encode()).hexdigest()
        except Exception as e:  # noqa: BLE001
            entry["ast"] = err(e)
            ast = None
        for expose in (False, True):
            key = "gen_%s" % expose
            try:
                code = generate_code(text, expose)
                entry[key] = hashlib.sha256(code.encode()).hexdigest()
                entry[key + "_len"] = len(code)
                raw = PythonCodeGen(
                    parse_source(text), expose_experiment_variant_function=expose
                ).generate()
                entry[key + "_raw"] = hashlib.sha256(raw.encode()).hexdigest()
                ns = {}
                exec(compile(code, "<probe>", "exec"), ns)
                gen = PythonCodeGen(parse_source(text), expose_experiment_variant_function=expose)
                gen.generate()
                names = gen.local_vars + [c for c in gen.conditional_ids if c not in gen.local_vars]
                entry[key + "_names"] = names
                entry[key + "_run"] = run_function(ns[ast.id], names)
            except Exception as e:  # noqa: BLE001
                entry[key] = err(e)
        try:
            ev = ExperimentEvaluator(text)
            gen = PythonCodeGen(parse_source(text))
            gen.generate()
            names = gen.local_vars + [c for c in gen.conditional_ids if c not in gen.local_vars]
            entry["eval"] = run_function(ev, names)
            entry["checksum"] = ev._checksum
            entry["fn_name"] = ev.run_experiment.__name__
        except Exception as e:  # noqa: BLE001
            entry["eval"] = err(e)
        res[name] = entry
    return res


def probe_bucketing():
    out = {}
    probas = []
    for s in IDS + ["salt" + i for i in IDS] + ["x" * 1000, "\x00", "\n"]:
        probas.append(deterministic_proba(s).hex())
    out["proba"] = hashlib.sha256("".join(probas).encode()).hexdigest()
    out["proba_head"] = probas[:5]
    for bad in ("\ud800", 5, None, b"x"):
        try:
            out["proba_bad_%r" % (bad,)] = deterministic_proba(bad)
        except Exception as e:  # noqa: BLE001
            out["proba_bad_%r" % (bad,)] = err(e)
    pops = [["a", "b", "c"], [1, 1.0, True], ["only"], [], list(range(17))]
    weight_sets = [None, [1, 2, 3], [0, 0, 1], [0.5, 0.25, 0.25], [True, 2.0, 3],
                   [0, 0, 0], [1], [], [1, 2], [float("inf"), 1, 1], [float("nan"), 1, 1],
                   [1, float("nan"), 1], [-1, 3, 1], [1e308, 1e308, 1], list(range(17)),
                   (1, 2, 3), ["1", "2", "3"]]
    rows = []
    for pop in pops:
        for w in weight_sets:
            for cum in (False, True):
                for uid in ["u1", "u2", "u3", "saltéu4", "", None, 5]:
                    random.seed(11)
                    try:
                        if cum:
                            r = deterministic_choice(uid, pop, cum_weights=w)
                        else:
                            r = deterministic_choice(uid, pop, w)
                        rows.append(short(r))
                    except Exception as e:  # noqa: BLE001
                        rows.append(err(e))
    try:
        deterministic_choice("u", ["a"], [1], cum_weights=[1])
    except Exception as e:  # noqa: BLE001
        rows.append(err(e))
    out["choice_rows"] = len(rows)
    out["choice_sha"] = hashlib.sha256(json.dumps(rows, default=repr).encode()).hexdigest()
    out["choice_head"] = rows[:12]
    counts = {}
    for i in range(5000):
        g = deterministic_choice("s%d" % i, ["a", "b", "c"], [1, 2, 3.5])
        counts[g] = counts.get(g, 0) + 1
    out["counts"] = counts
    return out


class S(str):
    pass


def probe_lifecycle():
    out = []
    a, b, c = VALID["plain"], VALID["salted"], VALID["nested"]
    history = [a, a, INVALID["badchar"], a, b, INVALID["empty"], b, a, S(a), S(b), b,
               INVALID["unterminated_comment"], c, a + " ", a, 5, None, b"def", c,
               INVALID["negweight"], INVALID["negweight"], c]
    try:
        ExperimentEvaluator(INVALID["nodef"])
    except Exception as e:  # noqa: BLE001
        out.append(err(e))
    ev = ExperimentEvaluator.__new__(ExperimentEvaluator)
    try:
        ev()
    except Exception as e:  # noqa: BLE001
        out.append(err(e))
    out.append(ev._checksum)
    evs = [ev, ExperimentEvaluator(a), ExperimentEvaluator(b)]
    for step, text in enumerate(history):
        for n, e_ in enumerate(evs):
            before = e_.__dict__.get("run_experiment")
            try:
                r = e_.recompile(text)
                status = short(r)
            except Exception as e:  # noqa: BLE001
                status = err(e)
            after = e_.__dict__.get("run_experiment")
            random.seed(step)
            try:
                val = short(e_(uid="u7", k="u7", x=2, y=5, z=0, w=9))
            except Exception as e:  # noqa: BLE001
                val = err(e)
            out.append([step, n, status, e_._checksum, before is after,
                        getattr(after, "__name__", None), val,
                        sorted(e_.__dict__)])
    # functions of two evaluators are distinct objects, with their own namespaces
    e1, e2 = ExperimentEvaluator(b), ExperimentEvaluator(b)
    out.append(e1.run_experiment is e2.run_experiment)
    out.append(e1.run_experiment(uid="q") == e2.run_experiment(uid="q"))
    out.append(sorted(k for k in e1.run_experiment.__globals__ if k in (
        "partial", "deterministic_choice", "ExperimentConditionalFailedError", "hashlib")))
    out.append([ParseError().message, str(ParseError("m")), ParseError.__mro__[1].__name__])
    try:
        ExperimentEvaluator.run_experiment(None)
    except Exception as e:  # noqa: BLE001
        out.append(err(e))
    return out


def probe_threads():
    texts = [VALID["plain"], VALID["salted"], VALID["unicode"], VALID["zerow"]]
    shared = ExperimentEvaluator(VALID["salted"])
    results = {}
    errors = []

    def worker(n):
        try:
            own = ExperimentEvaluator(texts[n % len(texts)])
            acc = []
            for i in range(60):
                t = texts[(n + i) % len(texts)]
                own.recompile(t)
                try:
                    own.recompile(INVALID["badchar"])
                except Exception as e:  # noqa: BLE001
                    acc.append(type(e).__name__)
                random_free = t is not texts[0]
                if random_free:
                    try:
                        acc.append(short(own(uid="t%d" % i)))
                    except Exception as e:  # noqa: BLE001
                        acc.append(err(e))
                shared.recompile(VALID["salted"])
                acc.append(short(shared(uid="t%d" % i)))
                acc.append(generate_code(t, bool(i % 2))[:0])
            results[n] = hashlib.sha256(json.dumps(acc, default=repr).encode()).hexdigest()
        except Exception as e:  # noqa: BLE001
            errors.append(err(e))

    threads = [threading.Thread(target=worker, args=(n,)) for n in range(8)]
    for t in threads:
        t.start()
    for t in threads:
        t.join()
    return {"results": [results.get(n) for n in range(8)], "errors": errors,
            "shared": shared._checksum}


def probe_stats():
    out = []
    for a in (0.5, 0.975, 0.025, 0.001, 1e-300, 0.9999999, 0, 1, -0.1, 1.5, 2, True, "x", None):
        try:
            out.append(short(stats.probit(a)) if not isinstance(a, float) else stats.probit(a).hex())
        except Exception as e:  # noqa: BLE001
            out.append(err(e))
    out.append(stats.probit().hex())
    for n in (1, 10, 1000, 0, -5, 2.5, 10**20):
        for p in (0.0, 0.5, 1 / 3, 1.0, 1.2, -0.1):
            for conf in (0.95, 0.999, 0.5, 0.0, 1.0, 1.5, 1e-17):
                for m in ("agresti-coull", "WALD", "Agresti-Coull", "wald", "other", "", None, 3):
                    try:
                        lo, hi = stats.confidence_interval(n, p, conf, m)
                        out.append([repr(lo), repr(hi)])
                    except Exception as e:  # noqa: BLE001
                        out.append(err(e))
    try:
        out.append([repr(v) for v in stats.confidence_interval()])
    except Exception as e:  # noqa: BLE001
        out.append(err(e))
    return {"n": len(out), "sha": hashlib.sha256(json.dumps(out, default=repr).encode()).hexdigest(),
            "head": out[:20]}


def probe_churn():
    """many distinct texts through few evaluators (more than any cache would hold),
    revisiting earlier ones, with invalid texts in between"""
    out = []
    texts = ["def c%d { salt: 's%d' splitters: uid if f > %d { return 'a%d' weighted %d, "
             "'b' weighted 1 } else { return %d weighted 1 } }" % (i, i % 7, i, i, i % 3 + 1, i)
             for i in range(150)]
    evs = [ExperimentEvaluator(texts[0]), ExperimentEvaluator(texts[1])]
    order = list(range(150)) + list(range(0, 150, 7)) + [3, 3, 149, 0]
    for step, i in enumerate(order):
        ev = evs[step % 2]
        if step % 5 == 0:
            try:
                ev.recompile(texts[i] + " }")
            except Exception as e:  # noqa: BLE001
                out.append(type(e).__name__)
        ev.recompile(texts[i])
        fresh = ExperimentEvaluator(texts[i])
        out.append([ev._checksum, ev.run_experiment.__name__,
                    short(ev(uid="u%d" % step, f=step)), short(fresh(uid="u%d" % step, f=step)),
                    ev.run_experiment is fresh.run_experiment])
    return {"n": len(out), "sha": hashlib.sha256(json.dumps(out, default=repr).encode()).hexdigest(),
            "tail": out[-3:]}


class EqAll:
    def __eq__(self, other):
        return True

    def __hash__(self):
        return 1


class EqOr:
    def __eq__(self, other):
        return other is BooleanOperatorEnum.OR

    __hash__ = None


def probe_codegen_internals():
    gen = PythonCodeGen(parse_source(VALID["plain"]))
    out = []
    ops = list(LogicalOperatorEnum) + list(BooleanOperatorEnum) + [
        1, 0, None, "==", "EQ", EqAll(), EqOr(), [], {}, 1.0, True, LogicalOperatorEnum, float("nan")]
    for op in ops:
        try:
            out.append(gen._generate_op(op))
        except Exception as e:  # noqa: BLE001
            out.append({"error": type(e).__name__, "msg": str(e)[:40]})
    from decimal import Decimal
    from fractions import Fraction

    for num in (float("inf"), float("-inf"), float("nan"), 0, -0.0, 1, True, None,
                Decimal("Infinity"), Decimal("-Infinity"), Decimal("NaN"), Fraction(1, 3),
                10**400, -(10**400), 1e308, "inf", [], (1,), math.inf, -math.inf):
        try:
            out.append(PythonCodeGen._generate_number(num))
            out.append(gen._generate_term(num))
        except Exception as e:  # noqa: BLE001
            out.append({"error": type(e).__name__, "msg": str(e)[:60]})
    for ind in ("\t", "  ", "", "ab"):
        g = PythonCodeGen(parse_source(VALID["nested"]), indentation_char=ind)
        for d in (0, 1, 3):
            g._indent_depth = d
            out.append(g.indent())
        out.append(hashlib.sha256(g.generate().encode()).hexdigest())
        out.append([g.local_vars, g.conditional_ids])
    g = PythonCodeGen(parse_source(VALID["kwprefix"]), expose_experiment_variant_function=False)
    first = g.generate()
    second = g.generate()  # generating twice from one generator
    out.append([hashlib.sha256(first.encode()).hexdigest(), first == second])
    for bad in (None, 5, "text"):
        try:
            out.append(PythonCodeGen(bad).generate())
        except Exception as e:  # noqa: BLE001
            out.append({"error": type(e).__name__})
    return out


def main():
    summary = {
        "programs": probe_programs(),
        "bucketing": probe_bucketing(),
        "lifecycle": probe_lifecycle(),
        "threads": probe_threads(),
        "stats": probe_stats(),
        "churn": probe_churn(),
        "codegen": probe_codegen_internals(),
    }
    print(json.dumps(summary, indent=1, sort_keys=True, default=repr, ensure_ascii=True))


if __name__ == "__main__":
    main()

"""Differential probe: uses only the API that exists on HEAD and prints a
deterministic JSON summary. Its output has to be byte-identical with and
without the patch."""

import hashlib
import json
import os
import subprocess
import sys
import threading

import pyab_experiment
from pyab_experiment.binning.binning import deterministic_choice, deterministic_proba
from pyab_experiment.codegen.python.custom_exceptions import (
    ExperimentConditionalFailedError,
)
from pyab_experiment.codegen.python.python_generator import PythonCodeGen
from pyab_experiment.experiment_evaluator import ExperimentEvaluator, ParseError
from pyab_experiment.language.lexer import ExperimentLexer
from pyab_experiment.utils import wraper_functions
from pyab_experiment.utils.stats import confidence_interval, probit
from pyab_experiment.utils.wraper_functions import generate_code, parse_source

VALID = {
    "plain": "def plain{ splitters: uid return 'a' weighted 1, 'b' weighted 2 }",
    "no_splitter": (
        "def lone{ if x > 3 { return 'hi' weighted 2 } else if x in (1, 2) { return 7 weighted 0.5 } }"
    ),
    "kw_prefixed": (
        "def define_it{ salt: 'salty' splitters: inner, order_id, iffy, returned\n"
        " if android in ('in', 'not in') and notable not   in (1, 2.5, -3)"
        " or elsewhere == 'else if' { return 'defx' weighted 1, 'saltx' weighted 3 }\n"
        " else   if weighted_x >= -1.5 { return 1 weighted 1, 2.5 weighted 0.5 }\n"
        " else { return 'z' weighted 1 } }"
    ),
    "nested_tuples": (
        "def nested{ splitters: uid if f in ((1, 2), (3, (4, 'x')), ('only'))"
        " { return 'in' weighted 1 } else if (1, 2) == g { return 'eq' weighted 1 }"
        " else { return 'out' weighted 1, 'out2' weighted 1 } }"
    ),
    "comments": (
        "/* head * / still */ def cm{ // line comment 'quoted' /* not a block\n"
        " salt: \"s//not comment\" /* multi\n line \n */ splitters: a, b // x\n"
        " if a == '/*' { return 'c1' weighted 1, 'c2' weighted 1 } // end\n"
        " else { return \"//\" weighted 2, '*/' weighted 1 } }"
    ),
    "quotes": (
        "def qt{ salt: 'it\"s' splitters: k if f == \"it's\" { return \"a'b\" weighted 1,"
        " 'c\"d' weighted 1 } else if f == 'back\\slash\\n' { return 'b\\\\' weighted 1 }"
        " else { return '' weighted 1, ' ' weighted 1 } }"
    ),
    "non_ascii": (
        "def ua{ salt: 'sél ☃' splitters: uid if pays in ('Österreich', '日本')"
        " { return 'größe' weighted 1, '☃' weighted 2 } else { return 'ß' weighted 1 } }"
    ),
    "no_default": (
        "def nd{ splitters: uid if x > 3 { if y < 2 { return 'a' weighted 1 } }"
        " else if x == 3 { return 'b' weighted 1, 'c' weighted 0 } }"
    ),
    "shared_field": (
        "def sh{ splitters: uid, seg if seg == 'p' and not (uid in (1, 2) or seg != 'p')"
        " { return 10 weighted 1, 20 weighted 1, -30 weighted 1 }"
        " else { return 0.5 weighted 1, -0.25 weighted 3 } }"
    ),
    "big_numbers": (
        "def bn{ splitters: uid if v < 1" + "0" * 320 + ".0 { return 007 weighted 1.50,"
        " 00.10 weighted 2 } else { return 'big' weighted 1 } }"
    ),
    "crlf": "def cr{\r\n splitters: uid\r\n return 'a' weighted 1,\r\n 'b' weighted 1\r\n}\r\n",
    "zero_weights": "def zw{ splitters: uid return 'a' weighted 0, 'b' weighted 0 }",
}

INVALID = {
    "empty": "",
    "only_comment": "// nothing here",
    "illegal_char": "def x{ return 'a' weighted 1; }",
    "unterminated_string": "def x{ return 'a weighted 1 }",
    "unterminated_block": "def x{ /* return 'a' weighted 1 }",
    "kw_as_id": "def if{ return 'a' weighted 1 }",
    "negative_weight": "def x{ return 'a' weighted -1 }",
    "missing_weight": "def x{ return 'a' }",
    "two_defs": "def x{ return 'a' weighted 1 } def y{ return 'a' weighted 1 }",
    "salt_after_splitters": "def x{ splitters: a salt: 's' return 'a' weighted 1 }",
    "string_newline": "def x{ return 'a\nb' weighted 1 }",
    "non_ascii_id": "def é{ return 'a' weighted 1 }",
    "empty_tuple": "def x{ if a in () { return 'a' weighted 1 } }",
    "trailing": "def x{ return 'a' weighted 1 } extra",
    "tab_form_feed": "def x{\f return 'a' weighted 1 \x00}",
}

PARTIAL_CALLS = [
    {},
    {"uid": 1},
    {"uid": "1", "x": 4, "y": 1},
    {"uid": 7, "x": 3},
    {"uid": 7, "x": 0, "y": 0},
    {"uid": 2, "seg": "p"},
    {"uid": 3, "seg": "p"},
    {"uid": 3, "seg": "q", "extra": object},
    {"uid": 5, "f": (3, (4, "x")), "g": (1, 2)},
    {"uid": 5, "f": "nope", "g": (1, 2)},
    {"uid": 5, "f": ("only",), "g": None},
    {"a": "/*", "b": 1},
    {"a": 1, "b": "/*"},
    {"k": "é", "f": "it's"},
    {"k": 1, "f": "back\\slash\\n"},
    {"k": 1, "f": None},
    {"uid": "☃", "pays": "日本"},
    {"uid": "☃", "pays": "France"},
    {"uid": 1, "v": 10**400},
    {"uid": 1, "v": float("inf")},
    {
        "inner": 1,
        "order_id": 2,
        "iffy": 3,
        "returned": 4,
        "android": "in",
        "notable": 9,
        "elsewhere": "",
        "weighted_x": 0,
    },
    {
        "inner": 1,
        "order_id": 2,
        "iffy": 3,
        "returned": 4,
        "android": "x",
        "notable": 2.5,
        "elsewhere": "else if",
        "weighted_x": 0,
    },
    {
        "inner": "a",
        "order_id": "b",
        "iffy": "c",
        "returned": "d",
        "android": "x",
        "notable": 2.5,
        "elsewhere": "",
        "weighted_x": -2,
    },
]

DEFAULTS = {
    "uid": 11, "seg": "q", "x": 0, "y": 0, "f": None, "g": None, "a": 0, "b": 0,
    "k": "k", "pays": "", "v": 0, "inner": 1, "order_id": 2, "iffy": 3, "returned": 4,
    "android": "", "notable": 0, "elsewhere": "", "weighted_x": -9,
}
CALLS = PARTIAL_CALLS[:4] + [{**DEFAULTS, **call} for call in PARTIAL_CALLS]


def outcome(fn, *args, **kwargs):
    try:
        value = fn(*args, **kwargs)
    except BaseException as err:  # noqa: B902 - the class name is the observation
        return {"raises": type(err).__name__, "msg": str(err)[:200]}
    return {"value": repr(value)}


def digest(text):
    return hashlib.sha256(text.encode("utf-8")).hexdigest()


def run_generated(code, name):
    holder = {}
    exec(compile(code, "<probe>", "exec"), holder)
    fn = holder[name]
    results = [outcome(fn, **kwargs) for kwargs in CALLS]
    for uid in range(40):
        results.append(outcome(fn, uid=uid, x=5, y=0, seg="p", f=1, g=2, a=1, b=2, k=3))
    return results


def probe_programs():
    report = {}
    for name, text in {**VALID, **INVALID}.items():
        entry = {}
        try:
            ast = parse_source(text)
            entry["ast"] = None if ast is None else ast.json()
            entry["ast_type"] = type(ast).__name__
        except BaseException as err:  # noqa: B902
            ast = None
            entry["parse_raises"] = [type(err).__name__, str(err)[:200]]
            entry["parse_attrs"] = [
                repr(getattr(err, "error_index", None)),
                digest(repr(getattr(err, "text", None))),
            ]
        entry["tokens"] = outcome(
            lambda: [
                (t.type, t.value, t.lineno, t.index)
                for t in ExperimentLexer().tokenize(text)
            ]
        )
        for flag in (False, True):
            key = f"layout_{flag}"
            try:
                code = generate_code(text, flag)
                positional = generate_code(text, expose_internal_fn=flag)
                entry[key] = {
                    "code": code,
                    "same_kw": code == positional,
                    "runs": run_generated(code, ast.id),
                }
                raw = PythonCodeGen(
                    ast, expose_experiment_variant_function=flag
                ).generate()
                entry[key]["raw"] = digest(raw)
                entry[key]["raw_runs"] = digest(
                    json.dumps(run_generated(raw, ast.id), ensure_ascii=True)
                )
            except BaseException as err:  # noqa: B902
                entry[key] = {"raises": type(err).__name__, "msg": str(err)[:200]}
        entry["default_layout_is_false"] = outcome(
            lambda: generate_code(text) == generate_code(text, False)
        )
        entry["evaluator"] = probe_evaluator_once(text)
        report[name] = entry
    return report


def probe_evaluator_once(text):
    try:
        evaluator = ExperimentEvaluator(text)
    except BaseException as err:  # noqa: B902
        return {"raises": type(err).__name__, "msg": str(err)[:200]}
    return {
        "checksum": evaluator._checksum,
        "instance_attrs": sorted(vars(evaluator)),
        "fn_name": evaluator.run_experiment.__name__,
        "calls": [outcome(evaluator, **kwargs) for kwargs in CALLS],
    }


def probe_recompile_histories():
    histories = [
        ["plain", "plain", "shared_field", "plain"],
        ["plain", "!illegal_char", "plain", "!illegal_char", "nested_tuples"],
        ["no_default", "!empty", "!missing_weight", "no_default", "crlf"],
        ["non_ascii", "quotes", "!two_defs", "quotes", "non_ascii"],
    ]
    report = []
    for history in histories:
        steps = []
        evaluator = None
        for step in history:
            text = INVALID[step[1:]] if step.startswith("!") else VALID[step]
            if evaluator is None:
                result = outcome(ExperimentEvaluator, text)
                if "value" in result:
                    evaluator = ExperimentEvaluator(text)
                    result = {"value": "constructed"}
            else:
                before = evaluator.run_experiment
                result = outcome(evaluator.recompile, text)
                result["fn_replaced"] = before is not evaluator.run_experiment
            state = None
            if evaluator is not None:
                state = {
                    "checksum": evaluator._checksum,
                    "fn": evaluator.run_experiment.__name__,
                    "calls": [outcome(evaluator, **kwargs) for kwargs in CALLS[:8]],
                }
            steps.append({"step": step, "result": result, "state": state})
        report.append(steps)
    blank = ExperimentEvaluator.__new__(ExperimentEvaluator)
    report.append(
        {
            "unloaded_call": outcome(blank, uid=1),
            "class_checksum": ExperimentEvaluator._checksum,
            "parse_error": [str(ParseError()), ParseError("m").message],
            "conditional_error": str(ExperimentConditionalFailedError()),
        }
    )
    return report


def probe_bucketing():
    ids = [str(i) for i in range(200)] + ["", " ", "é", "日本", "☃" * 5, "a\nb", "\x00", "None"]
    salts = ["", "s", "sél", "0"]
    weight_sets = [
        None,
        [1, 1],
        [1, 2, 3],
        [0, 1, 0],
        [0.1, 0.2, 0.7],
        [5],
        [1e-9, 1],
        [3, 0, 0, 1],
    ]
    report = {"proba": digest(repr([deterministic_proba(s + i) for s in salts for i in ids]))}
    for weights in weight_sets:
        size = 3 if weights is None else len(weights)
        population = [f"g{n}" for n in range(size)]
        picks = [
            deterministic_choice(salt + key, population, weights)
            for salt in salts
            for key in ids
        ]
        report[repr(weights)] = {
            "digest": digest(repr(picks)),
            "head": picks[:12],
            "counts": {g: picks.count(g) for g in population},
        }
    report["errors"] = [
        outcome(deterministic_choice, "1", ["a", "b"], [1]),
        outcome(deterministic_choice, "1", ["a", "b"], [0, 0]),
        outcome(deterministic_choice, "1", ["a", "b"], [1, float("inf")]),
        outcome(deterministic_choice, "1", ["a", "b"], [1, 1], cum_weights=[1, 2]),
        outcome(deterministic_choice, "1", ["a", "b"], cum_weights=[1, 2]),
        outcome(deterministic_choice, "1", []),
        outcome(deterministic_choice, 1, ["a"]),
    ]
    return report


def probe_stats():
    report = {"probit": [repr(probit(a)) for a in (0.5, 0.975, 0.025, 0.3, 0.999)]}
    report["probit_errors"] = [outcome(probit, 0), outcome(probit, 1), outcome(probit)]
    for method in ("agresti-coull", "wald", "WALD", "Agresti-Coull", "wilson"):
        report[method] = [
            outcome(confidence_interval, n, p, c, method)
            for n in (1, 10, 1000)
            for p in (0.0, 0.3, 0.5, 1.0)
            for c in (0.9, 0.95, 0.99)
        ]
    report["defaults"] = outcome(confidence_interval)
    report["zero_n_wald"] = outcome(confidence_interval, 0, 0.5, 0.95, "wald")
    return report


def probe_threads():
    evaluator = ExperimentEvaluator(VALID["shared_field"])
    texts = [VALID["shared_field"], VALID["plain"], VALID["no_default"]]
    expected = {
        t: [outcome(ExperimentEvaluator(t), uid=i, seg="p", x=3, y=0) for i in range(30)]
        for t in texts
    }
    mismatches = []
    failures = []

    def reader(text):
        local = ExperimentEvaluator(text)
        for _ in range(20):
            got = [outcome(local, uid=i, seg="p", x=3, y=0) for i in range(30)]
            if got != expected[text]:
                mismatches.append(text)

    def recompiler():
        for n in range(30):
            try:
                evaluator.recompile(texts[n % 3])
                evaluator(uid=n, seg="p", x=3, y=0)
            except ExperimentConditionalFailedError:
                pass
            except BaseException as err:  # noqa: B902
                failures.append(type(err).__name__)

    threads = [threading.Thread(target=reader, args=(t,)) for t in texts * 2]
    threads += [threading.Thread(target=recompiler) for _ in range(3)]
    for thread in threads:
        thread.start()
    for thread in threads:
        thread.join()
    codes = set()

    def generator():
        for _ in range(5):
            codes.add(generate_code(VALID["kw_prefixed"], True))

    threads = [threading.Thread(target=generator) for _ in range(4)]
    for thread in threads:
        thread.start()
    for thread in threads:
        thread.join()
    return {
        "mismatches": mismatches,
        "failures": sorted(failures),
        "distinct_codes": len(codes),
        "final_checksum_known": evaluator._checksum
        in {hashlib.md5(t.encode("utf-8")).hexdigest() for t in texts},
    }


def probe_surface():
    head_names = [
        "FileMode",
        "format_str",
        "PythonCodeGen",
        "ExperimentAST",
        "ExperimentParser",
        "ExperimentLexer",
        "parse_source",
        "generate_code",
    ]
    child = subprocess.run(
        [
            sys.executable,
            "-c",
            "import sys, pyab_experiment\n"
            "print(sorted(m for m in sys.modules if m.startswith('pyab_experiment')))\n"
            "print('black' in sys.modules, 'pydantic' in sys.modules)\n"
            "print(pyab_experiment.__version__, pyab_experiment.__doc__)\n"
            "ns = {}\n"
            "exec('from pyab_experiment import *', ns)\n"
            "print(sorted(k for k in ns if k != '__builtins__'))\n"
            "try:\n"
            "    pyab_experiment.utils\n"
            "except AttributeError as err:\n"
            "    print('AttributeError', err)\n"
            "try:\n"
            "    from pyab_experiment import no_such_name\n"
            "except ImportError as err:\n"
            "    print('ImportError', str(err).split(' (')[0])\n"
            "from pyab_experiment import utils\n"
            "print(utils.__name__, sorted(m for m in sys.modules if m.startswith('pyab_experiment')))\n",
        ],
        capture_output=True,
        text=True,
        env=dict(os.environ),
    )
    return {
        "version": pyab_experiment.__version__,
        "missing_attr": outcome(getattr, pyab_experiment, "definitely_missing"),
        "missing_attr_default": outcome(getattr, pyab_experiment, "missing", 42),
        "wrapper_names_present": [hasattr(wraper_functions, n) for n in head_names],
        "wrapper_doc": wraper_functions.__doc__,
        "generate_code_doc": generate_code.__doc__,
        "parse_source_doc": parse_source.__doc__,
        "type_errors": [
            outcome(generate_code)["raises"],
            outcome(generate_code, VALID["plain"], True, 3)["raises"],
            outcome(parse_source)["raises"],
            outcome(parse_source, VALID["plain"], 1)["raises"],
            outcome(parse_source, None)["raises"],
            outcome(generate_code, None)["raises"],
            outcome(generate_code, b"def x{ return 'a' weighted 1 }")["raises"],
        ],
        "fresh_import": [child.returncode, child.stdout, child.stderr],
        "evaluator_public": sorted(
            n for n in vars(ExperimentEvaluator) if n in ("recompile", "run_experiment", "__call__", "__init__", "_checksum")
        ),
    }


def main():
    summary = {
        "programs": probe_programs(),
        "histories": probe_recompile_histories(),
        "bucketing": probe_bucketing(),
        "stats": probe_stats(),
        "threads": probe_threads(),
        "surface": probe_surface(),
    }
    print(json.dumps(summary, indent=1, sort_keys=True, ensure_ascii=True))


if __name__ == "__main__":
    main()

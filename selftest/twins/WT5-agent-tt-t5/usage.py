"""exercises the command line entry function (needs the patch)"""

import io
import subprocess
import sys
import tempfile
from pathlib import Path

from pyab_experiment import __version__
from pyab_experiment.cli import _field, main
from pyab_experiment.experiment_evaluator import ExperimentEvaluator
from pyab_experiment.utils.wraper_functions import generate_code

TEXT = (
    "def demo{ salt: 's' splitters: uid if seg in ('a', 'b') and n > 3 "
    "{ return 'g1' weighted 1, 'g2' weighted 2 } else if seg == 'c' { return 'z' weighted 1 } }"
)


def run(*argv):
    out = io.StringIO()
    status = main([str(a) for a in argv], out=out)
    return status, out.getvalue()


with tempfile.TemporaryDirectory() as tmp:
    tmp = Path(tmp)
    good, bad_char, bad_syntax = tmp / "good.pyab", tmp / "char.pyab", tmp / "syntax.pyab"
    good.write_text(TEXT, encoding="utf-8")
    bad_char.write_text("def x{ return 'a' weighted 1; }", encoding="utf-8")
    bad_syntax.write_text("def x{ return 'a' }", encoding="utf-8")

    assert run("check", good) == (0, f"{good}: ok (demo)\n")
    status, text = run("check", good, bad_char, bad_syntax)
    assert status == 1
    lines = text.splitlines()
    assert lines[0] == f"{good}: ok (demo)"
    assert lines[1].startswith(f"{bad_char}: LexError: Illegal character ';'")
    assert lines[2] == f"{bad_syntax}: YaccError: Syntax error at line 1, token=RBRACE"

    assert run("compile", good) == (0, generate_code(TEXT))
    assert run("compile", good, "--expose-internal-fn") == (0, generate_code(TEXT, True))
    target = tmp / "demo.py"
    assert run("compile", good, "-o", target) == (0, "")
    assert target.read_text(encoding="utf-8") == generate_code(TEXT)
    assert run("compile", bad_syntax)[0] == 1 and run("compile", tmp / "missing")[0] == 1

    evaluator = ExperimentEvaluator(TEXT)
    for uid in range(30):
        assert run("run", good, f"uid={uid}", "seg=a", "n=7") == (
            0,
            evaluator(uid=uid, seg="a", n=7) + "\n",
        )
        assert run("run", good, f"uid='{uid}'", "seg='c'", "n=0.5", "extra=(1, 2)") == (0, "z\n")
    assert run("run", good, "uid=1", "seg=q", "n=0")[0] == 1  # no branch taken
    assert run("run", good, "uid=1")[0] == 1  # missing fields
    assert run("run", good, "uid")[0] == 1  # not an assignment

    assert _field("a=1") == ("a", 1) and _field("a=x=y") == ("a", "x=y")
    assert _field("a=") == ("a", "") and _field("a=(1, 'b')") == ("a", (1, "b"))

    for argv in ([], ["nope"], ["check"], ["--version"]):
        try:
            main(argv)
        except SystemExit as stop:
            assert stop.code == (0 if argv == ["--version"] else 2)
        else:
            raise AssertionError(argv)

    done = subprocess.run(
        [sys.executable, "-m", "pyab_experiment", "run", str(good), "uid=5", "seg=b", "n=4"],
        capture_output=True,
        text=True,
    )
    assert (done.returncode, done.stdout) == (0, evaluator(uid=5, seg="b", n=4) + "\n")
    done = subprocess.run(
        [sys.executable, "-m", "pyab_experiment", "--version"], capture_output=True, text=True
    )
    assert done.stdout.strip() == __version__
print("usage ok")

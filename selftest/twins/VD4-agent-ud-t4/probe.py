"""Differential probe for the py_ab library (bucketing / statistics focus).

Run as:  PYTHONPATH=/tmp/wt/UD/src /venv/bin/python probe.py
Prints a deterministic JSON document.  Its bytes must be identical with and
without the refactoring patch applied.
"""

import hashlib
import inspect
import json
import random
import threading
from decimal import Decimal
from fractions import Fraction

from pyab_experiment.binning import binning
from pyab_experiment.binning.binning import deterministic_choice, deterministic_proba
from pyab_experiment.codegen.python.custom_exceptions import (
    ExperimentConditionalFailedError,
)
from pyab_experiment.codegen.python.python_generator import PythonCodeGen
from pyab_experiment.experiment_evaluator import ExperimentEvaluator
from pyab_experiment.utils import stats
from pyab_experiment.utils.stats import confidence_interval, probit
from pyab_experiment.utils.wraper_functions import generate_code, parse_source

OUT = {}


def show(value):
    """stable, type-revealing rendering of a result"""
    if isinstance(value, bool):
        return f"bool:{value}"
    if isinstance(value, float):
        return f"{type(value).__name__}:{value.hex()}"
    if isinstance(value, (tuple, list)):
        return [type(value).__name__] + [show(v) for v in value]
    return f"{type(value).__name__}:{value!r}"


def attempt(fn, *args, **kwargs):
    try:
        return show(fn(*args, **kwargs))
    except BaseException as exc:  # noqa: B902 - we want the class of everything
        return f"!{type(exc).__module__}.{type(exc).__name__}:{exc}"


class LoudStr(str):
    """a str subclass with an own encode"""

    def encode(self, *a, **k):
        return b"constant"


class Chatty(str):
    calls = 0

    def lower(self):
        Chatty.calls += 1
        return str.lower(self)


# --------------------------------------------------------------------------
# 1. deterministic_proba
# --------------------------------------------------------------------------
IDS = (
    [str(i) for i in range(0, 400)]
    + [f"{i}_salt" for i in range(0, 200)]
    + ["", " ", "a", "A", "é", "日本語", "\U0001f600", "x" * 1000, "\x00", "\n", "a\nb"]
    + ["None", "True", "1", "1.0", "01", "1e3", "'q'", '"q"', "back\\slash"]
    + [hashlib.md5(str(i).encode()).hexdigest() for i in range(50)]
)
proba = []
for _round in range(3):  # repeated on purpose: a memo must answer the same
    proba.append([attempt(deterministic_proba, s) for s in IDS])
OUT["proba_rounds_equal"] = proba[0] == proba[1] == proba[2]
OUT["proba"] = proba[0]
OUT["proba_reversed"] = [attempt(deterministic_proba, s) for s in reversed(IDS)]
ODD_IDS = [
    None,
    1,
    1.0,
    True,
    b"abc",
    bytearray(b"abc"),
    ["a"],
    ("a",),
    {"a": 1},
    "\ud800",
    "ok\udfffno",
    LoudStr("abc"),
    LoudStr("other"),
    "abc",
    Fraction(1, 2),
    object,
]
OUT["proba_odd"] = [attempt(deterministic_proba, s) for s in ODD_IDS]
OUT["proba_odd_again"] = [attempt(deterministic_proba, s) for s in ODD_IDS]
OUT["proba_extremes"] = [
    min(deterministic_proba(str(i)) for i in range(20000)).hex(),
    max(deterministic_proba(str(i)) for i in range(20000)).hex(),
]
def _reference_proba(text):
    return int(hashlib.md5(text.encode("utf-8")).hexdigest()[:8], 16) / 0x100000000


# more distinct ids than any bounded memo holds, revisited in several orders
_many = [f"user-{i}" for i in range(12000)]
_first = [deterministic_proba(s) for s in _many]
_second = [deterministic_proba(s) for s in reversed(_many)][::-1]
_third = [deterministic_proba(_many[(i * 7) % 12000]) for i in range(12000)]
OUT["proba_reference"] = [
    _first == [_reference_proba(s) for s in _many],
    _first == _second,
    _third == [_first[(i * 7) % 12000] for i in range(12000)],
    hashlib.md5("".join(x.hex() for x in _first).encode()).hexdigest(),
]
# equal-but-different keys must never answer for one another
OUT["proba_lookalikes"] = [
    attempt(deterministic_proba, k)
    for k in ("1", 1, 1.0, True, "1.0", "True", b"1", LoudStr("1"), "1", "\u0031", "١")
]
OUT["proba_sig"] = str(inspect.signature(deterministic_proba))
OUT["choice_sig"] = str(inspect.signature(deterministic_choice))
OUT["choice_kwdefaults"] = repr(deterministic_choice.__kwdefaults__)
OUT["proba_doc_md5"] = hashlib.md5(
    (deterministic_proba.__doc__ or "").encode()
).hexdigest()
OUT["choice_doc_md5"] = hashlib.md5(
    (deterministic_choice.__doc__ or "").encode()
).hexdigest()

# --------------------------------------------------------------------------
# 2. deterministic_choice
# --------------------------------------------------------------------------
POPS = {
    "p0": [],
    "p1": ["only"],
    "p2": ["a", "b"],
    "p3": ["a", "b", "c"],
    "p3t": ("a", "b", "c"),
    "p5": [1, 2.5, "x", None, ("t",)],
    "p7": list(range(7)),
    "p1000": list(range(1000)),
    "pstr": "abc",
    "prange": range(4),
}
WEIGHTS = {
    "none": None,
    "w_empty": [],
    "w1": [1],
    "w0": [0],
    "w_neg": [-1],
    "w11": [1, 1],
    "w41": [4, 1],
    "w123": [1, 2, 3],
    "w123f": [1.0, 2.0, 3.0],
    "w123b": [True, 2, 3.0],
    "w123t": (1, 2, 3),
    "w_zero3": [0, 0, 0],
    "w_z_mid": [1, 0, 1],
    "w_z_end": [1, 1, 0],
    "w_z_start": [0, 0, 1],
    "w_negmix": [3, -1, 1],
    "w_negtot": [1, 1, -5],
    "w_inf": [1, float("inf"), 1],
    "w_nan": [1, float("nan"), 1],
    "w_nan_last": [1, 1, float("nan")],
    "w_negzero": [-0.0, 0.0, -0.0],
    "w_tiny": [5e-324, 5e-324, 5e-324],
    "w_huge": [1e308, 1e308, 1],
    "w_bigint": [2**53, 1, 1],
    "w_hugeint": [10**400, 1, 1],
    "w_frac": [Fraction(1, 3), Fraction(1, 3), Fraction(1, 3)],
    "w_dec": [Decimal("1"), Decimal("2"), Decimal("3")],
    "w_str": ["a", "b", "c"],
    "w_mixbad": [1, "b", 3],
    "w_complex": [1, 1j, 1],
    "w_none_el": [1, None, 1],
    "w_01": [0.1, 0.2, 0.7],
    "w5": [1, 2, 3, 4, 5],
    "w7": [0.5, 0, 3, 1e-9, 2, 2, 7],
    "w1000": [((i * 7919) % 13) for i in range(1000)],
    "w2": [2, 2],
    "w_gen3": "GEN3",
    "w_scalar": 5,
}
CH_IDS = [str(i) for i in range(60)] + ["", "é", "日本", "salt" + "x" * 50, "0_S1"]


def mk(w):
    if isinstance(w, str) and w == "GEN3":
        return (x for x in (1, 2, 3))
    return w


choice = {}
for pname, pop in POPS.items():
    for wname, w in WEIGHTS.items():
        row = []
        for the_id in CH_IDS if len(pop) < 100 else CH_IDS[:25]:
            row.append(attempt(deterministic_choice, the_id, pop, mk(w)))
        choice[f"{pname}/{wname}/weights"] = hashlib.md5(
            json.dumps(row).encode()
        ).hexdigest() + "|" + "|".join(sorted(set(map(json.dumps, row))))[:400]
        row = []
        for the_id in CH_IDS[:25]:
            row.append(
                attempt(deterministic_choice, the_id, pop, cum_weights=mk(w))
            )
        choice[f"{pname}/{wname}/cum"] = hashlib.md5(
            json.dumps(row).encode()
        ).hexdigest() + "|" + "|".join(sorted(set(map(json.dumps, row))))[:400]
OUT["choice"] = choice
OUT["choice_both"] = [
    attempt(deterministic_choice, "1", ["a", "b"], [1, 1], cum_weights=[1, 2]),
    attempt(deterministic_choice, "1", ["a"], [1, 1], cum_weights=[1, 2]),
    attempt(deterministic_choice, None, ["a", "b"], [1, 1], cum_weights=[1, 2]),
    attempt(deterministic_choice, 5, ["a", "b"], [1, 1], cum_weights=[1, 2]),
    attempt(deterministic_choice, "1", 7, [1, 1]),
    attempt(deterministic_choice, None, 7, [1, 1]),
    attempt(deterministic_choice, "1", ["a", "b"], [1, 1], [1, 2]),
    attempt(deterministic_choice, "1"),
    attempt(deterministic_choice, population=["a"]),
    attempt(deterministic_choice, input_id="1", population=["a", "b"], weights=[0, 1]),
]
# order of failures: a bad id together with bad weights
OUT["choice_error_order"] = [
    attempt(deterministic_choice, bad_id, pop, w)
    for bad_id in (1, b"x", "\ud800", ["l"], LoudStr("abc"), 0, False, 1.5)
    for pop, w in (
        (["a", "b"], None),
        (["a", "b"], [1, 1]),
        (["a", "b"], [1]),
        (["a", "b"], [0, 0]),
        (["a", "b"], [1, float("inf")]),
        (["a", "b"], [1, "x"]),
        (["a"], [1]),
        ([], None),
        ([], []),
    )
]
# the random fallback (input_id None) must consume the global generator alike
rnd = []
for seed in (0, 1, 2, 12345):
    random.seed(seed)
    seq = []
    for pname in ("p1", "p2", "p3", "p7"):
        for wname in ("none", "w1", "w11", "w123", "w123f", "w_z_mid", "w7", "w_zero3"):
            seq.append(attempt(deterministic_choice, None, POPS[pname], WEIGHTS[wname]))
            seq.append(
                attempt(
                    deterministic_choice, None, POPS[pname], cum_weights=WEIGHTS[wname]
                )
            )
    seq.append(show(random.random()))
    rnd.append(hashlib.md5(json.dumps(seq).encode()).hexdigest())
    rnd.append(seq[-1])
    rnd.append(seq[:12])
OUT["choice_random_fallback"] = rnd
# inputs must not be modified
w_in = [1, 2, 3]
p_in = ["a", "b", "c"]
c_in = [1, 3, 6]
deterministic_choice("7", p_in, w_in)
deterministic_choice("7", p_in, cum_weights=c_in)
OUT["choice_inputs_untouched"] = [w_in, p_in, c_in]
# distribution over many ids
dist = {}
for salt in ("", "_s", "é"):
    counts = {}
    for i in range(20000):
        g = deterministic_choice(f"{i}{salt}", ["a", "b", "c", "d"], [4, 1, 0, 2.5])
        counts[g] = counts.get(g, 0) + 1
    dist[salt] = sorted(counts.items())
    counts = {}
    for i in range(20000):
        g = deterministic_choice(f"{i}{salt}", list(range(11)))
        counts[g] = counts.get(g, 0) + 1
    dist[salt + "/uniform"] = sorted(counts.items())
OUT["choice_distribution"] = dist
OUT["binning_public_names"] = sorted(
    n for n in vars(binning) if not n.startswith("_")
)

# --------------------------------------------------------------------------
# 3. statistics
# --------------------------------------------------------------------------
ALPHAS = [
    0.5,
    0.975,
    0.025,
    0.0005,
    0.9995,
    0.25,
    0.75,
    1e-300,
    5e-324,
    1 - 2**-53,
    0.1,
    0.2,
    0.3,
    1 / 3,
    0,
    0.0,
    -0.0,
    1,
    1.0,
    True,
    False,
    -1,
    2,
    1.5,
    float("inf"),
    float("-inf"),
    float("nan"),
    Fraction(1, 2),
    Fraction(1, 4),
    Fraction(1, 2**60),
    2.0**-60,
    Decimal("0.5"),
    Decimal("0.25"),
    "0.5",
    None,
    [0.5],
    0.5 + 0j,
    10**400,
]
OUT["probit"] = [attempt(probit, a) for a in ALPHAS]
OUT["probit_again"] = [attempt(probit, a) for a in reversed(ALPHAS)]
OUT["probit_default"] = attempt(probit)
OUT["probit_grid"] = hashlib.md5(
    json.dumps([attempt(probit, i / 1000) for i in range(0, 1001)]).encode()
).hexdigest()
ci = {}
NS = [10, 1, 0, -5, 100000, 10**30, 2.5, True, Fraction(7, 2), Decimal("10"), "10", None]
PS = [0.5, 0, 1, 1 / 3, 0.999, -0.1, 1.2, True, Fraction(1, 3), Decimal("0.5"), "x", None]
CONFS = [0.95, 0.999, 0.5, 0, 1, 0.0, 1.0, 2, -1, True, Fraction(19, 20), "0.95", None]
METHODS = [
    "agresti-coull",
    "wald",
    "WALD",
    "Agresti-Coull",
    "wilson",
    "",
    "wald ",
    "İ",
    None,
    5,
    b"wald",
    Chatty("Wald"),
    Chatty("nope"),
]
for n in NS:
    for p in PS:
        for c in (0.95, 0.999):
            for m in ("agresti-coull", "wald"):
                ci[f"{n!r}|{p!r}|{c!r}|{m}"] = attempt(confidence_interval, n, p, c, m)
for c in CONFS:
    for m in METHODS:
        ci[f"10|0.3|{c!r}|{m!r}"] = attempt(confidence_interval, 10, 0.3, c, m)
        ci[f"'10'|'x'|{c!r}|{m!r}"] = attempt(confidence_interval, "10", "x", c, m)
OUT["ci_md5"] = hashlib.md5(json.dumps(ci, sort_keys=True).encode()).hexdigest()
OUT["ci_sample"] = {k: ci[k] for k in sorted(ci)[::17]}
OUT["ci_defaults"] = [
    attempt(confidence_interval),
    attempt(confidence_interval, method="wald"),
    attempt(confidence_interval, 100000, p=1 / 3, confidence=0.999),
]
OUT["chatty_lower_calls"] = Chatty.calls
OUT["stats_sigs"] = [
    str(inspect.signature(probit)),
    str(inspect.signature(confidence_interval)),
]
OUT["stats_public_names"] = sorted(n for n in vars(stats) if not n.startswith("_"))

# --------------------------------------------------------------------------
# 4. programs: parse, generate (both layouts), execute
# --------------------------------------------------------------------------
PROGRAMS = {
    "simple": "def e { return 'a' weighted 1 }",
    "two": 'def e { return "a" weighted 4, "b" weighted 1 }',
    "salted": "def e { salt: 'S' splitters: uid return 'a' weighted 1, 'b' weighted 1 }",
    "splitters2": "def e { splitters: uid, country return 'a' weighted 1, 'b' weighted 3.5, 3 weighted 2 }",
    "kwprefix": (
        "def define { splitters: iffy, elsewhere, notary if android == 1 and "
        "order_id in (1, 2) or not inner != 'x' { return 'a' weighted 1 } "
        "else if returned >= 2.50 { return 1 weighted 1, 2.5 weighted 0 } "
        "else { return 'z' weighted 1, 'y' weighted 1 } }"
    ),
    "nested": (
        "def n { salt: \"s'q\" splitters: id /* block \n comment */ "
        "if a in (1, (2, 3), ('x', (4.5, 0)), -1) { if b not  in ('p', 'q') "
        "{ return 'in' weighted 1 } } else if (c < -2.5) { return 'neg' weighted 2, 'pos' weighted 1 } "
        "// trailing\n else { return \"d\\n\" weighted 1, 'é日本' weighted 2 } }"
    ),
    "noroute": "def u { splitters: id if x == 1 { return 'a' weighted 1 } }",
    "zero_w": "def z { splitters: id return 'a' weighted 0, 'b' weighted 0 }",
    "float_big": "def f { splitters: id if x < 1" + "0" * 400 + ".0 { return 'a' weighted 1 } else { return 'b' weighted 1 } }",
    "both": "def b { splitters: id if id > 5 { return 'hi' weighted 1, 'HI' weighted 1 } else { return 'lo' weighted 1, 'LO' weighted 9 } }",
    "cmp_same_literals": "def c { if 1 == 1.0 { return 'eq' weighted 1 } else { return 'ne' weighted 1 } }",
    "quotes": "def q { salt: 'it\"s' splitters: id return \"a'b\" weighted 1, 'c\\\\d' weighted 1, '' weighted 1 }",
    "bad_char": "def e { return 'a' weighted 1 } $",
    "bad_eof": "def e { return 'a' weighted 1",
    "bad_neg_weight": "def e { return 'a' weighted -1 }",
    "bad_kw": "def if { return 'a' weighted 1 }",
    "bad_empty": "",
    "bad_unterminated": "def e { return 'a weighted 1 }",
    "bad_comment": "def e { /* never closed return 'a' weighted 1 }",
    "bad_two_defs": "def e { return 'a' weighted 1 } def f { return 'a' weighted 1 }",
    "bad_tuple": "def e { if a in () { return 'a' weighted 1 } }",
}
CALLS = [
    {},
    {"uid": 1},
    {"uid": "1"},
    {"uid": 1, "country": "fr"},
    {"uid": 2, "country": None, "extra": 3},
    {"id": 3, "a": 1, "b": "q", "c": -3},
    {"id": 3, "a": (2, 3), "b": "p", "c": 0},
    {"id": 4, "a": "nope", "b": "p", "c": -3},
    {"id": 4, "a": "nope", "b": "p", "c": 3},
    {"id": 7, "x": 1},
    {"id": 7, "x": 2},
    {"id": "é", "x": 1e308},
    {"iffy": 1, "elsewhere": 2, "notary": 3, "android": 1, "order_id": 2, "inner": "x", "returned": 0},
    {"iffy": 1, "elsewhere": 2, "notary": 3, "android": 0, "order_id": 9, "inner": "x", "returned": 2.5},
    {"iffy": 9, "elsewhere": 2, "notary": 3, "android": 0, "order_id": 9, "inner": "x", "returned": 1},
]
progs = {}
random.seed(2024)
for name, text in PROGRAMS.items():
    entry = {}
    try:
        tree = parse_source(text)
        entry["ast"] = repr(tree)
    except BaseException as exc:  # noqa: B902
        entry["ast"] = f"!{type(exc).__module__}.{type(exc).__name__}:{exc}"
        tree = None
    for layout in (False, True):
        try:
            code = generate_code(text, layout)
            entry[f"code_{layout}"] = code
        except BaseException as exc:  # noqa: B902
            entry[f"code_{layout}"] = f"!{type(exc).__name__}:{exc}"
            continue
        gen = PythonCodeGen(tree, expose_experiment_variant_function=layout)
        before = [gen.local_vars, gen.conditional_ids]
        raw = gen.generate()
        middle = [gen.local_vars, gen.conditional_ids, gen._indent_depth]
        again = gen.generate()  # a generator object used twice keeps its sets
        entry[f"gen_state_{layout}"] = [
            before,
            middle,
            [gen.local_vars, gen.conditional_ids, gen._indent_depth],
            again == raw,
            hashlib.md5(again.encode()).hexdigest(),
            PythonCodeGen(tree, "  ", layout).generate() == raw.replace("\t", "  "),
            sorted(vars(gen)),
        ]
        entry[f"raw_{layout}_md5"] = hashlib.md5(raw.encode()).hexdigest()
        for label, src in (("black", code), ("raw", raw)):
            ns = {}
            exec(compile(src, "<probe>", "exec"), ns)  # noqa: S102
            fn = ns[tree.id]
            results = []
            for _rep in range(2):
                for kw in CALLS:
                    results.append(attempt(fn, **kw))
            entry[f"run_{layout}_{label}"] = results
    # the evaluator
    try:
        ev = ExperimentEvaluator(text)
        entry["eval"] = [attempt(ev, **kw) for kw in CALLS]
    except BaseException as exc:  # noqa: B902
        entry["eval"] = f"!{type(exc).__module__}.{type(exc).__name__}:{exc}"
    progs[name] = entry
OUT["programs"] = progs

# --------------------------------------------------------------------------
# 5. evaluator lifecycle: recompile histories and threads
# --------------------------------------------------------------------------
life = []
ev = ExperimentEvaluator(PROGRAMS["both"])
life.append([ev._checksum, attempt(ev, id=1), attempt(ev, id=9)])
first_fn = ev.run_experiment
ev.recompile(PROGRAMS["both"])
life.append(["same text keeps fn", ev.run_experiment is first_fn])
for bad in ("bad_char", "bad_eof", "bad_empty", "bad_neg_weight"):
    life.append([bad, attempt(ev.recompile, PROGRAMS[bad]), ev._checksum])
    life.append([bad, "again", attempt(ev.recompile, PROGRAMS[bad]), ev._checksum])
    life.append(["still old fn", ev.run_experiment is first_fn, attempt(ev, id=9)])
ev.recompile(PROGRAMS["salted"])
life.append([ev._checksum, attempt(ev, uid=1), attempt(ev, id=1)])
ev.recompile(PROGRAMS["both"])
life.append(["back", ev.run_experiment is first_fn, attempt(ev, id=1), attempt(ev, id=9)])
life.append(["bad ctor", attempt(ExperimentEvaluator, PROGRAMS["bad_eof"])])
life.append(["nonstr ctor", attempt(ExperimentEvaluator, None), attempt(ExperimentEvaluator, b"x")])
OUT["lifecycle"] = life

shared = ExperimentEvaluator(PROGRAMS["splitters2"])
expected = [shared(uid=i, country="x") for i in range(300)]
thread_ok = []


def worker(k):
    ok = True
    for _rep in range(5):
        got = [shared(uid=i, country="x") for i in range(300)]
        ok = ok and got == expected
        got2 = [deterministic_choice(str(i), ["a", "b", "c"], [1, 2, 3]) for i in range(300)]
        ok = ok and got2 == [deterministic_choice(str(i), ["a", "b", "c"], [1, 2, 3]) for i in range(300)]
        ok = ok and confidence_interval(100 + k, 0.3, 0.9) == confidence_interval(100 + k, 0.3, 0.9)
    thread_ok.append(ok)


threads = [threading.Thread(target=worker, args=(k,)) for k in range(8)]
for t in threads:
    t.start()
for t in threads:
    t.join()
OUT["threads"] = [len(thread_ok), all(thread_ok)]
OUT["expected_md5"] = hashlib.md5(json.dumps(expected).encode()).hexdigest()
OUT["cond_failed_is_exception"] = issubclass(ExperimentConditionalFailedError, Exception)

print(json.dumps(OUT, indent=1, sort_keys=True, ensure_ascii=True))

"""Differential probe: prints a deterministic JSON summary of the observable
behaviour of pyab_experiment (parser, both code layouts, evaluator lifecycle,
bucketing, stats).  Output must be byte-identical with and without the patch.

run:  PYTHONPATH=/tmp/wt/UG/src /venv/bin/python probe.py
"""

import hashlib
import json
import random
import threading

import pyab_experiment.experiment_evaluator as ev_mod
from pyab_experiment.binning.binning import deterministic_choice, deterministic_proba
from pyab_experiment.experiment_evaluator import ExperimentEvaluator, ParseError
from pyab_experiment.utils import stats
from pyab_experiment.utils import wraper_functions as wf
from pyab_experiment.utils.wraper_functions import generate_code, parse_source

OUT = {}


def err(fn, *a, **k):
    try:
        return ["ok", fn(*a, **k)]
    except BaseException as e:  # noqa
        return ["err", type(e).__module__ + "." + type(e).__name__, str(e)]


def sha(s):
    return hashlib.sha256(s.encode("utf-8", "surrogatepass")).hexdigest()[:16]


VALID = {
    "plain": "def plain{ return 'a' weighted 1, 'b' weighted 2 }",
    "salted": 'def salted{ salt: "s\\alt\'q" splitters: uid return "x" weighted 1, "y" weighted 1.5, "z" weighted 0 }',
    "kwprefix": "def define_x{ splitters: ifx, inner, not_id, orchid, android, returned, salty, splitters_, elsewhere\n"
    " if ifx == 1 and inner != 'in' or not not_id in (1, 2) { return 1 weighted 1, 2 weighted 1 }\n"
    " else if orchid not   in ('a', 'b') { return 'o' weighted 3 }\n"
    " elseif android > -3.5 { return -1 weighted 1, -2.5 weighted 2 }\n"
    " else { return 'e' weighted 1 } }",
    "nested_tuples": "def nt{ splitters: a, b if a in ((1, 2), (3, (4, 5)), ('x')) { return 'in' weighted 1 }"
    " else if (b, a) == (1, 2) { return 't' weighted 1, 'u' weighted 1 } else { return 'out' weighted 1 } }",
    "comments": "/* head \n multi */ def cm{ // c1 'quoted' \n salt: 'sa//lt' /* x */ splitters: k // c\n"
    " if k == '/* not a comment */' { return 'A' weighted 1 } /* a\n b */ else { return \"B // x\" weighted 2, 'C' weighted 2 } }",
    "quotes": "def q{ splitters: k if k == 'it\"s' or k == \"o'k\" or k == 'back\\\\slash' { return 'q\\n' weighted 1 }"
    " else { return \"d'q\" weighted 1, 'e\\\\' weighted 4 } }",
    "nonascii": "def na{ salt: 'sel-éè中' splitters: uid if country == 'Françaïß' { return 'ü' weighted 1, '中文' weighted 1 }"
    " else { return '\U0001f600' weighted 1, 'z' weighted 1 } }",
    "numbers": "def nums{ splitters: u if x >= 18 and y < 0.5 and z <= -7 and w != 007 { return 0 weighted 0.25, 1.5 weighted 0.75, '02134' weighted 1 }"
    " else if x == 1e3 { return 'never' weighted 1 } else { return 99999999999999999999999 weighted 10, 1.0 weighted 2 } }".replace(
        "else if x == 1e3 { return 'never' weighted 1 } ", ""
    ),
    "bigfloat": "def bf{ splitters: u if x < " + "9" * 400 + ".0 { return 'fin' weighted 1 } else { return 'inf' weighted 1 } }",
    "both": "def both{ salt: 'b' splitters: uid, seg if seg == 'x' and uid != 'u1' { return 'p' weighted 1, 'q' weighted 1 } else { return 'r' weighted 1, 's' weighted 3 } }",
    "noelse": "def ne{ splitters: uid if a == 1 { if b == 2 { return 'ab' weighted 1 } } else if a == 2 { return 'a2' weighted 1 } }",
    "nosplit_cond": "def nsc{ if a in (1) { return 'one' weighted 1 } else { return 'other' weighted 1 } }",
    "paren": "def par{ splitters: u if ((a == 1) and (not (b == 2 or c == 3))) { return 'P' weighted 1, 'Q' weighted 1 } else { return 'R' weighted 1 } }",
    "fn_named_partial": "def partial{ splitters: deterministic_choice if str == 'map' { return 'A' weighted 1, 'B' weighted 1 } else { return 'C' weighted 1 } }",
    "kwargs_field": "def kwf{ splitters: selfish if cls == 1 { return 'A' weighted 1, 'B' weighted 1 } else { return 'C' weighted 1, 'D' weighted 1 } }",
    "zero_w": "def zw{ splitters: u return 'a' weighted 0, 'b' weighted 0 }",
    "crlf": "def crlf{\r\n splitters: u\r\n return 'a' weighted 1,\r\n 'b' weighted 1\r\n}\r\n",
}

INVALID = {
    "empty": "",
    "ws": "  \n\t ",
    "only_comment": "/* x */ // y",
    "no_def": "plain{ return 'a' weighted 1 }",
    "kw_id": "def if{ return 'a' weighted 1 }",
    "kw_field": "def x{ splitters: in return 'a' weighted 1 }",
    "neg_weight": "def x{ return 'a' weighted -1 }",
    "str_weight": "def x{ return 'a' weighted '1' }",
    "missing_brace": "def x{ return 'a' weighted 1",
    "extra": "def x{ return 'a' weighted 1 } def",
    "two": "def x{ return 'a' weighted 1 } def y{ return 'a' weighted 1 }",
    "illegal_char": "def x{ return 'a' weighted 1 ; }",
    "illegal_char2": "def x{ splitters: ué return 'a' weighted 1 }",
    "unterminated_str": "def x{ return 'a weighted 1 }",
    "unterminated_comment": "def x{ return 'a' weighted 1 } /* open",
    "salt_after": "def x{ splitters: u salt: 's' return 'a' weighted 1 }",
    "empty_tuple": "def x{ if a in () { return 'a' weighted 1 } }",
    "else_first": "def x{ else { return 'a' weighted 1 } }",
    "ident_return": "def x{ return a weighted 1 }",
    "trailing_comma": "def x{ return 'a' weighted 1, }",
    "notin_glued": "def x{ if a notin (1,2) { return 'a' weighted 1 } }",
    "multiline_str": "def x{ return 'a\nb' weighted 1 }",
    "exp_float": "def x{ return 'a' weighted 1e3 }",
    "dot_float": "def x{ return 'a' weighted .5 }",
}


def sample_inputs(n=60):
    rnd = random.Random(1234)
    pool_s = ["x", "u1", "in", "a", "b", "/* not a comment */", 'it"s', "o'k", "back\\slash", "Françaïß", "map", ""]
    pool_n = [0, 1, 2, 3, 4, 5, 7, 17, 18, 19, -7, -8, 0.25, 0.5, -3.5, 1e308, float("inf"), (1, 2), (3, (4, 5)), ("x",), [1, 2]]
    names = ["uid", "u", "k", "a", "b", "c", "x", "y", "z", "w", "seg", "country", "ifx", "inner", "not_id", "orchid", "android",
             "returned", "salty", "splitters_", "elsewhere", "deterministic_choice", "str", "selfish", "cls"]
    out = []
    for i in range(n):
        d = {}
        for nm in names:
            r = rnd.random()
            if nm in ("uid", "u", "k", "selfish", "deterministic_choice"):
                d[nm] = rnd.choice(pool_s) if r < 0.3 else f"id_{i}_{rnd.randrange(10**6)}"
            else:
                d[nm] = rnd.choice(pool_s) if r < 0.4 else rnd.choice(pool_n)
        d["unused_extra"] = i
        out.append(d)
    return out


INPUTS = sample_inputs()


def run_fn(fn, kwargs):
    try:
        return repr(fn(**kwargs))
    except BaseException as e:  # noqa
        return f"!{type(e).__name__}:{e}"


def call_all(fn):
    random.seed(99)  # programs without splitters fall back to random.choices
    return sha("|".join(run_fn(fn, kw) for kw in INPUTS))


def exec_layout(code, name):
    ns = {}
    exec(compile(code, "<probe>", "exec"), ns)
    return ns[name]


# ---------------------------------------------------------------- valid programs
progs = {}
for key, text in VALID.items():
    rec = {}
    ast = parse_source(text)
    rec["ast"] = sha(repr(ast)) if ast is not None else None
    rec["ast_json"] = sha(ast.json()) if ast is not None else None
    name = ast.id
    for flag in (False, True):
        code = generate_code(text, flag)
        rec[f"code_{flag}"] = sha(code)
        rec[f"run_{flag}"] = call_all(exec_layout(code, name))
    rec["code_default"] = sha(generate_code(text))
    rec["code_kw"] = sha(generate_code(text=text, expose_internal_fn=True))
    e = ExperimentEvaluator(text)
    rec["ev_call"] = call_all(e)
    rec["ev_run"] = call_all(e.run_experiment)
    rec["vars"] = sorted(vars(e))
    rec["checksum"] = e._checksum
    f = e.run_experiment
    rec["fn"] = [f.__name__, f.__qualname__, f.__module__, f.__globals__ is ev_mod.__dict__,
                 f.__code__.co_filename, list(f.__code__.co_varnames), f.__defaults__, f.__kwdefaults__]
    rec["missing"] = run_fn(e, {})
    rec["positional"] = err(lambda: e("x"))
    progs[key] = rec
OUT["valid"] = progs

# ---------------------------------------------------------------- invalid programs
bad = {}
for key, text in INVALID.items():
    bad[key] = {
        "parse": err(lambda: repr(parse_source(text)))[:3],
        "gen_f": err(generate_code, text, False),
        "gen_t": err(generate_code, text, True),
        "ev": err(lambda: sorted(vars(ExperimentEvaluator(text)))),
    }
OUT["invalid"] = bad

# ---------------------------------------------------------------- non-string sources
weird = {}
for key, val in {"none": None, "bytes": b"def x{ return 'a' weighted 1 }", "int": 3, "list": ["def"],
                 "surrogate": "def x{ return '\ud800' weighted 1 }"}.items():
    weird[key] = {
        "ev": err(lambda: sorted(vars(ExperimentEvaluator(val)))),
        "parse": err(lambda: repr(parse_source(val))),
        "gen": err(generate_code, val),
    }
weird["noargs"] = err(lambda: ExperimentEvaluator())
weird["kwsrc"] = err(lambda: sorted(vars(ExperimentEvaluator(source_code=VALID["plain"]))))
OUT["weird"] = weird

# ---------------------------------------------------------------- lifecycle
life = []
e = ExperimentEvaluator(VALID["both"])


def snap(tag):
    life.append([tag, e._checksum, e.run_experiment.__name__, call_all(e), sorted(vars(e))])


snap("init")
f0 = e.run_experiment
life.append(["same_text", err(e.recompile, VALID["both"]), e.run_experiment is f0])
for key in ("missing_brace", "illegal_char", "empty", "kw_id"):
    life.append([key, err(e.recompile, INVALID[key]), e.run_experiment is f0])
    snap("after_" + key)
life.append(["none_src", err(e.recompile, None), e.run_experiment is f0])
life.append(["retry_bad", err(e.recompile, INVALID["missing_brace"]), err(e.recompile, INVALID["missing_brace"])])
life.append(["kw", err(e.recompile, source_code=VALID["salted"]), e.run_experiment is f0])
snap("salted")
f1 = e.run_experiment
life.append(["ws_variant", err(e.recompile, VALID["salted"] + " "), e.run_experiment is f1])
snap("salted_ws")
life.append(["back", err(e.recompile, VALID["both"]), e.run_experiment is f0])
snap("both_again")
# class level defaults
life.append(["cls_checksum", ExperimentEvaluator._checksum])
raw = ExperimentEvaluator.__new__(ExperimentEvaluator)
life.append(["raw", sorted(vars(raw)), raw._checksum, err(raw), err(raw.run_experiment, a=1), err(lambda: raw(1))])
life.append(["raw_recompile", err(raw.recompile, VALID["plain"]), sorted(vars(raw)), raw._checksum, call_all(raw)])
# parse_source returning None -> ParseError and nothing changes
orig = ev_mod.parse_source
ev_mod.parse_source = lambda text: None
try:
    life.append(["parse_none", err(e.recompile, VALID["plain"]), err(lambda: ExperimentEvaluator(VALID["plain"]))])
finally:
    ev_mod.parse_source = orig
snap("after_parse_none")
# patched code generator is looked up through the module at call time
calls = []
orig_gen = ev_mod.PythonCodeGen


class Spy(orig_gen):
    def __init__(self, *a, **k):
        calls.append([len(a), sorted(k.items())])
        super().__init__(*a, **k)


ev_mod.PythonCodeGen = Spy
try:
    life.append(["spy", err(e.recompile, VALID["paren"]), calls, call_all(e)])
    life.append(["spy_same", err(e.recompile, VALID["paren"]), calls])
finally:
    ev_mod.PythonCodeGen = orig_gen
pe = ParseError()
life.append(["ParseError", str(pe), pe.message, list(pe.args), str(ParseError("m")), ParseError("m").message,
             ParseError.__mro__[1].__name__, ParseError.__init__.__defaults__, err(lambda: ParseError(message="k").args)])
# subclass overriding recompile hooks still go through recompile from __init__
seen = []


class Sub(ExperimentEvaluator):
    def recompile(self, source_code):
        seen.append(source_code[:5])
        return super().recompile(source_code)


s = Sub(VALID["plain"])
life.append(["sub", seen, call_all(s), sorted(vars(s))])
# names needed by generated code are reachable from the evaluator module
life.append(["mod_names", [n in vars(ev_mod) for n in ("partial", "deterministic_choice", "ExperimentConditionalFailedError",
                                                        "PythonCodeGen", "parse_source", "hashlib", "ParseError", "ExperimentEvaluator")],
             ev_mod.partial.__name__, ev_mod.deterministic_choice is deterministic_choice])
life.append(["wf_names", [n in vars(wf) for n in ("FileMode", "format_str", "PythonCodeGen", "ExperimentAST",
                                                  "ExperimentParser", "ExperimentLexer", "parse_source", "generate_code")]])
OUT["lifecycle"] = life

# ---------------------------------------------------------------- threads
texts = [VALID["both"], VALID["salted"], INVALID["missing_brace"], VALID["crlf"]]
allowed = set()
kw = dict(uid="u42", seg="x", u="u43")
for t in (VALID["both"], VALID["salted"], VALID["crlf"]):
    allowed.add(ExperimentEvaluator(t)(**kw))
shared = ExperimentEvaluator(VALID["both"])
bad_results = []
errs = []


def worker(i):
    for j in range(40):
        try:
            shared.recompile(texts[(i + j) % len(texts)])
        except Exception as ex:  # noqa
            errs.append(type(ex).__name__)
        r = shared(**kw)
        if r not in allowed:
            bad_results.append(r)


ths = [threading.Thread(target=worker, args=(i,)) for i in range(8)]
[t.start() for t in ths]
[t.join() for t in ths]
OUT["threads"] = {"bad": bad_results, "errs": sorted(set(errs)), "nerrs": len(errs), "allowed": sorted(map(repr, allowed))}

# ---------------------------------------------------------------- bucketing
buck = {}
ids = [f"id_{i}" for i in range(300)] + ["", "é", "\U0001f600", "a" * 1000]
for wkey, (pop, w) in {
    "eq": (["a", "b", "c"], None),
    "w12": (["a", "b"], [1, 2]),
    "w_float": (["a", "b", "c"], [0.1, 0.2, 0.7]),
    "w_zero": (["a", "b", "c"], [0, 1, 0]),
    "w_big": (list(range(7)), [10**20, 1, 3, 0, 5e19, 2, 2]),
}.items():
    for salt in ("", "s1", "sel-é"):
        buck[f"{wkey}/{salt}"] = sha(",".join(repr(deterministic_choice(salt + i, pop, w)) for i in ids))
buck["cum"] = sha(",".join(deterministic_choice(i, ["a", "b", "c"], cum_weights=[1, 3, 6]) for i in ids))
buck["proba"] = sha(",".join(repr(deterministic_proba(i)) for i in ids))
buck["errors"] = [
    err(deterministic_choice, "x", ["a"], [1, 2]),
    err(deterministic_choice, "x", ["a", "b"], [0, 0]),
    err(deterministic_choice, "x", ["a", "b"], [1, float("inf")]),
    err(deterministic_choice, "x", ["a", "b"], [1, 1], cum_weights=[1, 2]),
    err(deterministic_choice, "x", [], None),
    err(deterministic_choice, 5, ["a"], None),
]
OUT["bucketing"] = buck

# ---------------------------------------------------------------- stats
st = {"probit": [], "ci": []}
for a in (0.5, 0.975, 0.025, 0.001, 0.9999, 1e-12, 0.3, 0, 1, -0.5, 2, "x", None):
    st["probit"].append([repr(a), [x if i == 0 else repr(x) for i, x in enumerate(err(stats.probit, a))]])
st["probit"].append(["default", repr(stats.probit())])
for n in (1, 10, 1000, 0, -5):
    for p in (0.0, 0.5, 0.123, 1.0, 1.5):
        for c in (0.95, 0.999, 0.5, 1.0, 0.0):
            for m in ("agresti-coull", "Wald", "WALD", "AGRESTI-COULL", "wilson", "", None, 3):
                r = err(stats.confidence_interval, n, p, c, m)
                st["ci"].append(sha(repr(r)))
st["ci"] = sha(",".join(st["ci"]))
st["ci_default"] = repr(stats.confidence_interval())
st["ci_kw"] = repr(stats.confidence_interval(n=100, p=0.2, confidence=0.9, method="wald"))
st["ci_err"] = err(stats.confidence_interval, 10, 0.5, 0.95, "wilson")
OUT["stats"] = st

print(json.dumps(OUT, indent=1, sort_keys=True, default=repr))

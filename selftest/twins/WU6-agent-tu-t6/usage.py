"""Exercises the new capability of t6: PythonCodeGen.source_map()."""

from pyab_experiment.codegen.python.python_generator import (
    GroupLocation,
    PythonCodeGen,
    SourceMap,
)
from pyab_experiment.utils.wraper_functions import parse_source

PROGRAMS = [
    "def flat{ salt: 's' splitters: b, a return 'x' weighted 1, 'y' weighted 3 }",
    "def random_one{ return 1 weighted 0.5, 2.5 weighted 0.5 }",
    (
        "def chain{ splitters: uid, country if country == 'US' and not age < 18 "
        "{ if vip == 1 { return 'vip' weighted 1 } else if vip == 2 { if a in (1,2) { return 1 weighted 1 } } "
        "else { return 'us' weighted 1, 'x' weighted 2 } } "
        "else if country in ('FR', 'BE') { return 'eu' weighted 1, 'eu2' weighted 1 } "
        "else { return 'row' weighted 1, 'x' weighted 1, 1.0 weighted 1 } }"
    ),
    "def no_else{ splitters: uid if a > 1 { if b < 2 { return 'ab' weighted 1 } } else if c >= 3 { return 'c' weighted 1 } }",
    "def odd{ salt: 'a\rb' splitters: uid if f == 'x\x0cy v' { return 'l1\\nl2' weighted 1 } else { return '\x0b' weighted 1 } }",
    "def huge{ splitters: uid return 'a' weighted " + "9" * 400 + ".0, 'b' weighted 1 }",
]

for text in PROGRAMS:
    tree = parse_source(text)
    for indent in ("\t", "    ", ""):
        for expose in (True, False):
            gen = PythonCodeGen(tree, indent, expose)
            smap = gen.source_map()
            assert isinstance(smap, SourceMap)
            # nothing was collected or rendered in the generator
            assert gen.local_vars == [] and gen.conditional_ids == [] and gen.indent() == ""
            code = gen.generate()
            assert code == PythonCodeGen(tree, indent, expose).generate()
            assert gen.source_map() == smap
            lines = code.split("\n")
            assert lines[-1] == "" and smap.total_lines == len(lines) - 1
            at = lambda number: lines[number - 1]  # noqa: E731
            assert at(smap.entry_line).startswith(f"def {tree.id}(")
            assert at(smap.selector_line).startswith(indent * (0 if expose else 1) + "def choose_experiment_variant(")
            assert at(smap.call_line).startswith(indent + "return choose_experiment_variant(")
            assert at(smap.fallback_line).strip() == "raise ExperimentConditionalFailedError()"
            assert at(smap.fallback_line - 1) == ""
            # every return line is mapped, in order, with its depth and content
            expected = [n for n, line in enumerate(lines, start=1) if "return partial(deterministic_choice" in line]
            assert [g.line for g in smap.groups] == expected
            for group in smap.groups:
                assert isinstance(group, GroupLocation)
                prefix = indent * group.depth + "return partial(deterministic_choice, population=["
                assert at(group.line).startswith(prefix), (at(group.line), prefix)
                rendered = eval(  # the line, read back as python data
                    at(group.line).strip()[len("return partial(deterministic_choice, "):-1].join(["dict(", ")"])
                )
                assert tuple(rendered["population"]) == group.population
                assert tuple(rendered["weights"]) == group.weights

smap = PythonCodeGen(parse_source(PROGRAMS[2]), expose_experiment_variant_function=False).source_map()
assert smap.entry_line == 7 and smap.selector_line == 8
assert [g.line for g in smap.groups] == [11, 14, 16, 18, 20]
assert [g.depth for g in smap.groups] == [4, 5, 4, 3, 3]
assert smap.lines_returning("x") == (16, 20)
assert smap.lines_returning(1) == (14,) and smap.lines_returning(1.0) == (20,)
assert smap.lines_returning("nobody") == ()
assert (smap.fallback_line, smap.call_line, smap.total_lines) == (22, 23, 23)

try:
    PythonCodeGen(parse_source(PROGRAMS[0]), "\n ").source_map()
except ValueError:
    pass
else:
    raise AssertionError("newline in indentation")
print("t6 usage ok")

"""Exercises dry_run added by t5 (exits 0 with the patch)."""
import hashlib

from pyab_experiment.experiment_evaluator import DryRunReport, ExperimentEvaluator

LOADED = "def live{ splitters: uid return 'a' weighted 1, 'b' weighted 1 }"
CANDIDATE = (
    "def next_version{ salt: 'v2' splitters: uid, region\n"
    " if plan == 'pro' or region in ('eu', 'us') { return 'a' weighted 1, 'b' weighted 3 } else { return 'c' weighted 1 } }"
)
ev = ExperimentEvaluator(LOADED)
before = dict(vars(ev))
ids = [f"u{i}" for i in range(100)]
serving = [ev(uid=i) for i in ids]

ok = ev.dry_run(CANDIDATE)
assert isinstance(ok, DryRunReport)
assert ok.valid and ok.error is None and ok.would_change
assert ok.experiment_name == "next_version"
assert ok.fields == ("region", "uid", "plan")
assert ok.checksum == hashlib.md5(CANDIDATE.encode("utf-8")).hexdigest()
ok.raise_for_error()  # no-op

same = ev.dry_run(LOADED)
assert same.valid and not same.would_change and same.experiment_name == "live"

# the verdict agrees with recompile() on a scratch evaluator, error class included
CASES = {
    "": "YaccError",
    "def a{ return 'x' weighted 1; }": "LexError",
    "def a{ return 'x' weighted -1 }": "YaccError",
    "def a{ if class == 1 { return 1 weighted 1 } }": "SyntaxError",  # python keyword as field
    "/* open def a{ return 1 weighted 1 }": "YaccError",
    "def a{ if x in (1,) { return 1 weighted 1 } }": "YaccError",
    CANDIDATE: None,
    "def u{ if c == 'Zürich' { return 'ü' weighted 1 } }": None,
}
for text, expected in CASES.items():
    report = ev.dry_run(text)
    scratch = ExperimentEvaluator(LOADED)
    try:
        scratch.recompile(text)
        real = None
    except Exception as e:
        real = e
    assert (type(real).__name__ if real else None) == expected, (text, real)
    assert report.valid is (real is None)
    assert type(report.error) is type(real) and str(report.error) == str(real)
    assert report.would_change is (real is None)
    if real is not None:
        assert (report.experiment_name, report.fields) == (None, ())
        try:
            report.raise_for_error()
        except type(real):
            pass
        else:
            raise AssertionError

# whatever was tried, the evaluator is untouched and still serving the same code
assert vars(ev) == before
assert [ev(uid=i) for i in ids] == serving
# non-str input fails the same way as recompile (before anything is validated)
try:
    ev.dry_run(None)
except AttributeError:
    pass
else:
    raise AssertionError
print("t5 usage ok")

"""Differential probe: uses only the API that exists on HEAD and prints a
deterministic JSON summary.  Its output must be byte-identical with and without
the patch.

run:  PYTHONPATH=/tmp/wt/TS/src /venv/bin/python probe.py
"""

import hashlib
import json
import random
import threading

from pyab_experiment.binning.binning import deterministic_choice, deterministic_proba
from pyab_experiment.codegen.python.python_generator import PythonCodeGen
from pyab_experiment.experiment_evaluator import ExperimentEvaluator, ParseError
from pyab_experiment.utils.stats import confidence_interval, probit
from pyab_experiment.utils.wraper_functions import generate_code, parse_source

VALID = {
    "plain": "def plain{ return 'a' weighted 1, 'b' weighted 1 }",
    "salted": 'def salted{ salt: "s\\x" splitters: uid return "a" weighted 3, "b" weighted 1, 7 weighted 2.5 }',
    "kwprefix": (
        "def iffy{ splitters: inner, define\n"
        " if android == 1 and nothing != 'x' or orbit in (1, 2){ return 'k1' weighted 1, 'k2' weighted 2 }\n"
        " else if elsewhere not in ('p', 'q') { return 'k3' weighted 1 }\n"
        " else { return 'k4' weighted 0.5, 'k5' weighted 0.5 } }"
    ),
    "nested": (
        "def nested{ splitters: uid\n"
        " if grp in ((1, 2), (3, (4, 5)), ('a')) { return 'in' weighted 1, 'in2' weighted 1 }\n"
        " else if grp == (1) { return 'single' weighted 1 }\n"
        " else { return 'out' weighted 1, -3 weighted 1, -2.5 weighted 2 } }"
    ),
    "comments": (
        "/* head */ def commented{ // salt: 'no'\n salt: 'yes' /* a */ /* b */\n"
        " splitters: uid // trailing\n /* multi\n line */ return 'x//y' weighted 1, \"/*z*/\" weighted 2 }"
    ),
    "quotes": (
        "def quotes{ splitters: uid if name == 'it\"s' or name == \"o'k\" or name == 'back\\slash\\n'"
        " { return 'q\"1' weighted 1, \"q'2\" weighted 1 } else { return '\\\\' weighted 1, '' weighted 1 } }"
    ),
    "unicode": (
        "def uni{ salt: 'sél€' splitters: uid if city == 'Zürich' or city in ('東京', 'Łódź')"
        " { return 'ü' weighted 1, '東' weighted 1 } else { return 'ascii' weighted 1 } }"
    ),
    "noelse": (
        "def noelse{ splitters: uid if a > 1 { if b <= 2.5 { return 'ab' weighted 1 } }"
        " else if a == 1 { return 'a1' weighted 0, 'a1b' weighted 4 } }"
    ),
    "shared": (
        "def shared{ splitters: uid, tier if tier >= 2 and not uid == 'u0'"
        " { return 't' weighted 1, 'u' weighted 1 } else { return 'v' weighted 1 } }"
    ),
    "bignum": (
        "def bignum{ if x < 1" + "0" * 400 + ".0 { return 00012 weighted 007, 1.50 weighted 0.0 }"
        " else { return 'never' weighted 1 } }"
    ),
    "zero": "def zero{ splitters: uid return 'a' weighted 0, 'b' weighted 0 }",
}

INVALID = {
    "empty": "",
    "only_comment": "// nothing",
    "open_block": "/* never closed def a{ return 1 weighted 1 }",
    "illegal_char": "def a{ return 'x' weighted 1; }",
    "neg_weight": "def a{ return 'x' weighted -1 }",
    "kw_as_id": "def if{ return 'x' weighted 1 }",
    "missing_brace": "def a{ return 'x' weighted 1",
    "two_defs": "def a{ return 1 weighted 1 } def b{ return 1 weighted 1 }",
    "splitter_before_salt": "def a{ splitters: u salt: 's' return 1 weighted 1 }",
    "unterminated": "def a{ return 'x weighted 1 }",
    "multiline_string": "def a{ return 'x\ny' weighted 1 }",
    "nonascii_id": "def é{ return 1 weighted 1 }",
    "empty_tuple": "def a{ if x in () { return 1 weighted 1 } }",
    "py_keyword_field": "def a{ if class == 1 { return 1 weighted 1 } }",
    "dup_else": "def a{ if x == 1 { return 1 weighted 1 } else { return 2 weighted 1 } else { return 3 weighted 1 } }",
    "trailing_comma_tuple": "def a{ if x in (1,) { return 1 weighted 1 } }",
    "float_no_lead": "def a{ return 1 weighted .5 }",
}

ROWS = [
    dict(uid=f"u{i}", inner=i, define=-i, android=i % 2, nothing="x" if i % 3 else "y",
         orbit=i % 5, elsewhere="pqr"[i % 3], grp=[(1, 2), (3, (4, 5)), ("a",), (1,), 4, "a"][i % 6],
         name=["it\"s", "o'k", "back\\slash\\n", "zz"][i % 4], city=["Zürich", "東京", "Łódź", "Bern"][i % 4],
         a=i % 4, b=(i % 7) / 2, tier=i % 4, x=float(i), extra_field=None)
    for i in range(60)
]


def err(fn, *args, **kwargs):
    try:
        return {"ok": fn(*args, **kwargs)}
    except BaseException as e:  # noqa
        return {"error": type(e).__name__, "msg": str(e)[:200], "mro": [c.__name__ for c in type(e).__mro__]}


def digest(obj) -> str:
    return hashlib.sha256(json.dumps(obj, sort_keys=True, default=repr).encode()).hexdigest()[:16]


def state(ev):
    d = vars(ev)
    fn = d.get("run_experiment")
    return {
        "keys": sorted(d),
        "checksum": d.get("_checksum"),
        "class_checksum": ExperimentEvaluator._checksum,
        "fn_name": getattr(fn, "__name__", None),
        "fn_args": list(fn.__code__.co_varnames[: fn.__code__.co_argcount]) if fn else None,
        "fn_globals": getattr(fn, "__globals__", {}).get("__name__") if fn else None,
    }


def run_generated(text, exposed):
    code = generate_code(text, expose_internal_fn=exposed)
    ns = {}
    exec(compile(code, "<probe>", "exec"), ns)
    fn = ns[parse_source(text).id]
    return code, [err(fn, **row) for row in ROWS]


random.seed(20240229)  # programs without splitters draw from the global generator
out = {}

# 1. parsing, AST, code generation in both layouts, evaluator results
programs = {}
for name, text in VALID.items():
    entry = {}
    ast = parse_source(text)
    entry["ast"] = ast.dict() if ast is not None else None
    entry["ast_repr"] = repr(ast)
    for exposed in (False, True):
        raw = PythonCodeGen(parse_source(text), expose_experiment_variant_function=exposed).generate()
        code, results = run_generated(text, exposed)
        entry[f"raw_{exposed}"] = digest(raw)
        entry[f"code_{exposed}"] = code
        entry[f"results_{exposed}"] = results
    ev = ExperimentEvaluator(text)
    entry["state"] = state(ev)
    entry["eval"] = [err(ev, **row) for row in ROWS]
    entry["eval_direct"] = [err(ev.run_experiment, **row) for row in ROWS[:10]]
    entry["eval_missing"] = err(ev)
    entry["eval_positional"] = err(ev, 1)
    programs[name] = entry
out["programs"] = programs

# 2. invalid texts: error classes through every entry point
invalid = {}
for name, text in INVALID.items():
    invalid[name] = {
        "parse": err(lambda t=text: repr(parse_source(t))),
        "gen_false": err(generate_code, text),
        "gen_true": err(generate_code, text, True),
        "ctor": err(lambda t=text: state(ExperimentEvaluator(t))),
    }
invalid["non_str_ctor"] = err(lambda: ExperimentEvaluator(None))
invalid["bytes_ctor"] = err(lambda: ExperimentEvaluator(b"def a{ return 1 weighted 1 }"))
invalid["no_arg_ctor"] = err(lambda: ExperimentEvaluator())
invalid["kw_ctor"] = err(lambda: state(ExperimentEvaluator(source_code=VALID["plain"])))
invalid["extra_kw_ctor"] = err(lambda: ExperimentEvaluator(VALID["plain"], strict=True))
invalid["two_pos_ctor"] = err(lambda: ExperimentEvaluator(VALID["plain"], print))
invalid["two_pos_recompile"] = err(lambda: ExperimentEvaluator(VALID["plain"]).recompile(VALID["plain"], None))
invalid["call_after_failed_ctor_kw"] = err(lambda: ExperimentEvaluator(source_code=INVALID["empty"]))
invalid["parse_error_default"] = [str(ParseError()), ParseError().message, ParseError("m").message,
                                  [c.__name__ for c in ParseError.__mro__]]
out["invalid"] = invalid

# 3. recompile histories
hist = []
ev = ExperimentEvaluator(VALID["salted"])
hist.append(state(ev))
sample = lambda e: [err(e, **r) for r in ROWS[:25]]  # noqa
hist.append(sample(ev))
for step in ["salted", "illegal_char", "illegal_char", "salted", "shared", "empty", "only_comment",
             "shared", "py_keyword_field", "noelse", "salted", "open_block", "plain"]:
    text = VALID.get(step, INVALID.get(step))
    hist.append({"step": step, "result": err(ev.recompile, text), "state": state(ev), "sample": digest(sample(ev)),
                 "first": sample(ev)[:3]})
hist.append({"kw": err(ev.recompile, source_code=VALID["zero"]), "state": state(ev), "call": err(ev, uid=1)})
hist.append({"none": err(ev.recompile, None), "state": state(ev)})
# whitespace-different but equivalent text is a different checksum
ev2 = ExperimentEvaluator(VALID["plain"])
f1 = vars(ev2)["run_experiment"]
ev2.recompile(VALID["plain"])
same_fn = vars(ev2)["run_experiment"] is f1
ev2.recompile(VALID["plain"] + "\n")
hist.append({"same_fn_after_same_text": same_fn, "new_fn_after_newline": vars(ev2)["run_experiment"] is not f1,
             "state": state(ev2)})
# two evaluators do not share state
e_a, e_b = ExperimentEvaluator(VALID["salted"]), ExperimentEvaluator(VALID["shared"])
e_a.recompile(VALID["zero"])
hist.append({"a": state(e_a), "b": state(e_b), "cls": ExperimentEvaluator._checksum,
             "cls_run": err(ExperimentEvaluator.run_experiment, None)})
# an instance that never loaded anything
blank = ExperimentEvaluator.__new__(ExperimentEvaluator)
hist.append({"blank_state": state(blank), "blank_call": err(blank, uid=1), "blank_recompile_bad": err(blank.recompile, ""),
             "blank_state2": state(blank)})
out["history"] = hist

# 4. bucketing
ids = [f"id_{i}" for i in range(400)] + ["", "é", "東京", "\x00", " " * 3, "0", "None"]
bucket = {}
for w_name, (pop, weights, cum) in {
    "uniform": (list("abcde"), None, None),
    "weighted": (["a", "b", 3, 4.5], [1, 0, 2.5, 0.25], None),
    "cum": (["a", "b", "c"], None, [1, 1, 4]),
    "tiny": (["a", "b"], [1e-300, 1e-300], None),
    "huge": (["a", "b"], [1e308, 1e308], None),
}.items():
    for salt in ["", "s1", "sél€"]:
        res = [err(deterministic_choice, salt + i, pop, weights, cum_weights=cum) for i in ids]
        bucket[f"{w_name}/{salt}"] = {"digest": digest(res), "head": res[:8]}
bucket["errors"] = [
    err(deterministic_choice, "x", ["a"], [1], cum_weights=[1]),
    err(deterministic_choice, "x", ["a", "b"], [1]),
    err(deterministic_choice, "x", ["a", "b"], [0, 0]),
    err(deterministic_choice, "x", [], None),
    err(deterministic_choice, "x", ["a"], [float("nan")]),
    err(deterministic_choice, 5, ["a"], [1]),
]
bucket["proba"] = [deterministic_proba(i) for i in ids[-10:]] + [digest([deterministic_proba(i) for i in ids])]
out["bucketing"] = bucket

# 5. stats
out["stats"] = {
    "probit": [err(probit, a) for a in (0.5, 0.975, 0.025, 0.001, 1e-12, 0.0, 1.0, 2)],
    "probit_default": probit(),
    "ci": [
        err(confidence_interval, n, p, c, m)
        for n in (1, 10, 12345)
        for p in (0.0, 0.2, 0.5, 1.0)
        for c in (0.9, 0.95, 0.999)
        for m in ("agresti-coull", "WALD", "wilson")
    ],
    "ci_default": confidence_interval(),
    "ci_zero": err(confidence_interval, 0, 0.5, 0.95, "wald"),
}

# 6. threads: calls during recompiles only ever see one of the two programs
ev = ExperimentEvaluator(VALID["salted"])
allowed = {"a", "b", 7, "t", "u", "v"}
bad = []
stop = threading.Event()


def caller():
    while not stop.is_set():
        for r in ROWS[:20]:
            try:
                v = ev(**r)
                if v not in allowed:
                    bad.append(v)
            except Exception as e:  # noqa
                bad.append(repr(e))


threads = [threading.Thread(target=caller) for _ in range(4)]
for t in threads:
    t.start()
for i in range(30):
    ev.recompile(VALID["shared"] if i % 2 == 0 else VALID["salted"])
    try:
        ev.recompile(INVALID["illegal_char"])
    except Exception:
        pass
stop.set()
for t in threads:
    t.join()
out["threads"] = {"bad": bad, "final": state(ev)}

# 7. import side effects that old code could see
import logging  # noqa: E402

out["side_effects"] = {
    "logger_registered": "pyab_experiment.experiment_evaluator" in logging.root.manager.loggerDict,
    "truthy": bool(ev), "eq_self": ev == ev, "eq_other": ev == ExperimentEvaluator(VALID["salted"]),
    "hashable": isinstance(hash(ev), int), "iter": err(iter, ev), "len": err(len, ev),
    "with": err(lambda: ev.__enter__), "repr_default": repr(ev).startswith("<pyab_experiment.experiment_evaluator.ExperimentEvaluator object at 0x"),
    "str_is_repr": str(ev) == repr(ev),
    "class_doc": digest(ExperimentEvaluator.__doc__), "recompile_doc": digest(ExperimentEvaluator.recompile.__doc__),
}

print(json.dumps(out, sort_keys=True, indent=1, default=repr, ensure_ascii=True))

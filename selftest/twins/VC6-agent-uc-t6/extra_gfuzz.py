"""Extra check (not the probe): feeds grammar-guided random token sequences and
mutations of them to the parser of HEAD and to the parser of the working tree and
compares result / error text.  usage: PYTHONPATH=/tmp/wt/UC/src python extra_gfuzz.py [seed] [n]"""
import random, sys, importlib.util
sys.path.insert(0, "/tmp/wt/UC/src")
# the grammar of HEAD, loaded next to the one of the working tree
import subprocess, tempfile, os
_src = subprocess.run(["git", "-C", "/tmp/wt/UC", "show", "HEAD:src/pyab_experiment/language/grammar.py"],
                      capture_output=True, text=True, check=True).stdout
_tmp = os.path.join(tempfile.mkdtemp(), "old_grammar.py")
open(_tmp, "w").write(_src)
spec = importlib.util.spec_from_file_location("old_grammar", _tmp)
old = importlib.util.module_from_spec(spec); spec.loader.exec_module(old)
from pyab_experiment.language.grammar import ExperimentParser as New
from pyab_experiment.language.lexer import ExperimentLexer
Old = old.ExperimentParser
rng = random.Random(int(sys.argv[1]) if len(sys.argv) > 1 else 1)
N = int(sys.argv[2]) if len(sys.argv) > 2 else 50000

class Tok:
    __slots__ = ("type", "value", "lineno", "index", "end")
    def __init__(s, t, v, l):
        s.type = t; s.value = v; s.lineno = l; s.index = 0; s.end = 0

def gen_literal():
    r = rng.random()
    if r < .3: return [("NON_NEG_INTEGER", rng.randrange(5))]
    if r < .5: return [("NON_NEG_FLOAT", rng.random())]
    if r < .8: return [("STRING_LITERAL", rng.choice("abc"))]
    if r < .9: return [("MINUS", "-"), ("NON_NEG_INTEGER", 7)]
    return [("MINUS", "-"), ("NON_NEG_FLOAT", 1.5)]
def gen_term(d):
    r = rng.random()
    if r < .4 or d > 3: return gen_literal()
    if r < .7: return [("ID", rng.choice(["x", "y", "z"]))]
    out = [("LPAREN", "(")] + gen_term(d + 1)
    for _ in range(rng.randrange(4)):
        out += [("COMMA", ",")] + gen_term(d + 1)
    return out + [("RPAREN", ")")]
OPS = ["KW_EQ", "KW_GT", "KW_LT", "KW_GE", "KW_LE", "KW_NE", "KW_IN", "KW_NOT_IN"]
def gen_pred(d):
    r = rng.random()
    if r < .45 or d > 3:
        return gen_term(0) + [(rng.choice(OPS), "op")] + gen_term(0)
    if r < .6: return [("LPAREN", "(")] + gen_pred(d + 1) + [("RPAREN", ")")]
    if r < .75: return gen_pred(d + 1) + [("KW_AND", "and")] + gen_pred(d + 1)
    if r < .9: return gen_pred(d + 1) + [("KW_OR", "or")] + gen_pred(d + 1)
    return [("KW_NOT", "not")] + gen_pred(d + 1)
def gen_ret():
    out = [("KW_RETURN", "return")]
    for i in range(rng.randrange(1, 4)):
        if i: out.append(("COMMA", ","))
        out += gen_literal() + [("KW_WEIGHTED", "weighted")] + [rng.choice([("NON_NEG_INTEGER", 2), ("NON_NEG_FLOAT", .5)])]
    return out
def gen_cond(d):
    if d > 2 or rng.random() < .4: return gen_ret()
    out = [("KW_IF", "if")] + gen_pred(0) + [("LBRACE", "{")] + gen_cond(d + 1) + [("RBRACE", "}")]
    for _ in range(rng.randrange(3)):
        out += [("KW_ELIF", "else if")] + gen_pred(0) + [("LBRACE", "{")] + gen_cond(d + 1) + [("RBRACE", "}")]
    if rng.random() < .5:
        out += [("KW_ELSE", "else"), ("LBRACE", "{")] + gen_cond(d + 1) + [("RBRACE", "}")]
    return out
def gen_prog():
    out = [("KW_DEF", "def"), ("ID", "e"), ("LBRACE", "{")]
    if rng.random() < .5: out += [("KW_SALT", "salt"), ("COLON", ":"), ("STRING_LITERAL", "s")]
    if rng.random() < .5:
        out += [("KW_SPLITTERS", "splitters"), ("COLON", ":"), ("ID", "f0")]
        for i in range(rng.randrange(3)): out += [("COMMA", ","), ("ID", f"f{i+1}")]
    return out + gen_cond(0) + [("RBRACE", "}")]
ALL = sorted(map(str, ExperimentLexer.tokens))
VAL = {"ID": "q", "NON_NEG_INTEGER": 3, "NON_NEG_FLOAT": 2.5, "STRING_LITERAL": "s"}
def mutate(seq):
    seq = list(seq)
    for _ in range(rng.choice((0, 1, 1, 1, 2, 3))):
        if not seq: break
        i = rng.randrange(len(seq)); op = rng.randrange(4)
        if op == 0: del seq[i]
        elif op == 1: seq.insert(i, seq[rng.randrange(len(seq))])
        elif op == 2:
            t = rng.choice(ALL); seq[i] = (t, VAL.get(t, t))
        else: seq = seq[:i]
    return seq
def run(P, seq):
    toks = [Tok(t, v, i + 1) for i, (t, v) in enumerate(seq)]
    try:
        r = P().parse(iter(toks))
        return ("ok", repr(r))
    except Exception as e:
        return (type(e).__name__, str(e))
ok = bad = 0
for n in range(N):
    seq = mutate(gen_prog())
    a = run(Old, seq); b = run(New, seq)
    assert a == b, (seq, a, b)
    if a[0] == "ok": ok += 1
    else: bad += 1
print("identical on", N, "sequences; accepted", ok, "rejected", bad)

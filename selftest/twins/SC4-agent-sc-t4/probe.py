"""Behaviour probe for changes to the TEXT of the generated module.

Run as:  PYTHONPATH=/tmp/wt/SC/src /venv/bin/python probe.py

The transcript deliberately contains NO generated text, no line numbers, no
docstrings and no annotations: only what calling the generated code does
(returned group, exception class and message, the order in which user objects
are touched).  It must be byte-identical before and after a change.
"""

import hashlib
import inspect
import random
import re
import sys
import threading

from pyab_experiment.data_structures.syntax_tree import (
    ConditionalType,
    ExperimentAST,
    ExperimentConditional,
    ExperimentGroup,
    Identifier,
    LogicalOperatorEnum,
    TerminalPredicate,
)
from pyab_experiment.codegen.python.python_generator import PythonCodeGen
from pyab_experiment.experiment_evaluator import ExperimentEvaluator
from pyab_experiment.utils.wraper_functions import generate_code, parse_source

OUT = []
LOG = []


def emit(*parts):
    OUT.append(" ".join(str(p) for p in parts))


def clean(text):
    text = re.sub(r"0x[0-9a-fA-F]+", "0xADDR", text)
    return text


def outcome(fn_, /, *args, **kwargs):
    """call and describe; never lets anything escape"""
    random.seed(12345)  # the key None falls back to random.choices
    del LOG[:]
    try:
        res = fn_(*args, **kwargs)
        text = "-> " + clean(repr(res)) + " :" + type(res).__name__
    except RecursionError:
        text = "!! RecursionError"
    except SyntaxError as exc:  # message and position quote the text
        text = "!! " + type(exc).__name__
    except BaseException as exc:  # noqa
        text = "!! " + type(exc).__name__ + ": " + clean(str(exc))
    if LOG:
        text += "   log=" + ",".join(LOG)
    return text


class Loud:
    """logs every touch, so that the ORDER of operations is in the transcript"""

    def __init__(self, tag, value):
        self.tag, self.value = tag, value

    def _cmp(self, name, other):
        LOG.append(f"{self.tag}.{name}")
        return getattr(self.value, name)(other)

    def __eq__(self, o):
        return self._cmp("__eq__", o)

    def __ne__(self, o):
        return self._cmp("__ne__", o)

    def __lt__(self, o):
        return self._cmp("__lt__", o)

    def __le__(self, o):
        return self._cmp("__le__", o)

    def __gt__(self, o):
        return self._cmp("__gt__", o)

    def __ge__(self, o):
        return self._cmp("__ge__", o)

    def __contains__(self, o):
        LOG.append(f"{self.tag}.__contains__")
        return o in self.value

    def __hash__(self):
        LOG.append(f"{self.tag}.__hash__")
        return hash(self.value)

    def __str__(self):
        LOG.append(f"{self.tag}.__str__")
        return str(self.value)

    def __repr__(self):
        return f"Loud({self.tag})"


class BadStr:
    def __init__(self, tag):
        self.tag = tag

    def __str__(self):
        LOG.append(f"{self.tag}.__str__")
        raise ZeroDivisionError(f"str of {self.tag}")

    def __eq__(self, o):
        LOG.append(f"{self.tag}.__eq__")
        return False

    __hash__ = None

    def __repr__(self):
        return f"BadStr({self.tag})"


class BadCmp:
    def __init__(self, tag):
        self.tag = tag

    def _boom(self, *a):
        LOG.append(f"{self.tag}.cmp")
        raise KeyError(f"cmp of {self.tag}")

    __eq__ = __ne__ = __lt__ = __le__ = __gt__ = __ge__ = __contains__ = _boom
    __hash__ = None

    def __str__(self):
        LOG.append(f"{self.tag}.__str__")
        return "badcmp"

    def __repr__(self):
        return f"BadCmp({self.tag})"


class spy:
    """a callable that reports exactly how it is called (for shadowing names)"""

    def __init__(self, tag):
        self.tag = tag

    def __call__(self, *args, **kwargs):
        LOG.append(f"{self.tag}(args={clean(repr(args))},kw={clean(repr(sorted(kwargs.items())))})")
        return spy(self.tag + "'")

    def __repr__(self):
        return f"spy({self.tag})"


PALETTE = [
    ("none", lambda n: None),
    ("empty", lambda n: ""),
    ("name", lambda n: n),
    ("zero", lambda n: 0),
    ("one", lambda n: 1),
    ("neg", lambda n: -7),
    ("huge", lambda n: 10**40),
    ("flt", lambda n: 2.5),
    ("nan", lambda n: float("nan")),
    ("inf", lambda n: float("inf")),
    ("uni", lambda n: "é中\U0001f600" + n),
    ("surrogate", lambda n: "\udc80"),
    ("nested", lambda n: ("a", ("b", (n,)))),
    ("lst", lambda n: [1, [2, n]]),
    ("bytes", lambda n: b"\x00\xff"),
    ("loud1", lambda n: Loud(n, 1)),
    ("loudx", lambda n: Loud(n, "x")),
    ("loudtuple", lambda n: Loud(n, (1, 2))),
    ("badstr", lambda n: BadStr(n)),
    ("badcmp", lambda n: BadCmp(n)),
    ("spy", lambda n: spy(n)),
    ("type", lambda n: str),
]


def param_names(fn):
    try:
        sig = inspect.signature(fn)
    except (TypeError, ValueError):
        return None
    return [
        p.name
        for p in sig.parameters.values()
        if p.kind in (p.POSITIONAL_OR_KEYWORD, p.KEYWORD_ONLY, p.POSITIONAL_ONLY)
    ]


def describe_signature(fn):
    sig = inspect.signature(fn)
    return ",".join(
        f"{p.name}/{p.kind.name}/{'req' if p.default is p.empty else 'opt'}"
        for p in sig.parameters.values()
    )


def exercise(label, fn, keyed=True):
    """drive one generated function through the palette"""
    names = param_names(fn)
    if names is None:
        emit(label, "not introspectable", clean(repr(type(fn))))
        return
    emit(label, "signature", describe_signature(fn))
    for pname, make in PALETTE:
        kwargs = {n: make(n) for n in names}
        emit(label, "kw", pname, outcome(fn, **kwargs))
    # mixed: every field a different palette entry
    for shift in range(0, len(PALETTE), 5):
        kwargs = {
            n: PALETTE[(i * 3 + shift) % len(PALETTE)][1](n)
            for i, n in enumerate(names)
        }
        emit(label, "mixed", shift, outcome(fn, **kwargs))
    # positional, extra, missing, duplicate
    emit(label, "positional", outcome(fn, *[n for n in names]))
    emit(label, "positional+1", outcome(fn, *([n for n in names] + ["extra"])))
    emit(label, "extra-kw", outcome(fn, **{**{n: n for n in names}, "zz_extra": 1, "_": 2}))
    emit(
        label,
        "extra-kw-helpers",
        outcome(
            fn,
            **{
                **dict(
                    partial=spy("P"),
                    deterministic_choice=spy("D"),
                    choose_experiment_variant=spy("C"),
                    salt=spy("S"),
                    splitters=spy("SP"),
                    weighted=spy("W"),
                    key=1,
                    Any=2,
                    Callable=3,
                    annotations=4,
                    input_id="i",
                    population=[],
                    weights=[],
                ),
                **{n: n for n in names},
            },
        ),
    )
    emit(label, "no-args", outcome(fn))
    for n in names:
        emit(
            label,
            "missing",
            n,
            outcome(fn, **{m: m for m in names if m != n}),
        )
    if names:
        emit(label, "dup", outcome(fn, names[0], **{n: n for n in names}))
    # a spread of string keys, to pin the bucketing itself
    if keyed:
        picks = []
        for i in range(40):
            random.seed(i)
            try:
                picks.append(
                    clean(repr(fn(**{n: (f"{n}-{i}", i, i % 3, -i)[(i + j) % 4] for j, n in enumerate(names)})))
                )
            except BaseException as exc:  # noqa
                picks.append(type(exc).__name__)
        emit(label, "spread", hashlib.md5("|".join(picks).encode()).hexdigest(), picks[:6])


def load_text(text):
    """execute generated text the way a generated FILE is executed"""
    ns = {"__name__": "generated_module"}
    exec(compile(text, "<generated>", "exec"), ns)
    return ns


def run_source(label, source):
    try:
        ast = parse_source(source)
    except BaseException as exc:  # noqa
        emit(label, "parse", "!!", type(exc).__name__)
        return
    if ast is None:
        emit(label, "parse", "None")
    fn_name = getattr(ast, "id", None)
    # the two layouts, through black (generate_code) and raw (PythonCodeGen)
    for expose in (False, True):
        for style in ("black", "raw", "raw-2sp", "raw-1sp"):
            tag = f"{label}[expose={expose},{style}]"
            try:
                if style == "black":
                    text = generate_code(source, expose)
                else:
                    indent = {"raw": "\t", "raw-2sp": "  ", "raw-1sp": " "}[style]
                    text = PythonCodeGen(
                        parse_source(source),
                        indentation_char=indent,
                        expose_experiment_variant_function=expose,
                    ).generate()
            except BaseException as exc:  # noqa
                emit(tag, "generate !!", type(exc).__name__)
                continue
            try:
                ns = load_text(text)
            except SyntaxError as exc:
                emit(tag, "load !!", type(exc).__name__)
                continue
            except BaseException as exc:  # noqa
                emit(tag, "load !!", type(exc).__name__, clean(str(exc)))
                continue
            fn = ns.get(fn_name)
            emit(
                tag,
                "defines",
                fn_name in ns,
                "helper-at-root",
                "choose_experiment_variant" in ns,
                "main-is-function",
                inspect.isfunction(fn),
            )
            if style in ("raw-2sp", "raw-1sp"):
                # same text modulo indentation: a light check is enough
                names = param_names(fn) or []
                emit(tag, "kw name", outcome(fn, **{n: n for n in names}))
                emit(tag, "kw loud", outcome(fn, **{n: Loud(n, 1) for n in names}))
                continue
            exercise(tag, fn)
            if expose and "choose_experiment_variant" in ns:
                helper = ns["choose_experiment_variant"]
                if helper is not fn:
                    exercise(tag + ".helper", helper, keyed=False)
                    names = param_names(helper) or []
                    chooser = None
                    try:
                        chooser = helper(**{n: n for n in names})
                    except BaseException as exc:  # noqa
                        emit(tag, "helper call !!", type(exc).__name__)
                    if chooser is not None:
                        emit(tag, "helper result type", type(chooser).__name__)
                        for key in (None, "", "k", "é", 5, b"k"):
                            emit(tag, "helper()(key)", repr(key), outcome(chooser, key))
                        emit(
                            tag,
                            "helper()(input_id=)",
                            outcome(chooser, input_id="k"),
                        )
    # the evaluator path
    tag = f"{label}[evaluator]"
    try:
        ev = ExperimentEvaluator(source)
    except SyntaxError as exc:
        emit(tag, "construct !!", type(exc).__name__)
        return
    except BaseException as exc:  # noqa
        emit(tag, "construct !!", type(exc).__name__, clean(str(exc)))
        return
    fn = ev.run_experiment
    emit(tag, "run_experiment is function", inspect.isfunction(fn))
    exercise(tag, fn)
    names = param_names(fn) or []
    emit(tag, "__call__", outcome(ev, **{n: n for n in names}))
    emit(tag, "__call__ positional", outcome(ev, *names))
    emit(
        tag,
        "instance dict keys",
        sorted(vars(ev)),
        "class checksum",
        repr(ExperimentEvaluator._checksum),
    )


FIELD_NAMES = [
    "a",
    "str",
    "map",
    "partial",
    "deterministic_choice",
    "choose_experiment_variant",
    "ExperimentConditionalFailedError",
    "kwargs",
    "key",
    "chooser",
    "composite_key",
    "variant",
    "Any",
    "Callable",
    "Union",
    "Optional",
    "annotations",
    "object",
    "int",
    "float",
    "typing",
    "functools",
    "pyab_experiment",
    "input_id",
    "population",
    "weights",
    "self",
    "cls",
    "_",
    "__",
    "__x",
    "__doc__",
    "__name__",
    "__builtins__",
    "__class__",
    "__debug__",
    "__annotations__",
    "None",
    "True",
    "class",
    "lambda",
    "match",
    "type",
    "print",
    "globals",
    "locals",
    "exp",
    "result",
    "fields",
    "_key",
    "_salt",
    "Salt",
    "SALT",
    "salty",
    "splitter",
    "weight",
    "weighted_",
    "T",
    "join",
]

SOURCES = {}


def add(name, text):
    SOURCES[name] = text


add("plain", 'def exp { return "a" weighted 1, "b" weighted 3 }')
add("plain-one", "def exp { return 1 weighted 1 }")
add("salt-only", 'def exp { salt: "s" return "a" weighted 1, "b" weighted 3 }')
add("split-only", 'def exp { splitters: u return "a" weighted 1, "b" weighted 3 }')
add(
    "salt-split",
    'def exp { salt: "s1" splitters: u, v return "a" weighted 1, "b" weighted 3, -2 weighted 2, 1.5 weighted 0 }',
)
add("empty-salt", 'def exp { salt: "" splitters: u return "a" weighted 1, "b" weighted 1 }')
add(
    "odd-salt",
    "def exp { salt: \"it's {x} \\\\ \\n %s é\U0001f600 ''' #\" splitters: u return 'a' weighted 1, 'b' weighted 1 }",
)
add("dq-salt", "def exp { salt: '\"\"\"' splitters: u return 'a' weighted 1, 'b' weighted 1 }")
add("dup-split", 'def exp { splitters: b, a, b, a return "a" weighted 1, "b" weighted 1 }')
add(
    "cond",
    """def exp { salt: "s" splitters: u
      if c == 1 { return "one" weighted 1, "uno" weighted 1 }
      else if c in (2, 3, (4, d), "x") { return "many" weighted 1 }
      else if not d > 4 and e != 'q' or u <= 0 { return "d" weighted 2, "dd" weighted 1 } }""",
)
add(
    "cond-else",
    """def exp { splitters: u, c
      if c not in (u, 1.5, -1) { if u >= 10 { return "big" weighted 1 } else { return "small" weighted 1, "s2" weighted 1 } }
      else { return "in" weighted 1 } }""",
)
add("cond-nokey", 'def exp { if c == 1 { return "one" weighted 1, "uno" weighted 1 } }')
add("zero-weights", 'def exp { splitters: u return "a" weighted 0, "b" weighted 0 }')
add(
    "inf-weights",
    'def exp { splitters: u return "a" weighted 1'
    + "9" * 308
    + '.0, "b" weighted 1'
    + "9" * 308
    + ".0 }",
)
add("huge-lit", "def exp { splitters: u if c > " + "9" * 400 + '.0 { return "a" weighted 1 } else { return -' + "9" * 60 + " weighted 1 } }")
add("id-is-field", 'def exp { splitters: exp if exp == 1 { return "a" weighted 1 } else { return "b" weighted 1 } }')
for special in (
    "choose_experiment_variant",
    "partial",
    "deterministic_choice",
    "ExperimentConditionalFailedError",
    "Any",
    "Callable",
    "annotations",
    "str",
    "map",
    "kwargs",
    "class",
    "__debug__",
    "None",
):
    add(f"id={special}", f'def {special} {{ salt: "s" splitters: u if c == 1 {{ return "a" weighted 1, "b" weighted 1 }} }}')
    add(f"id={special},plain", f'def {special} {{ return "a" weighted 1 }}')
for fld in FIELD_NAMES:
    add(
        f"split={fld}",
        f'def exp {{ salt: "s" splitters: {fld}, u return "a" weighted 1, "b" weighted 1, "c" weighted 1 }}',
    )
    add(
        f"cond={fld}",
        f'def exp {{ salt: "s" splitters: u if {fld} == 1 {{ return "a" weighted 1, "b" weighted 1 }} else if {fld} in (1, u) {{ return "t" weighted 1 }} }}',
    )
    add(
        f"both={fld}",
        f'def exp {{ splitters: {fld} if {fld} == "{fld}" {{ return "a" weighted 1, "b" weighted 1 }} else {{ return "c" weighted 1 }} }}',
    )
# words the lexer reserves: these never reach the generator
for kw in ("salt", "splitters", "weighted", "elseif", "in", "not", "def", "return"):
    add(f"reserved-split={kw}", f'def exp {{ splitters: {kw} return "a" weighted 1 }}')
    add(f"reserved-cond={kw}", f'def exp {{ if {kw} == 1 {{ return "a" weighted 1 }} }}')
    add(f"reserved-id={kw}", f'def {kw} {{ return "a" weighted 1 }}')
add("bad-lex", "def exp { return $ }")
add("bad-parse", "def exp { return }")
add("empty", "")


def hand_made():
    """ASTs that no source text can produce: fields named after DSL keywords"""
    groups = [
        ExperimentGroup(group_definition="a", group_weight=1),
        ExperimentGroup(group_definition="b", group_weight=1),
    ]
    for split, cond in (
        (["salt"], "c"),
        (["splitters"], "c"),
        (["weighted"], "c"),
        (["salt", "splitters", "weighted"], "salt"),
        (["u"], "salt"),
        (["u"], "splitters"),
        (["u"], "weighted"),
        (["weighted"], "weighted"),
        (None, "salt"),
        ([], "c"),
        (["é"], "ü"),
    ):
        for salt in (None, "", "s"):
            for expose in (False, True):
                ast = ExperimentAST(
                    id="exp",
                    splitting_fields=split,
                    salt=salt,
                    conditions=ExperimentConditional(
                        conditional_type=ConditionalType.IF,
                        predicate=TerminalPredicate(
                            left_term=Identifier(name=cond),
                            logical_operator=LogicalOperatorEnum.NE,
                            right_term=(1, Identifier(name=cond)),
                        ),
                        true_branch=groups,
                        false_branch=None,
                    ),
                )
                tag = f"hand[{split},{cond},{salt!r},expose={expose}]"
                try:
                    text = PythonCodeGen(
                        ast, expose_experiment_variant_function=expose
                    ).generate()
                    ns = load_text(text)
                except BaseException as exc:  # noqa
                    emit(tag, "!!", type(exc).__name__)
                    continue
                exercise(tag, ns["exp"])


def histories():
    good1 = SOURCES["cond"]
    good2 = SOURCES["salt-split"]
    good3 = 'def other { splitters: u return "z" weighted 1, "y" weighted 1 }'
    bad_parse = SOURCES["bad-parse"]
    bad_lex = SOURCES["bad-lex"]
    bad_py = 'def exp { splitters: class return "a" weighted 1 }'
    bad_dup = 'def exp { splitters: kwargs return "a" weighted 1 }'
    calls = [
        dict(u="u1", c=1, d=2, e=3),
        dict(u="u1", v="v1"),
        dict(u=Loud("u", 5), c=Loud("c", 9), d=Loud("d", 1), e=Loud("e", "q")),
        dict(),
    ]

    def show(tag, ev):
        for i, kw in enumerate(calls):
            emit(tag, "call", i, outcome(ev, **kw))
        emit(tag, "state", sorted(vars(ev)), repr(ev._checksum), repr(ExperimentEvaluator._checksum))

    plans = [
        [good1, bad_parse, good1, bad_parse, good2, bad_py, good2, good1],
        [good2, bad_lex, bad_dup, "", good3, good3, bad_py, bad_py, good1],
        [bad_py, good1],
        [bad_parse, good1],
    ]
    for p, plan in enumerate(plans):
        ev = None
        for s, src in enumerate(plan):
            tag = f"history[{p}.{s}]"
            if ev is None:
                try:
                    ev = ExperimentEvaluator(src)
                    emit(tag, "construct ok")
                except BaseException as exc:  # noqa
                    emit(tag, "construct !!", type(exc).__name__)
                    continue
            else:
                emit(tag, "recompile", outcome(ev.recompile, src))
            show(tag, ev)
    # two evaluators never share anything
    one, two = ExperimentEvaluator(good1), ExperimentEvaluator(good2)
    one.recompile(good3)
    show("history[two-after-one-recompiled]", two)
    show("history[one]", one)
    # None / non-text sources
    for bad in (None, 5, b"def"):
        emit("history[non-text]", repr(bad), outcome(ExperimentEvaluator, bad))


def threads():
    ev = ExperimentEvaluator(SOURCES["cond"])
    text = generate_code(SOURCES["cond"], True)
    fn = load_text(text)["exp"]
    results = {}

    def work(slot):
        mine = []
        for i in range(300):
            kw = dict(u=f"u{i}", c=i % 5, d=i % 7, e="q" if i % 2 else "r")
            for f in (ev, fn):
                try:
                    mine.append(repr(f(**kw)))
                except BaseException as exc:  # noqa
                    mine.append(type(exc).__name__)
        results[slot] = hashlib.md5("|".join(mine).encode()).hexdigest()

    ts = [threading.Thread(target=work, args=(k,)) for k in range(6)]
    for t in ts:
        t.start()
    for t in ts:
        t.join()
    emit("threads", sorted(set(results.values())), len(results))


def standalone():
    """the generated text saved as a FILE and imported by a fresh interpreter that
    has imported nothing of the library before: result, and which modules of the
    library (and which standard modules it needs) are loaded afterwards"""
    import os
    import subprocess
    import tempfile

    child = (
        "import sys, random\n"
        "before = set(sys.modules)\n"
        "import generated_experiment as g\n"
        "random.seed(3)\n"
        "out = []\n"
        "for kw in (dict(u='u1', c=1, d=2, e=3), dict(u='u2', c=9, d=1, e='z'), dict(u=0, c=9, d=9, e='q')):\n"
        "    try:\n"
        "        out.append(repr(g.exp(**kw)))\n"
        "    except BaseException as exc:\n"
        "        out.append(type(exc).__name__)\n"
        "print(out)\n"
        "new = sorted(m for m in set(sys.modules) - before if m.split('.')[0] in ('pyab_experiment', 'generated_experiment'))\n"
        "print(new)\n"
        "print(sorted(n for n, v in vars(g).items() if getattr(v, '__module__', None) == 'generated_experiment'))\n"
        "print([n in vars(g) for n in ('partial', 'deterministic_choice', 'ExperimentConditionalFailedError')])\n"
    )
    for name in ("cond", "salt-split", "plain"):
        for expose in (False, True):
            for style in ("black", "raw"):
                if style == "black":
                    text = generate_code(SOURCES[name], expose)
                else:
                    text = PythonCodeGen(
                        parse_source(SOURCES[name]),
                        expose_experiment_variant_function=expose,
                    ).generate()
                with tempfile.TemporaryDirectory() as tmp:
                    with open(os.path.join(tmp, "generated_experiment.py"), "w") as fp:
                        fp.write(text)
                    env = dict(os.environ)
                    env["PYTHONPATH"] = tmp + os.pathsep + env.get("PYTHONPATH", "")
                    env["PYTHONDONTWRITEBYTECODE"] = "1"
                    for flags in ([], ["-OO"]):
                        res = subprocess.run(
                            [sys.executable, *flags, "-c", child],
                            env=env,
                            capture_output=True,
                            text=True,
                        )
                        emit(
                            f"standalone[{name},expose={expose},{style},{flags}]",
                            res.returncode,
                            res.stdout.strip().replace("\n", " / "),
                            res.stderr.strip()[-200:],
                        )


def process_wide():
    import builtins

    emit(
        "process-wide",
        "recursionlimit",
        sys.getrecursionlimit(),
        "switchinterval",
        sys.getswitchinterval(),
        "builtins",
        hashlib.md5(",".join(sorted(vars(builtins))).encode()).hexdigest(),
        "evaluator-module-names",
        sorted(
            n
            for n in vars(sys.modules["pyab_experiment.experiment_evaluator"])
            if not n.startswith("__")
        ),
        "binning-names",
        sorted(
            n
            for n in vars(sys.modules["pyab_experiment.binning.binning"])
            if not n.startswith("__")
        ),
    )


def instrument():
    """The key may contain the address of a function (a field named like the nested
    helper is overwritten by it): hash the key with addresses masked, and put the
    exact key that reaches the hash into the log.  Same wrapper before and after."""
    import pyab_experiment.binning.binning as binning

    original = binning.deterministic_proba

    def deterministic_proba(input_string):
        LOG.append("key=" + clean(ascii(input_string)))
        if isinstance(input_string, str):
            input_string = clean(input_string)
        return original(input_string)

    binning.deterministic_proba = deterministic_proba


def main():
    process_wide()
    instrument()
    for name, source in SOURCES.items():
        run_source(name, source)
    hand_made()
    standalone()
    histories()
    threads()
    process_wide()
    sys.stdout.write("\n".join(OUT) + "\n")
    sys.stdout.write(
        "TRANSCRIPT-MD5 "
        + hashlib.md5("\n".join(OUT).encode("utf-8", "backslashreplace")).hexdigest()
        + f" lines={len(OUT)}\n"
    )


if __name__ == "__main__":
    sys.setrecursionlimit(1000)
    try:
        sys.stdout.reconfigure(encoding="utf-8", errors="backslashreplace")
    except Exception:  # noqa
        pass
    main()

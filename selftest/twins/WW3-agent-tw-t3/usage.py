"""Exercises the new unparser: parse -> unparse -> parse is the identity on trees."""

import importlib.util
import os

from pyab_experiment.data_structures.syntax_tree import (
    BooleanOperatorEnum,
    ConditionalType,
    ExperimentAST,
    ExperimentConditional,
    ExperimentGroup,
    Identifier,
    LogicalOperatorEnum,
    RecursivePredicate,
    TerminalPredicate,
)
from pyab_experiment.experiment_evaluator import ExperimentEvaluator
from pyab_experiment.language.unparse import UnparseError, unparse
from pyab_experiment.utils.wraper_functions import generate_code, parse_source

# reuse the probe's corpus of tricky programs
spec = importlib.util.spec_from_file_location(
    "probe", os.path.join(os.path.dirname(os.path.abspath(__file__)), "probe.py"))
probe = importlib.util.module_from_spec(spec)
spec.loader.exec_module(probe)

round_trips, refused = 0, []
for name, text in probe.PROGRAMS.items():
    try:
        ast = parse_source(text)
    except Exception:
        continue
    if ast is None:
        continue
    try:
        again = unparse(ast)
    except UnparseError:
        refused.append(name)
        continue
    back = parse_source(again)
    assert back == ast and repr(back) == repr(ast), (name, again)
    assert unparse(back) == again, name  # a fixed point
    for flag in (False, True):
        try:
            expected = generate_code(text, flag)
        except Exception as e:  # e.g. python keyword as a field: same failure both ways
            try:
                generate_code(again, flag)
            except Exception as e2:
                assert type(e) is type(e2)
            else:
                raise AssertionError(name)
        else:
            assert generate_code(again, flag) == expected, name
    round_trips += 1
# a decimal too large for a float is read as inf: it has no spelling
assert sorted(refused) == ["big_numbers", "big_weight"], refused
assert round_trips > 55, round_trips

src = """def demo { salt: 'it"s' splitters: uid, country
  if not (a == 1 or b in (1, ("x", c), -2.5)) and d not in (7) or e >= 0.0000001 {
     if f == "it's" { return "a" weighted 1, -3 weighted 2.5 } }
  else if g < 100000000000000000000000.0 { return 'x' weighted 0 }
  else { return "d" weighted 1 } }"""
text = unparse(parse_source(src), indent="  ")
print(text)
assert text.startswith("def demo {\n  salt: 'it\"s'\n  splitters: uid, country\n  if ((not (a == 1 or b in")
assert "} else if g < 100000000000000000000000.0 {" in text and "e >= 0.0000001" in text
assert parse_source(text) == parse_source(src)
ev1, ev2 = ExperimentEvaluator(src), ExperimentEvaluator(text)
kw = dict(a=2, b=0, c=0, d=1, e=0, f="it's", g=1, country="x")
assert [ev1(uid=i, **kw) for i in range(200)] == [ev2(uid=i, **kw) for i in range(200)]


def refuses(tree):
    try:
        unparse(tree)
    except UnparseError as e:
        assert isinstance(e, ValueError)
        return True
    return False


def flat(group=("a", 1), **kw):
    base = dict(id="x", splitting_fields=None, salt=None,
                conditions=[ExperimentGroup(group_definition=group[0], group_weight=group[1])])
    base.update(kw)
    return ExperimentAST(**base)


assert unparse(flat()) == 'def x {\n    return "a" weighted 1.0\n}\n'
assert refuses(flat(("both ' and \"", 1)))
assert refuses(flat(("new\nline", 1)))
assert refuses(flat((float("inf"), 1)))
assert refuses(flat((float("nan"), 1)))
assert refuses(flat(("a", -0.0)))
assert refuses(flat(id="if"))
assert refuses(flat(id="elseif"))
assert refuses(flat(id="a b"))
assert refuses(flat(id="café"))
assert refuses(flat(splitting_fields=[]))
assert refuses(flat(splitting_fields=["ok", "not"]))
assert refuses(flat(salt="a'b\"c"))
assert refuses(flat(conditions=[]))
assert unparse(flat(id="iffy", salt="", splitting_fields=["android"])) == (
    'def iffy {\n    salt: ""\n    splitters: android\n    return "a" weighted 1.0\n}\n')
cmp_ = TerminalPredicate(left_term=Identifier(name="a"), logical_operator=LogicalOperatorEnum.EQ, right_term=())
leaf = [ExperimentGroup(group_definition=1, group_weight=1)]
cond = ExperimentConditional(conditional_type=ConditionalType.IF, predicate=cmp_, true_branch=leaf, false_branch=None)
assert refuses(flat(conditions=cond))  # empty tuple
ok = TerminalPredicate(left_term=Identifier(name="a"), logical_operator=LogicalOperatorEnum.EQ, right_term=True)
assert refuses(flat(conditions=cond.copy(update={"predicate": ok})))  # bool literal
ok = ok.copy(update={"right_term": 1})
bad_not = RecursivePredicate(left_predicate=ok, boolean_operator=BooleanOperatorEnum.NOT, right_predicate=ok)
assert refuses(flat(conditions=cond.copy(update={"predicate": bad_not})))
bad_and = RecursivePredicate(left_predicate=ok, boolean_operator=BooleanOperatorEnum.AND, right_predicate=None)
assert refuses(flat(conditions=cond.copy(update={"predicate": bad_and})))
assert refuses(flat(conditions=cond.copy(update={"conditional_type": ConditionalType.ELIF, "predicate": ok})))
assert refuses(flat(conditions=cond.copy(update={"predicate": ok, "false_branch": leaf})))
good = cond.copy(update={"predicate": ok})
assert unparse(flat(conditions=good)) == "def x {\n    if a == 1 {\n        return 1 weighted 1.0\n    }\n}\n"
print("usage ok", round_trips)
odd = ExperimentGroup.construct(group_definition=(1, 2), group_weight=1)
assert refuses(ExperimentAST.construct(id="x", splitting_fields=None, salt=None, conditions=[odd]))

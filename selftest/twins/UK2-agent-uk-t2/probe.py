"""Differential probe: prints a deterministic JSON summary of the observable
behaviour of pyab_experiment.  Run with
    PYTHONPATH=/tmp/wt/UK/src /venv/bin/python probe.py
The output must be byte-identical with and without the patch."""

import hashlib
import json
import math
import random
import threading
from enum import Enum

from pyab_experiment.binning.binning import deterministic_choice, deterministic_proba
from pyab_experiment.codegen.python.custom_exceptions import (
    ExperimentConditionalFailedError,
)
from pyab_experiment.codegen.python.python_generator import PythonCodeGen
from pyab_experiment.data_structures import syntax_tree as st
from pyab_experiment.experiment_evaluator import ExperimentEvaluator, ParseError
from pyab_experiment.language.grammar import ExperimentParser
from pyab_experiment.language.lexer import ExperimentLexer
from pyab_experiment.utils.stats import confidence_interval, probit
from pyab_experiment.utils.wraper_functions import generate_code, parse_source

OUT = {}


def err(e):
    return [type(e).__name__, str(e)]


def guarded(fn, *a, **k):
    try:
        return ["ok", fn(*a, **k)]
    except BaseException as e:  # noqa
        return ["err"] + err(e)


def shape(v):
    """type-annotated structure of an AST value"""
    if isinstance(v, st.BaseModel):
        return {
            "__model__": type(v).__name__,
            **{k: shape(getattr(v, k)) for k in v.__fields__},
        }
    if isinstance(v, Enum):
        return f"{type(v).__name__}.{v.name}={v.value}"
    if isinstance(v, (list, tuple)):
        return [type(v).__name__, [shape(x) for x in v]]
    return [type(v).__name__, repr(v)]


VALID = {
    "basic": 'def basic{ return "A" weighted 0.5, "B" weighted 0.5 }',
    "one": "def one{ return 1 weighted 1 }",
    "poly": "def poly{ splitters: uid return 1 weighted 1, 2.5 weighted 2, 'x' weighted 3.0, -4 weighted 0, -0.5 weighted 7 }",
    "salted": 'def salted{ salt: "s\'a\\\\lt" splitters: uid, other return "A" weighted 1, "B" weighted 3 }',
    "salt_only": "def salt_only{ salt: 'zz' return 'A' weighted 1, 'B' weighted 1 }",
    "kwprefix": "def define_x{ splitters: iffy, inner, notable, orchid, android, elsewhere, returned, salty, splitters_x, weighted_by, defx "
    "if iffy == 1 and inner != 'q' or not notable in (1, 2) { return 'kw' weighted 1 } "
    "else if orchid not   in (3) or android>=elsewhere { return 'kw2' weighted 2, 'kw3' weighted 1 } "
    "else { return 'kw4' weighted 1 } }",
    "cmp": "def cmp{ splitters: uid if a < 1 { return 'lt' weighted 1 } else if a <= 2 { return 'le' weighted 1 } "
    "else if a == 3 { return 'eq' weighted 1 } else if a != 5 and a>=6 { return 'ge' weighted 1 } "
    "else if a > 4 { return 'gt' weighted 1 } else if a in (4, 4.0) { return 'in' weighted 1 } "
    "else if a not in (9, 10) { return 'notin' weighted 1 } }",
    "tuples": "def tuples{ splitters: uid if f in (1, (2, 3), ('a', (b, -4.5)), \"s\") { return 't' weighted 1 } "
    "else if (f, 1) == (g, 1) { return 'pair' weighted 1 } else if f in (g) { return 'single' weighted 1 } "
    "else { return 'none' weighted 1 } }",
    "comments": "/* head \n multi */ def comments{ // inline \n salt: 'x' /* in */ splitters: uid // tail\n"
    " if a == 'b' /* c */ { return 'y' weighted 1 // z\n } else { return 'n' weighted 2 } } /* end */",
    "quotes": "def quotes{ splitters: uid if s == \"it's\" or s == 'say \"hi\"' or s == 'back\\\\slash\\n' or s == '' "
    "{ return \"q'1\" weighted 1, 'q\"2' weighted 1 } else { return '\\\\' weighted 1 } }",
    "unicode": "def unicode{ salt: 'sél' splitters: uid if name == 'héllo wörld ☃' or name in ('日本', 'Ω') "
    "{ return 'ünï' weighted 1, '☃' weighted 2 } else { return 'plain' weighted 1 } }",
    "nested": "def nested{ splitters: uid if a == 1 { if b == 2 { if c == 3 { return 'abc' weighted 1 } "
    "else if c == 4 { return 'ab4' weighted 1 } } else { return 'a_' weighted 1 } } "
    "else if a == 2 { return 'two' weighted 1, 'deux' weighted 1 } }",
    "precedence": "def precedence{ if a == 1 or b == 2 and not c == 3 or (d == 4 or e == 5) and not (f == 6 and g == 7) "
    "{ return 'T' weighted 1 } else { return 'F' weighted 1 } }",
    "notnot": "def notnot{ if not not a == 1 { return 'T' weighted 1 } else { return 'F' weighted 1 } }",
    "literal_cmp": "def literal_cmp{ if 1 == 1.0 and 'a' != 'b' and -3 < -2.5 { return 'T' weighted 1 } }",
    "zip": "def zip{ splitters: uid if code == '02134' or n == 18 or x == 18.0 or y == 007 { return 'z' weighted 1 } "
    "else { return 18 weighted 1, 18.0 weighted 1, '18' weighted 1 } }",
    "bigfloat": "def bigfloat{ if x < " + "9" * 400 + ".0 and y > -" + "9" * 400 + ".5 and z == " + "1" * 40
    + " { return 'ok' weighted 1 } else { return 0.000000000000000000001 weighted 1 } }",
    "shared": "def shared{ splitters: uid, region if region == 'eu' and uid != 'x' { return 'E' weighted 1, 'F' weighted 1 } "
    "else { return 'R' weighted 1 } }",
    "zero_w": "def zero_w{ splitters: uid return 'never' weighted 0, 'always' weighted 2, 'no' weighted 0.0 }",
    "all_zero": "def all_zero{ splitters: uid return 'a' weighted 0, 'b' weighted 0 }",
    "else_only_if": "def else_only_if{ if a in b { return 1 weighted 1 } }",
    "elseif_spacing": "def elseif_spacing{ if a == 1 { return 1 weighted 1 } elseif a == 2 { return 2 weighted 1 } "
    "else\n\tif a == 3 { return 3 weighted 1 } else{ return 4 weighted 1 } }",
    "kwargs_field": "def kwargs_field{ splitters: kwargs_ if self == cls { return 'same' weighted 1 } else { return 'diff' weighted 1 } }",
    "ident_ids": "def _under9{ splitters: _a, A9, __ if _a == A9 { return 'u' weighted 1 } else { return 'v' weighted 1 } }",
}

INVALID = {
    "empty": "",
    "ws": "  \n ",
    "comment_only": "/* nothing */ // x",
    "no_body": "def x{ }",
    "no_return": "def x{ splitters: a }",
    "salt_after": "def x{ splitters: a salt: 's' return 1 weighted 1 }",
    "neg_weight": "def x{ return 1 weighted -1 }",
    "str_weight": "def x{ return 1 weighted '1' }",
    "id_group": "def x{ return a weighted 1 }",
    "tuple_group": "def x{ return (1,2) weighted 1 }",
    "trailing_comma": "def x{ return 1 weighted 1, }",
    "kw_name": "def if{ return 1 weighted 1 }",
    "kw_field": "def x{ splitters: in return 1 weighted 1 }",
    "else_first": "def x{ else { return 1 weighted 1 } }",
    "double_else": "def x{ if a==1 { return 1 weighted 1 } else { return 2 weighted 1 } else { return 3 weighted 1 } }",
    "elif_after_else": "def x{ if a==1 { return 1 weighted 1 } else { return 2 weighted 1 } else if a==2 { return 3 weighted 1 } }",
    "empty_tuple": "def x{ if a in () { return 1 weighted 1 } }",
    "bare_pred": "def x{ if a { return 1 weighted 1 } }",
    "chained_cmp": "def x{ if 1 < a < 3 { return 1 weighted 1 } }",
    "illegal_char": "def x{ return 1 weighted 1 } $",
    "illegal_char2": "def x{ if a = 1 { return 1 weighted 1 } }",
    "semicolon": "def x{ return 1 weighted 1; }",
    "unterminated_str": "def x{ return 'abc weighted 1 }",
    "multiline_str": "def x{ return 'ab\nc' weighted 1 }",
    "unterminated_comment": "def x{ return 1 weighted 1 } /* never closed",
    "two_defs": "def x{ return 1 weighted 1 } def y{ return 1 weighted 1 }",
    "float_dot": "def x{ return 1 weighted 1. }",
    "dot_float": "def x{ return 1 weighted .5 }",
    "exp_float": "def x{ return 1 weighted 1e3 }",
    "missing_brace": "def x{ return 1 weighted 1",
    "missing_weight": "def x{ return 1 }",
    "notin_joined": "def x{ if a notin (1,2) { return 1 weighted 1 } }",
    "upper_kw": "def x{ IF a == 1 { return 1 weighted 1 } }",
    "non_ascii_id": "def é{ return 1 weighted 1 }",
    "minus_str": "def x{ return -'a' weighted 1 }",
    "double_minus": "def x{ return --1 weighted 1 }",
    "line3": "def x{\n\n  if a == 1 {\n return }\n}",
    "huge_weight": "def x{ splitters: uid return 1 weighted " + "9" * 400 + ".0, 2 weighted 1 }",
}

IDS = [None, "", "a", "id_1", "id_2", "héllo", "☃", 0, 1, -1, 3.5, "x" * 50] + [f"u{i}" for i in range(40)]

KW = dict(
    iffy=1, inner="q", notable=3, orchid=3, android=2, elsewhere=1, returned=0, salty=0, splitters_x=0,
    weighted_by=0, defx=0, a=3, b=2, c=3, d=4, e=0, f=(2, 3), g=(2, 3), s="it's", name="日本", code="02134",
    n=0, x=0, y=7, z=int("1" * 40), region="eu", other="o", kwargs_="k", self=1, cls=1, _a=1, A9=1, __=2,
)


def run_fn(fn, extra):
    res = []
    for uid in IDS:
        kw = dict(KW)
        kw.update(extra)
        kw["uid"] = uid
        random.seed(f"{uid!r}")  # programs without splitters draw from random
        r = guarded(fn, **kw)
        res.append(r if uid is not None or r[0] == "err" else ["random", type(r[1]).__name__])
    return res


VARIANTS = [{}, {"a": 1, "b": 2, "c": 4, "iffy": 0, "notable": 1, "f": "s", "s": "", "name": "zz", "code": 2134, "region": "us"},
            {"a": 4.0, "f": ("a", (1, -4.5)), "b": 1, "x": -math.inf, "y": math.inf, "s": "back\\slash\n", "a_": 0},
            {"a": 9, "f": 5, "g": 5, "b": (9,), "n": 18, "_a": 2}, {"a": 2, "c": 3}, {"a": 5}, {"a": 6}]


def programs():
    out = {}
    for name, text in VALID.items():
        entry = {}
        ast = parse_source(text)
        entry["repr"] = repr(ast)
        entry["json"] = ast.json()
        entry["shape"] = shape(ast)
        for expose in (True, False):
            gen = PythonCodeGen(parse_source(text), expose_experiment_variant_function=expose)
            raw = gen.generate()
            entry[f"raw_{expose}"] = raw
            entry[f"vars_{expose}"] = [gen.local_vars, gen.conditional_ids, gen._indent_depth]
            entry[f"raw2_{expose}"] = hashlib.md5(gen.generate().encode()).hexdigest()
            spaces = PythonCodeGen(parse_source(text), "  ", expose).generate()
            entry[f"spaces_{expose}"] = hashlib.md5(spaces.encode()).hexdigest()
            code = generate_code(text, expose)
            entry[f"code_{expose}"] = code
            ns = {}
            exec(compile(code, "<probe>", "exec"), ns)
            entry[f"names_{expose}"] = sorted(k for k in ns if k != "__builtins__")
            fn = ns[ast.id]
            entry[f"run_{expose}"] = [run_fn(fn, v) for v in VARIANTS]
        ev = ExperimentEvaluator(text)
        entry["eval"] = [run_fn(ev, v) for v in VARIANTS]
        entry["eval_missing"] = guarded(ev)
        entry["eval_pos"] = guarded(ev, 1)
        out[name] = entry
    return out


def invalid():
    out = {}
    for name, text in INVALID.items():
        out[name] = {
            "parse": guarded(lambda: repr(parse_source(text))),
            "code": guarded(generate_code, text),
            "code_exposed": guarded(generate_code, text, True),
            "eval": guarded(lambda: type(ExperimentEvaluator(text)).__name__),
            "tokens": guarded(lambda: [(t.type, t.value, t.lineno, t.index) for t in ExperimentLexer().tokenize(text)]),
        }
    return out


def tokens():
    return {
        name: [(t.type, repr(t.value), t.lineno, t.index) for t in ExperimentLexer().tokenize(text)]
        for name, text in VALID.items()
    }


def bucketing():
    out = {}
    pops = [["A", "B"], ["A", "B", "C"], [1, 2.5, "x", None], ["only"], []]
    weights = [None, [1, 1], [1, 2, 3], [0, 1, 0], [0.5, 0.25, 0.25, 1e-9], [1], [0, 0], [1, -1, 3], [math.inf, 1],
               [math.nan, 1], [1e308, 1e308], [10**400, 1], [True, False], []]
    ids = ["", "a", "b", "salt" + "u1", "héllo☃"] + [f"id_{i}" for i in range(60)]
    for pi, pop in enumerate(pops):
        for wi, w in enumerate(weights):
            out[f"w{pi}_{wi}"] = [guarded(deterministic_choice, i, pop, w) for i in ids]
            out[f"c{pi}_{wi}"] = [guarded(deterministic_choice, i, pop, cum_weights=w) for i in ids[:8]]
        out[f"both{pi}"] = guarded(deterministic_choice, "a", pop, [1] * len(pop), cum_weights=[1] * len(pop))
    out["proba"] = [deterministic_proba(i) for i in ids]
    out["proba_err"] = [guarded(deterministic_proba, v) for v in (None, 1, b"x")]
    out["none_id"] = [guarded(lambda: deterministic_choice(None, ["z"], w)) for w in ([1], [0], [1, 2])]
    out["id_types"] = [guarded(deterministic_choice, i, ["A", "B"], [1, 1]) for i in (1, 2.0, b"x", ("a",))]
    return out


def lifecycle():
    out = []
    a, b = VALID["salted"], VALID["shared"]
    ev = ExperimentEvaluator(a)
    snap = lambda: [ev._checksum, [guarded(ev, uid=u, other="o", region="eu") for u in ("u1", "u2", "u3")],
                    "run_experiment" in vars(ev)]
    out.append(snap())
    for text in (a, b, INVALID["no_body"], INVALID["illegal_char"], b, "", a, a + " ", INVALID["empty_tuple"], a, None, 5, b"x"):
        out.append(guarded(ev.recompile, text))
        out.append(snap())
    out.append(guarded(ExperimentEvaluator))
    out.append(guarded(lambda: ExperimentEvaluator.run_experiment(None)))
    out.append(err(ParseError()) + err(ParseError("m")) + [ParseError().message])
    out.append(err(ExperimentConditionalFailedError()) + err(ExperimentConditionalFailedError("m")))
    blank = ExperimentEvaluator.__new__(ExperimentEvaluator)
    out.append([blank._checksum, guarded(blank), guarded(blank, a=1)])
    out.append(guarded(blank.recompile, b))
    out.append([blank._checksum, guarded(blank, uid="u1", region="eu")])
    out.append(sorted(k for k in vars(ExperimentEvaluator) if not k.startswith("__")))
    return out


def threads():
    texts = [VALID["salted"], VALID["shared"], VALID["zero_w"]]
    ev = ExperimentEvaluator(texts[0])
    results = [None] * 8
    errors = []

    def worker(i):
        try:
            mine = ExperimentEvaluator(texts[i % 3])
            acc = []
            for j in range(30):
                mine.recompile(texts[(i + j) % 3])
                acc.append(mine(uid=f"u{j}", other="o", region="eu"))
                ev.recompile(texts[0])
                acc.append(ev(uid=f"u{j}", other="o"))
            results[i] = acc
        except BaseException as e:  # noqa
            errors.append(err(e))

    ts = [threading.Thread(target=worker, args=(i,)) for i in range(8)]
    [t.start() for t in ts]
    [t.join() for t in ts]
    return [results, errors]


def models():
    out = {}
    cases = {
        "grp": (st.ExperimentGroup, [
            dict(group_definition=1, group_weight=1), dict(group_definition=1.0, group_weight=1.0),
            dict(group_definition="1", group_weight="1"), dict(group_definition=True, group_weight=True),
            dict(group_definition="a", group_weight="1.5"), dict(group_definition=b"b", group_weight=0),
            dict(group_definition=None, group_weight=1), dict(group_definition="a", group_weight=-1),
            dict(group_definition="a", group_weight=-0.5), dict(group_definition=[1], group_weight=1),
            dict(group_definition="a", group_weight=math.inf), dict(group_definition="a"),
            dict(group_definition=2**70, group_weight=2**70), dict(group_definition="a", group_weight=1, extra=2),
        ]),
        "ident": (st.Identifier, [dict(name="a"), dict(name=1), dict(name=None), dict(), dict(name=["a"])]),
        "term": (st.TerminalPredicate, [
            dict(left_term=l, logical_operator=o, right_term=r)
            for l, o, r in [
                (1, st.LogicalOperatorEnum.EQ, 1.0), ("02134", 1, "5"), (True, 2, False), ([1, [2, 3]], 7, (1, [2])),
                ({"name": "x"}, 8, st.Identifier(name="y")), (None, 1, 1), (1, 9, 1), (1, "EQ", 1), (b"x", 3, 2**70),
                ({"nom": "x"}, 1, {1, 2}), (1.5, st.BooleanOperatorEnum.AND, 1), (math.nan, 4, "é"),
            ]
        ]),
    }
    for key, (cls, kws) in cases.items():
        out[key] = [guarded(lambda: shape(cls(**kw))) for kw in kws]
    tp = st.TerminalPredicate(left_term=1, logical_operator=1, right_term=2)
    grp = st.ExperimentGroup(group_definition="a", group_weight=1)
    rec = [
        dict(left_predicate=tp, boolean_operator=1, right_predicate=tp),
        dict(left_predicate=tp, boolean_operator=3, right_predicate=None),
        dict(left_predicate=tp, boolean_operator=3),
        dict(left_predicate=None, boolean_operator=3, right_predicate=None),
        dict(left_predicate=tp.dict(), boolean_operator=2, right_predicate=dict(left_predicate=tp, boolean_operator=3, right_predicate=None)),
        dict(left_predicate=grp, boolean_operator=2, right_predicate=tp),
        dict(left_predicate=tp, boolean_operator=4, right_predicate=tp),
    ]
    out["rec"] = [guarded(lambda: shape(st.RecursivePredicate(**kw))) for kw in rec]
    cond = [
        dict(conditional_type=1, predicate=tp, true_branch=[grp], false_branch=None),
        dict(conditional_type=3, predicate=None, true_branch=[grp.dict()], false_branch=[]),
        dict(conditional_type=2, predicate=tp, true_branch=dict(conditional_type=1, predicate=tp, true_branch=[grp], false_branch=None)),
        dict(conditional_type=1, true_branch=[grp]),
        dict(conditional_type=1, predicate=tp, true_branch=None, false_branch=None),
        dict(conditional_type=1, predicate=tp, true_branch=(grp,), false_branch=grp),
        dict(conditional_type="IF", predicate=tp, true_branch=[grp], false_branch=None),
        dict(conditional_type=1, predicate=grp, true_branch=[tp], false_branch=None),
    ]
    out["cond"] = [guarded(lambda: shape(st.ExperimentConditional(**kw))) for kw in cond]
    asts = [
        dict(id="x", splitting_fields=None, salt=None, conditions=[grp]),
        dict(id="x", conditions=[grp]),
        dict(id=1, splitting_fields=("a", 1), salt=5, conditions=cond[0]),
        dict(id="x", splitting_fields="ab", salt=None, conditions=[grp]),
        dict(id="x", splitting_fields=[], salt="", conditions=[]),
        dict(id="x", splitting_fields=None, salt=None, conditions=None),
        dict(id="x", splitting_fields=None, salt=None),
        dict(id=None, splitting_fields=None, salt=None, conditions=[grp]),
    ]
    out["ast"] = [guarded(lambda: shape(st.ExperimentAST(**kw))) for kw in asts]
    for cls in (st.ExperimentGroup, st.Identifier, st.TerminalPredicate, st.RecursivePredicate,
                st.ExperimentConditional, st.ExperimentAST):
        out["schema_" + cls.__name__] = json.loads(cls.schema_json())
        out["fields_" + cls.__name__] = {
            n: [f.required, f.allow_none, repr(f.default), [getattr(s.type_, "__name__", str(s.type_)) for s in (f.sub_fields or [])],
                getattr(f.type_, "__name__", None) if not f.sub_fields else None]
            for n, f in cls.__fields__.items()
        }
        out["config_" + cls.__name__] = [cls.__config__.smart_union, str(cls.__config__.extra), cls.__config__.validate_assignment]
    for en in (st.LogicalOperatorEnum, st.BooleanOperatorEnum, st.ConditionalType):
        out["enum_" + en.__name__] = [[m.name, m.value, repr(m), str(m)] for m in en]
    out["eq"] = [tp == st.TerminalPredicate(left_term=1, logical_operator=1, right_term=2), tp == tp.copy(),
                 guarded(lambda: hash(tp)), st.Identifier(name="a") == st.Identifier(name="a")]
    return out


class Weird:
    def __repr__(self):
        return "<weird>"


def generator_units():
    out = {}
    gen = PythonCodeGen(parse_source(VALID["one"]))
    ops = list(st.LogicalOperatorEnum) + list(st.BooleanOperatorEnum) + list(st.ConditionalType)
    out["ops"] = [guarded(gen._generate_op, op) for op in ops + [None, 1, "EQ", "==", Weird(), [1], st.LogicalOperatorEnum]]
    terms = [1, -1, 0, 1.5, -0.0, True, None, "a", "it's", 'q"', "é☃", "", "\\", "\n", (), (1,), [1], (1, 2), [1, [2, (3,)]],
             st.Identifier(name="idn"), (st.Identifier(name="in_t"), "s", 2.0), math.inf, -math.inf, math.nan, 10**400, -(10**400),
             1e308, 5e-324, Weird(), {"a": 1}, b"b", (math.inf, [-math.inf]), 2 + 3j]
    out["terms"] = [guarded(gen._generate_term, t) for t in terms]
    out["ids_after_terms"] = gen.conditional_ids
    out["numbers"] = [guarded(PythonCodeGen._generate_number, t) for t in
                      [1, 1.0, math.inf, -math.inf, math.nan, 10**400, True, "x", None, Weird(), [1]]]
    out["lists"] = [guarded(gen._generate_list, l) for l in ([], [1, "a", 2.5], ["it's", (1, 2)], "ab", None)]
    tp = st.TerminalPredicate(left_term=st.Identifier(name="p"), logical_operator=1, right_term=2)
    tq = st.TerminalPredicate(left_term=st.Identifier(name="q"), logical_operator=7, right_term=[1, st.Identifier(name="r")])
    preds = [None, tp, tq,
             st.RecursivePredicate(left_predicate=tp, boolean_operator=1, right_predicate=tq),
             st.RecursivePredicate(left_predicate=tp, boolean_operator=3, right_predicate=None),
             st.RecursivePredicate(left_predicate=tp, boolean_operator=3,
                                   right_predicate=st.TerminalPredicate(left_term=st.Identifier(name="hidden"), logical_operator=1, right_term=1)),
             st.RecursivePredicate(left_predicate=tp, boolean_operator=2, right_predicate=None),
             1, "x", Weird(), st.Identifier(name="i")]
    out["preds"] = [guarded(gen._generate_predicate, p) for p in preds]
    out["ids_after_preds"] = gen.conditional_ids
    grp = st.ExperimentGroup(group_definition="a", group_weight=1)
    conds = [[grp], [], [grp, grp], (grp,), None, 1, "ab", Weird(), {"a": 1}, [1, 2],
             st.ExperimentConditional(conditional_type=1, predicate=tp, true_branch=[grp], false_branch=None),
             st.ExperimentConditional(conditional_type=2, predicate=tp, true_branch=[grp], false_branch=[grp]),
             st.ExperimentConditional(conditional_type=3, predicate=tp, true_branch=[grp],
                                      false_branch=st.ExperimentConditional(conditional_type=1, predicate=None, true_branch=[grp], false_branch=None)),
             ]
    for depth in (0, 2):
        gen._indent_depth = depth
        out[f"conds_{depth}"] = [guarded(gen._generate_conditionals, c) for c in conds]
    out["indent"] = [gen.indent(), gen._generate_exception(), gen.render_topline(), gen._newline, gen._indentation_char]
    out["groups"] = [guarded(gen._generate_group_return_statement, g) for g in ([grp], [], None, [1])]
    # hand-built trees that the grammar cannot produce
    hand = [
        st.ExperimentAST(id="h1", splitting_fields=["b", "a", "b"], salt="", conditions=[grp]),
        st.ExperimentAST(id="h2", splitting_fields=[], salt="s", conditions=[grp]),
        st.ExperimentAST(id="h3", splitting_fields=["p"], salt=None, conditions=conds[-1]),
        st.ExperimentAST(id="h4", splitting_fields=None, salt=None, conditions=conds[-2]),
        st.ExperimentAST(id="h5", splitting_fields=["z"], salt="x", conditions=[]),
    ]
    for tree in hand:
        for expose in (True, False):
            out[f"hand_{tree.id}_{expose}"] = guarded(lambda: PythonCodeGen(tree, "    ", expose).generate())
    for bad in (None, 1, "x"):
        out[f"bad_ast_{bad!r}"] = guarded(lambda: PythonCodeGen(bad).generate())
    out["keydef"] = []
    for tree in hand:
        g = PythonCodeGen(tree)
        out["keydef"].append([g.generate_key_definition(), g.local_vars, g.generate_key_definition()])
    out["public"] = sorted(k for k in vars(PythonCodeGen) if not k.startswith("_"))
    return out


def grammar_tables():
    g = ExperimentParser._grammar
    out = {"productions": [str(p) for p in g.Productions],
           "prec": [[str(p), list(p.prec)] for p in g.Productions],
           "start": g.Start,
           "actions": hashlib.md5(json.dumps(
               {str(k): sorted((str(a), str(b)) for a, b in v.items()) for k, v in ExperimentParser._lrtable.lr_action.items()},
               sort_keys=True).encode()).hexdigest(),
           "gotos": hashlib.md5(json.dumps(
               {str(k): sorted((str(a), str(b)) for a, b in v.items()) for k, v in ExperimentParser._lrtable.lr_goto.items()},
               sort_keys=True).encode()).hexdigest(),
           "conflicts": [len(ExperimentParser._lrtable.sr_conflicts), len(ExperimentParser._lrtable.rr_conflicts)],
           "funcs": [p.func.__name__ if p.func else None for p in g.Productions]}
    parser = ExperimentParser()
    out["reuse"] = [guarded(lambda: repr(parser.parse(ExperimentLexer().tokenize(t))))
                    for t in (VALID["one"], INVALID["no_body"], VALID["basic"], "", VALID["one"])]
    out["error_hook"] = [guarded(parser.error, None), guarded(parser.error, 0), guarded(parser.error, "")]
    return out


def stats():
    out = {"probit": [guarded(probit, a) for a in (0.5, 0.975, 0.025, 0.001, 0.9995, 0, 1, 1.5, -1, "x")] + [guarded(probit)]}
    out["ci"] = [
        guarded(confidence_interval, n, p, c, m)
        for n in (10, 1, 1000, 0, -5) for p in (0.5, 0.0, 1.0, 0.3333, 1.5) for c in (0.95, 0.999, 0.5, 0, 1)
        for m in ("agresti-coull", "wald", "WALD", "Agresti-Coull", "wilson", "")
    ]
    out["ci_default"] = [guarded(confidence_interval), guarded(confidence_interval, 10, 0.5, 0.95, None),
                         guarded(confidence_interval, method="wald", n=20)]
    return out


for name, fn in [("programs", programs), ("invalid", invalid), ("tokens", tokens), ("bucketing", bucketing),
                 ("lifecycle", lifecycle), ("threads", threads), ("models", models), ("generator_units", generator_units),
                 ("grammar_tables", grammar_tables), ("stats", stats)]:
    OUT[name] = guarded(fn)

print(json.dumps(OUT, sort_keys=True, ensure_ascii=True, default=repr, indent=0))

"""Differential probe: prints a deterministic JSON summary of the observable
behaviour of pyab_experiment (parsing, code generation in both layouts, bucketing,
evaluator lifecycle, thread-safety, utils.stats).

Run as:  PYTHONPATH=/tmp/wt/TJ/src /venv/bin/python probe.py
The output must be byte-identical with and without the patch.
"""

import hashlib
import json
import random
import threading
from decimal import Decimal
from fractions import Fraction

from pyab_experiment.binning import binning
from pyab_experiment.binning.binning import deterministic_choice, deterministic_proba
from pyab_experiment.codegen.python.custom_exceptions import (
    ExperimentConditionalFailedError,
)
from pyab_experiment.experiment_evaluator import ExperimentEvaluator
from pyab_experiment.utils.stats import confidence_interval, probit
from pyab_experiment.utils.wraper_functions import generate_code, parse_source


# --------------------------------------------------------------------------- helpers
def show(value):
    """A stable, bit-exact textual rendering of a value."""
    if isinstance(value, bool) or value is None:
        return repr(value)
    if isinstance(value, float):
        return "f:" + value.hex()
    if isinstance(value, complex):
        return "c:" + value.real.hex() + "," + value.imag.hex()
    if isinstance(value, (tuple, list)):
        return [type(value).__name__] + [show(v) for v in value]
    if isinstance(value, dict):
        return {str(k): show(v) for k, v in value.items()}
    return f"{type(value).__name__}:{value!r}"


def outcome(fn, *args, **kwargs):
    try:
        return {"ok": show(fn(*args, **kwargs))}
    except BaseException as exc:  # noqa: B902 - the class is the observation
        return {"err": type(exc).__name__, "msg": str(exc)}


def sha(text):
    return hashlib.sha256(text.encode("utf-8", "surrogatepass")).hexdigest()[:16]


# -------------------------------------------------------------------------- programs
VALID = {
    "plain": "def a{ return 'x' weighted 1 }",
    "kwprefix": (
        "def define_me{ salt: 'salty' splitters: iffy, android, order, notin, "
        "elsewhere if inside == 1 and nothing != 2 or returned in (1, 2) "
        "{ return 'in' weighted 1, 'or' weighted 2 } "
        "else if define not in ('def', \"if\") { return 'kw' weighted 3.5 } "
        "else { return -1 weighted 1, -2.5 weighted 0, 3 weighted 2 } }"
    ),
    "nested_tuples": (
        "def nest{ splitters: uid if x in ((1, 2), (3, (4, 5)), ('a')) "
        "{ return 'deep' weighted 1, 'deeper' weighted 1 } else if y in (1) "
        "{ return 'one' weighted 1 } else { return 'none' weighted 7, 'z' weighted 1 } }"
    ),
    "comments": (
        "/* block \n comment */ def c{ // inline\n salt: \"s//not comment\" "
        "/* another */ splitters: k // trailing\n return 'a/*b*/' weighted 1, "
        "\"c//d\" weighted 2 /* tail */ }\n// eof"
    ),
    "quotes": (
        "def q{ splitters: k if s == 'it\"s' or s == \"it's\" or s == 'back\\slash' "
        "or s == 'tab\\t' { return 'q\"1' weighted 1, \"q'2\" weighted 1, "
        "'b\\\\n' weighted 2 } else { return '' weighted 1, ' ' weighted 1 } }"
    ),
    "nonascii": (
        "def u{ salt: 'sél-盐' splitters: k if c == 'Zürich' or c in ('北京', 'Ω') "
        "{ return 'é' weighted 1, '日本' weighted 2, '🙂' weighted 3 } "
        "else { return 'ascii' weighted 1, 'ß' weighted 1 } }"
    ),
    "numbers": (
        "def n{ splitters: k if v >= 18 and v < 65.5 or w == -0.0 or w <= -3 "
        "{ return 1 weighted 0.25, 2.0 weighted 0.75, -3 weighted 1, '4' weighted 0 } "
        "else if v == 007 { return 7 weighted 1 } "
        "else { return 0 weighted 10000000000000000000000, 1 weighted 1 } }"
    ),
    "bigfloat": (
        "def bf{ splitters: k if v < "
        + "9" * 400
        + ".0 { return 'a' weighted 1, 'b' weighted 1 } else { return 'c' weighted 1 } }"
    ),
    "infweight": (
        "def iw{ splitters: k return 'a' weighted 1, 'b' weighted " + "9" * 400 + ".0 }"
    ),
    "zeroweights": "def zw{ splitters: k return 'a' weighted 0, 'b' weighted 0.0 }",
    "elseif_spacing": (
        "def e{ splitters: k if a == 1 { return 'a' weighted 1 } elseif a == 2 "
        "{ return 'b' weighted 1 } else   if a == 3 { return 'c' weighted 1 } "
        "else\nif a == 4 { return 'd' weighted 1 } }"
    ),
    "notin_spacing": (
        "def ni{ splitters: k if not a not   in (1, 2) and not (b == 1 or not c > 2) "
        "{ return 't' weighted 1, 'u' weighted 1 } else { return 'f' weighted 1 } }"
    ),
    "shared_field": (
        "def sf{ splitters: uid, country if country == 'US' and uid != 3 "
        "{ return 'us1' weighted 1, 'us2' weighted 3 } else "
        "{ return 'row1' weighted 2, 'row2' weighted 1 } }"
    ),
    "nosplit": "def ns{ salt: 'only' if a == 1 { return 'x' weighted 1, 'y' weighted 1 } }",
    "precedence": (
        "def p{ splitters: k if a == 1 or b == 2 and not c == 3 or (d == 4 or e == 5) "
        "and f == 6 { return 'T' weighted 1 } else { return 'F' weighted 1 } }"
    ),
    "ident_terms": (
        "def it{ splitters: k if a == b and (a, 1) == pair or 'x' in name "
        "{ return 'same' weighted 1, 'same2' weighted 1 } else { return 'diff' weighted 1 } }"
    ),
}

INVALID = {
    "empty": "",
    "no_body": "def a{}",
    "no_weight": "def a{ return 'x' }",
    "neg_weight": "def a{ return 'x' weighted -1 }",
    "bad_char": "def a{ return 'x' weighted 1 ; }",
    "bad_char2": "def a{ if a = 1 { return 'x' weighted 1 } }",
    "kw_as_id": "def if{ return 'x' weighted 1 }",
    "splitter_before_salt": "def a{ splitters: k salt: 's' return 'x' weighted 1 }",
    "unclosed_string": "def a{ return 'x weighted 1 }",
    "unclosed_comment": "def a{ /* return 'x' weighted 1 }",
    "multiline_string": "def a{ return 'x\ny' weighted 1 }",
    "trailing": "def a{ return 'x' weighted 1 } def",
    "else_without_if": "def a{ else { return 'x' weighted 1 } }",
    "empty_tuple": "def a{ if x in () { return 'x' weighted 1 } }",
    "double_else": (
        "def a{ if a == 1 { return 'x' weighted 1 } else { return 'y' weighted 1 } "
        "else { return 'z' weighted 1 } }"
    ),
    "tuple_return": "def a{ return (1, 2) weighted 1 }",
    "id_return": "def a{ return x weighted 1 }",
    "nonascii_id": "def é{ return 'x' weighted 1 }",
    "missing_colon": "def a{ salt 's' return 'x' weighted 1 }",
    "float_dot": "def a{ return 'x' weighted 1. }",
    "just_comment": "/* nothing */ // more",
    "trailing_comma_tuple": "def a{ if x in (1,) { return 'x' weighted 1 } }",
    "notin_nospace": "def a{ if x notin (1, 2) { return 'x' weighted 1 } }",
}

IDS = [0, 1, 2, 3, 7, 42, 1000, "abc", "", "é", "北京", "-1", 2.5, None, True, (1, 2)]
FIELD_VALUES = [0, 1, 2, 3, 4, 5, 6, 18, 64.9, 65.5, -0.0, -3, "US", "a", "it's", 'it"s',
                "Zürich", "北京", "def", "x", (1, 2), (3, (4, 5)), ("a",), 7, [1, 2], (1,)]


def ast_text(text):
    ast = parse_source(text)
    return None if ast is None else repr(ast)


def exec_generated(code, fn_name):
    holder = {}
    exec(compile(code, "<probe>", "exec"), holder, holder)
    return holder[fn_name], holder


def program_calls(fn):
    """Call a compiled experiment with a deterministic family of keyword sets."""
    import inspect

    params = [
        name
        for name, p in inspect.signature(fn).parameters.items()
        if p.kind is not inspect.Parameter.VAR_KEYWORD
    ]
    results = []
    rnd = random.Random(2024)
    for trial in range(60):
        kwargs = {}
        for name in params:
            kwargs[name] = rnd.choice(FIELD_VALUES if trial % 3 else IDS)
        kwargs["unused_extra"] = trial
        random.seed(trial)  # programs without splitters fall back to random.choices
        results.append(outcome(fn, **kwargs))
    # missing argument
    results.append(outcome(fn))
    return sha(json.dumps(results, sort_keys=True)), results[:6]


def probe_programs():
    report = {}
    for name, text in {**VALID, **INVALID}.items():
        entry = {"ast": outcome(ast_text, text)}
        if "ok" in entry["ast"]:
            entry["ast"] = {"sha": sha(entry["ast"]["ok"]), "head": entry["ast"]["ok"][:160]}
        for exposed in (False, True):
            key = f"layout_exposed_{exposed}"
            try:
                code = generate_code(text, expose_internal_fn=exposed)
            except BaseException as exc:  # noqa: B902
                entry[key] = {"err": type(exc).__name__, "msg": str(exc)}
                continue
            layout = {"code_sha": sha(code), "code_lines": len(code.splitlines())}
            try:
                fn_name = parse_source(text).id
                fn, holder = exec_generated(code, fn_name)
                layout["has_inner"] = "choose_experiment_variant" in holder
                layout["calls_sha"], layout["calls_head"] = program_calls(fn)
            except BaseException as exc:  # noqa: B902
                layout["exec_err"] = type(exc).__name__
            entry[key] = layout
        entry["evaluator"] = probe_evaluator_once(text)
        report[name] = entry
    # the shipped sample programs too
    import pathlib

    root = pathlib.Path(binning.__file__).resolve().parents[3] / "tests/unit/test_programs"
    for path in sorted(root.glob("*.pyab")):
        text = path.read_text()
        entry = {"ast_sha": sha(repr(parse_source(text)))}
        for exposed in (False, True):
            code = generate_code(text, expose_internal_fn=exposed)
            fn, _ = exec_generated(code, parse_source(text).id)
            entry[f"calls_{exposed}"] = program_calls(fn)[0]
            entry[f"code_{exposed}"] = sha(code)
        report["file:" + path.name] = entry
    return report


def probe_evaluator_once(text):
    try:
        evaluator = ExperimentEvaluator(text)
    except BaseException as exc:  # noqa: B902
        return {"err": type(exc).__name__, "msg": str(exc)}
    digest, head = program_calls(evaluator.run_experiment)
    return {"calls_sha": digest, "checksum": evaluator._checksum}


# -------------------------------------------------------------------------- bucketing
PROBA_KEYS = ["", "a", "abc", "0", "1", "123", "my_id_123", "é", "北京", "🙂", "\x00", " ",
              "a" * 1000, "\ud800", "salt42", "None", "True", "\n", "ß", "ﬃ"]
PROBA_BAD = [None, 1, 1.5, b"bytes", ("a",), ["a"]]

WEIGHT_SETS = [
    None,
    [1, 1, 1],
    [1, 2, 3],
    [3, 2, 1],
    [0, 0, 1],
    [1, 0, 0],
    [0, 1, 0],
    [0, 0, 0],
    [0.5, 0.25, 0.25],
    [0.1, 0.2, 0.7],
    [0.1, 0.1, 0.1],
    [1e-320, 1e-320, 1e-320],
    [5e-324, 0, 5e-324],
    [1e308, 1e308, 1],
    [1e308, 1, 1],
    [float("inf"), 1, 1],
    [1, float("inf"), 1],
    [float("nan"), 1, 1],
    [1, 1, float("nan")],
    [float("-inf"), 1, 1],
    [-1, 2, 3],
    [3, -2, 1],
    [5, -4, -1],
    [1, -3, 1],
    [10**30, 1, 10**30],
    [10**400, 1, 1],
    [True, False, True],
    [Fraction(1, 3), Fraction(1, 3), Fraction(1, 3)],
    [Decimal("1"), Decimal("2"), Decimal("3")],
    (1, 2, 3),
    [1, 2],
    [1, 2, 3, 4],
    [],
    ["a", "b", "c"],
    [None, 1, 2],
    [1j, 1, 1],
    [-0.0, -0.0, -0.0],
    [0.0, 0.0, 1e-300],
    [1, 1, 1e-17],
    [2**53, 1, 1],
]

CUM_SETS = [
    [1, 2, 3],
    [1, 3, 6],
    [3, 2, 1],
    [6, 3, 6],
    [0, 0, 1],
    [1, 1, 1],
    [0, 0, 0],
    [3, 1, 2],
    [2, 1, 3],
    [5, 0, 4],
    [0.1, 0.30000000000000004, 1.0],
    [float("nan"), 2, 3],
    [1, float("nan"), 3],
    [1, 2, float("nan")],
    [1, 2, float("inf")],
    [float("inf"), float("inf"), 3],
    [1, 2, -1],
    (1, 2, 3),
    [1, 2],
    [1, 2, 3, 4],
    [],
    ["a", "b", "c"],
    [1, "b", 3],
    [Fraction(1, 2), Fraction(3, 4), Fraction(1)],
    [Decimal(1), Decimal(2), Decimal(3)],
    [True, True, True],
    range(1, 4),
    [1j, 2, 3],
    [-0.0, 0.0, -0.0],
]

POPULATIONS = [
    ["a", "b", "c"],
    ("a", "b", "c"),
    "xyz",
    ["only"],
    [],
    list(range(7)),
    [None, 0, ""],
]

BUCKET_IDS = [f"{i}{salt}" for salt in ("", "_salt", "盐", "A") for i in range(60)] + [
    "", "é", "北京", "🙂", "my_id_123"]


class _Recording:
    """A minimal sequence (no slicing, no iteration protocol beyond indexing)
    that writes down everything that is asked of it."""

    def __init__(self, values):
        self._values = list(values)
        self.log = []

    def __len__(self):
        self.log.append("len")
        return len(self._values)

    def __getitem__(self, index):
        self.log.append(index)
        if not isinstance(index, int):
            raise TypeError("indices only")
        return self._values[index]


def probe_recording():
    rows = []
    for values in ([1, 3, 6, 10, 15, 21, 28], [1], [1, 2], [5, 4, 3, 2, 1, 9],
                   [0, 0, 0, 0, 1], list(range(1, 40)), [1.5, 1.5, 1.5, 2.5]):
        population = list(range(len(values)))
        for key in ("a", "b", "c", "0", "1", "2", "é", "zz", "my_id_123"):
            cum = _Recording(values)
            res = outcome(deterministic_choice, key, population, cum_weights=cum)
            rows.append([res, [str(x) for x in cum.log]])
            pop = _Recording(population)
            res = outcome(deterministic_choice, key, pop, values)
            rows.append([res, [str(x) for x in pop.log]])
            pop = _Recording(population)
            res = outcome(deterministic_choice, key, pop)
            rows.append([res, [str(x) for x in pop.log]])
    return {"sha": sha(json.dumps(rows, sort_keys=True)), "head": rows[:9]}


def probe_bucketing():
    report = {}
    report["recording"] = probe_recording()
    report["proba"] = {repr(k): outcome(deterministic_proba, k) for k in PROBA_KEYS}
    report["proba_bad"] = {repr(k): outcome(deterministic_proba, k) for k in PROBA_BAD}
    many = [deterministic_proba(f"{i}_s").hex() for i in range(5000)]
    report["proba_many_sha"] = sha("".join(many))
    report["proba_range_ok"] = all(
        0.0 <= deterministic_proba(str(i)) < 1.0 for i in range(2000)
    )

    choice = {}
    for pi, population in enumerate(POPULATIONS):
        for wi, weights in enumerate(WEIGHT_SETS):
            row = [
                outcome(deterministic_choice, key, population, weights)
                for key in BUCKET_IDS
            ]
            cell = {"sha": sha(json.dumps(row, sort_keys=True)), "first": row[0]}
            choice[f"p{pi}/w{wi}"] = cell
        for ci, cum in enumerate(CUM_SETS):
            row = [
                outcome(deterministic_choice, key, population, cum_weights=cum)
                for key in BUCKET_IDS
            ]
            cell = {"sha": sha(json.dumps(row, sort_keys=True)), "first": row[0]}
            choice[f"p{pi}/c{ci}"] = cell
        # both given, in every combination of validity
        for wi, weights in enumerate(WEIGHT_SETS[:8] + [[], ["a"], [1, 2]]):
            for ci, cum in enumerate(CUM_SETS[:4] + [[], ["a"], [1, 2]]):
                choice[f"p{pi}/both{wi}.{ci}"] = outcome(
                    deterministic_choice, "id", population, weights, cum_weights=cum
                )
    report["choice"] = choice

    # bad ids / bad populations and the order in which the complaints come
    order = {}
    for bad_id in (1, 1.5, b"b", ("a",), "\ud800"):
        for weights in (None, [1, 2, 3], [1, 2], [0, 0, 0], ["a", "b", "c"]):
            order[f"id={bad_id!r}/w={weights!r}"] = outcome(
                deterministic_choice, bad_id, ["a", "b", "c"], weights
            )
        for cum in ([1, 2, 3], [1, 2], [0, 0, 0], []):
            order[f"id={bad_id!r}/c={cum!r}"] = outcome(
                deterministic_choice, bad_id, ["a", "b", "c"], cum_weights=cum
            )
    for population in (None, 5, iter("abc"), {"a": 1, "b": 2}, {"a", "b"}):
        for input_id in ("id", None):
            for weights in (None, [1, 2]):
                random.seed(5)
                res = outcome(deterministic_choice, input_id, population, weights)
                if isinstance(population, set) and "ok" in res:
                    res = {"ok": "set-member"}
                order[f"pop={type(population).__name__}/{input_id}/{weights}"] = res
    report["order"] = order

    # the random fallback, seeded
    fallback = []
    for weights, cum in ((None, None), ([1, 2, 3], None), (None, [1, 2, 3]),
                         ([1, 2, 3], [1, 2, 3]), ([1, 2], None), ([0, 0, 0], None),
                         (None, [3, 2, 1])):
        random.seed(99)
        fallback.append(
            [
                outcome(deterministic_choice, None, ["a", "b", "c"], weights,
                        cum_weights=cum)
                for _ in range(20)
            ]
        )
    report["fallback_sha"] = sha(json.dumps(fallback, sort_keys=True))
    report["fallback_head"] = [row[0] for row in fallback]

    # weights must not be mutated; big populations; distribution counts
    weights = [1, 2, 3]
    cum = [1, 3, 6]
    deterministic_choice("x", ["a", "b", "c"], weights)
    deterministic_choice("x", ["a", "b", "c"], cum_weights=cum)
    report["inputs_untouched"] = [weights, cum]
    big = list(range(10000))
    report["big_uniform_sha"] = sha(
        ",".join(str(deterministic_choice(f"{i}_salted", big)) for i in range(4000))
    )
    bigw = [(i * 7919) % 13 for i in range(10000)]
    report["big_weighted_sha"] = sha(
        ",".join(str(deterministic_choice(f"{i}_salted", big, bigw)) for i in range(4000))
    )
    floatw = [((i * 31) % 17) / 7 for i in range(257)]
    report["float_weighted_sha"] = sha(
        ",".join(
            str(deterministic_choice(f"k{i}", list(range(257)), floatw))
            for i in range(4000)
        )
    )
    counts = {}
    for i in range(20000):
        g = deterministic_choice(f"{i}_salt", ["a", "b", "c"], [1, 2, 3])
        counts[g] = counts.get(g, 0) + 1
    report["counts"] = counts
    return report


# --------------------------------------------------------------- evaluator lifecycle
def probe_lifecycle():
    report = {}
    a = VALID["shared_field"]
    b = VALID["kwprefix"]
    bad = INVALID["no_weight"]
    worse = INVALID["bad_char"]

    def call(ev):
        return [outcome(ev, uid=i, country=c, inside=1, nothing=1, returned=1,
                        define="x", iffy=i, android=1, order=2, notin=3, elsewhere=4)
                for i in range(12) for c in ("US", "FR")]

    ev = ExperimentEvaluator(a)
    history = [("init", ev._checksum, sha(json.dumps(call(ev))))]
    for label, text in (("same", a), ("b", b), ("bad", bad), ("bad-again", bad),
                        ("worse", worse), ("b-again", b), ("a", a), ("empty", ""),
                        ("a-ws", a + " "), ("none", None), ("bytes", b"def a{}")):
        res = outcome(ev.recompile, text)
        history.append((label, res, ev._checksum, sha(json.dumps(call(ev)))))
    report["history"] = history
    report["ctor_bad"] = outcome(ExperimentEvaluator, bad)
    report["ctor_empty"] = outcome(ExperimentEvaluator, "")
    report["class_checksum"] = ExperimentEvaluator._checksum
    fresh = ExperimentEvaluator.__new__(ExperimentEvaluator)
    report["unloaded_call"] = outcome(fresh, uid=1)
    unroutable = ExperimentEvaluator(
        "def u{ splitters: k if a == 1 { return 'x' weighted 1 } }"
    )
    report["unroutable"] = [outcome(unroutable, k=1, a=1), outcome(unroutable, k=1, a=2)]
    report["unroutable_class"] = ExperimentConditionalFailedError.__mro__[1].__name__
    two = (ExperimentEvaluator(a), ExperimentEvaluator(b))
    two[0].recompile(b)
    report["independent"] = [two[0]._checksum == two[1]._checksum,
                             sha(json.dumps(call(two[0]))) == sha(json.dumps(call(two[1])))]
    return report


def probe_threads():
    """Concurrent calls and recompiles give what the sequential run gives."""
    a = VALID["shared_field"]
    b = VALID["numbers"]
    ev = ExperimentEvaluator(a)
    expected = [ev(uid=i, country="US") for i in range(300)]
    pure_expected = [deterministic_choice(f"{i}_t", ["a", "b", "c"], [1, 2, 3])
                     for i in range(300)]
    failures = []
    barrier = threading.Barrier(8)

    def reader(slot):
        barrier.wait()
        for _ in range(5):
            got = [ev(uid=i, country="US") for i in range(300)]
            if got != expected:
                failures.append(("reader", slot))
            pure = [deterministic_choice(f"{i}_t", ["a", "b", "c"], [1, 2, 3])
                    for i in range(300)]
            if pure != pure_expected:
                failures.append(("pure", slot))

    def recompiler(slot):
        other = ExperimentEvaluator(b)
        barrier.wait()
        for i in range(20):
            other.recompile(a if i % 2 else b)
            ev.recompile(a)  # same text: must stay a no-op

    threads = [threading.Thread(target=reader, args=(i,)) for i in range(6)]
    threads += [threading.Thread(target=recompiler, args=(i,)) for i in range(2)]
    for t in threads:
        t.start()
    for t in threads:
        t.join()
    return {"failures": sorted(failures), "expected_sha": sha(json.dumps(expected)),
            "pure_sha": sha(json.dumps(pure_expected))}


# ------------------------------------------------------------------------------ stats
ALPHAS = [0.5, 0.975, 0.025, 0.0005, 0.9995, 0.1, 0.9, 1e-10, 1 - 1e-10, 1e-300, 5e-324,
          0.25, 0.75, 1 / 3, 2 / 3, 0.0, 1.0, -0.5, 1.5, 2, 0, 1, float("nan"),
          float("inf"), float("-inf"), True, False, Fraction(1, 4), Decimal("0.25"),
          "0.5", None, 0.5 + 0j]

NS = [10, 1, 0, -4, 100000, 3.5, 10**6, 10**30, True, Fraction(7, 2)]
PS = [0.5, 0.0, 1.0, 1 / 3, 0.1, 0.999, 1.5, -0.25, Fraction(1, 3), 1, 0]
CONFS = [0.95, 0.999, 0.5, 0.0, 1.0, 0.9, 1.5, -1, 1e-12, Fraction(19, 20)]
METHODS = ["agresti-coull", "wald", "Agresti-Coull", "WALD", "Wald", "wilson", "",
           "agresti_coull", " wald", "ＷＡＬＤ", "wald\n"]


class _Name(str):
    """a str subclass, as a caller might pass (an enum-like constant)"""


def probe_stats():
    report = {}
    report["probit_default"] = outcome(probit)
    report["probit"] = {repr(a): outcome(probit, a) for a in ALPHAS}
    grid = [probit(i / 2000).hex() for i in range(1, 2000)]
    report["probit_grid_sha"] = sha("".join(grid))
    report["ci_default"] = outcome(confidence_interval)
    ci = {}
    for method in METHODS:
        rows = []
        for n in NS:
            for p in PS:
                for conf in CONFS:
                    rows.append(outcome(confidence_interval, n, p, conf, method))
        ci[repr(method)] = {"sha": sha(json.dumps(rows, sort_keys=True)),
                            "head": rows[:3]}
    report["ci"] = ci
    report["ci_keywords"] = [
        outcome(confidence_interval, n=200000, p=1 / 3, confidence=0.999),
        outcome(confidence_interval, 100, method="wald"),
        outcome(confidence_interval, p=0.2, method="WALD", n=50, confidence=0.9),
        outcome(confidence_interval, 100, 0.5, 0.95, None),
        outcome(confidence_interval, 100, 0.5, 0.95, 5),
        outcome(confidence_interval, 100, 0.5, 0.95, b"wald"),
        outcome(confidence_interval, "10", 0.5, 0.95, "wald"),
        outcome(confidence_interval, "10", 0.5, 0.95, "wilson"),
        outcome(confidence_interval, 2.5, "ab", 0.95, "wilson"),
        outcome(confidence_interval, 10, "ab", 0.95, "wilson"),
        outcome(confidence_interval, 10, 0.5, "x", "wilson"),
        outcome(confidence_interval, 10, 0.5, 1.0, "wilson"),
        outcome(confidence_interval, None, 0.5, 0.95, "agresti-coull"),
        outcome(confidence_interval, 10, None, 0.95, "agresti-coull"),
        outcome(confidence_interval, [1], 2, 0.95, "agresti-coull"),
        outcome(confidence_interval, 100, 0.5, 0.95, bytearray(b"wald")),
        outcome(confidence_interval, 100, 0.5, 0.95, bytearray(b"nope")),
        outcome(confidence_interval, 100, 0.5, 0.95, _Name("WALD")),
        outcome(confidence_interval, 100, 0.5, 0.95, _Name("Agresti-Coull")),
        outcome(confidence_interval, 100, 0.5, 0.95, _Name("Wilson")),
        outcome(confidence_interval, 100, 0.5, 0.95, ["wald"]),
    ]
    # the result is a plain pair in every case
    report["ci_types"] = [
        type(confidence_interval(100, 0.3, 0.9, m)).__name__ for m in ("wald", "agresti-coull")
    ]
    dense = []
    for n in (50, 1000, 100000, 300000):
        for k in range(1, 60):
            for method in ("agresti-coull", "wald"):
                low, high = confidence_interval(n, k / 60, 1 - k / 1000, method)
                dense.append(low.hex() + high.hex())
    report["ci_dense_sha"] = sha("".join(dense))
    return report


def main():
    report = {
        "programs": probe_programs(),
        "bucketing": probe_bucketing(),
        "lifecycle": probe_lifecycle(),
        "threads": probe_threads(),
        "stats": probe_stats(),
    }
    print(json.dumps(report, sort_keys=True, indent=1, ensure_ascii=True, default=repr))


if __name__ == "__main__":
    main()

"""Exercises the new traversal helpers (walk / iter_child_nodes / NodeVisitor)."""

from pyab_experiment.data_structures.syntax_tree import (
    ExperimentAST,
    ExperimentConditional,
    ExperimentGroup,
    Identifier,
    NodeVisitor,
    RecursivePredicate,
    TerminalPredicate,
    iter_child_nodes,
    walk,
)
from pyab_experiment.utils.wraper_functions import parse_source

SRC = """
def demo {
    salt: "s"
    splitters: uid
    if country in ("US", ("CA", region), alt) and not age < 18 {
        if plan == 'pro' { return "a" weighted 1, "b" weighted 2 }
    } else if (tier == 1 or tier == level) {
        return "c" weighted 1
    } else {
        return "d" weighted 1, 5 weighted 0.5
    }
}
"""

ast = parse_source(SRC)
before = ast.json()

nodes = list(walk(ast))
assert nodes[0] is ast
kinds = [type(n).__name__ for n in nodes]
assert kinds[:3] == ["ExperimentAST", "ExperimentConditional", "RecursivePredicate"], kinds
# identifiers in source order, including the ones nested inside tuple literals
idents = [n.name for n in nodes if isinstance(n, Identifier)]
assert idents == ["country", "region", "alt", "age", "plan", "tier", "tier", "level"], idents
groups = [n.group_definition for n in nodes if isinstance(n, ExperimentGroup)]
assert groups == ["a", "b", "c", "d", 5], groups
assert sum(isinstance(n, ExperimentConditional) for n in nodes) == 4
assert sum(isinstance(n, TerminalPredicate) for n in nodes) == 5
assert sum(isinstance(n, RecursivePredicate) for n in nodes) == 3

# direct children only
top = list(iter_child_nodes(ast))
assert len(top) == 1 and top[0] is ast.conditions
kids = list(iter_child_nodes(ast.conditions))
assert kids == [ast.conditions.predicate, ast.conditions.true_branch, ast.conditions.false_branch]
assert list(iter_child_nodes(Identifier(name="x"))) == []

# a flat experiment: the groups are the children of the root
flat = parse_source("def f { return 1 weighted 1, 2 weighted 3 }")
assert [type(n).__name__ for n in walk(flat)] == ["ExperimentAST", "ExperimentGroup", "ExperimentGroup"]


class Collector(NodeVisitor):
    def __init__(self):
        self.fields = []
        self.leaves = 0
        self.pruned = 0

    def visit_Identifier(self, node):
        self.fields.append(node.name)

    def visit_ExperimentGroup(self, node):
        self.leaves += 1

    def visit_ExperimentConditional(self, node):
        if node.predicate is None:  # do not descend into else branches
            self.pruned += 1
            return "pruned"
        return self.generic_visit(node)


c = Collector()
assert c.visit(ast) is None
assert c.fields == idents, c.fields
assert c.leaves == 3 and c.pruned == 1, (c.leaves, c.pruned)
assert Collector().visit(ast.conditions.false_branch.false_branch) == "pruned"

# deep chains do not hit the recursion limit in walk()
deep = "def a { splitters: u if a == 0 { return 0 weighted 1 } " + " ".join(
    f"else if a == {i} {{ return {i} weighted 1 }}" for i in range(1, 300)
) + " }"
# (parsing itself is iterative; walk is too)
assert sum(isinstance(n, ExperimentConditional) for n in walk(parse_source(deep))) == 300

# read only
assert ast.json() == before and isinstance(ast, ExperimentAST)
print("usage ok")

"""Differential probe: uses only the API that exists on HEAD and prints a
deterministic JSON summary.  Output must be byte-identical with and without
the patch."""

import copy
import glob
import hashlib
import io
import json
import os
import pickle
import random
import sys
import threading
from contextlib import redirect_stderr, redirect_stdout

from pyab_experiment.binning.binning import deterministic_choice, deterministic_proba
from pyab_experiment.codegen.python.python_generator import PythonCodeGen
from pyab_experiment.data_structures import syntax_tree as st
from pyab_experiment.experiment_evaluator import ExperimentEvaluator, ParseError
from pyab_experiment.language.grammar import ExperimentParser
from pyab_experiment.language.lexer import ExperimentLexer
from pyab_experiment.utils import stats
from pyab_experiment.utils.wraper_functions import generate_code, parse_source

import pyab_experiment  # noqa: E402

ROOT = os.path.abspath(os.path.join(os.path.dirname(pyab_experiment.__file__), "..", ".."))


def sha(text):
    return hashlib.sha256(text.encode("utf-8", "surrogatepass")).hexdigest()[:16]


def err(e):
    return {"error": type(e).__name__, "mro": [c.__name__ for c in type(e).__mro__][:4],
            "msg": str(e)[:300]}


PROGRAMS = {
    "plain": "def a{return 'x' weighted 1}",
    "two_groups": 'def exp_1 { return "a" weighted 1, "b" weighted 2.5 }',
    "salt_split": 'def s { salt: "pepper" splitters: uid, country return "a" weighted 1, "b" weighted 1, "c" weighted 2 }',
    "salt_only": "def s { salt: 'x' return 1 weighted 1, 2 weighted 3 }",
    "kw_prefixed": (
        "def definition { splitters: iffy, ornate, android, inner, notable, returned, saltine\n"
        " if android == 1 and ornate != 'or' or notable in ('not', 'in') {"
        " return 'andy' weighted 1, 'else_if' weighted 1 }"
        " else if inner not in (1, 2) { return 'elsewhere' weighted 2 }"
        " elseif weighted_x >= 2 { return 'w' weighted 1 }"
        " else { return 'd' weighted 1 } }"
    ),
    "not_in_spacing": "def n { splitters: u if a not   in (1,2) { return 1 weighted 1 } else if not a in (3,4) {return 2 weighted 1} else {return 3 weighted 1} }",
    "not_newline_in": "def n { splitters: u if a not\n\t in (1,) { return 1 weighted 1 } else\n\nif a == 1 {return 2 weighted 1} }",
    "nested_tuples": "def t { splitters: u if a in ((1,2),(3,(4,5)),'x',b,-1.5) { return 'in' weighted 1 } else { return 'out' weighted 1 } }",
    "single_tuple": "def t { splitters: u if a in (7,) { return 'in' weighted 1 } else { return 'out' weighted 1 } }",
    "single_tuple_noc": "def t { splitters: u if a in (7) { return 'in' weighted 1 } else { return 'out' weighted 1 } }",
    "tuple_left": "def t { splitters: u if (1,2) == a { return 'in' weighted 1 } else { return 'out' weighted 1 } }",
    "paren_pred": "def p { splitters: u if ((a == 1) or (b == 2)) and not (c < 3 or d > 4) { return 'y' weighted 1 } else { return 'n' weighted 1 } }",
    "precedence": "def p { splitters: u if a == 1 or b == 2 and not c == 3 or d == 4 { return 'y' weighted 1 } else { return 'n' weighted 1 } }",
    "not_not": "def p { splitters: u if not not a == 1 { return 'y' weighted 1 } else { return 'n' weighted 1 } }",
    "comments": (
        "/* head\n * comment */\ndef c { // trailing\n salt: 'a//b' /* x */ splitters: u /* multi\nline */\n"
        " if s == '/* not a comment */' { return '// no' weighted 1 } // c\n else { return \"/*\" weighted 1 } }\n// end"
    ),
    "quotes": "def q { splitters: u if s == \"it's\" { return 'say \"hi\"' weighted 1 } else if s == 'back\\slash' { return \"tab\\t\" weighted 1 } else { return '' weighted 1 } }",
    "backslash_n": "def q { salt: 'a\\nb' splitters: u return 'x\\\\' weighted 1, '{}' weighted 1 }",
    "non_ascii_str": "def u { salt: 'selé' splitters: uid if name == '名前' { return 'café' weighted 1, '☃' weighted 1 } else { return '\U0001f600' weighted 1 } }",
    "non_ascii_id": "def café { return 1 weighted 1 }",
    "non_ascii_digit": "def d { return 1 weighted ٣ }",
    "numbers": "def n { splitters: u if a >= -1 and b < -2.50 and c == 007 and d <= 1.0 and e != 0 { return -1 weighted 0, 2.5 weighted 1.50, 03 weighted 2 } else { return 0 weighted 1 } }",
    "big_numbers": "def n { splitters: u if a < 123456789012345678901234567890 { return 1 weighted 1 } else if a < " + "9" * 400 + ".0 { return 2 weighted 1 } else { return 3 weighted 1 } }",
    "big_weight": "def n { splitters: u return 1 weighted " + "9" * 400 + ".0, 2 weighted 1 }",
    "zero_weights": "def z { splitters: u return 'a' weighted 0, 'b' weighted 0.0 }",
    "num_like_str": "def z { splitters: u if zip == '02134' { return '18' weighted 1, '1.50' weighted 1 } else { return 18 weighted 1, 18.0 weighted 1 } }",
    "mixed_return": "def m { splitters: u return 'a' weighted 1, 2 weighted 1, 3.5 weighted 1, -4 weighted 1 }",
    "if_only": "def i { splitters: u if a == 1 { return 'only' weighted 1 } }",
    "if_elif_only": "def i { splitters: u if a == 1 { return 'one' weighted 1 } else if a == 2 { return 'two' weighted 1 } }",
    "nested_if": "def i { splitters: u if a == 1 { if b == 2 { return 'ab' weighted 1 } else if b == 3 { if c == 1 {return 'abc' weighted 1} } else { return 'a' weighted 1 } } else { return 'none' weighted 1 } }",
    "splitter_is_cond": "def sc { splitters: a, b if a == 1 and z == b { return 'x' weighted 1, 'y' weighted 1 } else { return 'z' weighted 1 } }",
    "dup_splitter": "def sc { splitters: a, a, b return 'x' weighted 1, 'y' weighted 1 }",
    "ident_vs_ident": "def ii { splitters: u if a == b or a in c { return 'x' weighted 1 } else { return 'y' weighted 1 } }",
    "lit_vs_lit": "def ll { splitters: u if 1 == 1 { return 'x' weighted 1 } else { return 'y' weighted 1 } }",
    "id_kwargs": "def k { splitters: kwargs return 'x' weighted 1 }",
    "id_python_kw": "def k { splitters: u if class == 1 { return 'x' weighted 1 } }",
    "id_name_python_kw": "def lambda { return 'x' weighted 1 }",
    "id_builtin": "def str { splitters: map return 'x' weighted 1, 'y' weighted 1 }",
    "id_partial": "def partial { splitters: deterministic_choice return 'x' weighted 1, 'y' weighted 1 }",
    "id_same_as_fn": "def k { splitters: k if choose_experiment_variant == 1 { return 'x' weighted 1 } else { return 'y' weighted 3 } }",
    "crlf": "def c {\r\n splitters: u\r\n return 'x' weighted 1 // c\r\n}\r\n",
    "form_feed": "def c {\x0c splitters: u\x0b return 'x' weighted 1\x1c}",
    "nbsp": "def c { return 'x' weighted 1}",
    "line_sep": "def c { return 'x' weighted 1 // c  }",
    "nl_in_string": "def c { return 'a\nb' weighted 1 }",
    "unterminated_str": "def c { return 'a weighted 1 }",
    "unterminated_block": "def c { return 'a' weighted 1 } /* open",
    "nested_block": "/* a /* b */ def c { return 'a' weighted 1 }",
    "nested_block2": "/* a /* b */ c */ def c { return 'a' weighted 1 }",
    "block_star": "/***/ def c { return 'a' weighted 1 } /**/",
    "empty": "",
    "only_comment": "// nothing",
    "garbage": "def @ {}",
    "no_return": "def c { }",
    "missing_weight": "def c { return 'a' }",
    "neg_weight": "def c { return 'a' weighted -1 }",
    "trailing_comma": "def c { return 'a' weighted 1, }",
    "two_defs": "def a { return 1 weighted 1 } def b { return 2 weighted 1 }",
    "splitters_before_salt": "def a { splitters: u salt: 'x' return 1 weighted 1 }",
    "else_without_if": "def a { else { return 1 weighted 1 } }",
    "else_then_else": "def a { if a == 1 {return 1 weighted 1} else { return 1 weighted 1 } else { return 2 weighted 1} }",
    "empty_tuple": "def a { if a in () { return 1 weighted 1 } }",
    "chained_cmp": "def a { if 1 < a < 3 { return 1 weighted 1 } }",
    "bare_pred": "def a { if a { return 1 weighted 1 } }",
    "kw_as_id": "def if { return 1 weighted 1 }",
    "kw_as_field": "def a { splitters: in return 1 weighted 1 }",
    "upper_kw": "def a { splitters: u IF a == 1 { return 1 weighted 1 } }",
    "float_no_lead": "def a { return 1 weighted .5 }",
    "float_no_trail": "def a { return 1 weighted 5. }",
    "exp_float": "def a { return 1 weighted 1e3 }",
    "neg_zero": "def a { splitters: u if a == -0 or a == -0.0 { return -0 weighted 1, -0.0 weighted 1 } else { return 0 weighted 1} }",
    "minus_space": "def a { splitters: u if a == - 5 { return - 1.5 weighted 1 } else { return 0 weighted 1} }",
    "double_minus": "def a { if a == --5 { return 1 weighted 1 } }",
    "semicolon": "def a { return 1 weighted 1; }",
    "elseif_many_ws": "def a { splitters: u if a == 1 { return 1 weighted 1 } else   \n\t if a == 2 { return 2 weighted 1 } else{return 3 weighted 1} }",
    "elseif_comment": "def a { splitters: u if a == 1 { return 1 weighted 1 } else /*x*/ if a == 2 { return 2 weighted 1 } }",
    "deep_paren": "def a { splitters: u if " + "(" * 30 + "a == 1" + ")" * 30 + " { return 1 weighted 1 } else { return 2 weighted 1 } }",
    "deep_tuple": "def a { splitters: u if a in " + "(" * 30 + "1" + ")" * 30 + " { return 1 weighted 1 } else { return 2 weighted 1 } }",
    "long_elif": "def a { splitters: u if a == 0 { return 0 weighted 1 } "
    + " ".join(f"else if a == {i} {{ return {i} weighted {i} }}" for i in range(1, 40))
    + " else { return 'rest' weighted 1 } }",
}

for path in sorted(glob.glob(os.path.join(ROOT, "tests", "unit", "test_programs", "*.pyab"))):
    with open(path, encoding="utf-8") as fh:
        PROGRAMS["file:" + os.path.basename(path)] = fh.read()

IDS = [0, 1, 2, 7, -1, 10**12, 1.5, "a", "", "é", "\U0001f600", None, True, (1, 2), "0", "00"]
FIELD_VALUES = [0, 1, 2, 3, 4, 5, 7, -1, -1.5, -0.0, "a", "x", "xyz", "it's", "back\\slash", "not", "or",
                "02134", "名前", "/* not a comment */", (1, 2), (3, (4, 5)), [1, 2], None, 1e400, 8, 9]


def collect_idents(node, acc):
    """HEAD-only traversal (no new API): collects Identifier names of a parsed AST"""
    if isinstance(node, st.Identifier):
        acc.add(node.name)
    elif isinstance(node, st.BaseModel):
        for name in node.__fields__:
            collect_idents(getattr(node, name), acc)
    elif isinstance(node, (list, tuple)):
        for item in node:
            collect_idents(item, acc)
    return acc


def call_many(fn, ast):
    names = sorted(collect_idents(ast, set()) | set(ast.splitting_fields or []))
    out = []
    rnd = random.Random(1234)
    for trial in range(60):
        kwargs = {}
        for name in names:
            kwargs[name] = rnd.choice(FIELD_VALUES) if trial % 3 else rnd.choice(IDS)
        if trial % 7 == 0:
            kwargs["extra_unused"] = trial
        if trial % 11 == 10 and names:
            kwargs.pop(names[0])
        random.seed(trial)  # unsplit experiments fall back to random.choices
        try:
            out.append(repr(fn(**kwargs)))
        except Exception as e:  # noqa: BLE001
            out.append(type(e).__name__ + ":" + str(e)[:80])
    return out


def probe_program(text):
    res = {}
    buf_out, buf_err = io.StringIO(), io.StringIO()
    with redirect_stdout(buf_out), redirect_stderr(buf_err):
        try:
            ast = parse_source(text)
        except Exception as e:  # noqa: BLE001
            ast = None
            res["parse"] = err(e)
        else:
            if ast is None:
                res["parse"] = None
            else:
                res["parse"] = {
                    "repr": repr(ast),
                    "json": ast.json(),
                    "dict": repr(ast.dict()),
                    "eq_self": ast == parse_source(text),
                    "copy_eq": ast.copy(deep=True) == ast,
                    "pickle_eq": pickle.loads(pickle.dumps(ast)) == ast,
                    "deepcopy_eq": copy.deepcopy(ast) == ast,
                    "fields_set": sorted(ast.__fields_set__),
                }
        for flag in (False, True):
            key = f"gen_{flag}"
            try:
                code = generate_code(text, flag)
            except Exception as e:  # noqa: BLE001
                res[key] = err(e)
                continue
            res[key] = {"sha": sha(code), "len": len(code)}
            try:
                raw = PythonCodeGen(parse_source(text), expose_experiment_variant_function=flag).generate()
                res[key]["raw_sha"] = sha(raw)
            except Exception as e:  # noqa: BLE001
                res[key]["raw"] = err(e)
            ns = {}
            try:
                exec(compile(code, "<gen>", "exec"), ns)
            except Exception as e:  # noqa: BLE001
                res[key]["exec"] = err(e)
                continue
            res[key]["names"] = sorted(k for k in ns if not k.startswith("__"))
            fn = ns.get(ast.id) if ast is not None else None
            if callable(fn):
                res[key]["calls"] = call_many(fn, ast)
        try:
            ev = ExperimentEvaluator(text)
        except Exception as e:  # noqa: BLE001
            res["evaluator"] = err(e)
        else:
            res["evaluator"] = {
                "checksum": ev._checksum,
                "vars": sorted(vars(ev)),
                "calls": call_many(ev, ast) if ast is not None else None,
            }
    res["stdout"] = buf_out.getvalue()
    res["stderr"] = buf_err.getvalue()
    return res


def probe_lexer():
    out = {}
    for name in ("kw_prefixed", "comments", "quotes", "numbers", "non_ascii_str", "crlf", "not_newline_in", "garbage"):
        try:
            out[name] = [(t.type, repr(t.value), t.lineno, t.index, t.end)
                         for t in ExperimentLexer().tokenize(PROGRAMS[name])]
        except Exception as e:  # noqa: BLE001
            out[name] = err(e)
    return out


def probe_parser_object():
    out = {}
    p = ExperimentParser()
    out["vars_fresh"] = sorted(vars(p))
    ast = p.parse(ExperimentLexer().tokenize(PROGRAMS["nested_if"]))
    out["vars_after"] = sorted(vars(p))
    out["reuse_same"] = ast == p.parse(ExperimentLexer().tokenize(PROGRAMS["nested_if"]))
    try:
        p.parse(ExperimentLexer().tokenize(PROGRAMS["trailing_comma"]))
    except Exception as e:  # noqa: BLE001
        out["reuse_error"] = err(e)
    out["reuse_after_error"] = repr(p.parse(ExperimentLexer().tokenize(PROGRAMS["plain"])))
    out["n_productions"] = len(ExperimentParser._grammar.Productions)
    out["productions"] = [str(x) for x in ExperimentParser._grammar.Productions]
    out["n_states"] = len(ExperimentParser._lrtable.lr_action)
    out["sr"] = len(ExperimentParser._lrtable.sr_conflicts)
    out["rr"] = len(ExperimentParser._lrtable.rr_conflicts)
    out["tokens"] = sorted(ExperimentParser.tokens)
    out["precedence"] = repr(ExperimentParser.precedence)
    return out


def probe_models():
    out = {}
    classes = [st.ExperimentGroup, st.Identifier, st.TerminalPredicate, st.RecursivePredicate,
               st.ExperimentConditional, st.ExperimentAST]
    for cls in classes:
        out[cls.__name__] = {
            "fields": {k: repr(v) for k, v in cls.__fields__.items()},
            "schema": cls.schema_json(),
            "smart_union": getattr(cls.Config, "smart_union", None),
            "bases": [b.__name__ for b in cls.__mro__],
            "validators": sorted(cls.__validators__),
        }
    for enum in (st.LogicalOperatorEnum, st.BooleanOperatorEnum, st.ConditionalType):
        out[enum.__name__] = [(m.name, m.value) for m in enum]
    cases = {
        "group_int_str": lambda: st.ExperimentGroup(group_definition="18", group_weight="2"),
        "group_float": lambda: st.ExperimentGroup(group_definition=1.0, group_weight=1.0),
        "group_bool": lambda: st.ExperimentGroup(group_definition=True, group_weight=True),
        "group_neg": lambda: st.ExperimentGroup(group_definition="a", group_weight=-1),
        "group_nan": lambda: st.ExperimentGroup(group_definition="a", group_weight=float("nan")),
        "group_extra": lambda: st.ExperimentGroup(group_definition="a", group_weight=1, other=3),
        "group_missing": lambda: st.ExperimentGroup(group_definition="a"),
        "ident_int": lambda: st.Identifier(name=5),
        "term_list": lambda: st.TerminalPredicate(left_term=[1, [2, 3]], logical_operator=st.LogicalOperatorEnum.IN, right_term={"name": "x"}),
        "term_op_int": lambda: st.TerminalPredicate(left_term=1, logical_operator=1, right_term="1"),
        "term_op_bad": lambda: st.TerminalPredicate(left_term=1, logical_operator="EQ", right_term=1),
        "rec_none": lambda: st.RecursivePredicate(left_predicate=st.TerminalPredicate(left_term=1, logical_operator=2, right_term=2), boolean_operator=3, right_predicate=None),
        "cond_dict": lambda: st.ExperimentConditional(conditional_type=3, predicate=None, true_branch=[{"group_definition": 1, "group_weight": 1}], false_branch=None),
        "ast_min": lambda: st.ExperimentAST(id="x", splitting_fields=None, salt=None, conditions=[]),
        "ast_missing": lambda: st.ExperimentAST(id="x"),
        "ast_parse_obj": lambda: st.ExperimentAST.parse_obj(parse_source(PROGRAMS["nested_tuples"]).dict()),
        "ast_parse_raw": lambda: st.ExperimentAST.parse_raw(parse_source(PROGRAMS["kw_prefixed"]).json()),
        "ast_construct": lambda: st.ExperimentAST.construct(id=1),
    }
    for name, fn in cases.items():
        try:
            value = fn()
            out[name] = {"repr": repr(value), "json": value.json() if name != "ast_construct" else None}
        except Exception as e:  # noqa: BLE001
            out[name] = err(e)
    a = parse_source(PROGRAMS["precedence"])
    b = parse_source(PROGRAMS["precedence"])
    c = parse_source(PROGRAMS["paren_pred"])
    out["eq"] = [a == b, a == c, a != c, a == a.dict(), a.conditions.predicate == b.conditions.predicate]
    try:
        out["hash"] = hash(a)
    except Exception as e:  # noqa: BLE001
        out["hash"] = err(e)
    child = a.conditions
    parent = st.ExperimentAST(id="q", splitting_fields=[], salt="", conditions=child)
    out["child_identity"] = [parent.conditions is child, parent.conditions == child,
                             parent.conditions.predicate is child.predicate]
    out["iter"] = [k for k, _ in a]
    out["str"] = str(a)
    try:
        a.id = "changed"
        out["mutable"] = a.id
    except Exception as e:  # noqa: BLE001
        out["mutable"] = err(e)
    try:
        a.unknown = 1
        out["setattr_unknown"] = "ok"
    except Exception as e:  # noqa: BLE001
        out["setattr_unknown"] = err(e)
    return out


def probe_lifecycle():
    out = []
    good1, good2 = PROGRAMS["salt_split"], PROGRAMS["kw_prefixed"]
    bad = [PROGRAMS["trailing_comma"], PROGRAMS["garbage"], PROGRAMS["empty"], PROGRAMS["id_python_kw"],
           PROGRAMS["non_ascii_digit"], PROGRAMS["unterminated_block"], PROGRAMS["nested_block2"]]

    def snap(ev, tag):
        try:
            r = [ev(uid=i, country="x", iffy=i, ornate="or", android=1, inner=3, notable="n", returned=0,
                    saltine=0, weighted_x=1) for i in range(12)]
        except Exception as e:  # noqa: BLE001
            r = err(e)
        out.append({"tag": tag, "checksum": ev._checksum, "calls": r,
                    "has_inst_fn": "run_experiment" in vars(ev), "vars": sorted(vars(ev))})

    for first in bad + [None]:
        try:
            ExperimentEvaluator(first)
            out.append({"ctor": "ok"})
        except Exception as e:  # noqa: BLE001
            out.append({"ctor": err(e)})
    ev = ExperimentEvaluator(good1)
    snap(ev, "init")
    history = [good1, bad[0], good1, bad[1], bad[1], good2, bad[2], good2, good1, bad[3], bad[3], good2 + " ",
               bad[4], bad[5], bad[6], good1 + "\n", good1]
    for i, text in enumerate(history):
        fn_before = ev.run_experiment
        try:
            r = ev.recompile(text)
            tag = f"recompile{i}:ok:{r!r}"
        except Exception as e:  # noqa: BLE001
            tag = f"recompile{i}:{type(e).__name__}"
        snap(ev, tag)
        out[-1]["same_fn"] = ev.run_experiment is fn_before
    blank = ExperimentEvaluator.__new__(ExperimentEvaluator)
    try:
        blank(uid=1)
    except Exception as e:  # noqa: BLE001
        out.append({"unloaded": err(e)})
    out.append({"class_checksum": ExperimentEvaluator._checksum, "parse_error_msg": str(ParseError()),
                "parse_error_attr": ParseError("m").message})
    for bad_arg in (None, 5, b"def a{return 1 weighted 1}"):
        try:
            ev.recompile(bad_arg)
            out.append({"badarg": "ok"})
        except Exception as e:  # noqa: BLE001
            out.append({"badarg": type(e).__name__})
    return out


def probe_threads():
    texts = [PROGRAMS["salt_split"], PROGRAMS["two_groups"].replace("exp_1", "s").replace("{", "{ splitters: uid ")]
    ev = ExperimentEvaluator(texts[0])
    results = {}
    errors = []
    barrier = threading.Barrier(8)

    def worker(k):
        barrier.wait()
        seen = set()
        for i in range(300):
            try:
                if k < 2:
                    ev.recompile(texts[(i + k) % 2])
                seen.add(repr(ev(uid=i % 17, country="c")))
            except Exception as e:  # noqa: BLE001
                errors.append(type(e).__name__)
        results[k] = seen

    threads = [threading.Thread(target=worker, args=(k,)) for k in range(8)]
    for t in threads:
        t.start()
    for t in threads:
        t.join()
    allowed = set()
    for text in texts:
        e2 = ExperimentEvaluator(text)
        allowed |= {repr(e2(uid=i, country="c")) for i in range(17)}
    return {"errors": sorted(errors), "all_allowed": all(v <= allowed for v in results.values()),
            "allowed": sorted(allowed), "final_checksum_known": ev._checksum in
            [hashlib.md5(t.encode()).hexdigest() for t in texts]}


def probe_binning():
    out = {}
    keys = ["", "a", "0", "1", "user-1", "é", "\U0001f600", "salt" + "12", "x" * 1000, "\x00", "None"]
    out["proba"] = {k: deterministic_proba(k) for k in keys}
    weights = [None, [1, 1, 1], [0, 0, 1], [1, 0, 0], [0.1, 0.2, 0.7], [1e-300, 1, 1e300], [3, 2, 1], [1, 2, 3.5]]
    pop = ["A", "B", "C"]
    table = {}
    for w in weights:
        table[repr(w)] = "".join(deterministic_choice(f"{s}{i}", pop, w) for s in ("", "salt", "é") for i in range(200))
    out["choice"] = table
    out["cum"] = "".join(deterministic_choice(str(i), pop, cum_weights=[1, 3, 6]) for i in range(200))
    bad = {
        "both": lambda: deterministic_choice("a", pop, [1, 1, 1], cum_weights=[1, 2, 3]),
        "len": lambda: deterministic_choice("a", pop, [1, 1]),
        "zero": lambda: deterministic_choice("a", pop, [0, 0, 0]),
        "inf": lambda: deterministic_choice("a", pop, [1, float("inf"), 1]),
        "nan": lambda: deterministic_choice("a", pop, [1, float("nan"), 1]),
        "neg": lambda: deterministic_choice("a", pop, [1, -5, 1]),
        "empty": lambda: deterministic_choice("a", [], []),
        "empty_none": lambda: deterministic_choice("a", []),
        "int_id": lambda: deterministic_choice(5, pop, [1, 1, 1]),
        "bytes_id": lambda: deterministic_choice(b"5", pop, [1, 1, 1]),
        "surrogate": lambda: deterministic_choice("\ud800", pop, [1, 1, 1]),
    }
    for name, fn in bad.items():
        try:
            out[name] = repr(fn())
        except Exception as e:  # noqa: BLE001
            out[name] = err(e)
    random.seed(99)
    out["none_id"] = [deterministic_choice(None, pop, [1, 2, 3]) for _ in range(20)]
    return out


def probe_stats():
    out = {}
    for a in (0.5, 0.975, 0.025, 0.001, 0.999, 0.3):
        out[f"probit{a}"] = stats.probit(a)
    out["probit_default"] = stats.probit()
    for a in (0, 1, -1, 2):
        try:
            out[f"probit{a}"] = stats.probit(a)
        except Exception as e:  # noqa: BLE001
            out[f"probit{a}"] = err(e)
    for n in (1, 10, 1000):
        for p in (0.0, 0.3, 0.5, 1.0):
            for conf in (0.9, 0.95, 0.99):
                for method in ("agresti-coull", "wald", "WALD", "Agresti-Coull"):
                    out[f"ci{n},{p},{conf},{method}"] = stats.confidence_interval(n, p, conf, method)
    out["ci_default"] = stats.confidence_interval()
    for args in ((10, 0.5, 0.95, "wilson"), (0, 0.5, 0.95, "wald"), (10, 0.5, 1.0, "wald"), (10, 0.5, 0.95, None)):
        try:
            out[f"ci_bad{args}"] = stats.confidence_interval(*args)
        except Exception as e:  # noqa: BLE001
            out[f"ci_bad{args}"] = err(e)
    return out


def main():
    summary = {
        "programs": {name: probe_program(text) for name, text in PROGRAMS.items()},
        "lexer": probe_lexer(),
        "parser": probe_parser_object(),
        "models": probe_models(),
        "lifecycle": probe_lifecycle(),
        "threads": probe_threads(),
        "binning": probe_binning(),
        "stats": probe_stats(),
    }
    json.dump(summary, sys.stdout, sort_keys=True, indent=1, default=repr, ensure_ascii=True)
    sys.stdout.write("\n")


if __name__ == "__main__":
    main()

"""exercises the top level package surface (needs the patch)"""

import subprocess
import sys

import pyab_experiment

assert pyab_experiment.version_info == (0, 3, 2)
assert pyab_experiment._parse_version("1.2.0rc1") == (1, 2, "0rc1")
assert pyab_experiment.version_info >= (0, 3)

# nothing but the package itself is loaded by `import pyab_experiment`
code = (
    "import sys, pyab_experiment\n"
    "mods = lambda: sorted(m for m in sys.modules if m.startswith('pyab_experiment.'))\n"
    "assert mods() == [], mods()\n"
    "assert 'black' not in sys.modules and 'pydantic' not in sys.modules\n"
    "pyab_experiment.deterministic_choice\n"
    "assert mods() == ['pyab_experiment.binning', 'pyab_experiment.binning.binning'], mods()\n"
    "assert 'deterministic_choice' in vars(pyab_experiment)\n"
    "ns = {}\n"
    "exec('from pyab_experiment import *', ns)\n"
    "assert sorted(k for k in ns if k != '__builtins__') == ['binning', 'deterministic_choice']\n"
)
subprocess.run([sys.executable, "-c", code], check=True)

from pyab_experiment import (  # noqa: E402
    ExperimentAST,
    ExperimentConditionalFailedError,
    ExperimentEvaluator,
    LexError,
    ParseError,
    YaccError,
    confidence_interval,
    deterministic_choice,
    generate_code,
    parse_source,
)
from pyab_experiment.binning import binning  # noqa: E402
from pyab_experiment.codegen.python import custom_exceptions  # noqa: E402
from pyab_experiment.data_structures import syntax_tree  # noqa: E402
from pyab_experiment import experiment_evaluator  # noqa: E402
from pyab_experiment.sly import lex, yacc  # noqa: E402
from pyab_experiment.utils import stats, wraper_functions  # noqa: E402

# the very same objects as in their home modules
assert ExperimentEvaluator is experiment_evaluator.ExperimentEvaluator
assert ParseError is experiment_evaluator.ParseError
assert parse_source is wraper_functions.parse_source
assert generate_code is wraper_functions.generate_code
assert deterministic_choice is binning.deterministic_choice
assert ExperimentConditionalFailedError is custom_exceptions.ExperimentConditionalFailedError
assert ExperimentAST is syntax_tree.ExperimentAST
assert LexError is lex.LexError and YaccError is yacc.YaccError
assert confidence_interval is stats.confidence_interval

assert set(pyab_experiment.public_api) == set(pyab_experiment._LAZY_EXPORTS) | {
    "version_info",
    "public_api",
}
for name in pyab_experiment.public_api:
    assert getattr(pyab_experiment, name) is vars(pyab_experiment)[name]

text = "def demo{ splitters: uid return 'a' weighted 1, 'b' weighted 1 }"
evaluator = pyab_experiment.ExperimentEvaluator(text)
assert evaluator(uid=4) in ("a", "b")
assert isinstance(pyab_experiment.parse_source(text), pyab_experiment.ExperimentAST)
try:
    pyab_experiment.parse_source("def demo{ ; }")
except pyab_experiment.LexError:
    pass

# unknown names fail as on any module
try:
    pyab_experiment.nope
except AttributeError as err:
    assert str(err) == "module 'pyab_experiment' has no attribute 'nope'"
assert not hasattr(pyab_experiment, "Experiment")
assert getattr(pyab_experiment, "nope", 1) == 1
print("usage ok")

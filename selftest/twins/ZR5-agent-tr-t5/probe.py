"""Differential probe. Run as
    PYTHONPATH=/tmp/wt/TR/src /venv/bin/python probe.py
Prints a deterministic JSON summary of the observable behaviour of the library.
Its output must be byte-identical with and without the patch.
"""

import hashlib
import io
import json
import random
import sys
import threading
from contextlib import redirect_stderr

_import_stderr = io.StringIO()
with redirect_stderr(_import_stderr):
    import pyab_experiment
    import pyab_experiment.sly as sly_pkg
    from pyab_experiment.binning.binning import (
        deterministic_choice,
        deterministic_proba,
    )
    from pyab_experiment.codegen.python import custom_exceptions
    from pyab_experiment.codegen.python.python_generator import PythonCodeGen
    from pyab_experiment import experiment_evaluator as ev_mod
    from pyab_experiment.experiment_evaluator import ExperimentEvaluator, ParseError
    from pyab_experiment.language.grammar import ExperimentParser
    from pyab_experiment.language.lexer import BlockComment, ExperimentLexer
    from pyab_experiment.sly import lex as sly_lex
    from pyab_experiment.sly import yacc as sly_yacc
    from pyab_experiment.utils import stats
    from pyab_experiment.utils.wraper_functions import generate_code, parse_source

OUT = {"import_stderr": _import_stderr.getvalue()}


def err(e):
    return {
        "error": type(e).__name__,
        "module": type(e).__module__,
        "bases": [b.__name__ for b in type(e).__mro__],
        "str": str(e),
        "args": repr(e.args),
    }


def guarded(fn, *a, **k):
    try:
        return {"ok": fn(*a, **k)}
    except BaseException as e:  # noqa: BLE001
        return err(e)


# --------------------------------------------------------------------------
# corpus
# --------------------------------------------------------------------------
VALID = {
    "basic": 'def basic { return "a" weighted 1, "b" weighted 1 }',
    "kwprefix": (
        "def definition { salt: 'salty' splitters: iffy, inner, notable, orb, android,"
        " returned, weightedx, elsewhere, splitters_, salt_x, defx "
        "if iffy == 1 and inner in (1, 2) or notable not in ('x') { return 'k' weighted 1 }"
        " else if orb >= android { return returned_ weighted 2 } }"
    ).replace("returned_ weighted", "'returned_' weighted"),
    "nested_tuples": (
        "def nt { splitters: uid if x in ((1, 2), (3, (4, 5)), 'a', y, -1.5, (z)) "
        "{ return 1 weighted 1, -2 weighted 2.5, 3.25 weighted 0 } "
        "else if (x, y) == (1, 'q') { return 'tuple' weighted 1 } else { return -0.5 weighted 1 } }"
    ),
    "comments": (
        "/* head **/ // trailing\n"
        "def c /* inline */ { // salt: 'no'\n"
        "  salt: \"s//not a comment\" /* multi\n line \n*/ splitters: a /*x*/ , b\n"
        "  if a == '/* not a comment */' { return 'x' weighted 1 } // done\n"
        "  else { return 'y' weighted 3 } /* tail */ }\n// eof"
    ),
    "quotes": (
        "def q { salt: 'it\"s' splitters: k if k == \"a'b\" { return 'back\\slash' weighted 1,"
        " \"dq'in\" weighted 1 } else if k != '\\n' { return '\\\\' weighted 2, '' weighted 1 }"
        " else { return \"\\t\" weighted 1 } }"
    ),
    "nonascii": (
        "def na { salt: 'sel_\u00e9\u00e8\u4e2d\U0001f600' splitters: uid if name == '\u00fcber' "
        "{ return 'gr\u00fc\u00df' weighted 1, '\u4e2d\u6587' weighted 2 } else { return '\u2028x' weighted 1 } }"
    ),
    "elseif_spacing": (
        "def e { if a < 1 { return 1 weighted 1 } elseif a < 2 { return 2 weighted 1 } "
        "else  \t\n if a < 3 { return 3 weighted 1 } else{ return 4 weighted 1 } }"
    ),
    "not_in_spacing": (
        "def n { if a not   in (1,2) and not b in (3) or not (c not\n\tin (4,5)) "
        "{ return 'p' weighted 1 } else { return 'q' weighted 1 } }"
    ),
    "precedence": (
        "def p { splitters: id if not a == 1 and b == 2 or c == 3 and not (d == 4 or e == 5) "
        "{ return 't' weighted 1 } else { return 'f' weighted 1 } }"
    ),
    "numbers": (
        "def num { splitters: id if a >= 007 and b <= 1.50 and c == -0 and d != -0.0 and "
        "e > 123456789012345678901234567890 and f < "
        + "9" * 400
        + ".0 { return 0 weighted 0.0, 1 weighted 1, 01 weighted 1.0 } "
        "else { return 18 weighted 1, 18.0 weighted 1, '18' weighted 1, '02134' weighted 1 } }"
    ),
    "shadow": (
        "def sh { salt: 'x' splitters: uid, flag if flag == 'on' and uid != 'root' "
        "{ return 'A' weighted 1, 'B' weighted 3 } else { return 'C' weighted 1 } }"
    ),
    "no_else": "def ne { splitters: uid if a == 1 { return 'one' weighted 1 } }",
    "deep": (
        "def deep { splitters: u if a == 1 { if b == 2 { if c == 3 { return 'abc' weighted 1 } "
        "else if c == 4 { return 'ab4' weighted 1 } } else { return 'a' weighted 1 } } "
        "else if a == 2 { return 'two' weighted 1, 'deux' weighted 1 } }"
    ),
    "salt_only": "def so { salt: \"only\" return 'x' weighted 1, 'y' weighted 2 }",
    "ident_terms": "def it { splitters: k if a == b and c in d or 1 < 2 { return 1 weighted 1 } else { return 2 weighted 1 } }",
    "kwargs_name": "def kw { splitters: kwargs_, partial_ if deterministic == 1 { return 'x' weighted 1 } else { return 'z' weighted 1 } }",
    "crlf": "def cr {\r\n splitters: a\r\n // c\r\n return 'x' weighted 1,\r\n 'y' weighted 1 }\r\n",
    "unicode_ws": "def\u00a0uw\u2003{\x0creturn\u3000'x'\x0bweighted\x1c1 }",
}

INVALID = {
    "empty": "",
    "ws": "  \n\t ",
    "only_comment": "/* nothing */ // here",
    "unterminated_block": "def a { /* never closed \n return 'x' weighted 1 }",
    "unterminated_block2": "def a { return 'x' weighted 1 } /* open",
    "unterminated_string": "def a { return 'x weighted 1 }",
    "bad_char": "def a { return 'x' weighted 1 ; }",
    "bad_char_first": "$def a { return 'x' weighted 1 }",
    "bad_char_late": "def a { return 'x' weighted 1 } @",
    "nonascii_ident": "def caf\u00e9 { return 'x' weighted 1 }",
    "kw_then_nonascii": "def a { if x in\u00e9 (1,) { return 'x' weighted 1 } }",
    "ident_digit": "def 1a { return 'x' weighted 1 }",
    "kw_as_ident": "def if { return 'x' weighted 1 }",
    "kw_as_field": "def a { splitters: in return 'x' weighted 1 }",
    "missing_brace": "def a { return 'x' weighted 1",
    "extra_brace": "def a { return 'x' weighted 1 } }",
    "two_defs": "def a { return 'x' weighted 1 } def b { return 'y' weighted 1 }",
    "neg_weight": "def a { return 'x' weighted -1 }",
    "string_weight": "def a { return 'x' weighted '1' }",
    "ident_return": "def a { return x weighted 1 }",
    "tuple_return": "def a { return (1,2) weighted 1 }",
    "empty_tuple": "def a { if x in () { return 1 weighted 1 } }",
    "salt_after_split": "def a { splitters: x salt: 's' return 1 weighted 1 }",
    "salt_ident": "def a { salt: s return 1 weighted 1 }",
    "trailing_comma": "def a { return 1 weighted 1, }",
    "trailing_comma_fields": "def a { splitters: x, return 1 weighted 1 }",
    "else_without_if": "def a { else { return 1 weighted 1 } }",
    "double_else": "def a { if x == 1 { return 1 weighted 1 } else { return 2 weighted 1 } else { return 3 weighted 1 } }",
    "elif_after_else": "def a { if x == 1 { return 1 weighted 1 } else { return 2 weighted 1 } else if x == 2 { return 3 weighted 1 } }",
    "bare_pred": "def a { if x { return 1 weighted 1 } }",
    "chained_cmp": "def a { if 1 < x < 3 { return 1 weighted 1 } }",
    "notin_joined": "def a { if x notin (1,) { return 1 weighted 1 } }",
    "upper_kw": "DEF a { return 1 weighted 1 }",
    "float_no_lead": "def a { return 1 weighted .5 }",
    "float_no_trail": "def a { return 1 weighted 5. }",
    "exp_float": "def a { return 1 weighted 1e5 }",
    "double_minus": "def a { if x == --1 { return 1 weighted 1 } }",
    "multiline_string": "def a { return 'x\ny' weighted 1 }",
    "nested_block": "def a { /* outer /* inner */ still */ return 1 weighted 1 }",
    "newline_lineno": "def a {\n\n\n return 1 weighted 1\n\n ! }",
    "lineno_token": "def a {\n\n salt: 's'\n\n splitters x }",
    "lineno_block": "def a { /* \n\n\n */ \n return return }",
    "huge_weight": "def a { return 1 weighted " + "9" * 400 + ".5, 2 weighted 1 }",
    "none": None,
    "bytes": b"def a { return 1 weighted 1 }",
    "int": 7,
}

OUT_OF_RANGE_OK = {
    "huge_int_weight": "def a { splitters: u return 1 weighted " + "9" * 400 + ", 2 weighted 1 }",
    "zero_weights": "def a { splitters: u return 1 weighted 0, 2 weighted 0.0 }",
    "single_zero": "def a { return 1 weighted 0 }",
}

PYTHON_LEVEL = {
    "name_partial": "def partial { splitters: u if a == 1 { return 'x' weighted 1, 'y' weighted 1 } }",
    "name_dc": "def deterministic_choice { splitters: u return 'x' weighted 1, 'y' weighted 1 }",
    "name_cev": "def choose_experiment_variant { splitters: u if a == 1 { return 'x' weighted 1 } else { return 'z' weighted 1 } }",
    "name_exc": "def ExperimentConditionalFailedError { splitters: u if a == 1 { return 'x' weighted 1 } }",
    "field_kwargs": "def fk { splitters: kwargs return 'x' weighted 1 }",
    "field_class": "def fc { splitters: class return 'x' weighted 1 }",
    "cond_class": "def cc { if lambda == 1 { return 'x' weighted 1 } }",
    "name_none": "def None { return 'x' weighted 1 }",
    "field_map": "def fm { splitters: map, u return 'x' weighted 1, 'y' weighted 1 }",
    "field_str": "def fs { splitters: u if str == 1 { return 'x' weighted 1, 'y' weighted 1 } else { return 'z' weighted 1 } }",
    "field_self": "def fself { splitters: self return 'x' weighted 1, 'y' weighted 1 }",
    "field_partial": "def fp { splitters: u if partial == 1 { return 'x' weighted 1, 'y' weighted 1 } else { return 'z' weighted 1 } }",
    "field_dc": "def fdc { splitters: deterministic_choice return 'x' weighted 1, 'y' weighted 1 }",
    "digits_4301": "def big { if a == " + "1" * 4301 + " { return 'x' weighted 1 } }",
    "digits_4301_after_error": "def big { return return " + "1" * 4301 + " }",
    "digits_4301_before_error": "def big { if a == " + "1" * 4301 + " return }",
    "float_4301": "def big { if a == " + "1" * 4301 + ".5 { return 'x' weighted 1 } }",
}

ALL_TEXTS = {}
ALL_TEXTS.update({f"P:{k}": v for k, v in PYTHON_LEVEL.items()})
ALL_TEXTS.update({f"V:{k}": v for k, v in VALID.items()})
ALL_TEXTS.update({f"I:{k}": v for k, v in INVALID.items()})
ALL_TEXTS.update({f"R:{k}": v for k, v in OUT_OF_RANGE_OK.items()})

import os  # noqa: E402

_prog_dir = os.path.join(
    os.path.dirname(os.path.dirname(os.path.abspath(pyab_experiment.__file__))),
    "..",
    "tests",
    "unit",
    "test_programs",
)
for _fn in sorted(os.listdir(_prog_dir)):
    with open(os.path.join(_prog_dir, _fn), encoding="utf-8") as _fp:
        ALL_TEXTS[f"F:{_fn}"] = _fp.read()

IDS = (
    [None, "", "0", "1", "a", "id_1", "id_2", "\u00e9", "\u4e2d\U0001f600", "x" * 1000]
    + [f"user-{i}" for i in range(40)]
    + [0, 1, -1, 1.5, True, (1, 2)]
)
FIELD_VALUES = [0, 1, 2, 3, 4, 5, -1, 1.5, "a", "b", "x", "xyz", "on", "root", "\u00fcber",
                "a'b", "\n", (1, 2), (1, "q"), None, "18", 18, 18.0, True, [1], "/* not a comment */"]


# --------------------------------------------------------------------------
# 1. tokens
# --------------------------------------------------------------------------
def tokens_of(text):
    lexer = ExperimentLexer()
    toks = []
    try:
        for t in lexer.tokenize(text):
            toks.append([t.type, repr(t.value), t.lineno, t.index, t.end])
        status = "ok"
    except BaseException as e:  # noqa: BLE001
        status = err(e)
        if isinstance(e, sly_lex.LexError):
            status["text"] = e.text
            status["error_index"] = e.error_index
    final = {
        "cls": type(lexer).__name__,
        "index": getattr(lexer, "index", "-"),
        "lineno": getattr(lexer, "lineno", "-"),
        "stack": [c.__name__ for c in (getattr(lexer, "_Lexer__state_stack", None) or [])],
    }
    return {"tokens": toks, "status": status, "final": final}


OUT["tokens"] = {k: tokens_of(v) for k, v in ALL_TEXTS.items()}


# --------------------------------------------------------------------------
# 2. parse
# --------------------------------------------------------------------------
def parse_of(text):
    stderr = io.StringIO()
    with redirect_stderr(stderr):
        try:
            ast = parse_source(text)
            res = {"repr": repr(ast), "type": type(ast).__name__}
            if ast is not None:
                res["json"] = ast.json()
        except BaseException as e:  # noqa: BLE001
            res = err(e)
    res["stderr"] = stderr.getvalue()
    return res


OUT["parse"] = {k: parse_of(v) for k, v in ALL_TEXTS.items()}

# a parser/lexer pair driven by hand, twice over the same instances
def reuse_pair():
    lexer, parser = ExperimentLexer(), ExperimentParser()
    out = []
    for key in ["V:basic", "I:missing_brace", "V:comments", "I:unterminated_block", "V:basic"]:
        try:
            out.append(repr(parser.parse(lexer.tokenize(ALL_TEXTS[key]))))
        except BaseException as e:  # noqa: BLE001
            out.append(err(e))
        out.append([type(lexer).__name__, getattr(parser, "state", None), len(parser.statestack), len(parser.symstack)])
    return out


OUT["reuse_pair"] = reuse_pair()


# --------------------------------------------------------------------------
# 3. code generation, both layouts, executed
# --------------------------------------------------------------------------
def call_matrix(fn, names):
    """call fn with a deterministic family of keyword sets"""
    res = []
    rnd = random.Random(12345)
    for i in range(60):
        kwargs = {}
        for n in names:
            kwargs[n] = rnd.choice(FIELD_VALUES) if rnd.random() < 0.7 else rnd.choice(IDS)
        if i % 7 == 0:
            kwargs["extra_kw"] = i
        if i % 11 == 0 and names:
            kwargs.pop(names[i % len(names)])
        random.seed(i)
        try:
            res.append(repr(fn(**kwargs)))
        except BaseException as e:  # noqa: BLE001
            res.append(type(e).__name__ + ":" + str(e))
    return res


def names_of(ast):
    g = PythonCodeGen(ast)
    g.generate()
    return sorted(set(g.local_vars) | set(g.conditional_ids))


def codegen_of(text):
    res = {}
    for expose in (True, False):
        entry = {}
        try:
            ast = parse_source(text)
            gen = PythonCodeGen(ast, expose_experiment_variant_function=expose)
            raw = gen.generate()
            entry["raw"] = raw
            entry["raw_again"] = gen.generate() == raw
            entry["indent_after"] = gen.indent()
            entry["local_vars"] = gen.local_vars
            entry["conditional_ids"] = gen.conditional_ids
            entry["raw_space"] = hashlib.sha256(
                PythonCodeGen(ast, "    ", expose).generate().encode()
            ).hexdigest()
            formatted = generate_code(text, expose)
            entry["formatted"] = formatted
            for label, src in (("raw", raw), ("formatted", formatted)):
                ns = {}
                exec(compile(src, "<probe>", "exec"), ns)
                entry[f"ns_{label}"] = sorted(k for k in ns if k != "__builtins__")
                entry[f"calls_{label}"] = call_matrix(ns[ast.id], names_of(ast))
                if expose:
                    try:
                        inner = ns["choose_experiment_variant"]
                        entry[f"inner_{label}"] = repr(type(inner).__name__)
                    except KeyError:
                        entry[f"inner_{label}"] = "missing"
        except BaseException as e:  # noqa: BLE001
            entry["error"] = err(e)
        res[str(expose)] = entry
    return res


OUT["codegen"] = {k: codegen_of(v) for k, v in ALL_TEXTS.items()}
OUT["generate_code_default"] = guarded(generate_code, VALID["shadow"])
OUT["codegen_none"] = {
    "gen_none": guarded(lambda: PythonCodeGen(None).generate()),
    "bad_cond": guarded(lambda: PythonCodeGen(parse_source(VALID["basic"]))._generate_conditionals(3)),
    "bad_pred": guarded(lambda: PythonCodeGen(parse_source(VALID["basic"]))._generate_predicate(3)),
    "bad_op": guarded(lambda: PythonCodeGen(parse_source(VALID["basic"]))._generate_op(3)),
    "terms": [
        guarded(lambda v=v: PythonCodeGen(parse_source(VALID["basic"]))._generate_term(v))
        for v in [1, 1.5, -2, "s", "it's", (1, "a"), [1], [], (), float("inf"), float("-inf"), True, None]
    ],
}


# --------------------------------------------------------------------------
# 4. evaluator lifecycle
# --------------------------------------------------------------------------
def eval_state(ev):
    fn = ev.__dict__.get("run_experiment")
    return {
        "checksum": ev._checksum,
        "dict_keys": sorted(ev.__dict__),
        "fn_name": getattr(fn, "__name__", None),
        "fn_module": getattr(fn, "__module__", None),
        "fn_globals_is_module": getattr(fn, "__globals__", None) is vars(ev_mod),
        "fn_qualname": getattr(fn, "__qualname__", None),
    }


def evaluator_of(text):
    try:
        ev = ExperimentEvaluator(text)
    except BaseException as e:  # noqa: BLE001
        return {"construct": err(e)}
    ast = parse_source(text)
    names = names_of(ast)
    return {
        "state": eval_state(ev),
        "calls": call_matrix(ev, names),
        "calls_run": call_matrix(ev.run_experiment, names)[:10],
    }


OUT["evaluator"] = {k: evaluator_of(v) for k, v in ALL_TEXTS.items()}


def history(steps):
    """steps: list of text keys; first constructs, the rest recompile"""
    log = []
    ev = None
    for key in steps:
        text = ALL_TEXTS[key]
        try:
            if ev is None:
                ev = ExperimentEvaluator(text)
            else:
                before = ev.__dict__.get("run_experiment")
                r = ev.recompile(text)
                log.append(["ret", repr(r), "same_fn", ev.__dict__.get("run_experiment") is before])
        except BaseException as e:  # noqa: BLE001
            log.append([key, err(e)])
            if ev is None:
                continue
        log.append([key, eval_state(ev)])
        random.seed(99)
        for kwargs in (
            {},
            {"uid": "u1"},
            {"uid": "u2", "flag": "on"},
            {"uid": "root", "flag": "on"},
            {"a": 1, "b": 2, "c": 3, "u": "k"},
            {"a": 2, "b": 1, "c": 1, "u": "k2", "zzz": 0},
            {"my_id": 5, "field_1": "a"},
        ):
            try:
                log.append(repr(ev(**kwargs)))
            except BaseException as e:  # noqa: BLE001
                log.append(type(e).__name__ + ":" + str(e))
    return log


OUT["histories"] = {
    "h1": history(["V:shadow", "V:shadow", "V:deep", "I:missing_brace", "V:deep", "V:shadow"]),
    "h2": history(["I:empty", "V:basic", "I:bad_char", "I:bad_char", "V:basic", "I:none", "V:no_else"]),
    "h3": history(["V:basic", "I:unterminated_block", "V:salt_only", "I:int", "I:bytes", "V:basic"]),
    "h4": history(["F:splitter_test.pyab", "F:basic_experiment.pyab", "F:basic_experiment_recompiled.pyab",
                   "F:splitter_test.pyab", "I:two_defs", "F:splitter_test.pyab"]),
    "h6": history(["V:basic", "P:field_kwargs", "P:field_class", "P:name_exc", "P:name_partial", "P:digits_4301", "V:basic"]),
    "h5": history(["V:deep", "R:zero_weights", "R:huge_int_weight", "V:deep"]),
}


def unloaded():
    ev = ExperimentEvaluator.__new__(ExperimentEvaluator)
    out = [guarded(lambda: ev()), guarded(lambda: ev.run_experiment(a=1)), ev._checksum,
           ExperimentEvaluator._checksum, sorted(ev.__dict__)]
    ev.recompile(VALID["basic"])
    random.seed(1)
    out.append(repr(ev()))
    out.append(eval_state(ev))

    class Sub(ExperimentEvaluator):
        def __init__(self):  # no compile
            pass

    s = Sub()
    out.append(guarded(lambda: s(x=1)))
    out.append(guarded(lambda: s.recompile(VALID["shadow"])))
    out.append(repr(s(uid="u", flag="on")))
    # checksum equal to md5 of the empty text: recompile("") on a fresh object is a no-op
    out.append(guarded(lambda: Sub().recompile("")))
    s2 = Sub()
    s2._checksum = hashlib.md5(VALID["basic"].encode()).hexdigest()
    out.append(guarded(lambda: s2.recompile(VALID["basic"])))
    out.append(guarded(lambda: s2()))
    return out


OUT["unloaded"] = unloaded()

# the names the generated function resolves at call time live in the evaluator module
OUT["evaluator_globals"] = {
    n: [type(getattr(ev_mod, n, None)).__name__, getattr(getattr(ev_mod, n, None), "__module__", None),
        getattr(getattr(ev_mod, n, None), "__qualname__", None)]
    for n in ["partial", "deterministic_choice", "ExperimentConditionalFailedError", "ParseError",
              "ExperimentEvaluator"]
}
import functools  # noqa: E402
import pyab_experiment.binning.binning as binning_mod  # noqa: E402

OUT["evaluator_globals_identity"] = [
    ev_mod.partial is functools.partial,
    ev_mod.deterministic_choice is binning_mod.deterministic_choice,
    ev_mod.ExperimentConditionalFailedError is custom_exceptions.ExperimentConditionalFailedError,
]


def late_binding():
    """the compiled function looks its helpers up in the evaluator module when called"""
    ev = ExperimentEvaluator(VALID["shadow"])
    out = [repr(ev(uid="u1", flag="on"))]
    saved = ev_mod.deterministic_choice
    try:
        ev_mod.deterministic_choice = lambda *a, **k: ("patched", a, sorted(k))
        out.append(repr(ev(uid="u1", flag="on")))
        ev2 = ExperimentEvaluator(VALID["deep"])
        out.append(repr(ev2(a=2, b=0, c=0, u="k")))
    finally:
        ev_mod.deterministic_choice = saved
    out.append(repr(ev(uid="u1", flag="on")))
    saved = binning_mod.deterministic_choice
    try:
        binning_mod.deterministic_choice = lambda *a, **k: "patched-binning"
        out.append(repr(ev(uid="u1", flag="on")))
        out.append(repr(ExperimentEvaluator(VALID["deep"])(a=2, b=0, c=0, u="k")))
    finally:
        binning_mod.deterministic_choice = saved
    saved = ev_mod.ExperimentConditionalFailedError
    try:
        ev_mod.ExperimentConditionalFailedError = KeyError
        out.append(guarded(lambda: ExperimentEvaluator(VALID["no_else"])(a=3, uid=1)))
    finally:
        ev_mod.ExperimentConditionalFailedError = saved
    out.append(guarded(lambda: ExperimentEvaluator(VALID["no_else"])(a=3, uid=1)))
    return out


OUT["late_binding"] = late_binding()


# --------------------------------------------------------------------------
# 5. threads
# --------------------------------------------------------------------------
def threads():
    keys = [k for k in ALL_TEXTS if k.startswith(("V:", "F:"))] + ["I:missing_brace", "I:bad_char",
                                                                  "I:unterminated_block", "I:empty"]
    expected = {k: OUT["parse"][k].get("repr", OUT["parse"][k].get("error")) for k in keys}
    mismatches = []
    shared = ExperimentEvaluator(VALID["shadow"])
    shared_results = []
    barrier = threading.Barrier(8)

    def work(n):
        barrier.wait()
        rnd = random.Random(n)
        for _ in range(25):
            k = rnd.choice(keys)
            try:
                got = repr(parse_source(ALL_TEXTS[k]))
            except BaseException as e:  # noqa: BLE001
                got = type(e).__name__
            if got != expected[k]:
                mismatches.append([k, got])
            try:
                ev = ExperimentEvaluator(ALL_TEXTS[k])
                got2 = "ok:" + ev.__dict__["run_experiment"].__name__
            except BaseException as e:  # noqa: BLE001
                got2 = type(e).__name__
            ok_expected = "repr" in OUT["parse"][k]
            if got2.startswith("ok:") != ok_expected:
                mismatches.append([k, got2])
            txt = VALID["shadow"] if rnd.random() < 0.5 else VALID["shadow"] + " "
            shared.recompile(txt)
            shared_results.append(shared(uid="u7", flag="on"))

    ts = [threading.Thread(target=work, args=(i,)) for i in range(8)]
    for t in ts:
        t.start()
    for t in ts:
        t.join()
    return {"mismatches": sorted(mismatches), "shared": sorted(set(map(repr, shared_results))),
            "n": len(shared_results)}


OUT["threads"] = threads()


# --------------------------------------------------------------------------
# 6. bucketing
# --------------------------------------------------------------------------
def bucketing():
    out = {}
    out["proba"] = [guarded(lambda i=i: repr(deterministic_proba(i))) for i in
                    ["", "a", "id_1", "\u00e9", "\u4e2d\U0001f600", "x" * 1000, "salt" + "12", None, 5, b"a"]
                    + [f"k{i}" for i in range(50)]]
    pops = [
        (["a", "b"], None, None),
        (["a", "b"], [1, 1], None),
        (["a", "b", "c"], [4, 1, 0], None),
        (["a", "b", "c"], [0, 0, 1], None),
        (["a", "b", "c"], [0.5, 0.25, 0.25], None),
        (["a", "b", "c"], None, [1, 2, 4]),
        (["a", "b", "c"], [1, 2, 3], [1, 3, 6]),
        (["a", "b"], [1], None),
        (["a", "b"], [0, 0], None),
        (["a", "b"], [-1, 0.5], None),
        (["a", "b"], [float("inf"), 1], None),
        (["a", "b"], [float("nan"), 1], None),
        (["a", "b"], [10 ** 400, 1], None),
        ([], None, None),
        ([], [], None),
        (["only"], [3], None),
        ([1, 1.5, "x", (1,)], [1, 1, 1, 1], None),
        (["a", "b"], ["1", "2"], None),
        (("a", "b"), (1, 3), None),
    ]
    rows = []
    for pop, w, cw in pops:
        row = []
        for i in ["", "a", "id_1", "id_2", "\u00e9", "salt" + "u1" + "on"] + [f"u{i}" for i in range(30)] + [7, b"x"]:
            try:
                row.append(repr(deterministic_choice(i, pop, w, cum_weights=cw)))
            except BaseException as e:  # noqa: BLE001
                row.append(type(e).__name__ + ":" + str(e))
        random.seed(5)
        try:
            row.append(repr(deterministic_choice(None, pop, w, cum_weights=cw)))
        except BaseException as e:  # noqa: BLE001
            row.append(type(e).__name__ + ":" + str(e))
        rows.append(row)
    out["choice"] = rows
    out["positional"] = guarded(lambda: deterministic_choice("a", ["x"], [1], [1]))
    return out


OUT["bucketing"] = bucketing()

# --------------------------------------------------------------------------
# 7. stats
# --------------------------------------------------------------------------
OUT["stats"] = {
    "probit": [guarded(lambda a=a: repr(stats.probit(a))) for a in
               [0.5, 0.975, 0.025, 0.001, 0.999, 0.25, 1e-12, 0, 1, -0.1, 1.1, "x"]]
    + [guarded(lambda: repr(stats.probit()))],
    "ci": [guarded(lambda a=a: repr(stats.confidence_interval(*a))) for a in [
        (), (10,), (100, 0.3), (100, 0.3, 0.99), (100, 0.3, 0.99, "wald"), (100, 0.3, 0.99, "WALD"),
        (100, 0.3, 0.99, "Agresti-Coull"), (100, 0.3, 0.99, "wilson"), (0, 0.5, 0.95, "wald"),
        (0, 0.5), (10000, 0.5, 0.999), (10000, 4 / 5, 0.999), (5, 0.0), (5, 1.0), (5, 1.5, 0.9, "wald"),
        (10, 0.5, 1.0), (10, 0.5, 0.0), (10, 0.5, 0.95, None),
    ]],
}


# --------------------------------------------------------------------------
# 8. public surface: exceptions, exports, class tables
# --------------------------------------------------------------------------
def exc_info(cls, *args, **kwargs):
    e = cls(*args, **kwargs)
    return {
        "name": cls.__name__, "qualname": cls.__qualname__, "module": cls.__module__,
        "bases": [b.__module__ + "." + b.__name__ for b in cls.__bases__],
        "doc": cls.__doc__, "str": str(e), "args": repr(e.args), "repr": repr(e),
        "dict": {k: repr(v) for k, v in sorted(vars(e).items())},
        "own": sorted(k for k in vars(cls) if not k.startswith("__") or k == "__init__"),
    }


import inspect  # noqa: E402

OUT["exceptions"] = [
    exc_info(ParseError), exc_info(ParseError, "m"), exc_info(ParseError, message="kw"),
    exc_info(custom_exceptions.ExperimentConditionalFailedError),
    exc_info(custom_exceptions.ExperimentConditionalFailedError, "m"),
    exc_info(custom_exceptions.ExperimentConditionalFailedError, message="kw"),
    exc_info(sly_lex.LexError, "m", "txt", 3),
    exc_info(sly_lex.PatternError, "p"), exc_info(sly_lex.LexerBuildError, "p"),
    exc_info(sly_lex.LexerStateChange, "st"), exc_info(sly_lex.LexerStateChange, "st", "tok"),
    exc_info(sly_yacc.YaccError, "y"), exc_info(sly_yacc.GrammarError, "g"),
    exc_info(sly_yacc.LALRError, "l"),
    str(inspect.signature(ParseError)), str(inspect.signature(custom_exceptions.ExperimentConditionalFailedError)),
    guarded(lambda: ParseError("a", "b")),
    guarded(lambda: custom_exceptions.ExperimentConditionalFailedError("a", "b")),
]
OUT["exports"] = {
    "pkg_all": guarded(lambda: list(pyab_experiment.__all__)),
    "pkg_version": pyab_experiment.__version__,
    "sly_all": list(sly_pkg.__all__),
    "sly_star": sorted(k for k in vars(sly_pkg) if not k.startswith("__")),
    "sly_identity": [sly_pkg.Lexer is sly_lex.Lexer, sly_pkg.Parser is sly_yacc.Parser,
                     sly_pkg.LexerStateChange is sly_lex.LexerStateChange],
    "lex_all": list(sly_lex.__all__), "yacc_all": list(sly_yacc.__all__),
    "custom_exc_all": list(custom_exceptions.__all__),
    "parse_source_sig": str(inspect.signature(parse_source)),
    "generate_code_sig": str(inspect.signature(generate_code)),
    "evaluator_sig": str(inspect.signature(ExperimentEvaluator)),
    "recompile_sig": str(inspect.signature(ExperimentEvaluator.recompile)),
    "codegen_sig": str(inspect.signature(PythonCodeGen)),
    "tokenize_sig": str(inspect.signature(ExperimentLexer.tokenize)),
    "parse_sig": str(inspect.signature(ExperimentParser.parse)),
}


def tables():
    lt = ExperimentParser._lrtable
    g = ExperimentParser._grammar
    h = hashlib.sha256()
    h.update(repr(sorted((s, sorted(a.items())) for s, a in lt.lr_action.items())).encode())
    h.update(repr(sorted((s, sorted(a.items())) for s, a in lt.lr_goto.items())).encode())
    h.update(repr(sorted(lt.defaulted_states.items())).encode())
    return {
        "lr": h.hexdigest(),
        "productions": [str(p) for p in g.Productions],
        "namemap_keys": [sorted(p.namemap) for p in g.Productions],
        "sr": len(lt.sr_conflicts), "rr": len(lt.rr_conflicts),
        "master_re": ExperimentLexer._master_re.pattern,
        "master_re_flags": ExperimentLexer._master_re.flags,
        "block_re": BlockComment._master_re.pattern,
        "rules": [k for k, _ in ExperimentLexer._rules],
        "block_rules": [k for k, _ in BlockComment._rules],
        "token_funcs": sorted(ExperimentLexer._token_funcs),
        "ignored": sorted(ExperimentLexer._ignored_tokens),
        "block_ignored": sorted(BlockComment._ignored_tokens),
        "tokens": sorted(ExperimentLexer.tokens),
        "parser_tokens_same": ExperimentParser.tokens is ExperimentLexer.tokens,
        "remapping": repr(ExperimentLexer._remapping),
        "lexer_mro": [c.__name__ for c in ExperimentLexer.__mro__],
        "parser_mro": [c.__name__ for c in ExperimentParser.__mro__],
        "lexer_error_msg": guarded(lambda: ExperimentLexer().error(type("T", (), {"value": "zq"})())),
    }


OUT["tables"] = tables()



# --------------------------------------------------------------------------
# 9. the vendored sly runtime driven directly (states, marks, remapping, EBNF, recovery)
# --------------------------------------------------------------------------
def sly_section():
    out = {}
    build_err = io.StringIO()
    with redirect_stderr(build_err):

        class CalcLexer(sly_pkg.Lexer):
            tokens = {NAME, NUMBER, IF, ELSE, PLUS, TIMES, MINUS, ASSIGN, LPAREN, RPAREN, COMMA, SEMI, STR}  # noqa: F821
            ignore = " \t"
            literals = {"!", "?"}
            NAME = r"[a-zA-Z_][a-zA-Z0-9_]*"
            NAME["if"] = IF  # noqa: F821
            NAME["else"] = ELSE  # noqa: F821
            PLUS = r"\+"
            TIMES = r"\*"
            MINUS = r"-"
            ASSIGN = r"="
            LPAREN = r"\("
            RPAREN = r"\)"
            COMMA = r","
            SEMI = r";"
            ignore_comment = r"\#.*"

            @_(r"\d+")  # noqa: F821
            def NUMBER(self, t):
                t.value = int(t.value)
                return t

            @_(r"\n+")  # noqa: F821
            def ignore_newline(self, t):
                self.lineno += len(t.value)

            @_(r'"')  # noqa: F821
            def STR_START(self, t):
                self.push_state(StrLexer)

            def error(self, t):
                self.index += 1
                t.value = t.value[0]
                return t

        class StrLexer(sly_pkg.Lexer):
            tokens = {STR, ESC}  # noqa: F821

            @_(r'"')  # noqa: F821
            def STR_END(self, t):
                self.pop_state()

            @_(r"\\.")  # noqa: F821
            def ESC(self, t):
                t.value = t.value[1]
                return t

            STR = r'[^"\\]+'

        class SubLexer(CalcLexer):
            tokens = {POW}  # noqa: F821
            POW = before(TIMES, r"\*\*")  # noqa: F821
            del SEMI  # noqa: F821

        class CalcParser(sly_pkg.Parser):
            tokens = CalcLexer.tokens - {"STR", "IF", "ELSE"}
            precedence = (("left", PLUS, MINUS), ("left", TIMES), ("right", UMINUS))  # noqa: F821

            @_("statement { COMMA|SEMI statement }")  # noqa: F821
            def statements(self, p):
                return ["stmts", p.statement0, p.statement1, p[0], len(p)]

            @_("NAME ASSIGN expr")  # noqa: F821
            def statement(self, p):
                return ("assign", p.NAME, p.expr, p.lineno, p.index, p.end)

            @_("expr [ NAME NUMBER ]")  # noqa: F821
            def statement(self, p):
                return ("expr", p.expr, p.NAME, p.NUMBER)

            @_("expr PLUS expr", "expr MINUS expr", "expr TIMES expr")  # noqa: F821
            def expr(self, p):
                return (p[1], p.expr0, p.expr1, p[-1] if False else None)

            @_("MINUS expr %prec UMINUS")  # noqa: F821
            def expr(self, p):
                return ("neg", p.expr)

            @_("LPAREN expr RPAREN")  # noqa: F821
            def expr(self, p):
                return p.expr

            @_("LPAREN error RPAREN")  # noqa: F821
            def expr(self, p):
                return ("recovered", p.error.type if hasattr(p.error, "type") else repr(p.error))

            @_("NUMBER", "NAME")  # noqa: F821
            def expr(self, p):
                try:
                    p.nothing
                except AttributeError as e:
                    self.seen_attr_errors.append(str(e))
                return p[0]

            seen_attr_errors = []

    out["build_stderr"] = build_err.getvalue().replace(__file__, "<probe>")

    def toks(cls, text, **kw):
        lx = cls()
        res = []
        try:
            for t in lx.tokenize(text, **kw):
                res.append(repr(t))
        except BaseException as e:  # noqa: BLE001
            res.append(err(e))
        res.append([type(lx).__name__, lx.index, lx.lineno])
        return res

    lex_inputs = [
        "a = 1 + 2 * 3", "if x else y ifx", 'a = "str \\" esc" + 1', '"open', "a ! ? $ b\n\n c # comment\n d",
        "", "\n\n", "2 ** 3 ; 4", "x" * 50, 'a "b" "c\\n" d',
    ]
    out["lex"] = {i: toks(CalcLexer, i) for i in lex_inputs}
    out["lex_sub"] = {i: toks(SubLexer, i) for i in lex_inputs}
    out["lex_offsets"] = [toks(CalcLexer, "abc def\nghi", lineno=10, index=2), toks(CalcLexer, "abc", index=3),
                          toks(CalcLexer, "abc", index=50), toks(CalcLexer, "abc", index=-1),
                          toks(CalcLexer, "abc", index=-50)]
    out["lex_tables"] = [CalcLexer._master_re.pattern, SubLexer._master_re.pattern, StrLexer._master_re.pattern,
                         repr(sorted(CalcLexer._remapping.items())), [k for k, _ in SubLexer._rules],
                         sorted(SubLexer._token_names)]

    # mark / accept / reject
    def marks():
        lx = CalcLexer()
        res = []
        gen = lx.tokenize('a b "s" c d')
        res.append(repr(next(gen)))
        lx.mark()
        res.append(repr(next(gen)))
        res.append(repr(next(gen)))  # inside the string state now
        res.append(type(lx).__name__)
        lx.reject()
        res.append(type(lx).__name__)
        res.append(repr(next(gen, None)))
        res.append(repr(next(gen, None)))
        lx.accept()
        res.extend(repr(t) for t in gen)
        res.append(guarded(lambda: lx.accept()))
        res.append([type(lx).__name__, lx.index, lx.lineno])
        # begin() from outside between tokens
        lx2 = CalcLexer()
        gen = lx2.tokenize('a b c" d')
        res.append(repr(next(gen)))
        lx2.begin(StrLexer)
        try:
            for t in gen:
                res.append(repr(t))
        except BaseException as e:  # noqa: BLE001
            res.append(err(e))
        res.append([type(lx2).__name__, lx2.index, lx2.lineno])
        # two generators over one lexer
        lx3 = CalcLexer()
        g1, g2 = lx3.tokenize("a b c"), lx3.tokenize("1 2 3")
        res.append([repr(next(g1)), repr(next(g2)), repr(next(g1)), repr(next(g2))])
        return res

    out["marks"] = marks()

    def parse(text):
        stderr = io.StringIO()
        parser = CalcParser()
        parser.seen_attr_errors = []
        with redirect_stderr(stderr):
            try:
                r = repr(parser.parse(CalcLexer().tokenize(text)))
            except BaseException as e:  # noqa: BLE001
                r = err(e)
        return [r, stderr.getvalue(), parser.seen_attr_errors[:2], getattr(parser, "state", None),
                sorted(map(repr, parser._line_positions.values()))[:5] if hasattr(parser, "_line_positions") else None]

    out["parse"] = {t: parse(t) for t in [
        "a = 1 + 2 * 3", "1 + 2, b = 3; -4 * (5 - 6)", "1 x 2", "x y 3, 4", "(1 + ) * 2", "1 + + 2", "", "a = ",
        ") 1", "1 2 3", "(1 +", "a = 1\n\n, b = (\n2 3)", "- - 1 - 2 - 3",
    ]}
    g = CalcParser._grammar
    out["productions"] = [str(p) for p in g.Productions]
    out["namemap_keys"] = [list(p.namemap) for p in g.Productions]
    lt = CalcParser._lrtable
    out["lr"] = hashlib.sha256(repr([sorted((s, sorted(a.items())) for s, a in lt.lr_action.items()),
                                      sorted((s, sorted(a.items())) for s, a in lt.lr_goto.items())]).encode()).hexdigest()
    # bad specifications
    def bad_lexer():
        class Bad(sly_pkg.Lexer):
            tokens = {A}  # noqa: F821
            A = r"a*"
    def bad_lexer2():
        class Bad(sly_pkg.Lexer):
            tokens = {A}  # noqa: F821
            A = r"a"
            B = r"b"
    def bad_lexer3():
        class Bad(sly_pkg.Lexer):
            tokens = {A}  # noqa: F821
            A = r"(a"
    def bad_lexer4():
        class Bad(sly_pkg.Lexer):
            A = r"a"
    def bad_parser():
        class Bad(sly_pkg.Parser):
            tokens = {"A"}
            @_("A B")  # noqa: F821
            def s(self, p):
                pass
    def bad_parser2():
        class Bad(sly_pkg.Parser):
            tokens = {"A"}
    with redirect_stderr(io.StringIO()) as se:
        out["bad"] = [guarded(f) for f in (bad_lexer, bad_lexer2, bad_lexer3, bad_lexer4, bad_parser, bad_parser2)]
        for b in out["bad"]:
            if "str" in b:
                b["str"] = b["str"].replace(__file__, "<probe>")
                b["args"] = b["args"].replace(__file__, "<probe>")
    out["bad_stderr"] = se.getvalue().replace(__file__, "<probe>")
    return out


OUT["sly"] = sly_section()


# --------------------------------------------------------------------------
# 10. every module imported first, in a fresh interpreter (import cycles, import order)
# --------------------------------------------------------------------------
def import_orders():
    import subprocess

    mods = [
        "pyab_experiment", "pyab_experiment.language", "pyab_experiment.language.lexer",
        "pyab_experiment.language.grammar", "pyab_experiment.codegen.python.python_generator",
        "pyab_experiment.codegen.python.custom_exceptions", "pyab_experiment.binning.binning",
        "pyab_experiment.data_structures.syntax_tree", "pyab_experiment.utils.wraper_functions",
        "pyab_experiment.experiment_evaluator", "pyab_experiment.sly", "pyab_experiment.sly.lex",
        "pyab_experiment.sly.yacc", "pyab_experiment.utils.stats",
    ]
    snippet = (
        "import importlib, sys, random\n"
        "m = importlib.import_module(sys.argv[1])\n"
        "from pyab_experiment.experiment_evaluator import ExperimentEvaluator\n"
        "from pyab_experiment.utils.wraper_functions import generate_code, parse_source\n"
        "t = \"def d { salt: 's' splitters: u if a in (1, 'b') { return 'x' weighted 1, 'y' weighted 2 } else { return 3 weighted 1 } }\"\n"
        "e = ExperimentEvaluator(t)\n"
        "print(repr(parse_source(t)))\n"
        "print([e(u=i, a=1) for i in range(20)], e(u=1, a=2))\n"
        "print(generate_code(t, True))\n"
        "import pyab_experiment.sly as s\n"
        "print(sorted(k for k in vars(s) if not k.startswith('__')), s.__all__)\n"
    )
    res = {}
    for m in mods:
        p = subprocess.run([sys.executable, "-c", snippet, m], capture_output=True, text=True)
        res[m] = [p.returncode, hashlib.sha256(p.stdout.encode()).hexdigest(), p.stdout[:120], p.stderr[-300:]]
    return res


OUT["import_orders"] = import_orders()


import re  # noqa: E402

_text = json.dumps(OUT, indent=1, sort_keys=True, ensure_ascii=True, default=repr)
_text = re.sub(r" at 0x[0-9a-fA-F]+", " at 0x?", _text)
print(_text)
print("sha256", hashlib.sha256(_text.encode()).hexdigest())

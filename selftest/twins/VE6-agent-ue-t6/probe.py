"""Differential probe.  Run as
    PYTHONPATH=/tmp/wt/UE/src /venv/bin/python probe.py
Prints a deterministic JSON summary of the observable behaviour of the library.
The output must be byte-identical with and without the patch."""

import glob
import hashlib
import io
import json
import os
import random
import sys
import threading
import warnings

warnings.simplefilter("ignore")
_captured_stderr = io.StringIO()
_real_stderr = sys.stderr
sys.stderr = _captured_stderr  # conflicts reported by sly at import show up here

from pyab_experiment.binning.binning import (  # noqa: E402
    deterministic_choice,
    deterministic_proba,
)
from pyab_experiment.codegen.python.python_generator import PythonCodeGen  # noqa: E402
from pyab_experiment.data_structures import syntax_tree as st  # noqa: E402
from pyab_experiment.experiment_evaluator import ExperimentEvaluator  # noqa: E402
from pyab_experiment.language.grammar import ExperimentParser  # noqa: E402
from pyab_experiment.language.lexer import ExperimentLexer  # noqa: E402
from pyab_experiment.utils import stats  # noqa: E402
from pyab_experiment.utils.wraper_functions import (  # noqa: E402
    generate_code,
    parse_source,
)

HERE = os.path.dirname(os.path.abspath(__file__))
ROOT = os.path.dirname(os.path.dirname(HERE))
OUT = {}


def digest(obj) -> str:
    return hashlib.sha256(
        json.dumps(obj, sort_keys=True, default=repr).encode("utf-8")
    ).hexdigest()


def outcome(fn, *a, **k):
    try:
        return ["ok", fn(*a, **k)]
    except RecursionError:
        return ["err", "RecursionError", ""]
    except BaseException as e:  # noqa: BLE001
        return ["err", type(e).__name__, str(e)[:300]]


def deep(node):
    """structural dump of an AST value, with the exact type of every leaf"""
    if isinstance(node, st.BaseModel):
        return {
            "__model__": type(node).__name__,
            "set": sorted(node.__fields_set__),
            **{k: deep(v) for k, v in node.__dict__.items()},
        }
    if isinstance(node, (list, tuple)):
        return [type(node).__name__] + [deep(x) for x in node]
    if isinstance(node, (st.Enum,)):
        return str(node)
    return [type(node).__name__, repr(node)]


# --------------------------------------------------------------------- corpus
HUGE = "9" * 400
VALID = [
    'def a { return "x" weighted 1 }',
    "def a { return 'x' weighted 1, 'y' weighted 2.5, 3 weighted 0, -4.5 weighted 7 }",
    'def define_it { salt: "s" splitters: iffy, inner, notx, orx, android, '
    'elsewhere, defx, returned, weighted_, salty, splitters_ return 1 weighted 1 }',
    'def a { salt: \'it"s\' return "a\\nb" weighted 1, \'q"q\' weighted 2, '
    '"it\'s" weighted 3, "\\\\" weighted 1 }',
    'def a { splitters: uid if iffy in (1, 2, 3) { return "in" weighted 1 } '
    'else if notx not   in ("a", "b") { return "nin" weighted 1, "z" weighted 3 } '
    'else { return "else" weighted 1 } }',
    'def a { splitters: u, v if x in (1, (2, "a", (y, z)), -3.5, (0.0, -0)) '
    '{ return 1 weighted 1 } }',
    "def a { if (1, 2) == t { return 1 weighted 1 } else { return 2 weighted 1} }",
    "def a { if ((1, 2) == t) { return 1 weighted 1 } else{return 2 weighted 1} }",
    "def a { if ((a), b) != (c, (d)) { return 1 weighted 1 } }",
    'def a { if not a == 1 and b > 2 or not (c <= 3 or d >= "4") and e < -5.5 '
    '{ return "t" weighted 1, "u" weighted 1 } else\n\n if f != g '
    '{ return "v" weighted 2 } elseif h == h { return "w" weighted 1 } }',
    'def a { if x == 1 { if y == 2 { if z == 3 { return "d" weighted 1 } '
    'else { return "e" weighted 1 } } else if y == 3 { return "f" weighted 1 } } '
    'else if x == 2 { return "g" weighted 1, "h" weighted 1 } }',
    'def a { salt: "" splitters: x if x == x { return "é中\U0001f600" '
    'weighted 1, "b" weighted 1 } else { return "c" weighted 1 } }',
    "def a /* c1 */ { // line comment\n salt /* mid */ : 'x' /* multi\n line */ "
    "splitters: k // trailing\n return /**/ 1 weighted 1 /* a */ , 2 weighted 2 }"
    " // end",
    f"def a {{ if {HUGE} == x {{ return {HUGE} weighted 1 }} }}",
    f"def a {{ return {HUGE}.0 weighted 1, 1 weighted {HUGE}.5, -{HUGE}.0 weighted 1}}",
    "def a { return 0 weighted 0, -0 weighted 0.0, -0.0 weighted 00, 007 weighted 010 }",
    'def a { splitters: b, a, b, a if a in ("x") { return "s" weighted 1 } '
    "else { return 1.0 weighted 1, 1 weighted 1, '1' weighted 1 } }",
    "def a { if x in (1, 1.0, '1', -1, (1,2), y) or x not in z "
    "{ return 'a' weighted 1e } }".replace("1e }", "1 }"),
    "def kwargs { splitters: self, population if partial == deterministic_choice "
    "{ return 'a' weighted 1 } else { return 'b' weighted 1 } }",
    "def a { if not not not x == 1 { return 1 weighted 1 } else { return 0 weighted 1 } }",
    "def a { if a == 1 or b == 2 and c == 3 or d == 4 { return 1 weighted 1 } "
    "else { return 0 weighted 1 } }",
    "def a { if (a == 1 or b == 2) and (c == 3 or d == 4) { return 1 weighted 3, "
    "2 weighted 2, 3 weighted 1, 4 weighted 0.5, 5 weighted 0.25 } }",
    "def a { splitters: s1 if 'abc' in s1 { return 'sub' weighted 1 } else if s1 in "
    "'abcdef' { return 'sup' weighted 1 } else { return 'no' weighted 1 } }",
    "def a { return 'only' weighted 0 }",
    "def a { splitters: k return 'z' weighted 0, 'y' weighted 0.0 }",
    "def a{if x<1{return 1 weighted 1}elseif x<2{return 2 weighted 1}else{return 3 weighted 1}}",
    "def a { if x not\n\t in (1,2) { return 1 weighted 1 } else  \n if x in (1,2) "
    "{ return 2 weighted 1 } }",
    "def a { salt: 'a//b' splitters: k return '/*' weighted 1, '*/' weighted 1, "
    "'//' weighted 1 }",
    "def a { if (((x == 1))) { return 1 weighted 1 } }",
    "def a { if (x, (y, (z, (w, 1)))) == q { return 1 weighted 1 } }",
    "def a { splitters: " + ", ".join(f"f{i}" for i in range(60)) + " if x in ("
    + ", ".join(str(i) for i in range(80)) + ") { return "
    + ", ".join(f"'g{i}' weighted {i}" for i in range(50)) + " } }",
]
for path in sorted(glob.glob(os.path.join(ROOT, "tests/unit/test_programs/*.pyab"))):
    with open(path, encoding="utf-8") as fh:
        VALID.append(fh.read())

INVALID = [
    "",
    "def",
    "def a",
    "def a {",
    "def a { }",
    "def a { return }",
    "def a { return 'x' }",
    "def a { return 'x' weighted }",
    "def a { return 'x' weighted -1 }",
    "def a { return 'x' weighted 1, }",
    "def a { return 'x' weighted 1 'y' weighted 2 }",
    "def a { return 'x' weighted 1 } trailing",
    "def a { return 'x' weighted 1 } }",
    "def a { splitters: return 1 weighted 1 }",
    "def a { splitters: a, return 1 weighted 1 }",
    "def a { splitters: a b return 1 weighted 1 }",
    "def a { splitters: a,, b return 1 weighted 1 }",
    "def a { splitters: 1 return 1 weighted 1 }",
    "def a { splitters: a salt: 's' return 1 weighted 1 }",
    "def a { salt: s return 1 weighted 1 }",
    "def a { salt 's' return 1 weighted 1 }",
    "def a { if x in () { return 1 weighted 1 } }",
    "def a { if x in (1,) { return 1 weighted 1 } }",
    "def a { if x in (1 2) { return 1 weighted 1 } }",
    "def a { if x in (,1) { return 1 weighted 1 } }",
    "def a { if x in (1,,2) { return 1 weighted 1 } }",
    "def a { if x in (1,(2,) { return 1 weighted 1 } }",
    "def a { if x in (1,2 { return 1 weighted 1 } }",
    "def a { if x { return 1 weighted 1 } }",
    "def a { if x == { return 1 weighted 1 } }",
    "def a { if x == 1 return 1 weighted 1 }",
    "def a { if x == 1 { return 1 weighted 1 } else }",
    "def a { if x == 1 { return 1 weighted 1 } else { return 2 weighted 1 } else "
    "{ return 3 weighted 1 } }",
    "def a { else { return 1 weighted 1 } }",
    "def a { if x == 1 == 2 { return 1 weighted 1 } }",
    "def a { if x == 1 and { return 1 weighted 1 } }",
    "def a { if not { return 1 weighted 1 } }",
    "def a { if (x == 1 { return 1 weighted 1 } }",
    "def a { if x == 1) { return 1 weighted 1 } }",
    "def a { if x == --1 { return 1 weighted 1 } }",
    "def a { if x == -'s' { return 1 weighted 1 } }",
    "def a { if x == -y { return 1 weighted 1 } }",
    "def a { if x notin (1,2) { return 1 weighted 1 } }",
    "def a { if x = 1 { return 1 weighted 1 } }",
    "def a { return 1 weighted 1. }",
    "def a { return 1 weighted .5 }",
    "def a { return 1 weighted 1e3 }",
    "def a { return \"x' weighted 1 }",
    "def a { return 'multi\nline' weighted 1 }",
    "def a { return $ weighted 1 }",
    "def a { return 'x' weighted 1 } $",
    "def a { return 'x' weighted 1 /* unterminated }",
    "def a { return 'x' weighted 1 */ }",
    "def 1a { return 'x' weighted 1 }",
    "def if { return 'x' weighted 1 }",
    "def a { return x weighted 1 }",
    "def a { return (1,2) weighted 1 }",
    "def a b { return 1 weighted 1 }",
    "def a { return 1 weighted 1 } def b { return 1 weighted 1 }",
    "def a { return 'x' weighted 1 ; }",
    "def é { return 'x' weighted 1 }",
    "def a { return 'x' weighted ١ }",
    "DEF a { return 'x' weighted 1 }",
    "def a { Return 'x' weighted 1 }",
    # construction failures racing with later syntax / lexing errors
    f"def a {{ return 'x' weighted {HUGE} }}",
    f"def a {{ return 'x' weighted {HUGE}, 'y' weighted 1 }}",
    f"def a {{ return 'x' weighted 1, 'y' weighted {HUGE} }}",
    f"def a {{ return 'x' weighted {HUGE}, 'y' weighted 1 oops }}",
    f"def a {{ return 'x' weighted {HUGE}, 'y' weighted 1 $ }}",
    f"def a {{ return 'x' weighted {HUGE}, 'y' weighted 1, }}",
    f"def a {{ return 'x' weighted {HUGE}, 'y' weighted {HUGE}, $ }}",
    f"def a {{ return 'x' weighted {HUGE} }} extra",
    f"def a {{ return 'x' weighted {HUGE} }} $",
    f"def a {{ if x == 1 {{ return 'x' weighted {HUGE} }} else {{ $ }} }}",
    f"def a {{ if x == 1 {{ return 'x' weighted {HUGE} }} else oops }}",
    f"def a {{ if x in (1, 2, {HUGE} {{ return 'x' weighted {HUGE} }} }}",
    "def a { return 'x' weighted " + "9" * 5000 + " }",
    "def a { splitters: a, b, $ return 1 weighted 1 }",
    "def a { splitters: a, b, c d return 1 weighted 1 }",
    "def a { if x in (1, (2, 3), $ ) { return 1 weighted 1 } }",
    "def a { if x in (1, (2, 3) 4) { return 1 weighted 1 } }",
    "def a { if x in ((1, 2) { return 1 weighted 1 } }",
    "def a { if x in (1, 2)) { return 1 weighted 1 } }",
    "def a { if (1, 2) { return 1 weighted 1 } }",
    "def a { if ((1, 2)) == x { return 1 weighted 1 } }",
]

TOKENS = [
    "def", "a", "b", "iffy", "{", "}", "(", ")", ",", ":", "-", "salt", "splitters",
    "if", "else", "else if", "elseif", "return", "weighted", "and", "or", "not",
    "not in", "in", "==", "!=", "<", ">", "<=", ">=", "1", "2.5", "'s'", '"t"',
    "/* c */", "// c\n", "$", HUGE,
]


# ------------------------------------------------------------------- parsing
def parse_dump(text):
    r = outcome(parse_source, text)
    if r[0] == "ok":
        ast = r[1]
        return ["ok", repr(ast), digest(deep(ast))]
    return r


OUT["parse_valid"] = [parse_dump(t) for t in VALID]
OUT["parse_invalid"] = [parse_dump(t) for t in INVALID]


def tokens_dump(text):
    def run():
        return [
            (t.type, repr(t.value), t.lineno, t.index, t.end)
            for t in ExperimentLexer().tokenize(text)
        ]

    r = outcome(run)
    return r if r[0] == "err" else ["ok", digest(r[1]), len(r[1])]


OUT["lex"] = [tokens_dump(t) for t in VALID + INVALID]

# random token soups and mutations of valid programs
rng = random.Random(20240607)
soup = []
for _ in range(6000):
    n = rng.randint(1, 14)
    soup.append(" ".join(rng.choice(TOKENS) for _ in range(n)))
SKELETONS = [
    "def a { splitters : a , b , iffy if a in ( 1 , ( 2 , b ) , 's' ) and not b == 2 "
    "{ return 's' weighted 1 , 2 weighted 2.5 , -1 weighted 0 } else if ( a , b ) != b "
    "{ return 1 weighted 1 } else { return 2 weighted 2 , 3 weighted 3 } }",
    "def a { salt : 's' return 1 weighted 1 , 'x' weighted " + HUGE + " , 3 weighted 3 }",
    "def a { if ( ( a , 1 ) == b or ( a == 1 ) ) and a not in ( 1 , 2 ) "
    "{ if b < 1 { return 1 weighted 1 } } elseif b > -2.5 { return 2 weighted 2 } }",
]
for sk in SKELETONS:
    parts = sk.split(" ")
    for i in range(len(parts)):
        soup.append(" ".join(parts[:i] + parts[i + 1 :]))  # deletion
        soup.append(" ".join(parts[:i] + [parts[i]] * 2 + parts[i + 1 :]))  # dup
        soup.append(" ".join(parts[:i]))  # truncation
        for tok in ("$", ",", ")", "(", "}", "1", "a", HUGE, "weighted", "not"):
            soup.append(" ".join(parts[:i] + [tok] + parts[i:]))  # insertion
            soup.append(" ".join(parts[:i] + [tok] + parts[i + 1 :]))  # replacement
    for _ in range(1500):
        q = list(parts)
        for _ in range(rng.randint(1, 3)):
            i = rng.randrange(len(q))
            op = rng.random()
            if op < 0.3:
                del q[i]
            elif op < 0.6:
                q.insert(i, rng.choice(TOKENS))
            elif op < 0.8:
                q[i] = rng.choice(TOKENS)
            else:
                j = rng.randrange(len(q))
                q[i], q[j] = q[j], q[i]
        soup.append(" ".join(q))
soup_res = [parse_dump(t) for t in soup]
classes = {}
for r in soup_res:
    key = r[0] if r[0] == "ok" else r[1]
    classes[key] = classes.get(key, 0) + 1
OUT["soup"] = {"n": len(soup), "classes": classes, "digest": digest(soup_res)}

# position bookkeeping of the parser for the value it returns
pos = []
for t in VALID[:12]:
    p = ExperimentParser()
    ast = p.parse(ExperimentLexer().tokenize(t))
    pos.append([outcome(p.line_position, ast), outcome(p.index_position, ast)])
OUT["positions"] = pos


# --------------------------------------------------------- generated programs
PALETTE = [
    0, 1, 2, 3, -1, 4.5, -3.5, 1.0, "a", "b", "x", "xyz", "abc", "1", "", (1, 2),
    (1, 2, 3), None, True, "US", 18, 21, "é", ("a", "b"), [1, 2], 9, 10,
]


def run_generated(text, expose):
    ast = parse_source(text)
    gen = PythonCodeGen(ast, expose_experiment_variant_function=expose)
    code = gen.generate()
    res = {"code": digest(code), "lv": gen.local_vars, "ci": gen.conditional_ids}
    ns = {}
    exec(compile(code, "<probe>", "exec"), ns)
    fn = ns[ast.id]
    names = sorted(set(gen.local_vars) | set(gen.conditional_ids))
    calls = []
    for env in range(40):
        kw = {
            n: PALETTE[(env * 7 + i * 3 + (env * i) % 5) % len(PALETTE)]
            for i, n in enumerate(names)
        }
        if ast.splitting_fields is None:
            # no key: random.choices is used, make it reproducible
            random.seed(env)
        calls.append(outcome(fn, **kw))
    if names:
        calls.append(outcome(fn))
        calls.append(outcome(fn, unknown_extra=1, **{n: 1 for n in names}))
    res["calls"] = digest(calls)
    res["sample"] = calls[:3]
    return res


gen_res = []
for t in VALID:
    for expose in (True, False):
        gen_res.append(outcome(run_generated, t, expose))
OUT["generated"] = [
    r if r[0] == "err" else ["ok", r[1]["code"], r[1]["calls"], r[1]["lv"][:4],
                             r[1]["ci"][:4], r[1]["sample"][0]]
    for r in gen_res
]
OUT["generated_digest"] = digest(gen_res)

fmt = []
for t in VALID[:26] + INVALID[:6] + INVALID[64:70]:
    for expose in (False, True):
        r = outcome(generate_code, t, expose)
        if r[0] == "ok":
            ns = {}
            exec(compile(r[1], "<fmt>", "exec"), ns)
            r = ["ok", digest(r[1])]
        fmt.append(r)
OUT["generate_code"] = digest(fmt)
OUT["generate_code_head"] = fmt[:6]
OUT["generate_code_text"] = generate_code(VALID[4], True) + generate_code(VALID[9])

# the generator used directly, with other indentation and hand-built trees
hand = []
for t in VALID[:12]:
    for ch in ("\t", "  ", "    "):
        hand.append(
            outcome(lambda: PythonCodeGen(parse_source(t), indentation_char=ch).generate())
        )
tp = st.TerminalPredicate(
    left_term=st.Identifier(name="x"), logical_operator=2, right_term=[1, [2, 3]]
)
cond = st.ExperimentConditional(
    conditional_type=1,
    predicate=st.RecursivePredicate(
        left_predicate=tp, boolean_operator=st.BooleanOperatorEnum.NOT, right_predicate=None
    ),
    true_branch=[st.ExperimentGroup(group_definition="1", group_weight=True)],
    false_branch=None,
)
tree = st.ExperimentAST(id="h", splitting_fields=("k",), salt=None, conditions=cond)
hand.append(["tree", repr(tree), digest(deep(tree))])
hand.append(outcome(lambda: PythonCodeGen(tree).generate()))
g = PythonCodeGen(tree)


class Always:
    def __eq__(self, other):
        return True

    def __hash__(self):
        return hash("EQ")

    def __repr__(self):
        return "Always()"


class Never:
    __hash__ = None

    def __eq__(self, other):
        return False

    def __repr__(self):
        return "Never()"


for op in (
    list(st.LogicalOperatorEnum) + list(st.BooleanOperatorEnum)
    + list(st.ConditionalType) + [1, 2, "EQ", "==", None, Always(), Never(), 1.0, [1]]
):
    hand.append([repr(op), outcome(g._generate_op, op)])
for num in (0, -0.0, 1, 1.0, True, float("inf"), float("-inf"), float("nan"), 10**400,
            -(10**400), 1e308, "s", None, (1,), [float("inf")], st.Identifier(name="q")):
    hand.append([repr(num), outcome(PythonCodeGen._generate_number, num),
                 outcome(g._generate_term, num)])
tp.logical_operator = "=="
hand.append(outcome(lambda: PythonCodeGen(tree).generate()))
cond2 = cond.copy(update={"conditional_type": "weird"})
tree2 = tree.copy(update={"conditions": cond2})
hand.append(outcome(lambda: PythonCodeGen(tree2).generate()))
hand.append(outcome(lambda: PythonCodeGen(tree.copy(update={"conditions": 5})).generate()))
g2 = PythonCodeGen(parse_source(VALID[9]))
hand.append([g2.local_vars, g2.conditional_ids, digest(g2.generate()), g2.local_vars,
             g2.conditional_ids, digest(g2.generate()), g2.conditional_ids])
OUT["hand"] = digest(hand)
OUT["hand_tail"] = hand[36:]

# model coercions of the AST classes themselves
models = []
for args in (
    dict(group_definition=1, group_weight=1), dict(group_definition=True, group_weight=True),
    dict(group_definition="1", group_weight="1"), dict(group_definition=1.5, group_weight=-1),
    dict(group_definition=None, group_weight=1), dict(group_definition=b"x", group_weight=2.5),
    dict(group_definition=[1], group_weight=float("nan")),
):
    models.append(outcome(lambda: repr(st.ExperimentGroup(**args))))
for lt in (1, 1.0, True, "1", (1, "a"), [1, [2]], {"name": "n"}, st.Identifier(name="i"),
           None, b"b", {1, 2}):
    for op in (1, 8, 9, "EQ", st.LogicalOperatorEnum.IN):
        models.append(
            outcome(lambda: repr(st.TerminalPredicate(left_term=lt, logical_operator=op,
                                                      right_term=lt)))
        )
OUT["models"] = digest(models)
OUT["enums"] = [[str(m), m.value] for e in (st.LogicalOperatorEnum, st.BooleanOperatorEnum,
                                           st.ConditionalType) for m in e]

# ------------------------------------------------------------------ bucketing
ids = [str(i) for i in range(400)] + ["", "a", "é", "x" * 1000, "0", "00", " ", "\n"]
OUT["proba"] = digest([deterministic_proba(i) for i in ids])
OUT["proba_head"] = [deterministic_proba(i) for i in ids[:3]]
OUT["proba_bad"] = [outcome(deterministic_proba, v)[:2] for v in (None, 1, b"a", 1.5, ["a"])]
WEIGHTS = [
    None, [1, 1, 1], [1, 2, 3], [0, 0, 1], [0.5, 0.25, 0.25], [1, 0, 0], [0, 0, 0],
    [1, 2], [1, 2, 3, 4], [-1, 2, 3], [float("inf"), 1, 1], [float("nan"), 1, 1],
    [1e308, 1e308, 1e308], [True, 2, 3.5], [10**30, 1, 1], [1, 1, -1], ["a", "b", "c"],
]
ch = []
for w in WEIGHTS:
    for salt in ("", "s", "salté"):
        ch.append([outcome(deterministic_choice, salt + i, ["A", "B", "C"], w) for i in ids[:150]])
    ch.append(outcome(deterministic_choice, "k", ["A", "B", "C"], cum_weights=w))
    ch.append(outcome(deterministic_choice, "k", ["A", "B", "C"], w, cum_weights=w))
ch.append(outcome(deterministic_choice, "k", [], None))
ch.append(outcome(deterministic_choice, "k", [], []))
ch.append(outcome(deterministic_choice, 5, ["A"], [1]))
ch.append(outcome(deterministic_choice, "k", 5, [1]))
OUT["choice"] = digest(ch)

# --------------------------------------------------------- evaluator lifecycle
P1 = "def f { splitters: k if c == 1 { return 'a' weighted 1, 'b' weighted 1 } else { return 'z' weighted 1 } }"
P2 = "def g { salt: 'q' splitters: k return 'c' weighted 1, 'd' weighted 3 }"
P3 = "def f { splitters: k if c == 1 { return 'a' weighted 1 } }"
BAD = ["def f {", "def f { return 'a' weighted 1 } $", "", f"def f {{ return 1 weighted {HUGE} }}"]
life = []


def calls(ev):
    r = []
    for kw in ({"k": 1, "c": 1}, {"k": "u2", "c": 2}, {"k": 3}, {}, {"k": 5, "c": 1, "zz": 0}):
        r.append(outcome(lambda: ev(**kw)))
        r.append(outcome(lambda: ev.run_experiment(**kw)))
    return r


for history in (
    [P1], [P1, P1], [P1, P2], [P1, BAD[0], P1], [P1, BAD[1], BAD[1], P2, BAD[2], P2, P1],
    [P2, P3, BAD[3], P3, P1], [P3, P3 + " ", P3],
):
    ev = None
    trace = []
    for text in history:
        if ev is None:
            r = outcome(ExperimentEvaluator, text)
            if r[0] == "ok":
                ev = r[1]
                r = ["ok", "constructed"]
        else:
            before = ev.run_experiment
            r = outcome(ev.recompile, text)
            r.append(before is ev.run_experiment)
        trace.append(r)
        if ev is not None:
            trace.append([ev._checksum, calls(ev)])
    life.append(trace)
for text in BAD:
    life.append(outcome(ExperimentEvaluator, text))
OUT["lifecycle"] = digest(life)
OUT["lifecycle_head"] = life[0]

# threads: many evaluators compiled and called concurrently
thread_out = {}


def worker(n):
    acc = []
    for j in range(6):
        text = VALID[(n + j) % 12]
        acc.append(parse_dump(text)[2])
        ev = ExperimentEvaluator(P1 if (n + j) % 2 else P2)
        acc.append([outcome(lambda: ev(k=i, c=1)) for i in range(30)])
        ev.recompile(P2)
        acc.append([outcome(lambda: ev(k=i)) for i in range(30)])
    thread_out[n] = digest(acc)


ths = [threading.Thread(target=worker, args=(n,)) for n in range(8)]
for t in ths:
    t.start()
for t in ths:
    t.join()
OUT["threads"] = [thread_out[n] for n in range(8)]

# ---------------------------------------------------------------------- stats
sv = []
for a in (0.5, 0.975, 0.025, 0.9, 0.1, 0.999, 1e-9, 0.3, 1, 0, 2, -1, True, "x", None):
    sv.append(outcome(stats.probit, a))
sv.append(outcome(stats.probit))
for n in (1, 10, 100, 12345, 0, -5, 2.5):
    for p in (0.0, 0.5, 0.3, 1.0, 1.2):
        for c in (0.95, 0.9, 0.5, 0.999, 1.0, 0.0):
            for m in ("agresti-coull", "wald", "Wald", "AGRESTI-COULL", "other", "WALD "):
                sv.append(outcome(stats.confidence_interval, n, p, c, m))
sv.append(outcome(stats.confidence_interval))
sv.append(outcome(stats.confidence_interval, method=None))
OUT["stats"] = digest(sv)
OUT["stats_head"] = sv[:4]

sys.stderr = _real_stderr
OUT["stderr_at_import"] = _captured_stderr.getvalue()
print(json.dumps(OUT, sort_keys=True, indent=1, default=repr))

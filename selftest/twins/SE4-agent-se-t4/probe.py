"""Old/new comparison probe for the code generator and the syntax-tree models.

Run as  PYTHONPATH=/tmp/wt/SE/src /venv/bin/python probe.py
Prints a deterministic transcript; the transcript of the changed tree must be
identical to the transcript of the clean tree.

RAW_TEXT = True  : the generated text itself is part of the transcript.
RAW_TEXT = False : the generated text is compared as code (python ast dump) and
                   with trailing blanks of every line removed.
"""

import ast as pyast
import glob
import hashlib
import os
import random
import sys
import threading

RAW_TEXT = True
# False: the fields a generator has noted are not reported after generate() raised
IDS_AFTER_FAILURE = False

from pyab_experiment.codegen.python.python_generator import PythonCodeGen  # noqa: E402
from pyab_experiment.data_structures.syntax_tree import (  # noqa: E402
    BooleanOperatorEnum,
    ConditionalType,
    ExperimentAST,
    ExperimentConditional,
    ExperimentGroup,
    Identifier,
    LogicalOperatorEnum,
    RecursivePredicate,
    TerminalPredicate,
)
from pyab_experiment.experiment_evaluator import ExperimentEvaluator  # noqa: E402
from pyab_experiment.utils.wraper_functions import (  # noqa: E402
    generate_code,
    parse_source,
)

HERE = os.path.dirname(os.path.abspath(__file__))
ROOT = os.path.abspath(os.path.join(HERE, "..", ".."))


def out(*parts):
    print(*parts)


def sha(text):
    return hashlib.sha256(text.encode("utf-8", "backslashreplace")).hexdigest()[:16]


def show_text(label, text):
    if not isinstance(text, str):
        out(label, "NOT-A-STRING", type(text).__name__, repr(text))
        return
    if RAW_TEXT:
        out(label, "text", sha(text), repr(text) if len(text) < 1500 else "<long>")
    else:
        stripped = "\n".join(line.rstrip() for line in text.split("\n"))
        out(
            label,
            "text-without-trailing-blanks",
            sha(stripped),
            repr(stripped) if len(stripped) < 1500 else "<long>",
        )
    try:
        tree = pyast.parse(text)
        out(label, "as-code", sha(pyast.dump(tree, include_attributes=False)))
        code = compile(text, "<string>", "exec")
        out(label, "lines", sorted({ln for _, _, ln in code.co_lines() if ln}))
    except BaseException as exc:  # noqa: BLE001
        out(label, "as-code", type(exc).__name__)


def failure(fn, *args, **kwargs):
    """class and full payload of what a call raises"""
    try:
        fn(*args, **kwargs)
        return "no failure"
    except BaseException as exc:  # noqa: BLE001
        return (type(exc).__name__, sha(repr(exc.args)), repr(exc.args)[:300])


def outcome(fn, *args, **kwargs):
    try:
        return ("ok", fn(*args, **kwargs))
    except BaseException as exc:  # noqa: BLE001
        message = str(exc)[:200]
        if "not supported between instances" in message:
            # which two members of a set meet first depends on the hash seed
            message = "<comparison not supported>"
        return ("raised", type(exc).__name__, message)


def generator_state(gen):
    return (
        outcome(lambda: gen.local_vars),
        outcome(lambda: gen.conditional_ids),
        outcome(gen.indent),
    )


# ---------------------------------------------------------------- sources
SOURCES = {}
for path in sorted(glob.glob(os.path.join(ROOT, "tests/unit/test_programs/*.pyab"))):
    with open(path) as fp:
        SOURCES[os.path.basename(path)] = fp.read()

SOURCES.update(
    {
        "plain": "def e { return 'a' weighted 1 }",
        "plain_many": "def e { splitters: k return 'a' weighted 1, 2 weighted 0, "
        "-3.5 weighted 2.5, 'd\"q' weighted 7 }",
        "salted": "def e { salt: 'it\\'s' splitters: k, j, k return 1 weighted 1,"
        " 2 weighted 1 }",
        "salt_only": "def e { salt: 'zz' return 'a' weighted 1, 'b' weighted 1 }",
        "zero_weights": "def e { splitters: k return 'a' weighted 0, 'b' weighted 0 }",
        "shared_field": "def e { splitters: k if k == 'x' { return 'a' weighted 1 }"
        " else { return 'b' weighted 1, 'c' weighted 1 } }",
        "single_tuple": "def e { splitters: k if f in (1) { return 'a' weighted 1 } }",
        "nested_tuple": "def e { splitters: k if (f, g) in ((1, 2), (h, ('x', (i)))) "
        "{ return 'a' weighted 1 } else { return 'b' weighted 1 } }",
        "ident_tuple": "def e { if f in (g, h, 'g', -1, -2.5) { return 'a' weighted 1 }"
        " else if not f not in (g) or g <= -0.0 { return 'b' weighted 1 } }",
        "huge_numbers": "def e { splitters: k if f > "
        + "9" * 400
        + ".0 { return 1 weighted 1 } else if f < -"
        + "9" * 400
        + ".5 { return 2 weighted 1 } else if f == "
        + "7" * 60
        + " { return 3 weighted 1 } else { return "
        + "8" * 400
        + ".0 weighted 1 } }",
        "huge_weight": "def e { splitters: k return 'a' weighted "
        + "9" * 400
        + ".0, 'b' weighted 1 }",
        "strings": "def e { if f == 'a\\b' or f == \"tab\there\" or f == '{x}' "
        "or f == '%s' or f == '' { return '' weighted 1 } else { return '{}' weighted 1 } }",
        "unicode": "def e { splitters: k if f == 'é😀' { return 'ü' weighted 1 } "
        "else { return 'z' weighted 1 } }",
        "all_ops": "def e { if a == 1 and b != 2 and c > 3 and d >= 4 and g < 5 and "
        "h <= 6 and i in (7) and j not in (8) or not k == 9 { return 'a' weighted 1 } "
        "else if 1 == 1 { return 'b' weighted 1 } else { return 'c' weighted 1 } }",
        "literal_vs_literal": "def e { if 'a' in ('a', 'b') { return 1 weighted 1 } }",
        "deep_if": "def e { if a == 1 { if b == 2 { if c == 3 { return 1 weighted 1 } "
        "else { return 2 weighted 1 } } else if b == 3 { return 3 weighted 1 } } }",
        "keyword_name": "def class { return 1 weighted 1 }",
        "keyword_field": "def e { splitters: lambda return 1 weighted 1 }",
        "kwargs_field": "def e { splitters: kwargs if partial == 1 { return 1 weighted 1 } "
        "else { return 2 weighted 1 } }",
        "shadow_field": "def e { splitters: deterministic_choice if e == 1 "
        "{ return 1 weighted 1 } else { return 2 weighted 1 } }",
        "debug_field": "def e { splitters: k if __debug__ == 1 { return 1 weighted 1 } "
        "else { return 2 weighted 1 } }",
        "none_field": "def e { if None == 1 { return 1 weighted 1 } }",
        "syntax_error": "def e { return }",
        "lex_error": "def e { return 'a' weighted 1 } $",
        "empty": "",
        "not_paren": "def e { if not (a == 1 or b == 2) and (c == 3) "
        "{ return 1 weighted 1 } else { return 0 weighted 1 } }",
    }
)

GRID = [
    {},
    {"k": "u1"},
    {"k": "u2", "f": 1, "g": 2, "h": 3, "i": 4, "j": 5},
    {"k": 7, "j": "x", "f": "a", "g": "a", "h": ("x", (4,)), "i": 4},
    {"k": "x", "f": "x"},
    {"k": None, "f": None},
    {"f": float("inf"), "k": "q"},
    {"f": -float("inf"), "k": "q"},
    {"f": int("7" * 60), "k": "q"},
    {"a": 1, "b": 3, "c": 3, "d": 4, "g": 4, "h": 6, "i": 7, "j": 9, "k": 9},
    {"a": 1, "b": 2, "c": 3},
    {"a": 2, "b": 2, "c": 3, "k": 9},
    {"f": "é😀", "k": "ü"},
    {"f": "", "k": ""},
    {"f": "{x}"},
    {"kwargs": "v", "partial": 1},
    {"deterministic_choice": "v", "e": 1},
    {"my_fld": "a", "my_fld_1": "b", "field1": "a", "field2": 3, "field3": 10,
     "field4": "xyz", "field5": "x", "field6": 2, "field7": 1},
    {"my_fld": "a", "my_fld_1": "b", "field1": "b", "field2": 3, "field3": 10,
     "field4": "q", "field5": "x", "field6": 2, "field7": 1},
    {"field1": "a", "field2": "a", "field3": "b1", "field4": "abc"},
    {"groupping_id": "id_3", "groupping_id_1": "s", "routing_field": 3,
     "numeric_field": 3},
    {"my_id": "id_9", "field_1": "a"},
    {"extra": 1, "k": "u1", "f": 1, "g": 1, "h": 1, "i": 1, "j": 1},
]


def run_callable(fn, kwargs):
    random.seed(12345)
    try:
        return repr(fn(**kwargs))
    except BaseException as exc:  # noqa: BLE001
        return type(exc).__name__


def section_sources():
    out("== sources: text in both layouts, formatted code, evaluator")
    for name, source in SOURCES.items():
        parsed = outcome(parse_source, source)
        if parsed[0] != "ok":
            out(name, "parse", parsed)
        else:
            tree = parsed[1]
            out(name, "parse ok", sha(repr(tree)))
            for expose in (True, False):
                if tree is None:
                    out(name, expose, outcome(lambda: PythonCodeGen(tree).generate()))
                    continue
                gen = PythonCodeGen(
                    tree, expose_experiment_variant_function=expose
                )
                out(name, expose, "before", generator_state(gen))
                result = outcome(gen.generate)
                if result[0] == "ok":
                    show_text(f"{name} {expose} generate", result[1])
                else:
                    out(name, expose, "generate", result)
                out(name, expose, "after", generator_state(gen))
                again = outcome(gen.generate)
                out(name, expose, "again same", again == result, generator_state(gen))
                gen2 = PythonCodeGen(tree, "  ", expose)
                result2 = outcome(gen2.generate)
                if result2[0] == "ok":
                    show_text(f"{name} {expose} two-blank indent", result2[1])
        for expose in (True, False):
            formatted = outcome(generate_code, source, expose)
            if formatted[0] == "ok":
                out(name, expose, "generate_code", sha(formatted[1]))
                holder = {}
                try:
                    exec(compile(formatted[1], "<string>", "exec"), holder)  # noqa: S102
                    fn = holder[parse_source(source).id]
                    out(
                        name, expose, "module",
                        [run_callable(fn, kwargs) for kwargs in GRID],
                    )
                    if expose:
                        inner = holder.get("choose_experiment_variant")
                        out(name, "exposed inner present", inner is not None)
                    else:
                        out(
                            name, "inner hidden",
                            "choose_experiment_variant" not in holder,
                        )
                except BaseException as exc:  # noqa: BLE001
                    out(name, expose, "module", type(exc).__name__)
            else:
                out(name, expose, "generate_code", formatted[:2],
                    failure(generate_code, source, expose))
        made = outcome(ExperimentEvaluator, source)
        if made[0] == "ok":
            out(name, "evaluator", [run_callable(made[1], kw) for kw in GRID])
        else:
            out(name, "evaluator", made[:2], failure(ExperimentEvaluator, source))


# ---------------------------------------------------------------- hand-built trees
class Text(str):
    """a str subclass with its own repr, str and format"""

    def __repr__(self):
        return "'sub:" + str.__str__(self) + "'"

    def __str__(self):
        return "STR" + str.__str__(self)

    def __format__(self, spec):
        return "FMT" + str.__str__(self)


class EqualsAll:
    def __eq__(self, other):
        return True

    def __hash__(self):
        return 7

    def __repr__(self):
        return "EqualsAll()"


class Explosive:
    def __eq__(self, other):
        raise ZeroDivisionError("eq")

    def __hash__(self):
        return 3

    def __repr__(self):
        raise KeyError("repr")


class BadRepr:
    def __repr__(self):
        raise KeyError("repr")


def ident(name):
    return Identifier(name=name)


def terminal(left, op, right):
    pred = TerminalPredicate(
        left_term=1, logical_operator=LogicalOperatorEnum.EQ, right_term=1
    )
    # assignment is not validated: keeps every value and type as given
    pred.left_term = left
    pred.logical_operator = op
    pred.right_term = right
    return pred


def groups(*pairs):
    result = []
    for definition, weight in pairs:
        group = ExperimentGroup(group_definition="x", group_weight=1)
        group.group_definition = definition
        group.group_weight = weight
        result.append(group)
    return result


def conditional(kind, predicate, true_branch, false_branch=None):
    cond = ExperimentConditional(
        conditional_type=ConditionalType.IF,
        predicate=None,
        true_branch=groups(("t", 1)),
        false_branch=None,
    )
    cond.conditional_type = kind
    cond.predicate = predicate
    cond.true_branch = true_branch
    cond.false_branch = false_branch
    return cond


def tree(conditions, splitting_fields=None, salt=None, name="e"):
    result = ExperimentAST(
        id="e", splitting_fields=None, salt=None, conditions=groups(("a", 1))
    )
    result.id = name
    result.splitting_fields = splitting_fields
    result.salt = salt
    result.conditions = conditions
    return result


EQ = LogicalOperatorEnum.EQ
IN = LogicalOperatorEnum.IN
G = groups(("a", 1), ("b", 2))


def hand_built():
    cases = {}
    cases["empty_groups"] = tree([])
    cases["tuple_conditions"] = tree(tuple(G))
    cases["range_conditions"] = tree(range(0))
    cases["range_conditions_1"] = tree(range(2))
    cases["string_conditions"] = tree("ab")
    cases["none_conditions"] = tree(None)
    cases["int_conditions"] = tree(5)
    cases["group_terms"] = tree(
        groups((ident("gx"), 1), ((1, ident("gy")), ident("gw")), (None, True),
               (float("nan"), float("inf")), (-0.0, -float("inf")), (Text("s"), 2))
    )
    cases["empty_tuple"] = tree(conditional(ConditionalType.IF, terminal((), IN, ()), G))
    cases["empty_list"] = tree(conditional(ConditionalType.IF, terminal([], IN, [[]]), G))
    cases["one_member"] = tree(
        conditional(ConditionalType.IF, terminal((ident("a"),), IN, [[ident("b")]]), G)
    )
    cases["nested"] = tree(
        conditional(
            ConditionalType.IF,
            terminal(
                (1, [2.5, (ident("n1"), "s", [ident("n2"), (ident("n3"),)])], ()),
                IN,
                [(ident("n4"), -1), [(), ((ident("n5"),),)]],
            ),
            G,
        ),
        splitting_fields=["n2", "zz"],
    )
    cases["odd_values"] = tree(
        conditional(
            ConditionalType.IF,
            terminal(
                (True, False, None, float("nan"), float("inf"), -float("inf"), -0.0,
                 10**400, -(10**400), 1e308, 5e-324, 1j, b"by", Text("t"), {1: 2},
                 frozenset(), Ellipsis),
                EQ,
                Text("u"),
            ),
            G,
        )
    )
    cases["str_subclass_name"] = tree(
        conditional(
            ConditionalType.IF,
            terminal(Identifier.construct(name=Text("nm")), EQ, (Identifier.construct(name=Text("nm2")),)),
            G,
        )
    )
    cases["int_name"] = tree(
        conditional(ConditionalType.IF, terminal(Identifier.construct(name=5), EQ, 1), G)
    )
    cases["int_name_in_tuple"] = tree(
        conditional(ConditionalType.IF, terminal((Identifier.construct(name=5),), EQ, 1), G)
    )
    cases["mixed_names"] = tree(
        conditional(
            ConditionalType.IF,
            terminal(Identifier.construct(name=5), EQ, ident("a")),
            G,
        )
    )
    cases["list_name"] = tree(
        conditional(ConditionalType.IF, terminal(Identifier.construct(name=[1]), EQ, 1), G)
    )
    cases["nameless"] = tree(
        conditional(ConditionalType.IF, terminal(Identifier.construct(), EQ, 1), G)
    )
    cases["else_with_predicate"] = tree(
        conditional(ConditionalType.ELSE, terminal(ident("p"), EQ, 1), G, G)
    )
    cases["if_without_predicate"] = tree(conditional(ConditionalType.IF, None, G))
    cases["elif_first"] = tree(
        conditional(ConditionalType.ELIF, terminal(ident("p"), EQ, 1), G)
    )
    cases["odd_kind"] = tree(conditional("IF", terminal(ident("p"), EQ, 1), G))
    cases["odd_kind_inner"] = tree(
        conditional(
            ConditionalType.IF,
            terminal(ident("p"), EQ, 1),
            conditional(None, terminal(ident("q"), EQ, 1), G),
            conditional(EqualsAll(), terminal(ident("r"), EQ, 1), G),
        )
    )
    cases["equals_all_kind"] = tree(
        conditional(EqualsAll(), terminal(ident("p"), EQ, 1), G)
    )
    cases["explosive_kind"] = tree(
        conditional(Explosive(), terminal(ident("p"), EQ, 1), G)
    )
    cases["list_kind"] = tree(conditional([1], terminal(ident("p"), EQ, 1), G))
    for label, op in (
        ("string", "EQ"), ("int", 1), ("none", None), ("list", [1]),
        ("equals_all", EqualsAll()), ("explosive", Explosive()),
        ("bad_repr", BadRepr()), ("other_enum", ConditionalType.IF),
        ("boolean_for_logical", BooleanOperatorEnum.AND),
    ):
        cases[f"op_{label}"] = tree(
            conditional(ConditionalType.IF, terminal(ident("p"), op, ident("q")), G)
        )

    def recursive(left, op, right):
        pred = RecursivePredicate(
            left_predicate=terminal(1, EQ, 1),
            boolean_operator=BooleanOperatorEnum.AND,
            right_predicate=None,
        )
        pred.left_predicate = left
        pred.boolean_operator = op
        pred.right_predicate = right
        return pred

    p, q = terminal(ident("p"), EQ, 1), terminal(ident("q"), IN, (1, ident("r")))
    for label, op in (
        ("and", BooleanOperatorEnum.AND), ("or", BooleanOperatorEnum.OR),
        ("not", BooleanOperatorEnum.NOT), ("logical", LogicalOperatorEnum.LT),
        ("list", [1]), ("equals_all", EqualsAll()), ("none", None),
    ):
        cases[f"bool_{label}_both"] = tree(
            conditional(ConditionalType.IF, recursive(p, op, q), G)
        )
        cases[f"bool_{label}_left_only"] = tree(
            conditional(ConditionalType.IF, recursive(p, op, None), G)
        )
    cases["bool_none_left"] = tree(
        conditional(ConditionalType.IF, recursive(None, BooleanOperatorEnum.AND, q), G)
    )
    cases["bad_predicate"] = tree(
        conditional(ConditionalType.IF, "p == 1", G,
                    conditional(ConditionalType.ELSE, None, G)))
    cases["bad_predicate_late"] = tree(
        conditional(
            ConditionalType.IF, p, G,
            conditional(ConditionalType.ELIF, recursive(q, BooleanOperatorEnum.OR, 5), G),
        )
    )
    cases["bad_branch"] = tree(conditional(ConditionalType.IF, p, 5, G))
    cases["bad_false_branch"] = tree(conditional(ConditionalType.IF, p, G, "zz"))
    cases["explosive_term"] = tree(
        conditional(ConditionalType.IF, terminal((ident("a"), Explosive(), ident("b")), EQ, ident("c")), G)
    )
    cases["bad_repr_term"] = tree(
        conditional(ConditionalType.IF, terminal(ident("a"), EQ, (ident("b"), BadRepr(), ident("c"))), G,
                    conditional(ConditionalType.ELSE, None, groups((ident("late"), 1))))
    )
    cases["splitters_empty"] = tree(G, splitting_fields=[], salt="s")
    cases["splitters_dupes"] = tree(G, splitting_fields=["b", "a", "b"], salt="")
    cases["splitters_tuple"] = tree(G, splitting_fields=("b", "a"))
    cases["splitters_string"] = tree(G, splitting_fields="ba")
    cases["splitters_ints"] = tree(G, splitting_fields=[2, 1])
    cases["splitters_mixed"] = tree(G, splitting_fields=["a", 1])
    cases["splitters_unhashable"] = tree(G, splitting_fields=["a", [1], "b"])
    cases["salt_object"] = tree(G, splitting_fields=["a"], salt=Text("salt"))
    cases["salt_zero"] = tree(G, splitting_fields=["a"], salt=0)
    cases["salt_bad_repr"] = tree(G, splitting_fields=["a"], salt=BadRepr())
    cases["name_object"] = tree(G, name=Text("nm"))
    cases["name_none"] = tree(G, name=None)
    cases["shared"] = tree(
        conditional(ConditionalType.IF, terminal(ident("b"), EQ, ident("a")), G,
                    conditional(ConditionalType.ELIF, terminal(ident("c"), EQ, ident("b")), G,
                                conditional(ConditionalType.ELSE, None, G))),
        splitting_fields=["c", "b"], salt="s",
    )
    partial_model = ExperimentConditional.construct(
        conditional_type=ConditionalType.IF, predicate=p, true_branch=G
    )
    cases["partial_model"] = tree(partial_model)
    cases["partial_model_late"] = tree(
        conditional(ConditionalType.IF, "oops", G, partial_model)
    )
    cases["partial_group"] = tree([ExperimentGroup.construct(group_definition=1)])
    return cases


def section_hand_built():
    out("== hand-built trees (values no parser produces included)")
    for name, built in hand_built().items():
        for expose in (True, False):
            for indentation in ("\t", "", None, 3, ["x"]):
                gen = PythonCodeGen(built, indentation, expose)
                result = outcome(gen.generate)
                label = f"{name} {expose} {indentation!r}"
                if result[0] == "ok":
                    show_text(label, result[1])
                else:
                    out(label, result)
                state = generator_state(gen)
                if result[0] != "ok" and not IDS_AFTER_FAILURE:
                    state = (state[0], "-", state[2])
                out(label, "state", state)
                again = outcome(gen.generate)
                state = generator_state(gen)
                if again[0] != "ok" and not IDS_AFTER_FAILURE:
                    state = (state[0], "-", state[2])
                out(label, "again same", again == result, state)
                if indentation != "\t":
                    if result[0] != "ok" or indentation in ("",):
                        break


def section_pieces():
    out("== public pieces of a generator used on their own")
    source_tree = parse_source(SOURCES["nested_tuple"])
    gen = PythonCodeGen(source_tree)
    out("fresh", generator_state(gen))
    out("topline", sha(gen.render_topline()), repr(gen.render_topline()))
    out("key", gen.generate_key_definition(), generator_state(gen))
    out("key again", gen.generate_key_definition(), generator_state(gen))
    out("generate", sha(gen.generate()) if RAW_TEXT else "-", generator_state(gen))
    for salt, fields in ((None, None), ("s", None), (None, ["b", "a"]), ("", ["a"]),
                         ("it's", ["a", "a"]), ('q"', [])):
        gen = PythonCodeGen(tree(G, splitting_fields=fields, salt=salt))
        out("key", repr(salt), fields, gen.generate_key_definition(), generator_state(gen))
    out("class attributes",
        sorted(k for k in vars(PythonCodeGen) if not k.startswith("_")))
    for model in (ExperimentGroup, Identifier, TerminalPredicate, RecursivePredicate,
                  ExperimentConditional, ExperimentAST):
        out(model.__name__, sorted(model.__fields__), sha(model.schema_json()))
    parsed = parse_source(SOURCES["full_grammar.pyab"])
    out("tree dict", sha(repr(parsed.dict())), "json", sha(parsed.json()))
    out("tree equal to its copy", parsed == parsed.copy(deep=True))
    out("enum members", [m.name for m in LogicalOperatorEnum],
        [m.name for m in BooleanOperatorEnum], [m.name for m in ConditionalType])


# ---------------------------------------------------------------- depth of the walk
def deep_trees():
    p = terminal(ident("p"), EQ, ident("q"))
    n = terminal(ident("p"), EQ, 1)
    s = terminal("a", EQ, "b")
    e = terminal((), IN, ())
    one = terminal((ident("p"),), IN, [[]])
    yield "top groups", tree(G)
    yield "top empty groups", tree([])
    yield "if idents", tree(conditional(ConditionalType.IF, p, G))
    yield "if number", tree(conditional(ConditionalType.IF, n, G))
    yield "if strings", tree(conditional(ConditionalType.IF, s, G))
    yield "if empty tuples", tree(conditional(ConditionalType.IF, e, G))
    yield "if one member", tree(conditional(ConditionalType.IF, one, G))
    yield "if no predicate", tree(conditional(ConditionalType.ELSE, None, G))
    yield "splitters", tree(G, splitting_fields=["a"])
    for leaf_name, leaf in (("idents", p), ("number", n), ("strings", s), ("empty", e)):
        for depth in (40, 200):
            pred = leaf
            for _ in range(depth):
                nxt = RecursivePredicate(
                    left_predicate=n, boolean_operator=BooleanOperatorEnum.AND,
                    right_predicate=None,
                )
                nxt.left_predicate = pred
                nxt.right_predicate = leaf
                pred = nxt
            yield f"predicate chain {leaf_name} {depth}", tree(
                conditional(ConditionalType.IF, pred, G))
            pred = leaf
            for _ in range(depth):
                nxt = RecursivePredicate(
                    left_predicate=n, boolean_operator=BooleanOperatorEnum.NOT,
                    right_predicate=None,
                )
                nxt.left_predicate = pred
                pred = nxt
            yield f"not chain {leaf_name} {depth}", tree(
                conditional(ConditionalType.IF, pred, G))
    for leaf_name, leaf in (("ident", ident("x")), ("number", 1), ("string", "s"),
                            ("empty", ()), ("empty list", [])):
        for depth in (40, 200):
            term = leaf
            for _ in range(depth):
                term = (term,)
            yield f"tuple nest {leaf_name} {depth}", tree(
                conditional(ConditionalType.IF, terminal(ident("p"), IN, term), G))
            term = leaf
            for _ in range(depth):
                term = [ident("w"), term]
            yield f"list nest {leaf_name} {depth}", tree(
                conditional(ConditionalType.IF, terminal(term, IN, ident("p")), G))
    for groups_name, leaf in (("groups", G), ("no groups", []),
                              ("string groups", groups(("a", 1)))):
        for depth in (40, 200):
            cond = leaf
            for _ in range(depth):
                cond = conditional(ConditionalType.IF, p, cond)
            yield f"if nest {groups_name} {depth}", tree(cond)
            cond = conditional(ConditionalType.ELSE, None, leaf)
            for _ in range(depth):
                cond = conditional(ConditionalType.ELIF, s, G, cond)
            yield f"elif chain {groups_name} {depth}", tree(cond)


def needed_limit(built, expose):
    """smallest recursion limit with which generate() succeeds when called from
    here; the state the generator is left in when the limit is one too small"""
    saved = sys.getrecursionlimit()
    low, high = 1, 3000
    try:
        def works(limit):
            gen = PythonCodeGen(built, expose_experiment_variant_function=expose)
            try:
                sys.setrecursionlimit(limit)
            except RecursionError:
                return False, None, None
            try:
                gen.generate()
                return True, None, None
            except RecursionError:
                sys.setrecursionlimit(saved)
                return False, gen, None
            except BaseException as exc:  # noqa: BLE001
                sys.setrecursionlimit(saved)
                return True, None, type(exc).__name__
            finally:
                sys.setrecursionlimit(saved)

        while low < high:
            middle = (low + high) // 2
            if works(middle)[0]:
                high = middle
            else:
                low = middle + 1
        _, gen, _ = works(low - 1)
        state = None
        if gen is not None:
            state = (
                len(gen._local_vars),
                len(gen._conditional_ids) if IDS_AFTER_FAILURE else "-",
                gen._indent_depth,
            )
        return low, state
    finally:
        sys.setrecursionlimit(saved)


def section_depth():
    out("== smallest recursion limit that lets generate() finish")
    for name, built in deep_trees():
        for expose in (True, False):
            limit, state = needed_limit(built, expose)
            out(name, expose, limit, state)
    source = "def e { if " + " and ".join(["a == 1"] * 300) + " { return 1 weighted 1 } }"
    parsed = parse_source(source)
    out("parsed and-chain", needed_limit(parsed, False)[0])
    source = ("def e { if a in " + "(" * 150 + "1" + ", b)" * 150
              + " { return 1 weighted 1 } }")
    parsed = parse_source(source)
    out("parsed tuple nest", needed_limit(parsed, False)[0])
    source = ("def e { " + "if a == 1 { " * 150 + "return 1 weighted 1" + " }" * 150 + " }")
    parsed = parse_source(source)
    out("parsed if nest", needed_limit(parsed, True)[0])
    out("deep evaluator", failure(ExperimentEvaluator, source))
    for levels in (20, 99, 100, 101):
        nest = ("def e { " + "if a == 1 { " * levels + "return 1 weighted 1"
                + " }" * levels + " }")
        out("if nest through evaluator", levels, failure(ExperimentEvaluator, nest)[:2])
    for levels in (50, 199, 200, 201):
        nest = ("def e { if a in " + "(" * levels + "1" + ", b)" * levels
                + " { return 1 weighted 1 } }")
        out("tuple nest through evaluator", levels,
            failure(ExperimentEvaluator, nest)[:2])
    for digits in (4300, 4301):
        big = "def e { if a == " + "7" * digits + " { return 1 weighted 1 } }"
        out("digits", digits, failure(ExperimentEvaluator, big)[:2])
    wide = ("def e { splitters: k return "
            + ", ".join(f"'g{i}' weighted {i}" for i in range(3000)) + " }")
    made = ExperimentEvaluator(wide)
    out("wide evaluator", [run_callable(made, {"k": f"u{i}"}) for i in range(5)])
    wide_tuple = ("def e { splitters: k if f in (" + ", ".join(str(i) for i in range(3000))
                  + ") { return 1 weighted 1 } else { return 2 weighted 1 } }")
    made = ExperimentEvaluator(wide_tuple)
    out("wide tuple", [run_callable(made, {"k": "u", "f": f}) for f in (0, 2999, 3000)])


# ---------------------------------------------------------------- histories
def section_histories():
    out("== recompile histories")
    good_a, good_b = SOURCES["shared_field"], SOURCES["nested_tuple"]
    bad = [SOURCES["syntax_error"], SOURCES["lex_error"], SOURCES["empty"],
           SOURCES["keyword_name"], SOURCES["keyword_field"]]
    calls = [{"k": "u1", "f": 1, "g": 2, "h": 3, "i": 4}, {"k": "x"}, {}]
    ev = ExperimentEvaluator(good_a)
    out("start", [run_callable(ev, c) for c in calls], ev._checksum)
    history = [bad[0], good_a, bad[3], bad[3], good_b, bad[1], good_b, bad[2],
               bad[4], good_a, good_a]
    for step, source in enumerate(history):
        result = outcome(ev.recompile, source)
        out(step, result[:2], [run_callable(ev, c) for c in calls], ev._checksum,
            sorted(vars(ev)))
        if result[0] != "ok":
            out(step, "payload", failure(ev.recompile, source))
    for source in bad:
        out("construct", outcome(ExperimentEvaluator, source)[:2])
    out("class untouched", ExperimentEvaluator._checksum == "",
        "run_experiment" in vars(ExperimentEvaluator))


def section_threads():
    out("== threads: every thread compiles and evaluates on its own")
    names = ["shared_field", "nested_tuple", "all_ops", "full_grammar.pyab",
             "conditional_with_idents.pyab", "huge_numbers"]
    results = {}
    barrier = threading.Barrier(8)

    def work(index):
        barrier.wait()
        mine = []
        for turn in range(6):
            name = names[(index + turn) % len(names)]
            text = PythonCodeGen(
                parse_source(SOURCES[name]),
                expose_experiment_variant_function=bool(turn % 2),
            ).generate()
            ev = ExperimentEvaluator(SOURCES[name])
            values = []
            for kwargs in GRID:
                if any(v is None for v in kwargs.values()) or "k" not in kwargs:
                    continue
                try:
                    values.append(repr(ev(**kwargs)))
                except BaseException as exc:  # noqa: BLE001
                    values.append(type(exc).__name__)
            stripped = "\n".join(line.rstrip() for line in text.split("\n"))
            mine.append((name, sha(text if RAW_TEXT else stripped), sha(repr(values))))
        results[index] = mine

    threads = [threading.Thread(target=work, args=(i,)) for i in range(8)]
    for t in threads:
        t.start()
    for t in threads:
        t.join()
    for index in sorted(results):
        out(index, results[index])
    out("modules imported",
        sorted(m for m in sys.modules if m.startswith("pyab_experiment")
               and ".sly" not in m))
    out("recursion limit", sys.getrecursionlimit())


if __name__ == "__main__":
    section_sources()
    section_hand_built()
    section_pieces()
    section_depth()
    section_histories()
    section_threads()

"""Exercises the batch helpers added to pyab_experiment.binning.binning (needs the patch)."""

import random

from pyab_experiment.binning.binning import (
    deterministic_choice,
    deterministic_choice_many,
    deterministic_proba,
    deterministic_proba_many,
    iter_deterministic_choices,
)

ids = [f"user_{i}" for i in range(2000)] + ["", "é", "日本語"]
population = ["control", "variant_a", "variant_b"]

# batch == element-wise
assert deterministic_proba_many(ids) == [deterministic_proba(i) for i in ids]
assert deterministic_proba_many(iter(ids)) == [deterministic_proba(i) for i in ids]
assert deterministic_proba_many([]) == []
for weights in (None, [1, 2, 1], [0.5, 0.5, 0], (3, 0, 1)):
    assert deterministic_choice_many(ids, population, weights) == [
        deterministic_choice(i, population, weights) for i in ids
    ]
assert deterministic_choice_many(ids, population, cum_weights=[1, 3, 4]) == [
    deterministic_choice(i, population, [1, 2, 1]) for i in ids
]
# a one-shot iterator of weights serves the whole batch
assert deterministic_choice_many(ids, population, iter([1, 2, 1])) == [
    deterministic_choice(i, population, [1, 2, 1]) for i in ids
]

# laziness: nothing is validated or drawn before the first next()
lazy = iter_deterministic_choices(ids, population, [1, 2])  # wrong length
try:
    next(lazy)
except ValueError as exc:
    assert "does not match" in str(exc)
else:
    raise AssertionError("expected ValueError")

# the same refusals as the single-id call
for kwargs, error in (
    ({"weights": [0, 0, 0]}, ValueError),
    ({"weights": [1, 1, float("inf")]}, ValueError),
    ({"weights": [1, 2, 1], "cum_weights": [1, 3, 4]}, TypeError),
):
    try:
        deterministic_choice_many(["x"], population, **kwargs)
    except error:
        pass
    else:
        raise AssertionError(kwargs)

# a lone string is refused instead of being split into characters
for fn, args in ((deterministic_proba_many, ("abc",)), (deterministic_choice_many, ("abc", population))):
    try:
        fn(*args)
    except TypeError:
        pass
    else:
        raise AssertionError(fn.__name__)

# None ids fall back to random.choices and consume the generator the same way
random.seed(3)
batch = deterministic_choice_many([None, "a", None], population, [1, 2, 1])
random.seed(3)
single = [deterministic_choice(i, population, [1, 2, 1]) for i in (None, "a", None)]
assert batch == single

shares = {g: deterministic_choice_many(ids, population, [1, 2, 1]).count(g) for g in population}
print("shares", shares)
print("usage OK")

"""Differential probe: prints a deterministic JSON summary of the observable
behaviour of pyab_experiment (parser, code generator in both layouts, evaluator
lifecycle, bucketing, statistics).  Run it with and without a patch applied:
the two outputs must be byte-identical.

    PYTHONPATH=/tmp/wt/TP/src /venv/bin/python probe.py
"""

import hashlib
import itertools
import json
import random
import threading
from collections import deque
from decimal import Decimal
from fractions import Fraction

from pyab_experiment.binning import binning
from pyab_experiment.binning.binning import deterministic_choice, deterministic_proba
from pyab_experiment.experiment_evaluator import ExperimentEvaluator
from pyab_experiment.utils import stats
from pyab_experiment.utils.stats import confidence_interval, probit
from pyab_experiment.utils.wraper_functions import generate_code, parse_source


# --------------------------------------------------------------------------- helpers
def enc(value):
    """exact, type-revealing and deterministic rendering of a value"""
    if isinstance(value, bool) or value is None:
        return repr(value)
    if isinstance(value, float):
        return f"float:{value.hex()}" if value == value else "float:nan"
    if isinstance(value, complex):
        return f"complex:{enc(value.real)},{enc(value.imag)}"
    if isinstance(value, int):
        return f"int:{value}"
    if isinstance(value, str):
        return f"str:{value!r}"
    if isinstance(value, (tuple, list)):
        return f"{type(value).__name__}:[" + ",".join(enc(v) for v in value) + "]"
    return f"{type(value).__name__}:{value!r}"


def attempt(fn, *args, **kwargs):
    """result of a call, or the class name and arguments of what it raised"""
    try:
        return enc(fn(*args, **kwargs))
    except BaseException as exc:  # noqa: B902 - the class is what is observed
        return f"!{type(exc).__name__}:{exc.args!r}"


def digest(items):
    joined = "\x1f".join(items)
    return hashlib.sha256(joined.encode("utf-8", "surrogatepass")).hexdigest()


# --------------------------------------------------------------------------- programs
VALID_PROGRAMS = {
    "plain": 'def plain{ return "a" weighted 1, "b" weighted 1 }',
    "kwprefix": """
        def definition_x{
            salt: "s\\alt'1"
            splitters: iffy, notable, in_field
            if iffy == 'x' and notable not   in (1, 2) or  not in_field in ('q',){
                return "or_else" weighted 2, "andy" weighted 1.5, 'return' weighted 0
            } else   if organ >= -3.5 { return 1 weighted 1, 2.5 weighted 3, "x" weighted 2 }
            else { return "weighted" weighted 7 }
        }""",
    "nested_tuples": """
        def nested{
            splitters: uid
            if pair in ((1, 2), (3, (4, 5)), ("a", -1.5)) { return "in" weighted 1, "IN" weighted 3 }
            else if single in ((7,),) { return "single" weighted 1 }
            else { return "out" weighted 1, "OUT" weighted 1, "Out" weighted 1 }
        }""",
    "comments": """/* head
        multi * line / comment */
        def commented{ // trailing
            salt: "// not a comment" /* inline */
            splitters: a // fields
            , b
            if a == "/* neither */" { return "x" weighted 1 /* c */, "y" weighted 2 }
            else { return "z" weighted 1 } // end
        }""",
    "quotes": """
        def quoting{
            splitters: k
            if k == "it's" or k == 'say "hi"' or k == "back\\\\slash\\n" { return "q'1" weighted 1, 'q"2' weighted 1 }
            else { return "\\t" weighted 1, "{}" weighted 1, "%s" weighted 2 }
        }""",
    "nonascii": """
        def unicod{
            salt: "sel-é中\U0001f600"
            splitters: nom
            if nom in ("été", "中文") { return "über" weighted 1, "naïve" weighted 2 }
            else { return "α" weighted 1, "β" weighted 1, "γ" weighted 1 }
        }""",
    "numbers": """
        def numeric{
            splitters: n
            if n > 007 and n <= 1.50 or n == -0 or n != -0.0 { return 1 weighted 1, 1.0 weighted 1, "1" weighted 1 }
            else if n < 99999999999999999999999999 { return -5 weighted 0.25, -5.5 weighted 0.75 }
            else { return 0 weighted 10000000000000000000000, 1 weighted 1 }
        }""",
    "zero_weights": 'def zeros{ splitters: z return "a" weighted 0, "b" weighted 0.0 }',
    "tiny_weights": (
        'def tiny{ splitters: z return "a" weighted 0.1, "b" weighted 0.2, '
        '"c" weighted 0.3, "d" weighted 0.0000000000000001, "e" weighted 0.4 }'
    ),
    "no_splitter": 'def nosplit{ salt: "only" if x == 1 { return "a" weighted 1 } }',
    "shared_field": """
        def shared{
            salt: 'S'
            splitters: uid, grp
            if grp == 1 { return "one" weighted 1, "uno" weighted 1 }
            else if not (uid in (1, 2, 3) or grp > 5) and kwargs_like < 3 { return "two" weighted 1, "dos" weighted 4 }
        }""",
    "huge_float": (
        "def huge{ splitters: h if h < " + "9" * 400 + ".0 { return 'lt' weighted 1 } "
        "else { return 'ge' weighted 1 } }"
    ),
}

INVALID_PROGRAMS = {
    "empty": "",
    "spaces": "  \n\t ",
    "no_return": "def x{ }",
    "bad_char": 'def x{ return "a" weighted 1 ; }',
    "bad_char2": 'def x{ return "a" weighted 1 } $',
    "neg_weight": 'def x{ return "a" weighted -1 }',
    "kw_as_id": 'def if{ return "a" weighted 1 }',
    "kw_field": 'def x{ splitters: in return "a" weighted 1 }',
    "salt_after": 'def x{ splitters: a salt: "s" return "a" weighted 1 }',
    "unterminated_str": 'def x{ return "a weighted 1 }',
    "unterminated_comment": 'def x{ /* return "a" weighted 1 }',
    "multiline_str": 'def x{ return "a\nb" weighted 1 }',
    "trailing_comma": 'def x{ return "a" weighted 1, }',
    "empty_tuple": 'def x{ if a in () { return "a" weighted 1 } }',
    "tuple_weight": 'def x{ return (1, 2) weighted 1 }',
    "id_return": 'def x{ return a weighted 1 }',
    "two_programs": 'def x{ return "a" weighted 1 } def y{ return "a" weighted 1 }',
    "else_only": 'def x{ else { return "a" weighted 1 } }',
    "double_else": 'def x{ if a == 1 { return 1 weighted 1 } else { return 2 weighted 1 } else { return 3 weighted 1 } }',
    "missing_brace": 'def x{ if a == 1 { return 1 weighted 1 }',
    "float_no_frac": 'def x{ return "a" weighted 1. }',
    "nonascii_id": 'def é{ return "a" weighted 1 }',
    "inf_weight": "def x{ splitters: a return 'a' weighted " + "9" * 400 + ".0 }",
}

CALL_ARGUMENTS = [
    {},
    {"iffy": "x", "notable": 3, "in_field": "q", "organ": 1},
    {"iffy": "y", "notable": 1, "in_field": "z", "organ": -3.5},
    {"iffy": "y", "notable": 1, "in_field": "q", "organ": -4},
    {"uid": 17, "pair": (1, 2), "single": 0},
    {"uid": "17", "pair": (3, (4, 5)), "single": (7,)},
    {"uid": None, "pair": [1, 2], "single": (7,)},
    {"a": "/* neither */", "b": 2},
    {"a": 1, "b": "é"},
    {"k": "it's"},
    {"k": 'say "hi"'},
    {"k": "back\\slash\n"},
    {"k": "back\\\\slash\\n"},
    {"k": 5.5},
    {"nom": "été"},
    {"nom": "ete"},
    {"n": 7},
    {"n": 1.25},
    {"n": -0.0},
    {"n": 10**30},
    {"n": "text"},
    {"z": 1},
    {"x": 1},
    {"x": 2},
    {"uid": 1, "grp": 1},
    {"uid": 5, "grp": 2, "kwargs_like": 1},
    {"uid": 5, "grp": 9, "kwargs_like": 1},
    {"uid": 5, "grp": 2, "kwargs_like": 1, "extra": "ignored"},
    {"h": 1e300},
    {"h": float("inf")},
]


def model_dump(tree):
    return repr(tree)


def run_generated(code, fn_name, kwargs):
    namespace = {}
    exec(compile(code, "<probe>", "exec"), namespace)  # noqa: S102
    return namespace[fn_name](**kwargs)


def probe_programs():
    out = {}
    for name, text in VALID_PROGRAMS.items():
        entry = {}
        try:
            tree = parse_source(text)
            entry["ast"] = digest([model_dump(tree)])
            entry["id"] = tree.id
        except BaseException as exc:  # noqa: B902
            entry["ast"] = f"!{type(exc).__name__}"
            out[name] = entry
            continue
        calls = []
        random.seed(f"generated:{name}")  # programs without splitters draw from random
        for exposed in (False, True):
            try:
                code = generate_code(text, expose_internal_fn=exposed)
            except BaseException as exc:  # noqa: B902
                calls.append(f"!gen:{type(exc).__name__}")
                continue
            for kwargs in CALL_ARGUMENTS:
                for uid_shift in range(3):
                    shifted = {
                        k: (f"{v}#{uid_shift}" if k in ("uid", "z") and uid_shift else v)
                        for k, v in kwargs.items()
                    }
                    calls.append(attempt(run_generated, code, tree.id, shifted))
        entry["generated_calls"] = digest(calls)
        entry["generated_sample"] = calls[:4] + calls[-4:]
        try:
            random.seed(f"evaluator:{name}")
            evaluator = ExperimentEvaluator(text)
            results = []
            for kwargs in CALL_ARGUMENTS:
                for uid in range(40):
                    shifted = dict(kwargs)
                    for key in ("uid", "z", "n", "k", "nom", "a", "iffy", "h"):
                        if key in shifted and uid:
                            shifted[key] = f"{shifted[key]}~{uid}"
                    results.append(attempt(evaluator, **shifted))
            entry["evaluator_calls"] = digest(results)
            entry["evaluator_hist"] = sorted(
                (k, len(list(g))) for k, g in itertools.groupby(sorted(results))
            )[:12]
        except BaseException as exc:  # noqa: B902
            entry["evaluator_calls"] = f"!{type(exc).__name__}"
        out[name] = entry
    for name, text in INVALID_PROGRAMS.items():
        out["invalid:" + name] = {
            "parse": attempt(lambda t=text: model_dump(parse_source(t)))[:90],
            "generate": attempt(lambda t=text: generate_code(t))[:90],
            "generate_exposed": attempt(lambda t=text: generate_code(t, True))[:90],
            "evaluator": attempt(lambda t=text: ExperimentEvaluator(t) and "ok")[:90],
        }
    return out


# --------------------------------------------------------------------------- bucketing
class Sequenceish:
    """a user sequence: item access and length only"""

    def __init__(self, items):
        self._items = list(items)
        self.reads = []

    def __len__(self):
        return len(self._items)

    def __getitem__(self, index):
        self.reads.append(index)
        return self._items[index]


class Loud(float):
    """a float that records which comparisons it takes part in"""

    log = []

    def __lt__(self, other):
        Loud.log.append(("lt", float(self), float(other)))
        return float.__lt__(self, other)

    def __gt__(self, other):
        Loud.log.append(("gt", float(self), float(other)))
        return float.__gt__(self, other)

    def __add__(self, other):
        Loud.log.append(("add", float(self), float(other)))
        return Loud(float.__add__(self, other))

    def __radd__(self, other):
        Loud.log.append(("radd", float(self), float(other)))
        return Loud(float.__add__(self, other))


def failing_weights(fail_at, kind):
    for position, weight in enumerate([1, 2, 3, 4, 5]):
        if position == fail_at:
            if kind == "raise":
                raise KeyError("weights exhausted early")
            yield "not a number"
        else:
            yield weight


IDS = (
    ["", " ", "0", "1", "a", "A", "id_1", "my_id_123", "é", "中文", "\U0001f600", "x" * 10000]
    + [f"{i}_salt" for i in range(400)]
    + [f"S{i}" for i in range(0, 4000, 7)]
    + ["\x00", "\n", "a\x00b", "﻿bom", "é"]
)

WEIGHT_SETS = [
    [1],
    [1, 1],
    [1, 2, 3],
    [4, 1],
    [0, 1],
    [1, 0],
    [0, 0, 1, 0, 0],
    [0.1, 0.2, 0.3, 0.4],
    [0.1] * 10,
    [1e-300, 1e-300],
    [5e-324, 5e-324, 5e-324],
    [1e308, 1e307],
    [3.4, 5, 3],
    [True, False, True],
    [Fraction(1, 3), Fraction(2, 3)],
    [1, 2.5, Fraction(1, 2)],
    [2**53, 1, 1],
    [2**62, 2**62],
    [3, -1, 2],
    [5, -4, -4, 6],
    [-1, 3],
    [1, 2, 3, 4, 5, 6, 7, 8, 9, 10, 11, 12, 13, 14, 15, 16, 17],
    list(range(1, 130)),
    [0.3, 0.3, 0.3, 1e-17, 0.1],
]

BAD_WEIGHT_SETS = [
    [],
    [0],
    [0, 0],
    [-1],
    [1, -1],
    [1, -2],
    [float("inf")],
    [1, float("inf")],
    [float("inf"), float("-inf")],
    [float("nan")],
    [1, float("nan"), 2],
    [float("nan"), 1],
    [1e308, 1e308],
    [10**400],
    [1, 10**400],
    [Decimal("1"), Decimal("2")],
    ["a", "b"],
    [None, 1],
    [1, None],
    [[1], [2]],
    [1j, 2],
    [1, 2],  # against a population of another length
]


def probe_bucketing():
    out = {}
    out["proba"] = digest([enc(deterministic_proba(i)) for i in IDS])
    out["proba_sample"] = [enc(deterministic_proba(i)) for i in IDS[:12]]
    out["proba_bounds"] = [
        min(deterministic_proba(i) for i in IDS).hex(),
        max(deterministic_proba(i) for i in IDS).hex(),
    ]
    out["proba_bad"] = [
        attempt(deterministic_proba, bad)
        for bad in (None, 1, 1.5, b"bytes", bytearray(b"x"), ("a",), "\ud800", "a\udfffb")
    ]
    out["proba_strsub"] = attempt(deterministic_proba, type("S", (str,), {})("id_1"))

    uniform = []
    for size in (1, 2, 3, 5, 7, 10, 64, 1000, 4097):
        population = [f"G{i}" for i in range(size)]
        uniform.append(digest([attempt(deterministic_choice, i, population) for i in IDS]))
    out["uniform"] = uniform
    out["uniform_other_populations"] = [
        digest([attempt(deterministic_choice, i, pop) for i in IDS[:200]])
        for pop in (("a", "b", "c"), range(10**12), "abcdef", Sequenceish("xyz"), deque("pqrs"), b"bytes")
    ]
    out["uniform_bad"] = [
        attempt(deterministic_choice, "id", []),
        attempt(deterministic_choice, "id", ()),
        attempt(deterministic_choice, "id", None),
        attempt(deterministic_choice, "id", 5),
        attempt(deterministic_choice, "id", {"a": 1}),
        attempt(deterministic_choice, "id", {0: "zero", 1: "one"}),
        attempt(deterministic_choice, "id", {"a", "b"}),
        attempt(deterministic_choice, 5, ["a", "b"]),
        attempt(deterministic_choice, 5, []),
        attempt(deterministic_choice, b"id", ["a", "b"]),
        attempt(deterministic_choice, "\ud800", ["a", "b"]),
        attempt(deterministic_choice, "id", iter(["a"])),
    ]

    weighted = {}
    for number, weights in enumerate(WEIGHT_SETS):
        population = [f"P{i}" for i in range(len(weights))]
        as_weights = [attempt(deterministic_choice, i, population, weights) for i in IDS]
        as_keyword = [
            attempt(deterministic_choice, i, population=population, weights=tuple(weights))
            for i in IDS[:150]
        ]
        as_generator = [
            attempt(deterministic_choice, i, population, (w for w in weights)) for i in IDS[:150]
        ]
        as_cumulative = [
            attempt(
                deterministic_choice,
                i,
                population,
                cum_weights=list(itertools.accumulate(weights)),
            )
            for i in IDS[:300]
        ]
        as_cumulative_tuple = [
            attempt(
                deterministic_choice,
                i,
                tuple(population),
                cum_weights=tuple(itertools.accumulate(weights)),
            )
            for i in IDS[:150]
        ]
        reader = Sequenceish(itertools.accumulate(weights))
        as_sequenceish = [
            attempt(deterministic_choice, i, population, cum_weights=reader) for i in IDS[:60]
        ]
        weighted[str(number)] = {
            "weights": digest(as_weights),
            "hist": sorted((k, len(list(g))) for k, g in itertools.groupby(sorted(as_weights)))[:6],
            "keyword": digest(as_keyword),
            "generator": digest(as_generator),
            "cumulative": digest(as_cumulative),
            "cumulative_tuple": digest(as_cumulative_tuple),
            "sequenceish": digest(as_sequenceish),
            "sequenceish_reads": digest([repr(r) for r in reader.reads]),
        }
    out["weighted"] = weighted

    # rungs that are not in order (never produced from weights >= 0, accepted all the same)
    disorder = []
    for rungs in ([3, 1, 2, 5], [5, 4, 3, 2, 1, 6], [1, float("nan"), 3, 4], [2, 2, 2, 2], [0, 0, 0, 1],
                  [4, 3, 9, 1, 7, 2, 8, 5, 6, 10], [float("nan"), float("nan"), 1], [-5, -6, 2]):
        population = [f"D{i}" for i in range(len(rungs))]
        disorder.append(
            digest([attempt(deterministic_choice, i, population, cum_weights=rungs) for i in IDS[:400]])
        )
    out["disorder"] = disorder

    bad = []
    for weights in BAD_WEIGHT_SETS:
        population = ["a", "b", "c"] if weights == [1, 2] else [f"B{i}" for i in range(len(weights))]
        for input_id in ("id", 7, None):
            random.seed(1234)
            bad.append(attempt(deterministic_choice, input_id, population, weights)[:100])
            random.seed(1234)
            bad.append(attempt(deterministic_choice, input_id, population, cum_weights=weights)[:100])
    out["bad_weights"] = bad
    out["bad_weights_digest"] = digest(bad)

    out["precedence"] = [
        # both given: which complaint wins over which
        attempt(deterministic_choice, "id", ["a", "b"], [1, 1], cum_weights=[1, 2]),
        attempt(deterministic_choice, "id", ["a", "b"], [1], cum_weights=[1]),
        attempt(deterministic_choice, "id", ["a", "b"], [], cum_weights=[]),
        attempt(deterministic_choice, 7, ["a", "b"], [1, 1], cum_weights=[1, 2]),
        attempt(deterministic_choice, "id", ["a", "b"], "xy", cum_weights=[1, 2]),
        # length before total, total before hashing
        attempt(deterministic_choice, 7, ["a", "b"], [1]),
        attempt(deterministic_choice, 7, ["a", "b"], [0, 0]),
        attempt(deterministic_choice, 7, ["a", "b"], [1, float("inf")]),
        attempt(deterministic_choice, 7, ["a", "b"], [1, 1]),
        attempt(deterministic_choice, 7, ["a"], cum_weights=[]),
        attempt(deterministic_choice, "id", [], []),
        attempt(deterministic_choice, "id", [], cum_weights=[]),
        attempt(deterministic_choice, "id", ["a", "b"], 5),
        attempt(deterministic_choice, "id", ["a", "b"], cum_weights=5),
        attempt(deterministic_choice, "id", ["a", "b"], None, cum_weights=None),
        attempt(deterministic_choice, "id", ["a", "b"], cum_weights={0: 1, 1: 2, -1: 2}),
        attempt(deterministic_choice, "id", ["a", "b"], cum_weights="ab"),
        attempt(deterministic_choice, "id", ["a", "b"], "ab"),
        attempt(deterministic_choice, "id", ["a", "b"], [[1], [2]]),
        attempt(deterministic_choice, "id", 5, [1]),
        attempt(deterministic_choice, None, 5, [1]),
        attempt(deterministic_choice, "id", {0: "zero", 1: "one"}, [1, 1]),
        attempt(deterministic_choice, "id", {"x": "zero", "y": "one"}, [1, 1]),
    ]

    # weights whose source fails part-way, or whose members cannot be added
    out["failing_sources"] = [
        attempt(deterministic_choice, "id", list("abcde"), failing_weights(at, kind))
        for at in range(5)
        for kind in ("raise", "type")
    ]

    # every comparison and addition seen by instrumented numbers, in order
    Loud.log.clear()
    loud = [
        attempt(deterministic_choice, i, list("abcdef"), [Loud(w) for w in (1, 2, 0.5, 3, 0.25, 4)])
        for i in IDS[:50]
    ]
    loud += [
        attempt(deterministic_choice, i, list("abcdef"), cum_weights=[Loud(w) for w in (1, 2, 2.5, 5.5, 5.75, 9.75)])
        for i in IDS[:50]
    ]
    out["loud"] = digest(loud)
    out["loud_log"] = digest([repr(e) for e in Loud.log])
    out["loud_log_len"] = len(Loud.log)

    # no id: the random module decides, and its state moves the same way
    randoms = []
    random.seed(20240229)
    for weights in (None, [1, 2, 3], [0.5, 0.25, 0.25]):
        for _ in range(50):
            randoms.append(attempt(deterministic_choice, None, ["a", "b", "c"], weights))
    for _ in range(50):
        randoms.append(attempt(deterministic_choice, None, ["a", "b", "c"], cum_weights=[1, 2, 4]))
    randoms.append(attempt(deterministic_choice, None, ["a", "b"], [1, 1], cum_weights=[1, 2]))
    randoms.append(attempt(deterministic_choice, None, []))
    randoms.append(attempt(deterministic_choice, None, ["a"], [0]))
    randoms.append(enc(random.random()))
    out["random_path"] = digest(randoms)
    out["random_tail"] = randoms[-4:]

    # arguments are left as they were found
    weights, population, rungs = [1, 2, 3], ["a", "b", "c"], [1, 3, 6]
    deterministic_choice("id", population, weights)
    deterministic_choice("id", population, cum_weights=rungs)
    out["arguments_untouched"] = enc([weights, population, rungs])
    out["module_surface"] = sorted(
        name for name in ("deterministic_choice", "deterministic_proba") if callable(getattr(binning, name))
    )
    return out


# --------------------------------------------------------------------------- lifecycle
def probe_lifecycle():
    good_a = VALID_PROGRAMS["plain"]
    good_b = 'def plain{ splitters: uid return "c" weighted 1, "d" weighted 3 }'
    good_c = 'def other_name{ splitters: uid if uid in ("u1",) { return 1 weighted 1 } else { return 2.5 weighted 1, "s" weighted 1 } }'
    bad_lex = 'def plain{ return "a" weighted 1 ? }'
    bad_parse = 'def plain{ return "a" weighted }'
    histories = [
        [good_a, good_a, good_b, good_b, good_a],
        [good_b, bad_lex, good_b, bad_parse, bad_parse, good_c, bad_lex, good_c, good_b],
        [good_c, "", good_c, good_a, "", good_a],
        [good_b, good_b + " ", good_b + "\n", good_b],
        [bad_lex, good_a],
    ]
    out = []
    for history in histories:
        trace = []
        evaluator = None
        random.seed("lifecycle")
        for step, text in enumerate(history):
            if evaluator is None:
                try:
                    evaluator = ExperimentEvaluator(text)
                    trace.append("constructed")
                except BaseException as exc:  # noqa: B902
                    trace.append(f"!construct:{type(exc).__name__}")
                    continue
            else:
                before = evaluator.run_experiment
                trace.append(attempt(evaluator.recompile, text)[:60])
                trace.append(f"same_fn={before is evaluator.run_experiment}")
            trace.append(evaluator._checksum)
            trace.append(evaluator.run_experiment.__name__)
            trace.append(digest([attempt(evaluator, uid=f"u{i}") for i in range(60)]))
            trace.append(attempt(evaluator, uid="u1", other=step))
            trace.append(attempt(evaluator))
        out.append(trace)
    blank = ExperimentEvaluator.__new__(ExperimentEvaluator)
    out.append([attempt(blank), attempt(blank, uid=1), blank._checksum])
    return out


def probe_threads():
    text_a = 'def t{ salt: "A" splitters: uid return "a1" weighted 1, "a2" weighted 2, "a3" weighted 3 }'
    text_b = 'def t{ salt: "B" splitters: uid return "b1" weighted 3, "b2" weighted 2, "b3" weighted 1 }'
    expected_a = [ExperimentEvaluator(text_a)(uid=i) for i in range(300)]
    expected_b = [ExperimentEvaluator(text_b)(uid=i) for i in range(300)]
    shared = ExperimentEvaluator(text_a)
    faults = []
    barrier = threading.Barrier(9)

    def caller():
        barrier.wait()
        for _ in range(15):
            for i in range(300):
                got = shared(uid=i)
                if got != expected_a[i] and got != expected_b[i]:
                    faults.append((i, got))

    def recompiler():
        barrier.wait()
        for turn in range(60):
            try:
                shared.recompile(text_b if turn % 2 == 0 else text_a)
                shared.recompile("def broken{")
            except Exception as exc:  # noqa: BLE001
                if type(exc).__name__ not in ("YaccError", "LexError", "ParseError"):
                    faults.append(("recompile", type(exc).__name__))

    threads = [threading.Thread(target=caller) for _ in range(8)] + [threading.Thread(target=recompiler)]
    for thread in threads:
        thread.start()
    for thread in threads:
        thread.join()

    # pure bucketing from many threads at once
    singles = [deterministic_choice(f"{i}_S", list("abcdefg"), [1, 2, 3, 4, 3, 2, 1]) for i in range(2000)]
    mismatches = []

    def bucketer():
        for i in range(2000):
            if deterministic_choice(f"{i}_S", list("abcdefg"), [1, 2, 3, 4, 3, 2, 1]) != singles[i]:
                mismatches.append(i)

    pool = [threading.Thread(target=bucketer) for _ in range(8)]
    for thread in pool:
        thread.start()
    for thread in pool:
        thread.join()
    return {
        "faults": faults,
        "final": digest([shared(uid=i) for i in range(300)]),
        "expected_a": digest(expected_a),
        "expected_b": digest(expected_b),
        "bucketing_mismatches": mismatches,
        "bucketing": digest(singles),
    }


# --------------------------------------------------------------------------- statistics
def probe_stats():
    out = {}
    alphas = [
        0.5, 0.975, 0.025, 0.0005, 0.9995, 1e-300, 5e-324, 1 - 2**-53, 0.1, 0.25, 0.3, 0.7,
        Fraction(1, 3), Fraction(39, 40), Decimal("0.2"), True, False, 0, 1, 0.0, 1.0, -0.5, 1.5, 2,
        float("nan"), float("inf"), float("-inf"), None, "0.5", 1j, 10**400, Fraction(10**400, 3),
    ]
    out["probit"] = [attempt(probit, a) for a in alphas]
    out["probit_default"] = attempt(probit)
    out["probit_grid"] = digest([attempt(probit, i / 1000) for i in range(0, 1001)])
    out["probit_keyword"] = attempt(probit, alpha=0.9)

    grid = []
    for n in (1, 2, 10, 37, 1000, 100000, 10**9, 0.5, 2.5, Fraction(7, 2), True, 10**30):
        for p in (0.0, 1.0, 0.5, 1 / 3, 0.999, 1e-9, Fraction(1, 3), 0, 1, True):
            for confidence in (0.95, 0.999, 0.5, 0.9, 1e-12, Fraction(19, 20)):
                for method in ("agresti-coull", "wald", "WALD", "Agresti-Coull"):
                    grid.append(attempt(confidence_interval, n, p, confidence, method))
    out["ci_grid"] = digest(grid)
    out["ci_grid_len"] = len(grid)
    out["ci_sample"] = grid[:8] + grid[1000:1008]
    out["ci_defaults"] = [
        attempt(confidence_interval),
        attempt(confidence_interval, 100),
        attempt(confidence_interval, 100, 0.3),
        attempt(confidence_interval, n=50, p=0.2, confidence=0.99, method="wald"),
        attempt(confidence_interval, method="wald"),
        attempt(confidence_interval, 300000, p=1 / 3, confidence=0.999),
    ]

    class Lowerable:
        def __init__(self, lowered):
            self.lowered = lowered
            self.calls = 0

        def lower(self):
            self.calls += 1
            return self.lowered

        def __repr__(self):
            return f"Lowerable({self.lowered!r})"

    edge = []
    for method in ("", "wilson", "wald ", " wald", "agresti_coull", "agresti-coull\n", "WaLd", "İ", None, 5,
                   b"wald", ["wald"], Lowerable("wald"), Lowerable("agresti-coull"), Lowerable(["x"]),
                   Lowerable(None), Lowerable("other")):
        edge.append(attempt(confidence_interval, 10, 0.5, 0.95, method)[:140])
        if isinstance(method, Lowerable):
            edge.append(f"lower_calls={method.calls}")
    out["ci_methods"] = edge

    order = []
    for n, p, confidence, method in [
        (0, 0.5, 0.95, "wald"),
        (0, 0.5, 0.95, "agresti-coull"),
        (-4, 0.5, 0.95, "wald"),
        (-4, 0.5, 0.95, "agresti-coull"),
        (-100, 0.5, 0.95, "agresti-coull"),
        (10, 1.5, 0.95, "wald"),
        (10, 1.5, 0.95, "agresti-coull"),
        (10, -0.5, 0.95, "wald"),
        (10, 0.5, 1, "wald"),
        (10, 0.5, 1, "nope"),
        (10, 0.5, 0, "wald"),
        (10, 0.5, 0, "nope"),
        (10, 0.5, -1, "wald"),
        (10, 0.5, -1, None),
        (10, 0.5, 3, "wald"),
        (10, 0.5, "0.95", "wald"),
        (10, 0.5, None, None),
        (10, "p", 0.95, "nope"),
        (2.5, "p", 0.95, "nope"),
        (3, "p", 0.95, "nope"),
        (3, "p", 0.95, "wald"),
        (3, "p", 0.95, "agresti-coull"),
        (None, 0.5, 0.95, "nope"),
        (None, 0.5, 0.95, None),
        (None, None, 0.95, None),
        ("n", 0.5, 0.95, "wald"),
        ("n", 2, 0.95, "wald"),
        ("n", 2, 0.95, "agresti-coull"),
        ([1], 2, 0.95, "agresti-coull"),
        (10, 0.5, float("nan"), "wald"),
        (10, 0.5, float("nan"), "agresti-coull"),
        (float("inf"), 0.5, 0.95, "wald"),
        (float("inf"), 0.5, 0.95, "agresti-coull"),
        (float("nan"), 0.5, 0.95, "agresti-coull"),
        (10, float("nan"), 0.95, "wald"),
        (10, float("inf"), 0.95, "agresti-coull"),
        (1e308, 1e308, 0.95, "agresti-coull"),
        (1e308, 1e308, 0.95, "wald"),
        (10**400, 0.5, 0.95, "agresti-coull"),
        (10**400, 0.5, 0.95, "wald"),
        (10, 10**400, 0.95, "wald"),
        (Decimal(10), 0.5, 0.95, "wald"),
        (Decimal(10), Decimal("0.5"), 0.95, "wald"),
        (Decimal(10), Decimal("0.5"), 0.95, "agresti-coull"),
        (10, Decimal("0.5"), 0.95, "agresti-coull"),
        (10, Decimal("0.5"), 0.95, "wald"),
        (10, 1j, 0.95, "wald"),
        (1j, 0.5, 0.95, "agresti-coull"),
    ]:
        order.append(attempt(confidence_interval, n, p, confidence, method)[:160])
    out["ci_order"] = order
    out["ci_result_types"] = [
        type(confidence_interval(10, 0.5, 0.95, m)).__name__ for m in ("wald", "agresti-coull")
    ]
    out["stats_surface"] = sorted(
        name for name in ("probit", "confidence_interval") if callable(getattr(stats, name))
    )
    return out


def main():
    summary = {
        "programs": probe_programs(),
        "bucketing": probe_bucketing(),
        "lifecycle": probe_lifecycle(),
        "threads": probe_threads(),
        "stats": probe_stats(),
    }
    print(json.dumps(summary, indent=1, sort_keys=True, ensure_ascii=True))


if __name__ == "__main__":
    main()

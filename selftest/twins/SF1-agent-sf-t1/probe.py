"""Shared end-to-end probe body (copied verbatim into every out/t<k>/probe.py).

Prints a deterministic transcript of everything a user can observe end to end:
parse outcome, generated text in both layouts, behaviour of the generated
modules, behaviour of ExperimentEvaluator including recompile histories.
"""
import os
import random
import sys
import types

if os.environ.get("PYTHONHASHSEED") != "0":
    # set iteration order of strings must not vary from run to run
    os.environ["PYTHONHASHSEED"] = "0"
    os.execv(sys.executable, [sys.executable] + sys.argv)

from pyab_experiment.binning.binning import deterministic_choice
from pyab_experiment.codegen.python.python_generator import PythonCodeGen
from pyab_experiment.data_structures.syntax_tree import (
    BooleanOperatorEnum,
    ConditionalType,
    ExperimentAST,
    ExperimentConditional,
    ExperimentGroup,
    Identifier,
    LogicalOperatorEnum,
    RecursivePredicate,
    TerminalPredicate,
)
from pyab_experiment.experiment_evaluator import ExperimentEvaluator
from pyab_experiment.utils.wraper_functions import generate_code, parse_source

HUGE_INT = "9" * 5000
HUGE_DEC = "9" * 400 + ".5"

PROGRAMS = {
    "plain": "def e { return 'a' weighted 1, 'b' weighted 3 }",
    "salt_only": "def e { salt: 's' return 'a' weighted 1, 'b' weighted 3 }",
    "empty_salt": "def e { salt: \"\" splitters: u return 'a' weighted 1, 'b' weighted 1 }",
    "empty_salt_sq": "def e { salt: '' splitters: u return 'a' weighted 1, 'b' weighted 1 }",
    "no_salt": "def e { splitters: u return 'a' weighted 1, 'b' weighted 1 }",
    "salt_quotes": "def e { salt: \"it's\" splitters: u return 'a' weighted 1, 'b' weighted 1 }",
    "salt_dq_in_sq": "def e { salt: 'say \"x\"' splitters: u return 'a' weighted 1, 'b' weighted 1 }",
    "salt_backslash": "def e { salt: 'a\\nb\\\\' splitters: u return 'a' weighted 1, 'b' weighted 1 }",
    "salt_comment_like": "def e { salt: 'a//b/*c*/' splitters: u return '//x' weighted 1, '/*y*/' weighted 1 }",
    "lone_splitter": "def e { salt: 'k' splitters: u return 1 weighted 1, 2.5 weighted 1, 'c' weighted 2 }",
    "dup_unsorted": "def e { salt: 'k' splitters: b, a, b return 'x' weighted 1, 'y' weighted 1 }",
    "shared": "def e { splitters: u, v if u == 'id_1' or w > 3 { return 'p' weighted 1 } else { return 'q' weighted 1, 'r' weighted 1 } }",
    "shared_only": "def e { splitters: u if u in ('id_1', 'id_2') { return 'p' weighted 1 } }",
    "neg_space": "def e { if x > - 5 and x < -  2.5 { return - 1 weighted 1 } else { return -0 weighted 1, - 0.0 weighted 0 } }",
    "neg_comment": "def e { if x >= - /* c */ 5 and x <= - // c\n 2 { return 'in' weighted 1 } else { return 'out' weighted 1 } }",
    "neg_tuple": "def e { if x in (- 1, (- 2.5, -3), 4) { return 'in' weighted 1 } else { return 'out' weighted 1 } }",
    "nested": "def e { if x in (1, (2, 'a'), y, ((3,4), 'z')) { return 'in' weighted 1 } else { return 'out' weighted 1 } }",
    "single_tuple": "def e { if x in (1) or x in ((2)) or x in ('abc') { return 'in' weighted 1 } else { return 'out' weighted 1 } }",
    "tuple_left": "def e { if (x, 1) == (2, y) { return 'in' weighted 1 } else { return 'out' weighted 1 } }",
    "str_terms": "def e { if x == \"it's\" or x == 'q\"q' or x == '' or x == \"\" or 'a' == x { return 'in' weighted 1 } else { return 'out' weighted 1 } }",
    "str_groups": "def e { splitters: u return \"it's\" weighted 1, 'q\"q' weighted 1, '' weighted 1, \"\" weighted 1 }",
    "not_in": "def e { if x not   in (1, 2) and not y in ('a') { return 'in' weighted 1 } else { return 'out' weighted 1 } }",
    "elif": "def e { if x == 1 { return 'one' weighted 1 } else if x == 2 { return 'two' weighted 1 } elseif x == 3 { return 'three' weighted 1 } else { return 'many' weighted 1 } }",
    "unroutable": "def e { if x == 1 { return 'one' weighted 1 } else if x == 2 { if y == 1 { return 'two' weighted 1 } } }",
    "zero_weights": "def e { splitters: u return 'a' weighted 0, 'b' weighted 0.0 }",
    "zero_weights_rand": "def e { return 'a' weighted 0, 'b' weighted 0 }",
    "huge_dec_weight": f"def e {{ splitters: u return 'a' weighted {HUGE_DEC}, 'b' weighted 1 }}",
    "huge_dec_term": f"def e {{ if x < {HUGE_DEC} and x > -{HUGE_DEC} and x > - {HUGE_DEC} {{ return 'fin' weighted 1 }} else {{ return {HUGE_DEC} weighted 1, - {HUGE_DEC} weighted 0 }} }}",
    "huge_int": f"def e {{ return 'a' weighted {HUGE_INT} }}",
    "huge_int_then_garbage": f"def e {{ return {HUGE_INT} {HUGE_INT} }}",
    "garbage_then_huge_int": f"def e {{ return return {HUGE_INT} }}",
    "big_int_weight": "def e { splitters: u return 'a' weighted " + "9" * 400 + ", 'b' weighted 1 }",
    "field_str": "def e { splitters: str return 'a' weighted 1, 'b' weighted 1 }",
    "field_map": "def e { splitters: map, u return 'a' weighted 1, 'b' weighted 1 }",
    "field_partial": "def e { splitters: u if partial == 1 { return 'a' weighted 1, 'b' weighted 1 } }",
    "field_dc": "def e { splitters: u if deterministic_choice == 1 { return 'a' weighted 1, 'b' weighted 1 } }",
    "field_kwargs": "def e { splitters: kwargs return 'a' weighted 1 }",
    "field_keyword": "def e { splitters: class return 'a' weighted 1 }",
    "cond_keyword": "def e { if lambda == 1 { return 'a' weighted 1 } }",
    "field_cev": "def e { splitters: choose_experiment_variant return 'a' weighted 1, 'b' weighted 1 }",
    "name_partial": "def partial { splitters: u return 'a' weighted 1, 'b' weighted 1 }",
    "name_map": "def map { splitters: u return 'a' weighted 1, 'b' weighted 1 }",
    "name_dc": "def deterministic_choice { splitters: u return 'a' weighted 1, 'b' weighted 1 }",
    "name_is_field": "def u { splitters: u return 'a' weighted 1, 'b' weighted 1 }",
    "comments": "/* head */ def e { // c\n salt: 'x' /* a */ splitters: /* b */ u // c\n return 'a' weighted /* w */ 1, 'b' weighted 1 /* t */ } // end",
    "unterminated_comment": "def e { return 'a' weighted 1 } /* never closed",
    "unterminated_string": "def e { return 'a weighted 1 }",
    "mixed_quotes": "def e { return 'a\" weighted 1 }",
    "empty": "",
    "only_comment": "// nothing",
    "lex_error": "def e { return 'a' weighted 1 @ }",
    "lex_error_early": "def e { salt: 'x' $ splitters: }",
    "syntax_salt_after": "def e { splitters: u salt: 'x' return 'a' weighted 1 }",
    "syntax_neg_weight": "def e { return 'a' weighted -1 }",
    "syntax_neg_salt": "def e { salt: -1 return 'a' weighted 1 }",
    "syntax_salt_num": "def e { salt: 1 return 'a' weighted 1 }",
    "syntax_double_minus": "def e { if x > - - 1 { return 'a' weighted 1 } }",
    "syntax_empty_tuple": "def e { if x in () { return 'a' weighted 1 } }",
    "syntax_trailing": "def e { return 'a' weighted 1 } def",
    "syntax_line": "def e {\n\n  salt: 'x'\n \n splitters: ,\n}",
    "kw_prefix_ids": "def e { splitters: iffy, inner, notx, orx, android, define, salty if iffy == inner and notx != orx or android in (define, salty) { return 'a' weighted 1, 'b' weighted 1 } else { return 'c' weighted 1 } }",
    "unicode": "def e { salt: 'sél€' splitters: u if x == 'ü' { return 'é' weighted 1, 'ß' weighted 1 } else { return 'z' weighted 1 } }",
}

CALLS = [
    {},
    {"u": "id_1"},
    {"u": "id_2", "v": 7, "w": 9},
    {"u": None, "v": None, "w": None, "x": None, "y": None},
    {"u": 5, "x": -3},
    {"u": "id_1", "x": 1, "y": 1},
    {"u": "id_3", "x": 2, "y": 2, "extra": object},
    {"u": "id_3", "x": 2, "y": 1},
    {"x": (2, "a"), "y": 0},
    {"x": [2, "a"], "y": "a"},
    {"x": -2.5, "y": 5},
    {"x": (-2.5, -3), "y": "a"},
    {"x": 5, "y": 5},
    {"x": "it's", "y": "b"},
    {"x": "", "y": 1},
    {"x": "abc", "y": 1},
    {"x": "a", "y": 1},
    {"x": float("inf"), "y": 1},
    {"x": float("-inf")},
    {"x": 2, "y": 1, "u": ""},
    {"a": 1, "b": 2},
    {"a": "1", "b": "2"},
    {"a": "12", "b": ""},
    {"str": "abc"},
    {"str": str},
    {"map": map, "u": 1},
    {"map": 3, "u": 1},
    {"u": 1, "partial": 1},
    {"u": 1, "partial": 2},
    {"u": 1, "deterministic_choice": 1},
    {"iffy": 1, "inner": 1, "notx": 1, "orx": 2, "android": 0, "define": 0, "salty": 0},
    {"u": "é", "x": "ü"},
]


def outcome(fn, *args, **kwargs):
    random.seed(1234)
    try:
        value = fn(*args, **kwargs)
    except BaseException as exc:  # noqa: B902
        text = str(exc)
        if len(text) > 160:
            text = text[:160] + "..."
        return f"!{type(exc).__module__}.{type(exc).__qualname__}: {text}"
    return f"{type(value).__name__}:{value!r}"


def show_calls(label, fn):
    seen = {}
    for kwargs in CALLS:
        seen.setdefault(outcome(fn, **kwargs), []).append(CALLS.index(kwargs))
    for text, idx in seen.items():
        print(f"    {label} calls{idx}: {text}")


def as_module(text, name):
    module = types.ModuleType(name)
    exec(compile(text, name, "exec"), module.__dict__)
    return module


def describe_partial(p):
    func = getattr(p, "func", None)
    return (
        f"{type(p).__name__} func_is_dc={func is deterministic_choice} "
        f"args={getattr(p, 'args', None)!r} kw={getattr(p, 'keywords', None)!r}"
    )


def probe_program(name, text):
    print(f"== {name}")
    print("  parse:", outcome(lambda: repr(parse_source(text))))
    for expose in (False, True):
        res = outcome(generate_code, text, expose)
        print(f"  generate_code(expose={expose}): {res}")
        if res.startswith("!"):
            # black refused or parsing failed: still look at the raw text
            res = outcome(
                lambda: PythonCodeGen(
                    parse_source(text), expose_experiment_variant_function=expose
                ).generate()
            )
            print(f"  raw generate(expose={expose}): {res}")
            continue
        code = generate_code(text, expose)
        try:
            module = as_module(code, f"gen_{name}_{int(expose)}")
        except BaseException as exc:  # noqa: B902
            print(f"    module exec failed: {type(exc).__name__}: {exc}")
            continue
        print("    names:", sorted(k for k in module.__dict__ if not k.startswith("__")))
        ast = parse_source(text)
        show_calls("module", getattr(module, ast.id))
        if expose and "choose_experiment_variant" in module.__dict__:
            cev = module.choose_experiment_variant
            for kwargs in ({}, {"x": 1}, {"x": 2, "y": 1}, {"u": "id_1", "w": 1}):
                random.seed(5)
                try:
                    p = cev(**kwargs)
                except BaseException as exc:  # noqa: B902
                    print(f"    cev({kwargs}): !{type(exc).__name__}: {exc}")
                    continue
                print(f"    cev({kwargs}): {describe_partial(p)}")
                for key in (None, "", "id_1", "k1"):
                    print(f"      key={key!r}: {outcome(p, key)}")
    res = outcome(ExperimentEvaluator, text)
    print("  evaluator:", res if res.startswith("!") else "ok")
    if not res.startswith("!"):
        ev = ExperimentEvaluator(text)
        show_calls("evaluator", ev)
        fn = ev.run_experiment
        print(
            "    fn:", fn.__name__, fn.__code__.co_varnames[: fn.__code__.co_argcount],
            "globals_is_evaluator_module:",
            fn.__globals__ is sys.modules["pyab_experiment.experiment_evaluator"].__dict__,
        )


def probe_histories():
    print("== histories")
    good_a = PROGRAMS["lone_splitter"]
    good_b = PROGRAMS["shared"]
    bad = [PROGRAMS["lex_error"], PROGRAMS["syntax_salt_after"], PROGRAMS["field_keyword"],
           PROGRAMS["huge_int"], PROGRAMS["empty"], PROGRAMS["field_kwargs"]]
    ev = ExperimentEvaluator(good_a)
    calls = [{"u": "id_1"}, {"u": "id_2", "v": 7, "w": 9}, {}]

    def state(tag):
        print(f"  [{tag}] checksum={ev._checksum} own_attrs={sorted(ev.__dict__)}")
        for kwargs in calls:
            print(f"     {kwargs}: {outcome(ev, **kwargs)}")

    state("initial a")
    for i, text in enumerate(bad):
        print(f"  recompile bad{i}: {outcome(ev.recompile, text)}")
        state(f"after bad{i}")
        print(f"  recompile bad{i} again: {outcome(ev.recompile, text)}")
    print("  recompile same:", outcome(ev.recompile, good_a))
    state("after same")
    print("  recompile b:", outcome(ev.recompile, good_b))
    state("after b")
    print("  recompile bad after b:", outcome(ev.recompile, bad[1]))
    state("after bad after b")
    print("  recompile a:", outcome(ev.recompile, good_a))
    state("after a again")
    other = ExperimentEvaluator(good_b)
    print("  second evaluator unaffected:", outcome(other, u="id_1", v=1, w=0), outcome(ev, u="id_1"))
    print("  class attr run_experiment untouched:", outcome(ExperimentEvaluator.run_experiment, ev))
    print("  class checksum:", repr(ExperimentEvaluator._checksum))
    print("  ctor failure:", outcome(ExperimentEvaluator, bad[0]))
    print("  surrogate source:", outcome(ExperimentEvaluator, "def e { return '\ud800' weighted 1 }"))
    print("  non-str source:", outcome(ExperimentEvaluator, None), outcome(ExperimentEvaluator, b"def e {}"))


def run_base():
    for name, text in PROGRAMS.items():
        probe_program(name, text)
    probe_histories()


# ---- specific to change 1: where string lexemes are unquoted ----
def probe_tokens():
    """token streams: kinds, positions and lexemes (the slice of the source a
    token covers); values are shown for everything but STRING_LITERAL, whose
    value is an internal hand-over between lexer and grammar"""
    from pyab_experiment.language.lexer import ExperimentLexer

    print("== token streams")
    for name, text in PROGRAMS.items():
        if len(text) > 600:
            continue
        out = []
        try:
            for tok in ExperimentLexer().tokenize(text):
                shown = "" if tok.type == "STRING_LITERAL" else repr(tok.value)
                out.append(
                    f"{tok.type}@{tok.index}-{tok.end}#{tok.lineno}"
                    f"[{text[tok.index:tok.end]}]{shown}"
                )
        except BaseException as exc:  # noqa: B902
            out.append(f"!{type(exc).__name__}: {exc}")
        print(f"  {name}: {' '.join(out)}")


def probe_strings():
    """every place a string may appear, with every quoting shape"""
    print("== strings everywhere")
    shapes = ['""', "''", '"\'"', "'\"'", '"a b"', "'a\\'", '"\\"', '"//"', "'/*'", '"*/"',
              '"\'\'"', "'\"\"'", '"x" "y"', "'x''y'", '"café"', '" "', "'\t'"]
    for shape in shapes:
        texts = {
            "salt": f"def e {{ salt: {shape} splitters: u return 1 weighted 1, 2 weighted 1 }}",
            "group": f"def e {{ splitters: u return {shape} weighted 1, 2 weighted 1 }}",
            "term": f"def e {{ if x == {shape} {{ return 1 weighted 1 }} else {{ return 2 weighted 1 }} }}",
            "left": f"def e {{ if {shape} != x {{ return 1 weighted 1 }} else {{ return 2 weighted 1 }} }}",
            "tuple": f"def e {{ if x in ({shape}, ({shape}, 1)) {{ return 1 weighted 1 }} else {{ return 2 weighted 1 }} }}",
        }
        for where, text in texts.items():
            print(f"  {shape!r} as {where}: parse={outcome(lambda: repr(parse_source(text)))}")
            print(f"      code={outcome(generate_code, text)}")
            res = outcome(ExperimentEvaluator, text)
            if res.startswith("!"):
                print(f"      evaluator={res}")
                continue
            ev = ExperimentEvaluator(text)
            for kwargs in ({"u": "id_1", "x": ""}, {"u": "id_2", "x": shape[1:-1]},
                           {"u": "", "x": shape}, {"u": "id_7", "x": (shape[1:-1], 1)}):
                print(f"      {kwargs}: {outcome(ev, **kwargs)}")


run_base()
probe_tokens()
probe_strings()

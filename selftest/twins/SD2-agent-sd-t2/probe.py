"""Old/new comparison probe for the parse/compile wrappers of pyab_experiment.

Run as:  PYTHONPATH=/tmp/wt/SD/src /venv/bin/python probe.py
Prints a deterministic transcript; run it on the clean tree and on the changed
tree and diff the two outputs.
"""

import hashlib
import logging
import random
import sys
import threading
import warnings

from pyab_experiment.experiment_evaluator import ExperimentEvaluator
from pyab_experiment.language.grammar import ExperimentParser
from pyab_experiment.language.lexer import ExperimentLexer
from pyab_experiment.utils.wraper_functions import generate_code, parse_source

HEADROOM = True  # spare-frame measurements are part of the transcript


class StrSub(str):
    pass


FULL = """
/* block ** comment */ /* second */
def complex_experiment_defn{
    salt: "csdvs887"
    splitters: my_fld, my_fld_1
    if field1=='a' and not field2 >4 or field3<9{
        if field4 == 'xyz'{
            return  "123" weighted 3.4, "9.3" weighted 5,
                    "abc" weighted 3 /* multi
                    line */
        }
        else if field5 != 'x'{
            return "Setting 1.1.1" weighted 1, "Setting 1.1.2" weighted 0
        }
        else   if field6 in (1,2,3) and field7 not   in (8,9,(10, 'k', other)){
            return "Setting 1.2.1" weighted 0.5, -3 weighted 0.5, -2.5 weighted 1
        }
        else{
            return "Setting 1.3.1" weighted 0.5, "Setting 1.3.2" weighted 0.5
        }
    }
    else{
        return "default" weighted 1 // trailing comment
    }
}
"""


def nested(depth):
    head = "def deep{ splitters: k "
    body = "return 'x' weighted 1, 'y' weighted 2"
    for i in range(depth):
        body = f"if f{i % 3} > {i} {{ {body} }} else {{ return 'e{i}' weighted 1 }}"
    return head + body + "}"


def nested_predicate(depth):
    pred = "a == 1"
    for i in range(depth):
        pred = f"not ({pred} and b < {i})"
    return f"def p{{ splitters: k if {pred} {{ return 1 weighted 1 }} }}"


INPUTS = {
    "full": FULL,
    "basic": "def e{ splitters: my_id if field_1 == 'a'{ return 'S1' weighted 4, 'S2' weighted 1 }"
    " else{ return 'S1' weighted 1, 'S2' weighted 1 } }",
    "no_splitter": "def e{ return 'a' weighted 1, 'b' weighted 1 }",
    "salt_only": "def e{ salt: 'x' return 'a' weighted 1 }",
    "field_both": "def e{ splitters: k, j if k > 3 { return 1 weighted 1, 2 weighted 1 } }",
    "one_tuple": "def e{ splitters: k if f in (1) { return 1 weighted 1 } }",
    "strsub": StrSub("def e{ splitters: k return 'a' weighted 1, 'b' weighted 2 }"),
    "crlf": "def e{\r\n splitters: k\r\n return 'a' weighted 1\r\n}\r\n",
    "unicode_digits": "def e{ splitters: k return '٣' weighted ٣, 'b' weighted ١.٥ }",
    "unicode_string": "def e{ splitters: k return 'hé世' weighted 1, \"q'q\" weighted 1 }",
    "empty_string_lit": "def e{ splitters: k return '' weighted 1, \"\" weighted 1 }",
    "zero_weights": "def e{ splitters: k return 'a' weighted 0, 'b' weighted 0.0 }",
    "big_int_ok": "def e{ splitters: k if f == " + "9" * 4300 + " { return 1 weighted 1 } }",
    "big_int_over": "def e{ splitters: k if f == " + "9" * 4301 + " { return 1 weighted 1 } }",
    "big_int_weight_over": "def e{ splitters: k return 1 weighted " + "1" * 5000 + " }",
    "big_float_inf": "def e{ splitters: k if f < " + "9" * 400 + ".0 { return -" + "9" * 400 + ".5 weighted 1 } }",
    "inf_weight": "def e{ splitters: k return 1 weighted " + "9" * 400 + ".0 }",
    "neg_literals": "def e{ splitters: k if f >= -0 and g <= -0.0 { return -1 weighted 1, -1.5 weighted 2 } }",
    "neg_weight": "def e{ splitters: k return 1 weighted -1 }",
    "nested_tuple": "def e{ splitters: k if f in ((1,(2,(3,'x',y))), 4) { return 1 weighted 1 } }",
    "nested_10": nested(10),
    "nested_60": nested(60),
    "nested_pred_40": nested_predicate(40),
    "keyword_prefix_ids": "def define{ splitters: iffy, inner, notable, android, oracle, elsewhere "
    "if iffy in (inner) { return 1 weighted 1 } }",
    "empty": "",
    "whitespace": " \n\t ",
    "only_comment": "// nothing\n/* nothing */",
    "open_block_comment": "def e{ /* never closed \n return 1 weighted 1 }",
    "illegal_char": "def e{ splitters: k return 'a' weighted 1 $ }",
    "illegal_first": "$",
    "illegal_after_syntax_error": "def 1 $",
    "syntax_then_more": "def e{ return }",
    "truncated": "def e{ splitters: k return 'a' weighted",
    "trailing_garbage": "def e{ return 1 weighted 1 } def",
    "two_programs": "def e{ return 1 weighted 1 } def f{ return 1 weighted 1 }",
    "unterminated_string": "def e{ return 'abc weighted 1 }",
    "line_3_error": "def e{\n\n  splitters: ,\n}",
    "line_in_comment": "/* a\n b\n c */ def e{ \n return return }",
    "float_no_frac": "def e{ return 1 weighted 1. }",
    "salt_after_splitters": "def e{ splitters: k salt: 'x' return 1 weighted 1 }",
    "keyword_as_id": "def if{ return 1 weighted 1 }",
    "NONE": None,
    "BYTES_EMPTY": b"",
    "BYTES": b"def e{ return 1 weighted 1 }",
    "INT": 7,
    "LIST_EMPTY": [],
    "LIST_CHARS": list("def e{ return 1 weighted 1 }"),
    "TUPLE_STR": ("def e{ return 1 weighted 1 }",),
    "FLOAT": 1.5,
    "BYTEARRAY": bytearray(b" \t"),
}

KW_GRID = [
    dict(my_id=1, field_1="a", k=1, j=2, f=1, g=0, my_fld=1, my_fld_1="z", field1="a", field2=1,
         field3=0, field4="xyz", field5="x", field6=1, field7=1, f0=100, f1=100, f2=100, a=1, b=-1,
         iffy=1, inner=(1,), notable=0, android=0, oracle=0, elsewhere=0, other=5, y=3),
    dict(my_id="u-77", field_1="b", k="kk", j=None, f=4, g=-1.0, my_fld="q", my_fld_1=2.5,
         field1="b", field2=9, field3=10, field4="", field5="y", field6=2, field7=10, f0=0, f1=0,
         f2=0, a=2, b=50, iffy=2, inner=(1, 2), notable=0, android=0, oracle=0, elsewhere=0,
         other=5, y=3),
    dict(my_id=-5, field_1="a", k=10**30, j=0, f=(1, (2, (3, "x", 3))), g=0, my_fld="", my_fld_1="",
         field1="a", field2=1, field3=100, field4="zzz", field5="x", field6=3, field7=(10, "k", 5),
         f0=3, f1=40, f2=20, a=1, b=0, iffy=1, inner=(), notable=0, android=0, oracle=0,
         elsewhere=0, other=5, y=3, extra_kw="ignored"),
    dict(),
]


def short(value, limit=160):
    text = value if isinstance(value, str) else repr(value)
    if len(text) > limit:
        return f"{text[:60]}...<{len(text)} chars sha={hashlib.sha256(text.encode()).hexdigest()[:12]}>...{text[-30:]}"
    return text


def describe_error(err):
    parts = [f"{type(err).__module__}.{type(err).__qualname__}", short(str(err))]
    parts.append("args=" + short(repr(err.args)))
    for attr in ("text", "error_index", "message"):
        if hasattr(err, attr):
            parts.append(f"{attr}={short(repr(getattr(err, attr)))}")
    cause, ctx = err.__cause__, err.__context__
    parts.append(f"cause={type(cause).__name__ if cause else None}")
    parts.append(f"context={type(ctx).__name__ if ctx else None}")
    parts.append(f"suppress={err.__suppress_context__}")
    return " | ".join(parts)


def outcome(fn, *args, **kwargs):
    try:
        value = fn(*args, **kwargs)
    except BaseException as err:  # noqa: B902 - the probe reports every class
        return "RAISED " + describe_error(err)
    return value


def process_state():
    loggers = sorted(n for n in logging.root.manager.loggerDict if "pyab" in n or "sly" in n)
    return (
        f"recursionlimit={sys.getrecursionlimit()} int_digits={sys.get_int_max_str_digits()} "
        f"threads={threading.active_count()} pyab_loggers={loggers} "
        f"root_handlers={len(logging.root.handlers)} warn_filters={len(warnings.filters)} "
        f"pyab_modules={sorted(m for m in sys.modules if m.startswith('pyab_experiment') and '.sly' not in m)}"
    )


def run_generated(code, fn_name):
    """exec the generated module text and call it over the keyword grid"""
    holder = {}
    try:
        exec(compile(code, "<generated>", "exec"), holder)
    except BaseException as err:  # noqa: B902
        return ["EXEC " + describe_error(err)]
    results = []
    for kwargs in KW_GRID:
        random.seed(1234)
        results.append(short(repr(outcome(holder[fn_name], **kwargs))))
    names = sorted(n for n in holder if not n.startswith("__"))
    results.append(f"names={names}")
    return results


def parse_report(name, text):
    lines = []
    result = outcome(parse_source, text)
    if isinstance(result, str):
        lines.append(f"parse[{name}] {result}")
        fn_name = None
    elif result is None:
        lines.append(f"parse[{name}] -> None")
        fn_name = None
    else:
        dumped = repr(result.dict())
        lines.append(f"parse[{name}] -> {type(result).__name__} {short(dumped, 400)}")
        fn_name = result.id
    for expose in (False, True, 0, "yes", None):
        code = outcome(generate_code, text, expose)
        if isinstance(code, str) and code.startswith("RAISED "):
            lines.append(f"gen[{name},{expose!r}] {code}")
            continue
        digest = hashlib.sha256(code.encode()).hexdigest()[:16]
        lines.append(f"gen[{name},{expose!r}] len={len(code)} sha={digest}")
        if expose in (False, True):
            for row in run_generated(code, fn_name):
                lines.append(f"   run[{name},{expose!r}] {row}")
    # default argument and keyword spelling of the second parameter
    default = outcome(generate_code, text)
    explicit = outcome(generate_code, text, expose_internal_fn=False)
    lines.append(f"gen[{name}] default==explicit-false: {default == explicit}")
    return lines


def evaluator_histories():
    lines = []
    good_a = INPUTS["basic"]
    good_b = INPUTS["field_both"]
    bad_syntax = INPUTS["syntax_then_more"]
    bad_lex = INPUTS["illegal_char"]
    bad_value = INPUTS["big_int_over"]
    empty = INPUTS["empty"]

    def calls(ev):
        out = []
        for kwargs in KW_GRID[:3]:
            random.seed(99)
            out.append(short(repr(outcome(ev, **kwargs))))
        return out

    def history(label, first, steps):
        made = outcome(ExperimentEvaluator, first)
        if isinstance(made, str):
            lines.append(f"hist[{label}] ctor {made}")
            return
        ev = made
        lines.append(f"hist[{label}] ctor ok checksum={ev._checksum} calls={calls(ev)}")
        for step_name, text in steps:
            res = outcome(ev.recompile, text)
            lines.append(
                f"hist[{label}] recompile({step_name}) -> {res!r} checksum={ev._checksum} "
                f"own_fn={'run_experiment' in vars(ev)} calls={calls(ev)}"
            )

    history("ok-fail-ok", good_a, [("bad_syntax", bad_syntax), ("bad_syntax", bad_syntax),
                                   ("good_a", good_a), ("good_b", good_b), ("bad_lex", bad_lex),
                                   ("good_b", good_b), ("bad_value", bad_value), ("empty", empty),
                                   ("good_a", good_a)])
    history("starts-bad", bad_syntax, [])
    history("starts-empty", empty, [])
    history("starts-none", None, [])
    history("nested", nested(30), [("nested40", nested(40)), ("full", FULL), ("none", None),
                                    ("bytes", b"def e{ return 1 weighted 1 }")])
    # an evaluator whose constructor failed half way keeps failing the same way
    ev = ExperimentEvaluator.__new__(ExperimentEvaluator)
    lines.append(f"hist[unloaded] call {outcome(ev, k=1)}")
    lines.append(f"hist[unloaded] recompile(bad) {outcome(ev.recompile, bad_lex)} checksum={ev._checksum!r}")
    lines.append(f"hist[unloaded] call {outcome(ev, k=1)}")
    lines.append(f"hist[unloaded] recompile(good) {outcome(ev.recompile, good_b)} calls={calls(ev)}")
    return lines


def direct_objects():
    """the lexer and parser used directly, the way the test-suite does"""
    lines = []
    shared = ExperimentLexer()
    plan = [(False, n) for n in ("full", "illegal_char", "open_block_comment", "big_int_over", "empty",
                                 "line_3_error", "unicode_digits", "big_float_inf", "empty_string_lit")]
    plan += [(True, n) for n in ("full", "illegal_char", "open_block_comment", "basic", "empty")]
    for reuse, name in plan:
        lexer = shared if reuse else ExperimentLexer()
        toks = []
        try:
            for tok in lexer.tokenize(INPUTS[name]):
                toks.append(f"{tok.type}:{short(repr(tok.value), 30)}@{tok.lineno}/{tok.index}-{tok.end}")
        except BaseException as err:  # noqa: B902
            toks.append("RAISED " + describe_error(err))
        digest = hashlib.sha256("\n".join(toks).encode()).hexdigest()[:16]
        lines.append(
            f"lex[{name},shared={reuse}] n={len(toks)} sha={digest} last={toks[-1] if toks else None} "
            f"state={type(lexer).__name__} lineno={lexer.lineno} index={lexer.index}"
        )
    # one lexer and one parser reused over several texts, failures in between
    lexer = ExperimentLexer()
    parser = ExperimentParser()
    for name in ("basic", "syntax_then_more", "basic", "illegal_char", "open_block_comment", "full", "empty", "basic"):
        res = outcome(parser.parse, lexer.tokenize(INPUTS[name]))
        if not isinstance(res, str) and res is not None:
            res = "AST " + hashlib.sha256(repr(res.dict()).encode()).hexdigest()[:16]
        lines.append(f"reuse[{name}] {res} lexer_state={type(lexer).__name__}")
    # the error hooks called by hand with odd arguments
    class Tok:
        pass

    t = Tok()
    t.type = "ID"
    lines.append(f"parser.error(no lineno) {outcome(ExperimentParser().error, t)}")
    t.lineno = None
    lines.append(f"parser.error(lineno None) {outcome(ExperimentParser().error, t)}")
    lines.append(f"parser.error(None) {outcome(ExperimentParser().error, None)}")
    lines.append(f"parser.error(0) {outcome(ExperimentParser().error, 0)}")
    lines.append(f"parser.error('') {outcome(ExperimentParser().error, '')}")
    lines.append(f"parser.error('x') {outcome(ExperimentParser().error, 'x')}")
    lines.append(f"parser.error(object()) {outcome(ExperimentParser().error, object())}".replace(hex(id(0)), ""))
    lx = ExperimentLexer()
    lx.index = 5
    v = Tok()
    v.value = "$rest"
    lines.append(f"lexer.error(tok) {outcome(lx.error, v)}")
    v.value = ""
    lines.append(f"lexer.error(empty) {outcome(lx.error, v)}")
    v.value = None
    lines.append(f"lexer.error(None value) {outcome(lx.error, v)}")
    lines.append(f"lexer.error(None) {outcome(lx.error, None)}")
    lines.append(f"lexer.error on fresh lexer {outcome(ExperimentLexer().error, v)}")
    return lines


def build_report():
    """what the metaclasses built from the two specifications"""
    from pyab_experiment.language.lexer import BlockComment

    def sha(text):
        return hashlib.sha256(text.encode()).hexdigest()[:16]

    lines = []
    for cls in (ExperimentLexer, BlockComment):
        lines.append(
            f"build[{cls.__name__}] master_re={sha(cls._master_re.pattern)} flags={cls._master_re.flags} "
            f"rules={[k for k, _ in cls._rules]} funcs={sorted(cls._token_funcs)} "
            f"ignored={sorted(cls._ignored_tokens)} tokens={sorted(cls.tokens)} "
            f"literals={sorted(cls.literals)} ignore={cls.ignore!r} remap={cls._remapping}"
        )
    prods = [str(p) for p in ExperimentParser._grammar.Productions]
    table = ExperimentParser._lrtable
    actions = repr(sorted((s, sorted(a.items())) for s, a in table.lr_action.items()))
    gotos = repr(sorted((s, sorted(g.items())) for s, g in table.lr_goto.items()))
    lines.append(
        f"build[ExperimentParser] productions={len(prods)} sha={sha(repr(prods))} actions={sha(actions)} "
        f"gotos={sha(gotos)} defaulted={sha(repr(sorted(table.defaulted_states.items())))} "
        f"precedence={ExperimentParser.precedence} start={ExperimentParser._grammar.Start}"
    )
    return lines


def headroom(fn, *args):
    """smallest number of interpreter frames above this one with which
    fn(*args) still gives the outcome it gives with plenty of room"""
    reference = short(repr(outcome(fn, *args)))
    base = 0
    frame = sys._getframe()
    while frame is not None:
        base += 1
        frame = frame.f_back
    saved = sys.getrecursionlimit()
    for spare in range(1, 400):
        value = error = None
        sys.setrecursionlimit(base + spare)
        try:
            value = fn(*args)
        except BaseException as err:  # noqa: B902
            error = err
        finally:
            sys.setrecursionlimit(saved)
        got = "RAISED " + describe_error(error) if error is not None else value
        if short(repr(got)) == reference:
            return spare
    return None


def main():
    out = []
    out.append("state-before " + process_state())
    serial = {}
    for name, text in INPUTS.items():
        serial[name] = parse_report(name, text)
        out.extend(serial[name])
    out.append("state-after-parse " + process_state())
    out.extend(evaluator_histories())
    out.extend(direct_objects())
    out.extend(build_report())
    out.append("state-after-histories " + process_state())

    # the same reports produced by eight threads at once must equal the serial ones
    # (texts without splitters draw from the process-wide random generator, which
    # the threads would race for: they are compared serially only)
    names = [
        n
        for n in INPUTS
        if not n.startswith("big_") and n not in ("nested_60", "no_splitter", "salt_only")
    ]
    mismatches = []
    barrier = threading.Barrier(8)

    def worker(offset):
        barrier.wait()
        order = names[offset:] + names[:offset]
        for name in order:
            if parse_report(name, INPUTS[name]) != serial[name]:
                mismatches.append((offset, name))

    threads = [threading.Thread(target=worker, args=(i * 5,)) for i in range(8)]
    for th in threads:
        th.start()
    for th in threads:
        th.join()
    out.append(f"threads mismatches={sorted(mismatches)}")
    out.append("state-after-threads " + process_state())

    if HEADROOM:
        for name in ("NONE", "empty", "basic", "illegal_char", "syntax_then_more", "full", "nested_10", "big_int_over"):
            out.append(
                f"headroom[{name}] parse={headroom(parse_source, INPUTS[name])} "
                f"gen={headroom(generate_code, INPUTS[name])} gen_exposed={headroom(generate_code, INPUTS[name], True)}"
            )
        out.append("state-after-headroom " + process_state())
    print("\n".join(out))


if __name__ == "__main__":
    main()

"""Exercises the opt-in source position bookkeeping of the grammar module."""

import importlib.util
import os

from pydantic import BaseModel

from pyab_experiment.data_structures.syntax_tree import (
    ExperimentAST,
    ExperimentConditional,
    ExperimentGroup,
    Identifier,
    RecursivePredicate,
    TerminalPredicate,
)
from pyab_experiment.language.grammar import (
    ExperimentParser,
    SourcePosition,
    node_at,
    parse_with_positions,
)
from pyab_experiment.language.lexer import ExperimentLexer
from pyab_experiment.utils.wraper_functions import parse_source

SRC = """/* head */
def demo {
    salt: "s"
    splitters: uid
    if country in ("US", ("CA", region)) and not (age < 18) {
        if plan == 'pro' { return "a" weighted 1, "b" weighted 2,
                                  "c" weighted 3 }
    } else if tier == level {
        return "d" weighted 1
    } else {
        return 5 weighted 0.5
    }
}
"""
ast, positions = parse_with_positions(SRC)
assert ast == parse_source(SRC) and repr(ast) == repr(parse_source(SRC))


def text_of(path):
    where = positions[path]
    assert isinstance(where, SourcePosition)
    return SRC[where.index:where.end]


def line_of(path):
    return positions[path].lineno


assert text_of(()).startswith("def demo {") and text_of(()).endswith("}") and line_of(()) == 2
top = ("conditions",)
assert text_of(top).startswith("if country in") and text_of(top).endswith("}") and line_of(top) == 5
assert text_of(top + ("predicate",)) == 'country in ("US", ("CA", region)) and not (age < 18)'
assert text_of(top + ("predicate", "left_predicate")) == 'country in ("US", ("CA", region))'
assert text_of(top + ("predicate", "left_predicate", "left_term")) == "country"
assert text_of(top + ("predicate", "left_predicate", "right_term", 1, 1)) == "region"
assert text_of(top + ("predicate", "right_predicate")) == "not (age < 18)"
assert text_of(top + ("predicate", "right_predicate", "left_predicate")) == "age < 18"
inner = top + ("true_branch",)
assert text_of(inner) == """if plan == 'pro' { return "a" weighted 1, "b" weighted 2,
                                  "c" weighted 3 }"""
assert [text_of(inner + ("true_branch", i)) for i in range(3)] == [
    '"a" weighted 1', '"b" weighted 2', '"c" weighted 3']
assert [line_of(inner + ("true_branch", i)) for i in range(3)] == [6, 6, 7]
elif_ = top + ("false_branch",)
assert text_of(elif_).startswith("else if tier == level {") and line_of(elif_) == 8
assert text_of(elif_ + ("predicate", "right_term")) == "level"
else_ = elif_ + ("false_branch",)
assert text_of(else_) == "else {\n        return 5 weighted 0.5\n    }" and line_of(else_) == 10
assert text_of(else_ + ("true_branch", 0)) == "5 weighted 0.5"

# every model of the tree has a position, and the path leads to that model
def count_models(value):
    if isinstance(value, BaseModel):
        return 1 + sum(count_models(getattr(value, f)) for f in value.__fields__)
    if isinstance(value, (list, tuple)):
        return sum(count_models(v) for v in value)
    return 0


spec = importlib.util.spec_from_file_location(
    "probe", os.path.join(os.path.dirname(os.path.abspath(__file__)), "probe.py"))
probe = importlib.util.module_from_spec(spec)
spec.loader.exec_module(probe)
checked = 0
for name, text in probe.PROGRAMS.items():
    try:
        expected = parse_source(text)
    except Exception as e:
        try:
            parse_with_positions(text)
        except Exception as e2:
            assert type(e2) is type(e) and str(e2) == str(e), name
        else:
            raise AssertionError(name)
        continue
    tree, where = parse_with_positions(text)
    assert tree == expected and repr(tree) == repr(expected), name
    assert len(where) == count_models(tree), name
    for path, pos in where.items():
        node = node_at(tree, path)
        chunk = text[pos.index:pos.end]
        if isinstance(node, Identifier):
            assert chunk == node.name, (name, path, chunk)
        elif isinstance(node, ExperimentGroup):
            assert " weighted" in chunk or "\tweighted" in chunk or "\nweighted" in chunk, (name, chunk)
            assert "," not in chunk.split("weighted")[-1], (name, chunk)
        elif isinstance(node, ExperimentConditional):
            assert chunk.startswith(("if", "else")) and chunk.endswith("}"), (name, chunk)
        elif isinstance(node, ExperimentAST):
            assert chunk.startswith("def") and chunk.endswith("}"), (name, chunk)
        else:
            assert isinstance(node, (TerminalPredicate, RecursivePredicate)), (name, path)
    checked += 1
assert checked > 55, checked

# the default parser records nothing, before or after an opt-in parse
plain = ExperimentParser()
assert plain._created is None and ExperimentParser._created is None
plain.parse(ExperimentLexer().tokenize(SRC))
assert plain._created is None and "_created" not in vars(plain)
print("usage ok", checked)

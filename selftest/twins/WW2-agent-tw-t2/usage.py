"""Exercises the new introspection methods of the AST models."""

import inspect

from pyab_experiment.data_structures.syntax_tree import ExperimentConditional
from pyab_experiment.utils.wraper_functions import generate_code, parse_source

SRC = """
def demo {
    salt: "s"
    splitters: uid, country, uid
    if country in ("US", ("CA", region), alt) and not age < 18 {
        if plan == 'pro' { return "a" weighted 1, "b" weighted 2 }
        else { return "a" weighted 1 }
    } else if (tier == 1 or tier == level) {
        return "c" weighted 1, 1 weighted 1, 1.0 weighted 1, "1" weighted 1
    } else {
        return "d" weighted 1, 1 weighted 0.5, "a" weighted 2
    }
}
"""
ast = parse_source(SRC)
before = ast.json()

top = ast.conditions
assert [c.conditional_type.name for c in top.chain()] == ["IF", "ELIF", "ELSE"]
assert top.chain()[0] is top
assert top.predicate.identifiers() == ["country", "region", "alt", "age"]
assert top.predicate.left_predicate.identifiers() == ["country", "region", "alt"]
assert top.identifiers() == ["country", "region", "alt", "age", "plan", "tier", "tier", "level"]
assert [[g.group_definition for g in r] for r in ast.return_statements()] == [
    ["a", "b"], ["a"], ["c", 1, 1.0, "1"], ["d", 1, "a"]]
names = ast.group_names()
assert [repr(n) for n in names] == ["'a'", "'b'", "'c'", "1", "1.0", "'1'", "'d'"], names
assert ast.fields_used() == ["country", "uid", "age", "alt", "level", "plan", "region", "tier"]


def signature_fields(text):
    ns = {}
    exec(compile(generate_code(text), "<gen>", "exec"), ns)
    fn = ns[parse_source(text).id]
    return [p for p in inspect.signature(fn).parameters if p != "kwargs"]


CASES = {
    "def a { return 'x' weighted 1 }": True,
    "def a { splitters: b, a if a == 1 { return 1 weighted 1 } }": False,
    "def a { splitters: u if a == 1 { return 1 weighted 1 } else if z == 2 { return 2 weighted 1 } }": False,
    "def a { splitters: u if a == 1 { if b == 1 { return 1 weighted 1 } } else { return 2 weighted 1 } }": False,
    "def a { splitters: u if a == 1 { if b == 1 { return 1 weighted 1 } else {return 3 weighted 1} }"
    " else { return 2 weighted 1 } }": True,
    "def a { splitters: z, y if y in (x, (w, 1)) { return 1 weighted 1 } else { return -0.0 weighted 1, 0.0 weighted 1 } }": True,
}
for text, exhaustive in CASES.items():
    tree = parse_source(text)
    # fields_used mirrors the generated signature exactly
    assert tree.fields_used() == signature_fields(text), (text, tree.fields_used())
    assert len(tree.return_statements()) >= 1 and isinstance(exhaustive, bool)
assert signature_fields(SRC) == ast.fields_used()

flat = parse_source("def a { return 'x' weighted 1, 'x' weighted 2 }")
assert flat.group_names() == ["x"] and flat.fields_used() == [] and len(flat.return_statements()) == 1
assert [repr(x) for x in parse_source(list(CASES)[-1]).group_names()] == ["1", "-0.0", "0.0"]
assert isinstance(top, ExperimentConditional) and ast.json() == before  # read only
print("usage ok")

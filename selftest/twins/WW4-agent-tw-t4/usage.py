"""Exercises the new loss-free serialisation helpers of the syntax tree module."""

import importlib.util
import json
import os

from pydantic import ValidationError

from pyab_experiment.codegen.python.python_generator import PythonCodeGen
from pyab_experiment.data_structures.syntax_tree import (
    AstDataError,
    ExperimentAST,
    Identifier,
    LogicalOperatorEnum,
    dumps,
    from_data,
    loads,
    to_data,
)
from pyab_experiment.utils.wraper_functions import parse_source

spec = importlib.util.spec_from_file_location(
    "probe", os.path.join(os.path.dirname(os.path.abspath(__file__)), "probe.py"))
probe = importlib.util.module_from_spec(spec)
spec.loader.exec_module(probe)

count = 0
for name, text in probe.PROGRAMS.items():
    try:
        ast = parse_source(text)
    except Exception:
        continue
    if ast is None:
        continue
    before = repr(ast)
    data = to_data(ast)
    wire = json.dumps(data)  # plain JSON types only
    back = from_data(json.loads(wire))
    assert isinstance(back, ExperimentAST) and back == ast and repr(back) == before, name
    again = loads(dumps(ast, indent=2, sort_keys=True))
    assert again == ast and repr(again) == before, name
    for flag in (False, True):  # same generated code from the reloaded tree
        assert (PythonCodeGen(again, expose_experiment_variant_function=flag).generate()
                == PythonCodeGen(ast, expose_experiment_variant_function=flag).generate()), name
    assert repr(ast) == before  # read only
    count += 1
assert count > 55, count

# what pydantic's own dict()/json() round trip loses, the tagged form keeps
ast = parse_source("def t { splitters: u if a in ((1,2), b, '3', 4.0) { return 18 weighted 1, '18' weighted 2 } }")
lossy = ExperimentAST.parse_obj(ast.dict())
assert repr(lossy) != repr(ast)  # Identifier inside the tuple became a dict
data = to_data(ast)
pred = data["conditions"]["predicate"]
assert pred["node"] == "TerminalPredicate"
assert pred["logical_operator"] == {"enum": "LogicalOperatorEnum", "name": "IN"}
assert pred["left_term"] == {"node": "Identifier", "name": "a"}
assert pred["right_term"] == {"tuple": [[1, 2], {"node": "Identifier", "name": "b"}, "3", 4.0]}
assert data["conditions"]["false_branch"] is None and data["salt"] is None
assert [g["group_definition"] for g in data["conditions"]["true_branch"]] == [18, "18"]
assert from_data(data) == ast and repr(from_data(data)) == repr(ast)

# pieces can travel on their own
assert from_data(to_data(Identifier(name="x"))) == Identifier(name="x")
assert from_data(to_data(LogicalOperatorEnum.NOT_IN)) is LogicalOperatorEnum.NOT_IN
assert from_data(to_data(ast.conditions.predicate)) == ast.conditions.predicate
assert from_data([1, "a", None, 2.5]) == [1, "a", None, 2.5]
doc = json.loads(dumps(ast))
assert doc["pyab_ast"] == 1 and doc["tree"] == data

for bad in ({"node": "Nope"}, {"enum": "LogicalOperatorEnum", "name": "XX"}, {"enum": "E", "name": "EQ"},
            {"name": "x"}, {"tuple": 5}, {"node": ["x"]}):
    try:
        from_data(bad)
    except AstDataError as e:
        assert isinstance(e, ValueError) and e.__cause__ is not None
    else:
        raise AssertionError(bad)
for text in ("[]", '{"pyab_ast": 2, "tree": null}', '{"tree": {}}'):
    try:
        loads(text)
    except AstDataError:
        pass
    else:
        raise AssertionError(text)
try:  # constructors validate foreign data as usual
    from_data({"node": "ExperimentGroup", "group_definition": "a", "group_weight": -1})
except ValidationError:
    pass
else:
    raise AssertionError("negative weight accepted")
print("usage ok", count)

"""Exercises Parser.parse_strict / expected_terminals / YaccSyntaxError (needs the patch)."""
from pyab_experiment.language.grammar import ExperimentParser
from pyab_experiment.language.lexer import ExperimentLexer
from pyab_experiment.sly.lex import LexError
from pyab_experiment.sly.yacc import YaccError, YaccSyntaxError
from pyab_experiment.utils.wraper_functions import parse_source


def strict(text):
    return ExperimentParser().parse_strict(ExperimentLexer().tokenize(text))


GOOD = 'def e { salt: "s" splitters: uid if a in (1, (2, 3)) { return "a" weighted 1 } else { return "b" weighted 2.5 } }'
assert strict(GOOD) == parse_source(GOOD)
assert strict(GOOD) == ExperimentParser().parse_strict(list(ExperimentLexer().tokenize(GOOD)))  # any iterable

# a wrong token in the middle
BAD = 'def e {\n  splitters: uid\n  return "a" weighted }'
try:
    strict(BAD)
except YaccSyntaxError as err:
    assert isinstance(err, YaccError)
    assert str(err) == "Syntax error at line 3, token=RBRACE"  # same text as the plain error
    assert err.token.type == "RBRACE" and err.lineno == 3 and err.index == BAD.rindex("}")
    assert err.expected == ("NON_NEG_FLOAT", "NON_NEG_INTEGER"), err.expected
    assert type(err.__cause__) is YaccError and str(err.__cause__) == str(err)
    print(f"{err}; expected one of {', '.join(err.expected)}")
else:
    raise AssertionError

# input ends too early
try:
    strict('def e { return "a" weighted 1')
except YaccSyntaxError as err:
    assert err.token is None and err.lineno is None and err.index is None
    assert str(err) == "Parse error in input. EOF"
    assert err.expected == ("COMMA", "RBRACE"), err.expected

# empty input: a definition must start with def
try:
    strict("  // nothing\n")
except YaccSyntaxError as err:
    assert err.token is None and err.expected == ("KW_DEF",) and err.state == 0

# text after the closing brace: only the end of input is acceptable
try:
    strict(GOOD + " def")
except YaccSyntaxError as err:
    assert err.token.type == "KW_DEF" and err.expected == ("$end",)

# lexical errors are not the parser's business and pass through untouched
try:
    strict("def e { @ }")
except LexError as err:
    assert type(err) is LexError and err.error_index == 8

# expected_terminals on its own, after a failed plain parse()
p = ExperimentParser()
try:
    p.parse(ExperimentLexer().tokenize("def e { if a == 1 and { } }"))
except YaccError as err:
    assert type(err) is YaccError
    exp = p.expected_terminals()
    assert "LPAREN" in exp and "KW_NOT" in exp and "ID" in exp and "LBRACE" not in exp
assert ExperimentParser().expected_terminals(0) == ["KW_DEF"]
print("usage ok")

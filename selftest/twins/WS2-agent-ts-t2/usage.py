"""Exercises from_file / recompile_from_file / reload added by t2 (exits 0 with the patch)."""
import tempfile
from pathlib import Path

from pyab_experiment.experiment_evaluator import (
    ExperimentEvaluator,
    NotFileBackedError,
)

A = "def exp_a{ splitters: uid return 'a1' weighted 1, 'a2' weighted 1 }"
B = "def exp_b{ splitters: uid\r\n return 'b1' weighted 1 // crlf file\r\n}"
ids = [f"u{i}" for i in range(200)]

with tempfile.TemporaryDirectory() as tmp:
    path = Path(tmp) / "exp.pyab"
    path.write_text(A, encoding="utf-8")

    ev = ExperimentEvaluator.from_file(str(path))
    ref = ExperimentEvaluator(A)
    assert isinstance(ev, ExperimentEvaluator) and ev.source_path == path
    assert ev._checksum == ref._checksum
    assert [ev(uid=i) for i in ids] == [ref(uid=i) for i in ids]

    assert ev.reload() is False  # unchanged file: nothing recompiled
    fn = vars(ev)["run_experiment"]
    assert ev.reload() is False and vars(ev)["run_experiment"] is fn

    path.write_bytes(B.encode("utf-8"))
    assert ev.reload() is True
    assert {ev(uid=i) for i in ids} == {"b1"}
    assert ev._checksum == ExperimentEvaluator(B.replace("\r\n", "\n"))._checksum

    # an invalid file raises the ordinary error and keeps the loaded experiment
    path.write_text("def broken{ return", encoding="utf-8")
    before = dict(vars(ev))
    try:
        ev.reload()
    except Exception as error:
        assert type(error).__name__ == "YaccError", error
    else:
        raise AssertionError("invalid text accepted")
    assert vars(ev) == before and ev(uid="u1") == "b1"

    # a missing file too
    path.unlink()
    try:
        ev.reload()
    except FileNotFoundError:
        pass
    assert vars(ev) == before

    # string-built evaluators are not file backed ...
    plain = ExperimentEvaluator(A)
    assert plain.source_path is None and sorted(vars(plain)) == ["_checksum", "run_experiment"]
    try:
        plain.reload()
    except NotFileBackedError as error:
        assert isinstance(error, RuntimeError)
    else:
        raise AssertionError
    # ... until they are pointed at one
    other = Path(tmp) / "other.pyab"
    other.write_text(A, encoding="utf-8")
    assert plain.recompile_from_file(other) is False  # same text as loaded
    assert plain.source_path == other and plain.reload() is False
    other.write_text(B, encoding="utf-8")
    assert plain.reload() is True

    # subclasses get instances of their own class
    class Sub(ExperimentEvaluator):
        pass

    assert type(Sub.from_file(other)) is Sub
print("t2 usage ok")

"""Differential probe for the evaluator / wrapper refactorings.

Run as:  PYTHONPATH=/tmp/wt/TM/src /venv/bin/python probe.py
Prints one deterministic JSON document.  The output must be byte-identical
with and without the patch under test.
"""

import copy
import gc
import hashlib
import json
import random
import threading
import weakref
from pathlib import Path

from pyab_experiment.binning.binning import deterministic_choice, deterministic_proba
from pyab_experiment.experiment_evaluator import ExperimentEvaluator, ParseError
from pyab_experiment.utils.stats import confidence_interval, probit
from pyab_experiment.utils.wraper_functions import generate_code, parse_source

PROGRAM_DIR = Path(__file__).resolve().parents[2] / "tests" / "unit" / "test_programs"


def sha(text: str) -> str:
    return hashlib.sha256(text.encode("utf-8", "surrogatepass")).hexdigest()[:16]


def outcome(thunk):
    """value or the exception class (+ message) of a call"""
    try:
        value = thunk()
    except BaseException as exc:  # noqa: B902 - the class name is the datum
        return {"raises": type(exc).__name__, "msg": str(exc)[:160]}
    return {"value": repr(value)}


# --------------------------------------------------------------------------
# corpus
# --------------------------------------------------------------------------
VALID = {
    "kw_prefixed_ids": """def define_x{
        salt: "s"
        splitters: ifx, informal, note, android, orchid, returned, splittersx
        if inx == 'a' and not_a != 1 or elsewhere in (1, 2) {
            return "in" weighted 1, "not in" weighted 2
        } else   if define not in ('x', (1, (2, 3)), -4.5) {
            return 'r1' weighted 1.5, 'r2' weighted 0
        } else { return -1 weighted 1, -2.5 weighted 3, "z" weighted 0.25 }
    }""",
    "nested_tuples": """def nested{
        splitters: uid
        if pair in ((1, 2), (3, (4, 5)), ('a', 'b'), (other)) { return "hit" weighted 1 }
        else if (uid) == single { return "single" weighted 1 }
        else { return "miss" weighted 1, "miss2" weighted 1 }
    }""",
    "comments": """/* leading * / comment */ def c /* inline */ { // tail
        /* multi
           line */ splitters: a // c2
        // only comment
        return "x // not a comment" weighted 1, '/* nor this */' weighted 2 /* end */
    }""",
    "quotes": """def q{
        salt: "it's"
        splitters: k
        if v == 'say "hi"' { return "back\\slash" weighted 1, 'tab\\t' weighted 1 }
        else if v == "a'b" { return "" weighted 1, '' weighted 1, " " weighted 1 }
        else { return "{}" weighted 1, "%s" weighted 1, "\\\\" weighted 1 }
    }""",
    "non_ascii": """def unicod{
        salt: "sél-日本-\U0001f600"
        splitters: k
        if v == "ключ" { return "größe" weighted 1, "日本語" weighted 2 }
        else { return "naïve" weighted 1, " " weighted 1 }
    }""",
    "numbers": """def nums{
        splitters: k
        if a >= 0007 and b < 1.50 and c == -0 and d != -0.0 and e <= 99999999999999999999 {
            return 1 weighted 1, 1.0 weighted 1, "1" weighted 1, -1 weighted 1
        } else if f > 17976931348623157000000.000001 or g in (1, 1.0, "1") {
            return 0 weighted 0.0, 2 weighted 10
        } else { return 3 weighted 3 }
    }""",
    "huge_float": "def hf{ if x < "
    + "9" * 400
    + ".0 { return 'small' weighted 1 } else { return 'big' weighted 1 } }",
    "unterminated_comment": "def uc{ splitters: k return 'x' weighted 1, 'y' weighted 1 } /* open",
    "deep_parens": "def dp{ splitters: k if "
    + "(" * 400
    + "b==1"
    + ")" * 400
    + " { return 'x' weighted 1 } }",
    "no_splitter": "def plain{ return 'only' weighted 3 }",
    "no_splitter_cond": """def plaincond{
        if (a == 1) { return "one" weighted 1 }
        else if ((a == 2) or not (a != 3)) { return "two-three" weighted 1 }
    }""",
    "precedence": """def prec{
        splitters: k
        if a == 1 or b == 1 and not c == 1 or not (d == 1 or e == 1) and f == 1 {
            return "T" weighted 1
        } else { return "F" weighted 1 }
    }""",
    "shared_field": """def shared{
        salt: "pepper"
        splitters: uid, country
        if country == "fr" { return "A" weighted 1, "B" weighted 1 }
        else if uid in ("u1", "u2") { return "C" weighted 1 }
        else { return "A" weighted 9, "B" weighted 1 }
    }""",
    "named_partial": "def partial{ splitters: k  return 'p1' weighted 1, 'p2' weighted 1 }",
    "named_choice": """def deterministic_choice{ splitters: k
        if str == 1 { return 'q1' weighted 1, 'q2' weighted 1 } else { return 'q3' weighted 1 } }""",
    "zero_weights": "def zw{ splitters: k  return 'a' weighted 0, 'b' weighted 0 }",
    "crlf": "def crlf{\r\n splitters: k\r\n return 'a' weighted 1,\r\n 'b' weighted 1\r\n}\r\n",
    "tabs_ff": "def\ttabs\x0c{\tsplitters:\tk\x0b return\t'a'\tweighted\t1 }",
    "not_in_spacing": "def nis{ splitters: k if a not   in (1,2) and b not\n\tin (3) { return 'x' weighted 1 } else{ return 'y' weighted 1 } }",
    "elseif_spacing": "def eis{ splitters: k if a==1 { return 'x' weighted 1 } elseif a==2 { return 'y' weighted 1 } else\n\n if a==3 { return 'z' weighted 1 } }",
}
for path in sorted(PROGRAM_DIR.glob("*.pyab")):
    VALID["file_" + path.stem] = path.read_text()

INVALID = {
    "empty": "",
    "blank": "  \n\t ",
    "only_comment": "/* nothing */ // here",
    "unterminated_string": "def a{ return 'x weighted 1 }",
    "mixed_quotes": "def a{ return 'x\" weighted 1 }",
    "illegal_char": "def a{ return 'x' weighted 1; }",
    "illegal_char2": "def a{ if b = 1 { return 'x' weighted 1 } }",
    "negative_weight": "def a{ return 'x' weighted -1 }",
    "missing_weight": "def a{ return 'x' }",
    "splitter_before_salt": "def a{ splitters: k salt: 's' return 'x' weighted 1 }",
    "two_defs": "def a{ return 'x' weighted 1 } def b{ return 'y' weighted 1 }",
    "trailing_garbage": "def a{ return 'x' weighted 1 } }",
    "keyword_as_id": "def if{ return 'x' weighted 1 }",
    "keyword_field": "def a{ splitters: in return 'x' weighted 1 }",
    "python_keyword_id": "def class{ return 'x' weighted 1 }",
    "python_keyword_field": "def a{ splitters: lambda return 'x' weighted 1 }",
    "kwargs_field": "def a{ splitters: kwargs return 'x' weighted 1 }",
    "none_field": "def a{ if None == 1 { return 'x' weighted 1 } }",
    "empty_tuple": "def a{ if b in () { return 'x' weighted 1 } }",
    "else_without_if": "def a{ else { return 'x' weighted 1 } }",
    "dangling_else": "def a{ if b==1 { return 'x' weighted 1 } else { return 'y' weighted 1 } else { return 'z' weighted 1 } }",
    "tuple_as_group": "def a{ return (1,2) weighted 1 }",
    "ident_as_group": "def a{ return b weighted 1 }",
    "float_no_lead": "def a{ return 'x' weighted .5 }",
    "exp_float": "def a{ return 'x' weighted 1e3 }",
    "non_ascii_id": "def añb{ return 'x' weighted 1 }",
    "nbsp_id": "def a b{ return 'x' weighted 1 }",
    "lone_surrogate_in_string": "def a{ return '\ud800' weighted 1 }",
    "lone_surrogate_in_comment": "def a{ return 'x' weighted 1 } // \udfff",
    "lone_surrogate_invalid_too": "def a{ return \udc00 }",
    "nul_char": "def a{ return 'x' weighted 1 }\x00",
    "deep_not": "def a{ if " + "not " * 250 + "b==1 { return 'x' weighted 1 } }",
}
NON_TEXT = {
    "none": None,
    "bytes": b"def a{ return 'x' weighted 1 }",
    "int": 7,
    "list": ["def a{ return 'x' weighted 1 }"],
}

FIELD_VALUES = [
    0,
    1,
    2,
    3,
    1.0,
    1.5,
    -1,
    -4.5,
    "a",
    "b",
    "c",
    "x",
    "xyz",
    "fr",
    "u1",
    "1",
    "ключ",
    "a'b",
    'say "hi"',
    (1, 2),
    ("a", "b"),
    (3, (4, 5)),
    None,
]


def field_names(ast) -> list[str]:
    """every identifier the experiment may want as a keyword argument"""
    seen: list[str] = []

    def walk(node):
        if node is None:
            return
        name = type(node).__name__
        if name == "Identifier":
            seen.append(node.name)
        elif name == "TerminalPredicate":
            walk(node.left_term)
            walk(node.right_term)
        elif name == "RecursivePredicate":
            walk(node.left_predicate)
            walk(node.right_predicate)
        elif name == "ExperimentConditional":
            walk(node.predicate)
            walk(node.true_branch)
            walk(node.false_branch)
        elif isinstance(node, (list, tuple)):
            for member in node:
                walk(member)

    walk(ast.conditions)
    return sorted(set(seen) | set(ast.splitting_fields or []))


def sample_kwargs(names: list[str], rng: random.Random, n: int) -> list[dict]:
    return [{name: rng.choice(FIELD_VALUES) for name in names} for _ in range(n)]


def call(fn, kwargs):
    random.seed(1234)  # experiments without splitters fall back to random.choices
    return outcome(lambda: fn(**kwargs))


# --------------------------------------------------------------------------
# sections
# --------------------------------------------------------------------------
def section_valid_programs() -> dict:
    report = {}
    for name, text in VALID.items():
        rng = random.Random(name)
        ast = parse_source(text)
        names = field_names(ast)
        samples = sample_kwargs(names, rng, 60)
        samples.append({})  # missing arguments
        samples.append({**samples[0], "extra_kw": 1})  # swallowed by **kwargs
        entry = {"ast": sha(ast.json()), "id": ast.id, "fields": names}

        layouts = {}
        for expose in (False, True):
            code = generate_code(text, expose_internal_fn=expose)
            namespace: dict = {}
            exec(compile(code, "<probe>", "exec"), namespace)
            fn = namespace[ast.id]
            layouts[str(expose)] = {
                "code": sha(code),
                "calls": sha(json.dumps([call(fn, kw) for kw in samples])),
                "exposed_inner": "choose_experiment_variant" in namespace,
            }
        entry["layouts"] = layouts

        evaluator = ExperimentEvaluator(text)
        via_call = [call(evaluator, kw) for kw in samples]
        via_method = [call(evaluator.run_experiment, kw) for kw in samples]
        entry["evaluator_calls"] = sha(json.dumps(via_call))
        entry["evaluator_first"] = via_call[:3]
        entry["method_equals_call"] = via_call == via_method
        entry["evaluator_equals_generated"] = (
            sha(json.dumps(via_call)) == layouts["False"]["calls"]
        )
        entry["fn_name"] = getattr(evaluator.run_experiment, "__name__", None)
        entry["fn_module"] = getattr(evaluator.run_experiment, "__module__", None)
        entry["positional"] = call(
            lambda **_: evaluator.run_experiment(*[1] * len(names)), {}
        )
        report[name] = entry
    return report


def section_invalid_programs() -> dict:
    report = {}
    for name, text in {
        **INVALID,
        **{"nontext_" + k: v for k, v in NON_TEXT.items()},
    }.items():
        entry = {
            "construct": outcome(lambda: type(ExperimentEvaluator(text)).__name__),
            "generate": outcome(lambda: sha(generate_code(text))),
            "generate_exposed": outcome(lambda: sha(generate_code(text, True))),
            "parse": outcome(lambda: sha(parse_source(text).json())),
        }
        # the same text fails again, and fails on a loaded evaluator too
        loaded = ExperimentEvaluator(VALID["shared_field"])
        before = call(loaded, {"uid": "u9", "country": "fr"})
        entry["recompile"] = [outcome(lambda: loaded.recompile(text)) for _ in range(2)]
        entry["still_serving"] = call(loaded, {"uid": "u9", "country": "fr"}) == before
        report[name] = entry
    return report


def section_bucketing() -> dict:
    ids = [f"id_{i}" for i in range(400)] + [
        "",
        " ",
        "é",
        "日本",
        "\U0001f600",
        "0",
        "None",
    ]
    weights_sets = [
        None,
        [1, 1],
        [4, 1],
        [0.5, 0.25, 0.25],
        [0, 1, 0],
        [1e-9, 1],
        [3, 0, 0, 7],
        [1],
    ]
    report = {"proba": sha(json.dumps([deterministic_proba(i) for i in ids]))}
    for weights in weights_sets:
        population = [f"g{k}" for k in range(len(weights) if weights else 5)]
        picks = [deterministic_choice(i, population, weights) for i in ids]
        report[f"w={weights}"] = sha(json.dumps(picks))
        if weights:
            cum = [sum(weights[: k + 1]) for k in range(len(weights))]
            picks_cum = [
                deterministic_choice(i, population, cum_weights=cum) for i in ids
            ]
            report[f"cw={weights}"] = sha(json.dumps(picks_cum))
    for salt in ("", "s", "sél", "pepper"):
        picks = [
            deterministic_choice(salt + i, ["a", "b", "c"], [1, 2, 3]) for i in ids
        ]
        report[f"salt={salt}"] = sha(json.dumps(picks))
    report["errors"] = [
        outcome(lambda: deterministic_choice("x", ["a"], [1], cum_weights=[1])),
        outcome(lambda: deterministic_choice("x", ["a", "b"], [1])),
        outcome(lambda: deterministic_choice("x", ["a", "b"], [0, 0])),
        outcome(lambda: deterministic_choice("x", ["a", "b"], [float("inf"), 1])),
        outcome(lambda: deterministic_choice("x", [], None)),
        outcome(lambda: deterministic_choice("\ud800", ["a", "b"], [1, 1])),
        outcome(lambda: deterministic_choice(5, ["a", "b"], [1, 1])),
    ]
    random.seed(99)
    report["random_fallback"] = [
        deterministic_choice(None, ["a", "b", "c"], [1, 2, 3]) for _ in range(20)
    ]
    return report


def section_stats() -> dict:
    report = {
        "probit": [
            outcome(lambda a=a: probit(a))
            for a in (0.5, 0.975, 0.025, 0.001, 0.9995, 0.0, 1.0, 1.5)
        ]
    }
    grid = []
    for method in ("agresti-coull", "wald", "Wald", "AGRESTI-COULL", "wilson", ""):
        for n in (1, 10, 10000):
            for p in (0.0, 0.2, 0.5, 1.0):
                for confidence in (0.9, 0.95, 0.999):
                    grid.append(
                        outcome(lambda: confidence_interval(n, p, confidence, method))
                    )
    report["ci"] = sha(json.dumps(grid))
    report["ci_head"] = grid[:4]
    report["ci_defaults"] = outcome(confidence_interval)
    report["ci_zero_n"] = outcome(lambda: confidence_interval(0, 0.5, 0.95, "wald"))
    return report


A = VALID["shared_field"]
B = A.replace('"A" weighted 9', '"A" weighted 1')  # same id, other weights
C = VALID["file_splitter_test"]
A_COMMENTED = A + "\n// same program, other text"
A_WS = A + " "
BAD_LEX = INVALID["illegal_char"]
BAD_SYNTAX = INVALID["missing_weight"]
BAD_PY = INVALID["python_keyword_id"]
BAD_SURROGATE = INVALID["lone_surrogate_in_string"]
PROBE_KW = [
    {"uid": f"user{i}", "country": c, "my_id": i, "field_1": "a"}
    for i in range(40)
    for c in ("fr", "de")
]


def serve(evaluator) -> str:
    return sha(json.dumps([call(evaluator, kw) for kw in PROBE_KW]))


def run_history(steps) -> list:
    """steps: ("new", text) | ("recompile", text) | ("serve",) on one evaluator"""
    evaluator = None
    trace = []
    for step in steps:
        if step[0] == "new":
            try:
                evaluator = ExperimentEvaluator(step[1])
                trace.append("constructed")
            except BaseException as exc:  # noqa: B902
                trace.append(f"construct raises {type(exc).__name__}")
        elif step[0] == "blank":
            evaluator = ExperimentEvaluator.__new__(ExperimentEvaluator)
            trace.append("blank")
        elif step[0] == "recompile":
            trace.append(outcome(lambda: evaluator.recompile(step[1])))
        elif step[0] == "serve":
            trace.append(serve(evaluator))
            if "raises" not in outcome(
                lambda: evaluator(uid=1, country=2, my_id=3, field_1=4)
            ):
                # the function served is the generated one, named after the experiment
                trace.append(getattr(evaluator.run_experiment, "__name__", "?"))
    return trace


def section_lifecycle() -> dict:
    histories = {
        "reload_same": [("new", A), ("serve",), ("recompile", A), ("serve",)],
        "reload_other": [
            ("new", A),
            ("serve",),
            ("recompile", B),
            ("serve",),
            ("recompile", A),
            ("serve",),
        ],
        "reload_other_id": [
            ("new", A),
            ("recompile", C),
            ("serve",),
            ("recompile", A),
            ("serve",),
        ],
        "equivalent_text": [
            ("new", A),
            ("recompile", A_COMMENTED),
            ("serve",),
            ("recompile", A_WS),
            ("serve",),
        ],
        "bad_then_same": [
            ("new", A),
            ("recompile", BAD_LEX),
            ("serve",),
            ("recompile", A),
            ("serve",),
        ],
        "bad_twice": [
            ("new", A),
            ("recompile", BAD_SYNTAX),
            ("recompile", BAD_SYNTAX),
            ("recompile", BAD_PY),
            ("recompile", BAD_PY),
            ("serve",),
        ],
        "bad_then_other": [
            ("new", A),
            ("recompile", BAD_PY),
            ("recompile", B),
            ("serve",),
            ("recompile", BAD_SURROGATE),
            ("recompile", B),
            ("serve",),
        ],
        "bad_between_same": [
            ("new", A),
            ("recompile", B),
            ("recompile", BAD_LEX),
            ("recompile", A),
            ("serve",),
            ("recompile", BAD_LEX),
            ("recompile", B),
            ("serve",),
        ],
        "empty_text": [
            ("new", ""),
            ("blank",),
            ("recompile", ""),
            ("recompile", ""),
            ("serve",),
        ],
        "blank_never_loaded": [("blank",), ("serve",)],
        "blank_then_bad": [
            ("blank",),
            ("recompile", BAD_SYNTAX),
            ("serve",),
            ("recompile", BAD_SYNTAX),
            ("serve",),
        ],
        "blank_then_good": [
            ("blank",),
            ("recompile", BAD_PY),
            ("recompile", A),
            ("serve",),
            ("recompile", A),
            ("recompile", B),
            ("serve",),
        ],
        "non_text": [
            ("new", A),
            ("recompile", None),
            ("recompile", b"x"),
            ("recompile", 3),
            ("serve",),
        ],
        "construct_bad": [("new", BAD_LEX)],
        "construct_bad_py": [("new", BAD_PY)],
        "construct_surrogate": [("new", BAD_SURROGATE)],
    }
    report = {name: run_history(steps) for name, steps in histories.items()}

    # unloaded evaluator: both entry points, keyword and no arguments
    blank = ExperimentEvaluator.__new__(ExperimentEvaluator)
    report["blank_entry_points"] = [
        outcome(lambda: blank()),
        outcome(lambda: blank(uid=1)),
        outcome(lambda: blank.run_experiment()),
        outcome(lambda: blank.run_experiment(uid=1, country="fr")),
    ]
    report["parse_error"] = [
        outcome(lambda: (_ for _ in ()).throw(ParseError())),
        ParseError().message,
        ParseError("m").message,
        str(ParseError("m")),
    ]

    # a field called self cannot be passed through __call__
    selfish = ExperimentEvaluator(
        "def s{ splitters: k if self == 1 { return 'a' weighted 1 } else { return 'b' weighted 1 } }"
    )
    report["self_field"] = [
        outcome(lambda: selfish(k=1, self=1)),
        outcome(lambda: selfish(k=1)),
    ]

    # two evaluators never influence one another
    first, second = ExperimentEvaluator(A), ExperimentEvaluator(A)
    same_before = serve(first) == serve(second)
    first.recompile(B)
    two = {
        "same_before": same_before,
        "first_after": serve(first),
        "second_after": serve(second),
    }
    outcome(lambda: second.recompile(BAD_LEX))
    two["second_after_bad"] = serve(second)
    third = ExperimentEvaluator(B)
    two["third_equals_first"] = serve(third) == serve(first)
    second.recompile(C)
    two["first_after_second_moved"] = serve(first)
    two["third_after_second_moved"] = serve(third)
    two["second_moved"] = serve(second)
    report["two_evaluators"] = two

    # each accepted text serves a function of its own that keeps working after
    # the evaluator has moved on
    keeper = ExperimentEvaluator(A)
    old_fn = keeper.run_experiment
    old_results = sha(json.dumps([call(old_fn, kw) for kw in PROBE_KW]))
    keeper.recompile(B)
    report["old_function_survives"] = old_results == sha(
        json.dumps([call(old_fn, kw) for kw in PROBE_KW])
    )
    report["old_function_replaced"] = keeper.run_experiment is not old_fn
    keeper.recompile(B)
    report["noop_keeps_function"] = keeper.run_experiment is keeper.run_experiment

    # copies and garbage collection
    original = ExperimentEvaluator(A)
    shallow, deep = copy.copy(original), copy.deepcopy(original)
    original.recompile(B)
    report["copies"] = {
        "shallow": serve(shallow),
        "deep": serve(deep),
        "original": serve(original),
        "shallow_reload": outcome(lambda: shallow.recompile(A)),
        "shallow_after": serve(shallow),
    }
    ref = weakref.ref(original)
    del original
    gc.collect()
    report["collected"] = ref() is None

    class Sub(ExperimentEvaluator):
        def __init__(self, text, tag):
            self.tag = tag
            super().__init__(text)

    sub = Sub(A, "t")
    sub.extra = 1
    report["subclass"] = [serve(sub), sub.tag, sub.extra]
    return report


def section_threads() -> dict:
    """results under concurrency are reported only through facts that hold for
    every interleaving"""
    report = {}
    expected = {
        text: [call(ExperimentEvaluator(text), kw) for kw in PROBE_KW[:10]]
        for text in (A, B)
    }

    # readers while one writer flips between two programs
    evaluator = ExperimentEvaluator(A)
    stop = threading.Event()
    bad: list = []

    def reader():
        while not stop.is_set():
            for index, kw in enumerate(PROBE_KW[:10]):
                result = outcome(lambda: evaluator(**kw))
                if result not in (expected[A][index], expected[B][index]):
                    bad.append(result)

    def writer():
        for round_ in range(60):
            evaluator.recompile(B if round_ % 2 == 0 else A)
            try:
                evaluator.recompile(BAD_LEX)
            except Exception:  # noqa: B902
                pass

    readers = [threading.Thread(target=reader) for _ in range(4)]
    for thread in readers:
        thread.start()
    writer_thread = threading.Thread(target=writer)
    writer_thread.start()
    writer_thread.join()
    stop.set()
    for thread in readers:
        thread.join()
    report["reader_anomalies"] = bad[:5]
    report["final_after_writer"] = [
        call(evaluator, kw) for kw in PROBE_KW[:10]
    ] == expected[A]

    # many threads load the same text into one evaluator
    shared = ExperimentEvaluator(A)
    errors: list = []

    def load_b():
        try:
            shared.recompile(B)
            for index, kw in enumerate(PROBE_KW[:10]):
                if outcome(lambda: shared(**kw)) != expected[B][index]:
                    errors.append("wrong result")
        except Exception as exc:  # noqa: B902
            errors.append(type(exc).__name__)

    loaders = [threading.Thread(target=load_b) for _ in range(8)]
    for thread in loaders:
        thread.start()
    for thread in loaders:
        thread.join()
    report["same_text_errors"] = errors
    report["same_text_final"] = [call(shared, kw) for kw in PROBE_KW[:10]] == expected[
        B
    ]

    # independent evaluators built concurrently
    built: dict = {}

    def build(index):
        text = (A, B, C)[index % 3]
        built[index] = serve(ExperimentEvaluator(text))

    builders = [threading.Thread(target=build, args=(i,)) for i in range(12)]
    for thread in builders:
        thread.start()
    for thread in builders:
        thread.join()
    report["concurrent_builds"] = [built[i] for i in range(12)]

    # first calls made concurrently right after a load
    fresh = ExperimentEvaluator(C)
    firsts: list = []

    def first_call():
        firsts.append(serve(fresh))

    callers = [threading.Thread(target=first_call) for _ in range(8)]
    for thread in callers:
        thread.start()
    for thread in callers:
        thread.join()
    report["concurrent_first_calls"] = sorted(set(firsts))
    return report


WIDE_KW = [{"uid": f"wide{i}", "country": "de"} for i in range(600)]


def serve_wide(evaluator) -> str:
    return sha(json.dumps([call(evaluator, kw) for kw in WIDE_KW]))


def section_many_texts() -> dict:
    """more distinct texts than any plausible cache holds, revisited; failing texts
    in between; several evaluators per text"""
    report = {}
    variants = [
        A.replace('"A" weighted 9', f'"A" weighted {n}') + f"\n// variant {n}"
        for n in range(1, 81)
    ]
    first_pass = [serve_wide(ExperimentEvaluator(text)) for text in variants]
    roaming = ExperimentEvaluator(variants[0])
    roaming_trace = []
    for index, text in enumerate(variants):
        roaming.recompile(text)
        if index % 7 == 0:
            roaming_trace.append(
                outcome(lambda: roaming.recompile(BAD_SYNTAX))["raises"]
            )
            roaming_trace.append(outcome(lambda: roaming.recompile(BAD_PY))["raises"])
        roaming_trace.append(serve_wide(roaming))
    second_pass = [serve_wide(ExperimentEvaluator(text)) for text in variants]
    report["first_pass"] = sha(json.dumps(first_pass))
    report["distinct_results"] = len(set(first_pass))
    report["second_equals_first"] = second_pass == first_pass
    report["roaming"] = sha(json.dumps(roaming_trace))
    report["roaming_matches"] = [r for r in roaming_trace if len(r) == 16] == first_pass
    roaming.recompile(variants[0])
    report["roaming_back"] = serve_wide(roaming) == first_pass[0]
    # the same failing text fails for every evaluator, every time
    report["bad_everywhere"] = [
        outcome(lambda: ExperimentEvaluator(BAD_PY))["raises"] for _ in range(3)
    ] + [outcome(lambda: ExperimentEvaluator(BAD_LEX))["raises"] for _ in range(3)]

    # str subclass instances are texts too
    class Text(str):
        pass

    report["str_subclass"] = [
        serve_wide(ExperimentEvaluator(Text(A))) == serve_wide(ExperimentEvaluator(A)),
        outcome(lambda: ExperimentEvaluator(Text(BAD_LEX)))["raises"],
    ]
    return report


def main() -> None:
    report = {
        "valid": section_valid_programs(),
        "invalid": section_invalid_programs(),
        "bucketing": section_bucketing(),
        "stats": section_stats(),
        "lifecycle": section_lifecycle(),
        "many_texts": section_many_texts(),
        "threads": section_threads(),
    }
    print(json.dumps(report, indent=1, sort_keys=True, ensure_ascii=True))


if __name__ == "__main__":
    main()

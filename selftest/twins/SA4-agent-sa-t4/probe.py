"""Old-versus-new comparison probe for the evaluator life cycle.

Run as:  PYTHONPATH=/tmp/wt/SA/src /venv/bin/python probe.py
The transcript on stdout is deterministic and uses only behaviour that exists
on the unchanged tree, so the clean tree and the changed tree must print the
same text.  Checks of API that exists only on the changed tree are done in
`extras()`; they print nothing unless they FAIL (then the transcripts differ).
"""

import copy
import hashlib
import pickle
import random
import re
import sys
import threading

import pyab_experiment.experiment_evaluator as ee_mod
from pyab_experiment.codegen.python.python_generator import PythonCodeGen
from pyab_experiment.experiment_evaluator import ExperimentEvaluator
from pyab_experiment.utils.wraper_functions import generate_code, parse_source

ADDR = re.compile(r"0x[0-9a-fA-F]+")


def show(*parts):
    print(*parts)


def err(e):
    return f"{type(e).__name__}: {ADDR.sub('0x?', str(e))[:200]}"


def attempt(fn, *a, **k):
    try:
        return "-> " + ADDR.sub("0x?", repr(fn(*a, **k)))[:200]
    except BaseException as e:  # noqa: BLE001 - RecursionError etc. wanted too
        return "!! " + err(e)


# --------------------------------------------------------------------------
# corpus
# --------------------------------------------------------------------------
def nested_ifs(depth):
    s = "def nest%d { splitters: k " % depth
    for _ in range(depth):
        s += "if a == 1 { "
    s += 'return "x" weighted 1 '
    s += "} " * depth
    return s + "}"


def nots(depth):
    return (
        "def nots%d { splitters: k if " % depth
        + "not " * depth
        + 'a == 1 { return "t" weighted 1 } else { return "f" weighted 1 } }'
    )


def parens(depth):
    return (
        "def par%d { splitters: k if " % depth
        + "(" * depth
        + "a == 1"
        + ")" * depth
        + ' { return "t" weighted 1 } else { return "f" weighted 1 } }'
    )


def elif_chain(name, n, tag=""):
    s = f"def {name} {{ salt: 's{tag}' splitters: uid, zone "
    s += f'if f0 == 0 {{ return "{tag}g0" weighted 1, "{tag}h0" weighted 2 }} '
    for i in range(1, n):
        s += (
            f"else if f{i} in ({i}, 'v{i}', (1, x{i})) and not f{i - 1} < {i}.5 "
            f'{{ return "{tag}g{i}" weighted {i}, "{tag}h{i}" weighted 1.5 }} '
        )
    s += f'else {{ return "{tag}dflt" weighted 1 }} }}'
    return s


def plain_chain(n):
    s = "def c%d { splitters: k if a == 0 { return 0 weighted 1 } " % n
    for i in range(1, n):
        s += f"else if a == {i} {{ return {i} weighted 1 }} "
    return s + "}"


FULL = """
def full_1 {
    /* block
       comment */
    salt: "pepper"
    splitters: uid, country   // trailing
    if country in ("US", 'CA', ("x", 1)) and not age < 18 {
        if uid == -5 or score >= -2.5 {
            return "a" weighted 1, 2 weighted 3, -3.5 weighted 0.5
        } else if tag not in ((1, 2), "z", country) {
            return "b" weighted 1
        }
    } else if age != 99999999999999999999999999999999999 {
        return "c" weighted 0, "d" weighted 0.0, 'e' weighted 2
    } else {
        return "f" weighted 1
    }
}
"""

VALID_GRID = [
    dict(),
    dict(k=1),
    dict(k=None),
    dict(k="1", a=1),
    dict(k=1, a=1.0, extra=object),
    dict(k=(1, 2), a=None),
    dict(my_id=7),
    dict(my_id="7"),
    dict(my_id=None),
    dict(my_id=-(10**40), x=1),
    dict(my_id=float("nan")),
    dict(my_id="é\U0001f600"),
    dict(uid=1, country="US", age=30, score=0, tag="q"),
    dict(uid=-5, country="CA", age=18, score=-9, tag="z"),
    dict(uid=2, country=("x", 1), age=18.5, score=-2.5, tag=(1, 2)),
    dict(uid=3, country="FR", age=10**35 - 1, score=0, tag=0),
    dict(uid=3, country="FR", age=99999999999999999999999999999999999, score=0, tag=0),
    dict(uid=[1], country=None, age=None, score=None, tag=None),
    dict(uid=4, country="US", age=40, score=-3, tag="US"),
    dict(uid=4, country="US", age=40, score=-3, tag="nope"),
    dict(uid=4, country="US", age="old", score=-3, tag="nope"),
    dict(a=1),
    dict(a=2, b="b"),
    dict(x=float("inf")),
    dict(x=-float("inf")),
    dict(x=1e308),
    dict(k=1, x=float("inf")),
    dict(k=1, x=-float("inf")),
    dict(k=1, x=1e308),
    dict(k=2, a=988),
    dict(k=2, a=2),
    dict(a=3, b=3),
    dict(k=1, partial=1),
    dict(k=1, partial=2),
    dict(str=1),
    dict(partial=1),
    dict(partial=2),
    dict(self=1),
    dict(kwargs=1),
]

SOURCES = [
    ("basic", 'def e1 { splitters: my_id return "a" weighted 1, "b" weighted 1 }'),
    ("nosplit", 'def e2 { return "a" weighted 1, "b" weighted 3 }'),
    ("saltonly", 'def e3 { salt: "s" return "a" weighted 1, "b" weighted 3 }'),
    ("full", FULL),
    ("both", 'def e4 { splitters: a, b, a if a == b { return 1 weighted 1 } }'),
    ("unroutable", 'def e5 { splitters: k if a == 1 { return "x" weighted 1 } }'),
    ("zero_w", 'def e6 { splitters: k return "x" weighted 0, "y" weighted 0.0 }'),
    ("inf_lit", "def e7 { splitters: k if x < " + "9" * 400 + '.0 { return "lt" weighted 1 } '
     "else if x > -" + "9" * 400 + '.0 { return "gt" weighted 1 } else { return "eq" weighted 1 } }'),
    ("inf_w", "def e8 { splitters: k return 'x' weighted " + "9" * 400 + ".0 }"),
    ("big_int", "def e9 { splitters: k if a == " + "7" * 4000 + ' { return "x" weighted 1 } else { return "y" weighted 1} }'),
    ("too_big_int", "def e10 { splitters: k if a == " + "7" * 5000 + ' { return "x" weighted 1 } }'),
    ("kw_name", 'def class { return "a" weighted 1 }'),
    ("kw_field", 'def e11 { splitters: None return "a" weighted 1 }'),
    ("kw_cond", 'def e12 { if lambda == 1 { return "a" weighted 1 } }'),
    ("kwargs_field", 'def e13 { splitters: kwargs return "a" weighted 1 }'),
    ("str_field", 'def e14 { splitters: str return "a" weighted 1 }'),
    ("partial_field", 'def e15 { splitters: k if partial == 1 { return "a" weighted 1 } else { return "b" weighted 1 } }'),
    ("self_field", 'def e16 { splitters: self if self == 1 { return "a" weighted 1 } else { return "b" weighted 1 } }'),
    ("name_partial", 'def partial { splitters: k return "a" weighted 1, "b" weighted 1 }'),
    ("name_detchoice", 'def deterministic_choice { splitters: k return "a" weighted 1, "b" weighted 1 }'),
    ("name_err", 'def ExperimentConditionalFailedError { splitters: k if a == 1 { return "a" weighted 1 } }'),
    ("name_inner", 'def choose_experiment_variant { splitters: k if a == 1 { return "a" weighted 1 } else { return "b" weighted 1 } }'),
    ("name_cls", 'def ExperimentEvaluator { splitters: k return "a" weighted 1 }'),
    ("name_locals", 'def code_holder { splitters: ast, fn_name, source_code, new_checksum, hashlib return "a" weighted 1, "b" weighted 2 }'),
    ("name_dunder", 'def __init__ { splitters: __class__ return "a" weighted 1 }'),
    ("name_debug", 'def __debug__ { return "a" weighted 1 }'),
    ("nest21", nested_ifs(21)),
    # exact edges: deepest accepted / first refused (indentation, recursion)
    ("nest97", nested_ifs(97)),
    ("nest98", nested_ifs(98)),
    ("nest987", nested_ifs(987)),
    ("nest988", nested_ifs(988)),
    ("nest989", nested_ifs(989)),
    ("nest990", nested_ifs(990)),
    ("chain987", plain_chain(987)),
    ("chain988", plain_chain(988)),
    ("chain989", plain_chain(989)),
    ("chain990", plain_chain(990)),
    ("nots199", nots(199)),
    ("nots200", nots(200)),
    ("nots989", nots(989)),
    ("nots990", nots(990)),
    ("nots991", nots(991)),
    ("nots992", nots(992)),
    ("nots50", nots(50)),
    ("nots300", nots(300)),
    ("nots20000", nots(20000)),
    ("parens5000", parens(5000)),
    ("elif300", elif_chain("chain300", 300)),
    ("many_groups", "def mg { splitters: k return " + ", ".join(f'"g{i}" weighted {i}' for i in range(1500)) + " }"),
    ("quotes", """def q { splitters: k if a == 'it"s' or a == "it's" or a == "back\\slash{}" { return "{'}" weighted 1 } else { return '"' weighted 1 } }"""),
    ("unicode", 'def u { splitters: k if a == "héllo\U0001f600" { return "ü" weighted 1 } else { return "n" weighted 1 } }'),
    ("empty", ""),
    ("blank", " \n\t "),
    ("only_comment", "// nothing"),
    ("open_comment", 'def c { /* never closed \n return "a" weighted 1 }'),
    ("lex_err", 'def l { return "a" weighted 1 } $'),
    ("nl_in_str", 'def l { return "a\nb" weighted 1 }'),
    ("neg_weight", 'def nw { return "a" weighted -1 }'),
    ("no_return", "def nr { splitters: k }"),
    ("two_defs", 'def a { return 1 weighted 1 } def b { return 1 weighted 1 }'),
    ("trailing_comma", 'def tc { return 1 weighted 1, }'),
    ("empty_tuple", 'def et { if a in () { return 1 weighted 1 } }'),
    ("one_tuple", 'def ot { splitters: k if a in (1) { return 1 weighted 1 } else { return 2 weighted 1 } }'),
    ("elseif", 'def ei { splitters: k if a == 1 { return 1 weighted 1 } elseif a == 2 { return 2 weighted 1 } else { return 3 weighted 1 } }'),
]


class CountingStr(str):
    """a str whose encode() is observable"""

    calls = []

    def encode(self, *a, **k):
        CountingStr.calls.append((str(self)[:12], a, tuple(sorted(k.items()))))
        return str.encode(self, *a, **k)


class ConstDigestStr(str):
    """every instance has the same checksum"""

    def encode(self, *a, **k):
        return b"constant"


class Duck:
    def encode(self, *a, **k):
        return b"duck"


NON_STRINGS = [
    ("none", None),
    ("bytes", b'def e1 { return "a" weighted 1 }'),
    ("bytearray", bytearray(b"x")),
    ("int", 12),
    ("list", ["def"]),
    ("duck", Duck()),
    ("surrogate", 'def s { return "\ud800" weighted 1 }'),
]


def call_grid(ev, grid=VALID_GRID):
    out = []
    for kw in grid:
        random.seed(1234)
        r = attempt(ev, **kw)
        # the random stream must be consumed exactly as before
        out.append(r + " #" + str(random.getrandbits(16)))
    return hashlib.md5("\n".join(out).encode()).hexdigest()[:12], out


def fn_facts(fn):
    c = fn.__code__
    return (
        fn.__name__,
        fn.__qualname__,
        fn.__module__,
        fn.__defaults__,
        fn.__kwdefaults__,
        sorted(fn.__dict__),
        fn.__globals__ is ee_mod.__dict__,
        c.co_filename,
        c.co_firstlineno,
        c.co_argcount,
        c.co_kwonlyargcount,
        c.co_varnames,
        c.co_names,
        hashlib.md5(c.co_code).hexdigest()[:10],
    )


def section_corpus():
    show("== corpus")
    for label, src in SOURCES:
        try:
            ev = ExperimentEvaluator(src)
        except BaseException as e:  # noqa: BLE001
            show(label, "ctor !!", err(e))
            continue
        digest, rows = call_grid(ev)
        show(label, "ok", ev._checksum, digest)
        show("   ", fn_facts(ev.run_experiment))
        if label in ("basic", "nosplit", "full", "both", "zero_w", "inf_lit", "str_field",
                     "partial_field", "self_field", "kwargs_field", "unroutable"):
            for kw, row in zip(VALID_GRID, rows):
                show("   ", sorted(kw), row)
        show("    posarg", attempt(ev, 1), "| run_experiment posarg", attempt(ev.run_experiment, 1),
             "| self kw", attempt(ev.run_experiment, self=1))
    for label, src in NON_STRINGS:
        show(label, "ctor", attempt(ExperimentEvaluator, src)[:120])


def section_histories():
    show("== histories")
    good1 = SOURCES[0][1]
    good2 = FULL
    good3 = 'def e1 { splitters: my_id return "a" weighted 1, "b" weighted 1 } // same name, other text'
    bad_lex = 'def l { return "a" weighted 1 } $'
    bad_parse = "def nr { splitters: k }"
    bad_compile = nested_ifs(21)
    bad_rec = nots(20000)
    bad_kw = 'def class { return "a" weighted 1 }'
    steps = [
        ("good1", good1), ("good1", good1), ("bad_lex", bad_lex), ("bad_lex", bad_lex),
        ("good1", good1), ("bad_parse", bad_parse), ("good2", good2), ("bad_compile", bad_compile),
        ("bad_compile", bad_compile), ("good2", good2), ("bad_rec", bad_rec), ("good3", good3),
        ("bad_kw", bad_kw), ("good1", good1), ("none", None), ("bytes", b"x"), ("good1", good1),
        ("empty", ""), ("good2", good2), ("good2", good2),
    ]
    ev = ExperimentEvaluator(good2)
    fns = {}
    prev = ev.run_experiment
    for label, src in steps:
        r = attempt(ev.recompile, src)
        cur = ev.run_experiment
        fns.setdefault(id(cur), cur)  # keep alive: ids stay unique
        show(label, r, "same_fn" if cur is prev else "new_fn", ev._checksum,
             cur.__name__, sorted(vars(ev)) and ("run_experiment" in vars(ev), "_checksum" in vars(ev)),
             call_grid(ev)[0])
        prev = cur

    show("-- forced checksum / deleted function")
    ev = ExperimentEvaluator(good1)
    f0 = ev.run_experiment
    ev._checksum = ""
    show(attempt(ev.recompile, good1), ev.run_experiment is f0, ev.run_experiment.__code__ == f0.__code__, ev._checksum)
    del ev.run_experiment
    show(attempt(ev, my_id=1), attempt(ev.recompile, good1), attempt(ev, my_id=1))
    del ev._checksum
    show(repr(ev._checksum), attempt(ev.recompile, good1), attempt(ev, my_id=1), ev._checksum)
    ev.run_experiment = lambda **kw: "user"
    show(attempt(ev, my_id=1), attempt(ev.recompile, good1), attempt(ev, my_id=1))
    show(attempt(ev.recompile, good2), attempt(ev, my_id=1)[:60])

    show("-- instance that never ran __init__")
    raw = ExperimentEvaluator.__new__(ExperimentEvaluator)
    show(sorted(vars(raw)), repr(raw._checksum), attempt(raw, my_id=1), attempt(raw.run_experiment, my_id=1))
    show(attempt(raw.recompile, bad_lex), sorted(k for k in vars(raw) if k in ("run_experiment", "_checksum")), attempt(raw, my_id=1))
    show(attempt(raw.recompile, good1), sorted(k for k in vars(raw) if k in ("run_experiment", "_checksum")), attempt(raw, my_id=1))

    class NoInit(ExperimentEvaluator):
        def __init__(self):  # deliberately no super().__init__
            self.mine = 1

    n = NoInit()
    show(attempt(n, my_id=1), attempt(n.recompile, good1), attempt(n, my_id=1), n.mine)

    class Slotted(ExperimentEvaluator):
        __slots__ = ("extra",)

    s = Slotted(good1)
    show(attempt(s, my_id=1), attempt(s.recompile, good2), attempt(s, my_id=1)[:40])

    show("-- class level state untouched")
    show(repr(ExperimentEvaluator._checksum), "run_experiment" in ExperimentEvaluator.__dict__,
         attempt(ExperimentEvaluator.run_experiment, None), attempt(ExperimentEvaluator.__call__, raw.__class__.__new__(ExperimentEvaluator)))

    show("-- encode() is called once per recompile, before anything else")
    CountingStr.calls.clear()
    ev = ExperimentEvaluator(CountingStr(good1))
    ev.recompile(CountingStr(good1))
    show(attempt(ev.recompile, CountingStr(bad_lex)))
    ev.recompile(CountingStr(good2))
    show(CountingStr.calls)
    ev = ExperimentEvaluator(ConstDigestStr(good1))
    f0 = ev.run_experiment
    show(attempt(ev.recompile, ConstDigestStr(good2)), ev.run_experiment is f0, ev._checksum)
    show(attempt(ev.recompile, ConstDigestStr(bad_lex)), ev.run_experiment is f0)

    show("-- copies and pickles")
    ev = ExperimentEvaluator(good1)
    sh = copy.copy(ev)
    dp = copy.deepcopy(ev)
    show(sh.run_experiment is ev.run_experiment, dp.run_experiment is ev.run_experiment, sh._checksum == dp._checksum == ev._checksum)
    sh.recompile(good2)
    show(ev.run_experiment.__name__, sh.run_experiment.__name__, dp.run_experiment.__name__, call_grid(ev)[0], call_grid(sh)[0], call_grid(dp)[0])
    dp.recompile(good3)
    show(ev.run_experiment.__name__, sh.run_experiment.__name__, dp.run_experiment.__name__, call_grid(ev)[0], call_grid(sh)[0], call_grid(dp)[0])
    for proto in (0, 2, pickle.HIGHEST_PROTOCOL):
        try:
            pickle.dumps(ev, proto)
            show("pickle ok")
        except BaseException as e:  # noqa: BLE001
            show("pickle", type(e).__name__)
    rt = pickle.loads(pickle.dumps(raw2 := ExperimentEvaluator.__new__(ExperimentEvaluator)))
    show("pickle raw", sorted(vars(rt)), attempt(rt.recompile, good1), attempt(rt, my_id=3), sorted(vars(raw2)))
    show("two evaluators are independent")
    a, b = ExperimentEvaluator(good1), ExperimentEvaluator(good2)
    show(attempt(a.recompile, bad_lex), a.run_experiment.__name__, b.run_experiment.__name__)
    a.recompile(good2)
    show(a.run_experiment is b.run_experiment, a.run_experiment.__code__ == b.run_experiment.__code__, a._checksum == b._checksum)


def section_codegen():
    show("== generate_code / PythonCodeGen")
    for label, src in SOURCES:
        if label.startswith(("nest98", "nest99", "nots9")):
            continue  # megabytes of text for black: the edge is probed below instead
        for expose in (False, True):
            try:
                text = generate_code(src, expose)
            except BaseException as e:  # noqa: BLE001
                show(label, expose, "!!", err(e)[:150])
                continue
            ns = {}
            res = []
            try:
                exec(compile(text, "<gen>", "exec"), ns)
                name = parse_source(src).id
                for kw in VALID_GRID[:32]:
                    random.seed(99)
                    res.append(attempt(ns[name], **kw))
                if expose:
                    res.append(str("choose_experiment_variant" in ns))
            except BaseException as e:  # noqa: BLE001
                res.append(err(e))
            show(label, expose, hashlib.md5(text.encode()).hexdigest()[:12], len(text),
                 hashlib.md5("\n".join(res).encode()).hexdigest()[:12])
    ast = parse_source(FULL)
    for kwargs in ({}, {"indentation_char": "  "}, {"expose_experiment_variant_function": False},
                   {"indentation_char": "    ", "expose_experiment_variant_function": False}):
        g = PythonCodeGen(ast, **kwargs)
        before = (g.local_vars, g.conditional_ids)
        t1 = g.generate()
        mid = (g.local_vars, g.conditional_ids)
        t2 = g.generate()
        show(sorted(kwargs), before, mid, t1 == t2, hashlib.md5(t1.encode()).hexdigest()[:12])
    show(attempt(PythonCodeGen(None).generate)[:120])
    for label, src in SOURCES:
        if label.startswith(("nest98", "nest99", "nots9")):
            tree = parse_source(src)
            for expose in (False, True):
                try:
                    r = PythonCodeGen(tree, expose_experiment_variant_function=expose).generate()
                except BaseException as e:  # noqa: BLE001
                    r = "!! " + err(e)
                show(label, expose, len(r), hashlib.md5(r.encode()).hexdigest()[:12])
    show(sorted(k for k in vars(PythonCodeGen(ast))))


def big_sources():
    return {f"thr{i}": elif_chain(f"thr{i}", 12 + i, tag=f"t{i}_") for i in range(6)}


def section_threads():
    show("== threads")
    old_interval = sys.getswitchinterval()
    sys.setswitchinterval(1e-6)
    try:
        srcs = big_sources()
        ref = {n: ExperimentEvaluator(s).run_experiment.__code__ for n, s in srcs.items()}
        probe_kw = dict(uid=1, zone=2, **{f"f{i}": i for i in range(20)}, **{f"x{i}": i for i in range(20)})
        expected = {n: ExperimentEvaluator(s)(**probe_kw) for n, s in srcs.items()}
        bad = 'def thr0 { splitters: uid if class == 1 { return 1 weighted 1 } }'
        problems = []

        def hammer(ev, name, rounds):
            for r in range(rounds):
                try:
                    ev.recompile(srcs[name])
                except BaseException as e:  # noqa: BLE001
                    problems.append("recompile " + err(e))
                if r % 3 == 0:
                    try:
                        ev.recompile(bad)
                        problems.append("bad source accepted")
                    except SyntaxError:
                        pass
                    except BaseException as e:  # noqa: BLE001
                        problems.append("bad " + err(e))
                fn = ev.run_experiment
                if ref.get(fn.__name__) != fn.__code__:
                    problems.append("corrupt function " + fn.__name__)
                elif fn(**probe_kw) != expected[fn.__name__]:
                    problems.append("wrong answer " + fn.__name__)

        def run(evs, rounds=40):
            ts = [threading.Thread(target=hammer, args=(ev, n, rounds)) for ev, n in zip(evs, srcs)]
            [t.start() for t in ts]
            [t.join() for t in ts]

        shared = ExperimentEvaluator(srcs["thr0"])
        run([shared] * len(srcs))
        show("one shared evaluator:", "problems=%d" % len(problems), sorted(set(problems))[:5])
        base = ExperimentEvaluator(srcs["thr1"])
        base.recompile(srcs["thr2"])
        copies = [copy.copy(base) for _ in srcs]
        run(copies)
        show("shallow copies:", "problems=%d" % len(problems), sorted(set(problems))[:5],
             [c.run_experiment.__name__ for c in copies], base.run_experiment.__name__)
        own = [ExperimentEvaluator(srcs["thr0"]) for _ in srcs]
        run(own)
        show("own evaluators:", "problems=%d" % len(problems), [c.run_experiment.__name__ for c in own])
        show("threads alive:", threading.active_count())
    finally:
        sys.setswitchinterval(old_interval)


def process_state():
    mod = ee_mod
    return dict(
        reclimit=sys.getrecursionlimit(),
        switch=sys.getswitchinterval(),
        partial=mod.partial.__module__ + "." + mod.partial.__name__,
        dc=mod.deterministic_choice.__module__ + "." + mod.deterministic_choice.__qualname__,
        exc=mod.ExperimentConditionalFailedError.__module__,
        mods=sorted(m for m in sys.modules if m.startswith("pyab_experiment")),
        n_threads=threading.active_count(),
        cls_checksum=ExperimentEvaluator._checksum,
        parse_error=(ee_mod.ParseError().message, ee_mod.ParseError("x").args, ee_mod.ParseError.__mro__[1].__name__),
        public=sorted(n for n in ("ExperimentEvaluator", "ParseError", "PythonCodeGen", "parse_source", "hashlib",
                                  "partial", "deterministic_choice", "ExperimentConditionalFailedError") if hasattr(mod, n)),
    )


def extras():
    """checks of API that only exists on the changed tree: silent unless failing"""
    bad = []
    E = ExperimentEvaluator
    if "__repr__" not in E.__dict__:
        return bad
    raw = E.__new__(E)
    if (repr(raw), raw.is_loaded, raw.checksum) != ("<ExperimentEvaluator: no code loaded>", False, ""):
        bad.append(("blank", repr(raw)))
    try:
        raw.recompile("def x { $")
    except BaseException:  # noqa: BLE001
        pass
    if (repr(raw), raw.is_loaded, raw.checksum, vars(raw)) != ("<ExperimentEvaluator: no code loaded>", False, "", {}):
        bad.append(("after failed first load", repr(raw)))
    ev = E(FULL)
    for label, src in SOURCES + NON_STRINGS:
        try:
            ev.recompile(src)
        except BaseException:  # noqa: BLE001
            pass
        want = f"<ExperimentEvaluator: {ev.run_experiment.__name__!r}, checksum {ev._checksum[:8]}>"
        if (repr(ev), str(ev), ev.is_loaded, ev.checksum) != (want, want, True, ev._checksum):
            bad.append(("loaded", label, repr(ev)))
    before = dict(vars(ev))
    repr(ev), ev.is_loaded, ev.checksum
    if vars(ev) != before or list(vars(ev)) != ["run_experiment", "_checksum"]:
        bad.append("looking changed the instance")
    for name in ("is_loaded", "checksum"):
        try:
            setattr(ev, name, 1)
            bad.append(("writable", name))
        except AttributeError:
            pass
    import functools

    ev.run_experiment = functools.partial(len, "abc")
    ev._checksum = 12345678901
    if repr(ev) != "<ExperimentEvaluator: (custom callable), checksum 12345678>":
        bad.append(("custom callable", repr(ev)))
    del ev.run_experiment
    del ev._checksum
    if (repr(ev), ev.is_loaded, ev.checksum) != ("<ExperimentEvaluator: no code loaded>", False, ""):
        bad.append(("deleted", repr(ev)))

    class Sub(E):
        pass

    if repr(Sub(SOURCES[0][1])) != "<Sub: 'e1', checksum 98707d71>":
        bad.append("subclass")
    return bad


def main(extra=None):
    before = process_state()
    show("== process state before")
    for k, v in before.items():
        show(k, v)
    section_corpus()
    section_histories()
    section_codegen()
    section_threads()
    failures = (extra or extras)() or []
    show("== extras failures:", failures)
    after = process_state()
    show("== process state after: unchanged =", after == before)
    random.seed(5)
    show("random stream", random.random())


if __name__ == "__main__":
    main()

"""Exercises dry_run_split / GroupShare added to pyab_experiment.binning.binning."""

from collections import Counter

from pyab_experiment.binning.binning import GroupShare, deterministic_choice, dry_run_split
from pyab_experiment.experiment_evaluator import ExperimentEvaluator
from pyab_experiment.utils.stats import confidence_interval

groups = ["control", "variant_a", "variant_b"]

# default ids, weighted
report = dry_run_split(groups, [1, 2, 1], trials=20000, salt="exp1")
assert [line.group for line in report] == groups
assert [line.expected for line in report] == [0.25, 0.5, 0.25]
assert sum(line.count for line in report) == 20000
assert all(isinstance(line, GroupShare) and line.within for line in report)
# agrees with a hand-made loop over deterministic_choice
by_hand = Counter(deterministic_choice(f"exp1{i}", groups, [1, 2, 1]) for i in range(20000))
assert {line.group: line.count for line in report} == dict(by_hand)
for line in report:
    assert (line.low, line.high) == confidence_interval(20000, line.expected, 0.999)
    assert line.observed == line.count / 20000
# reproducible, stateless
assert dry_run_split(groups, [1, 2, 1], trials=20000, salt="exp1") == report
assert dry_run_split(groups, [1, 2, 1], trials=20000, salt="exp2") != report

# uniform split, own ids, another interval
ids = [f"user-{i}@example.org" for i in range(5000)]
uniform = dry_run_split(groups, input_ids=iter(ids), confidence=0.99, method="wald")
assert [line.expected for line in uniform] == [1 / 3] * 3
assert sum(line.count for line in uniform) == 5000 and all(line.within for line in uniform)

# it predicts what a compiled experiment does with the same salt and splitter
evaluator = ExperimentEvaluator(
    'def e{ salt: "s1" splitters: uid return "a" weighted 4, "b" weighted 1 }'
)
compiled = Counter(evaluator(uid=i) for i in ids)
dry = dry_run_split(["a", "b"], [4, 1], input_ids=ids, salt="s1")
assert {line.group: line.count for line in dry} == dict(compiled)

# repeated / unhashable items are reported by position; a zero weight draws nothing
odd = dry_run_split([["x"], ["x"], {"k": 1}], [1, 1, 0], trials=2000)
assert odd[2].count == 0 and odd[2].expected == 0 and odd[0].count + odd[1].count == 2000
# a degenerate id space is detected
skewed = dry_run_split(["a", "b"], [1, 1], input_ids=["same"] * 500)
assert not all(line.within for line in skewed)

# refusals come from the existing functions, plus one of its own
def refused(error, **kwargs):
    try:
        dry_run_split(groups, **kwargs)
    except error:
        return
    raise AssertionError(kwargs)

refused(ValueError, weights=[1, 2])
refused(ValueError, weights=[0, 0, 0])
refused(ValueError, input_ids=[])
refused(ValueError, trials=0)
refused(NotImplementedError, method="wilson", trials=10)
for line in report:
    print(line, line.within)
print("usage OK")

"""Differential probe for the py_ab code generator refactorings.

Run as:  PYTHONPATH=/tmp/wt/TN/src /venv/bin/python probe.py
Prints one deterministic JSON document.  The output must be byte-identical
with and without the patch under test.
"""

import hashlib
import inspect
import itertools
import json
import logging
import random
import sys
import threading
from pathlib import Path

logging.disable(logging.CRITICAL)

import pyab_experiment  # noqa: E402
from pyab_experiment.binning.binning import (  # noqa: E402
    deterministic_choice,
    deterministic_proba,
)
from pyab_experiment.codegen.python.python_generator import PythonCodeGen  # noqa: E402
from pyab_experiment.data_structures.syntax_tree import (  # noqa: E402
    BooleanOperatorEnum,
    ConditionalType,
    ExperimentAST,
    ExperimentConditional,
    ExperimentGroup,
    Identifier,
    LogicalOperatorEnum,
    RecursivePredicate,
    TerminalPredicate,
)
from pyab_experiment.experiment_evaluator import ExperimentEvaluator  # noqa: E402
from pyab_experiment.utils import stats  # noqa: E402
from pyab_experiment.utils.wraper_functions import (  # noqa: E402
    generate_code,
    parse_source,
)

OUT = {}


def outcome(fn, *args, **kwargs):
    """value of the call, or the class name and message of what it raised"""
    try:
        return {"ok": fn(*args, **kwargs)}
    except BaseException as exc:  # noqa: B902 - the class name is the datum
        return {"raised": type(exc).__name__, "message": str(exc)[:200]}


def jsonable(value):
    if isinstance(value, dict):
        return {str(k): jsonable(v) for k, v in value.items()}
    if isinstance(value, (list, tuple)):
        return [jsonable(v) for v in value]
    if isinstance(value, float):
        return repr(value)
    if isinstance(value, (str, int, bool)) or value is None:
        return value
    return repr(value)


# --------------------------------------------------------------------------
# 1. experiment texts
# --------------------------------------------------------------------------
PROGRAM_DIR = (
    Path(pyab_experiment.__file__).resolve().parents[2] / "tests/unit/test_programs"
)

VALID_TEXTS = {
    f"file:{p.name}": p.read_text() for p in sorted(PROGRAM_DIR.glob("*.pyab"))
}
VALID_TEXTS.update(
    {
        "plain": "def plain { return 'a' weighted 1, 'b' weighted 3 }",
        "single": "def single{return 7 weighted 0.5}",
        "salt_only": "def s { salt: 'pepper' return 1 weighted 1, 2 weighted 1 }",
        "salt_split": (
            'def s2 { salt: "x\'y" splitters: uid return "A" weighted 1, '
            '"B" weighted 1, "C" weighted 2 }'
        ),
        "dup_splitters": (
            "def dups { splitters: b, a, b, a "
            "return 'l' weighted 1, 'r' weighted 1 }"
        ),
        "kw_prefixed": (
            "def define_if { splitters: iffy, input, notation, elsewhere, ord "
            "if inner in (1, 2) and nothing not in ('x') or orange == 1 "
            "{ return 'in' weighted 1 } "
            "else if andy >= 2 { return 'elif' weighted 1, 'ELIF' weighted 9 } "
            "else { return 'else' weighted 1 } }"
        ),
        "not_in_spacing": (
            "def ni { splitters: k if k not   in ('a', 'b') "
            "{ return 1 weighted 1 } else{ return 2 weighted 1 } }"
        ),
        "elseif_spacing": (
            "def ei { splitters: k if k == 1 { return 1 weighted 1 } "
            "elseif k == 2 { return 2 weighted 1 } "
            "else   if k == 3 { return 3 weighted 1 } "
            "else\n\tif k == 4 { return 4 weighted 1 } }"
        ),
        "nested_tuples": (
            "def nt { splitters: u if pair in ((1, 2), (3, (4, 5)), ('a', (b))) "
            "{ return 'hit' weighted 1 } "
            "else if (u) == (1) { return 'one' weighted 1 } "
            "else { return 'miss' weighted 1, 'MISS' weighted 2 } }"
        ),
        "tuple_of_idents": (
            "def ti { splitters: u if x in (y, z, (x, 1.5, 'q')) "
            "{ return 'a' weighted 1 } else { return 'b' weighted 1 } }"
        ),
        "comments": (
            "/* head */ def c { // name\n salt: 'a//b' /* mid\n multi */ "
            "splitters: u // trailing\n if u == '/* no */' { return 'x' weighted 1 }"
            " else { return '//' weighted 1, '*/' weighted 1 } } // end"
        ),
        "quotes": (
            "def q { splitters: u if u == \"it's\" { return 'say \"hi\"' weighted 1 } "
            "else if u == '\\\\' { return \"back\\\\slash\\\\n\" weighted 2 } "
            "else { return '{}' weighted 1, '{0}' weighted 1, '%s' weighted 1 } }"
        ),
        "non_ascii": (
            "def na { salt: 'sél' splitters: u if u == 'héllo' "
            "{ return 'ünï' weighted 1, '日本' weighted 1 } "
            "else { return ' |\x85|\x1c' weighted 1, 'z' weighted 1 } }"
        ),
        "negatives": (
            "def neg { splitters: u if u > -3 and u <= - 2.5 or u == -0 "
            "{ return -1 weighted 1, -2.5 weighted 2 } "
            "else { return 0 weighted 0, 1 weighted 0.0, 2 weighted 1 } }"
        ),
        "numbers": (
            "def num { splitters: u if u < 1" + "0" * 400 + ".0 and u != 007 "
            "and u >= 0.000001 and u != 123456789012345678901234567890 "
            "{ return 1.0 weighted 1, 1 weighted 1.0 } "
            "else { return 1" + "0" * 400 + ".5 weighted 1 } }"
        ),
        "precedence": (
            "def prec { splitters: u "
            "if not a == 1 and b == 2 or c == 3 and not (d == 4 or e == 5) "
            "{ return 't' weighted 1 } "
            "else if not not f != 6 { return 'u' weighted 1 } }"
        ),
        "deep_ifs": (
            "def deep { splitters: u if a == 1 { if b == 2 { if c == 3 "
            "{ return 'abc' weighted 1 } else { return 'ab' weighted 1 } } "
            "else if b == 3 { return 'a3' weighted 1 } } "
            "else if a == 2 { if d in (1) { return 'd' weighted 1 } } "
            "else { if e not in ('x', 'y') { return 'e' weighted 1 } "
            "else { return 'E' weighted 1, 'EE' weighted 1 } } }"
        ),
        "no_else": (
            "def ne { splitters: u if a == 1 { return 1 weighted 1 } "
            "else if a == 2 { return 2 weighted 1 } }"
        ),
        "field_both": (
            "def fb { splitters: u, v if u == 1 and v in (u, 2) and w == u "
            "{ return 'x' weighted 1, 'y' weighted 1 } "
            "else { return 'z' weighted 1 } }"
        ),
        "shadowing": (
            "def sh { splitters: partial if deterministic_choice == 1 and kwargs == 2 "
            "{ return 'p' weighted 1 } else { return 'q' weighted 1, 'r' weighted 1 } }"
        ),
        "same_name": (
            "def f { splitters: f if f == 1 { return 'x' weighted 1 } "
            "else { return 'y' weighted 1, 'z' weighted 1 } }"
        ),
        "literal_both_sides": (
            "def lit { splitters: u if 1 == 1 and 'a' != 'b' and (1, 2) == (1, 2) "
            "{ return 'yes' weighted 1 } else { return 'no' weighted 1 } }"
        ),
        "long_chain": (
            "def chain { splitters: u if a == 0 { return 0 weighted 1 } "
            + " ".join(
                f"else if a == {i} {{ return {i} weighted 1, 'x{i}' weighted {i} }}"
                for i in range(1, 40)
            )
            + " else { return 'last' weighted 1 } }"
        ),
    }
)

INVALID_TEXTS = {
    "empty": "",
    "blank": "   \n\t ",
    "only_comment": "// nothing",
    "no_body": "def x { }",
    "no_return": "def x { splitters: a }",
    "salt_after_splitters": "def x { splitters: a salt: 's' return 1 weighted 1 }",
    "neg_weight": "def x { return 1 weighted -1 }",
    "string_weight": "def x { return 1 weighted '1' }",
    "ident_return": "def x { return a weighted 1 }",
    "tuple_return": "def x { return (1, 2) weighted 1 }",
    "trailing_comma": "def x { return 1 weighted 1, }",
    "missing_brace": "def x { return 1 weighted 1",
    "extra_brace": "def x { return 1 weighted 1 } }",
    "two_defs": "def x { return 1 weighted 1 } def y { return 1 weighted 1 }",
    "keyword_name": "def if { return 1 weighted 1 }",
    "keyword_splitter": "def x { splitters: in return 1 weighted 1 }",
    "bad_char": "def x { return 1 weighted 1 ; }",
    "bad_char_2": "def x { if a = 1 { return 1 weighted 1 } }",
    "unterminated_string": "def x { return 'abc weighted 1 }",
    "multiline_string": "def x { return 'ab\nc' weighted 1 }",
    "unterminated_comment": "def x { /* return 1 weighted 1 }",
    "else_without_if": "def x { else { return 1 weighted 1 } }",
    "elif_after_else": (
        "def x { if a == 1 { return 1 weighted 1 } else { return 2 weighted 1 } "
        "else if a == 2 { return 3 weighted 1 } }"
    ),
    "empty_tuple": "def x { if a in () { return 1 weighted 1 } }",
    "trailing_tuple_comma": "def x { if a in (1,) { return 1 weighted 1 } }",
    "chained_compare": "def x { if 1 < a < 3 { return 1 weighted 1 } }",
    "bare_ident_pred": "def x { if a { return 1 weighted 1 } }",
    "not_term": "def x { if a == not b { return 1 weighted 1 } }",
    "float_no_lead": "def x { return .5 weighted 1 }",
    "float_no_trail": "def x { return 5. weighted 1 }",
    "exponent": "def x { return 1e5 weighted 1 }",
    "non_ascii_ident": "def é { return 1 weighted 1 }",
    "statement_after_return": (
        "def x { return 1 weighted 1 if a == 1 { return 2 weighted 1 } }"
    ),
    "uppercase_kw": "DEF x { return 1 weighted 1 }",
    "notin_glued": "def x { if a notin (1) { return 1 weighted 1 } }",
    "double_minus": "def x { return --1 weighted 1 }",
}

VALUE_POOL = [
    0,
    1,
    2,
    3,
    -1,
    -2.5,
    4,
    6,
    9,
    1.5,
    "a",
    "b",
    "x",
    "xyz",
    "it's",
    "\\",
    "héllo",
    "/* no */",
    "id_17",
    (1, 2),
    (4, 5),
    True,
    None,
]


def call_matrix(fn, fn_name):
    """calls the compiled experiment with a deterministic spread of arguments"""
    params = [
        name
        for name, p in inspect.signature(fn).parameters.items()
        if p.kind is not inspect.Parameter.VAR_KEYWORD
    ]
    results = []
    for round_no in range(60):
        kwargs = {
            name: VALUE_POOL[(round_no * (i + 3) + i * i + len(name)) % len(VALUE_POOL)]
            for i, name in enumerate(params)
        }
        random.seed(round_no)  # the unsalted, unsplit case falls back to random
        results.append(jsonable(outcome(fn, **kwargs)))
    for uid in range(40):
        kwargs = {name: f"user-{uid}-{i}" for i, name in enumerate(params)}
        random.seed(uid)
        results.append(jsonable(outcome(fn, **kwargs, unused_extra=uid)))
    random.seed(0)
    results.append(jsonable(outcome(fn)))  # missing arguments
    return results


def run_generated(code, fn_name):
    namespace = {}
    try:
        exec(compile(code, "<probe>", "exec"), namespace)
    except BaseException as exc:  # noqa: B902
        return {"exec_raised": type(exc).__name__}
    fn = namespace[fn_name]
    digest = hashlib.sha256(
        json.dumps(call_matrix(fn, fn_name), sort_keys=True).encode()
    ).hexdigest()
    return {"calls_sha": digest, "sample": call_matrix(fn, fn_name)[:12]}


def probe_text(text):
    record = {}
    parsed = outcome(parse_source, text)
    if "raised" in parsed:
        record["parse"] = parsed
    else:
        ast = parsed["ok"]
        record["parse"] = repr(ast)
        if ast is not None:
            for exposed in (True, False):
                for indent_unit in ("\t", "    ", " "):
                    gen = PythonCodeGen(
                        ast,
                        indentation_char=indent_unit,
                        expose_experiment_variant_function=exposed,
                    )
                    raw = outcome(gen.generate)
                    key = f"raw[{exposed},{indent_unit!r}]"
                    record[key] = raw
                    if "ok" in raw:
                        record[key + ".run"] = run_generated(raw["ok"], ast.id)
                    record[key + ".names"] = [
                        gen.local_vars,
                        gen.conditional_ids,
                        gen.indent(),
                    ]
    for exposed in (False, True):
        formatted = outcome(generate_code, text, exposed)
        record[f"generate_code[{exposed}]"] = formatted
        if "ok" in formatted and parsed.get("ok") is not None:
            record[f"generate_code[{exposed}].run"] = run_generated(
                formatted["ok"], parsed["ok"].id
            )
    constructed = outcome(ExperimentEvaluator, text)
    if "ok" in constructed:
        evaluator = constructed["ok"]
        record["evaluator"] = {
            "checksum": evaluator._checksum,
            "calls": run_calls(evaluator),
        }
    else:
        record["evaluator"] = constructed
    return record


def run_calls(evaluator):
    fn = evaluator.run_experiment
    return hashlib.sha256(
        json.dumps(call_matrix(fn, ""), sort_keys=True).encode()
    ).hexdigest()


OUT["valid_texts"] = {name: probe_text(text) for name, text in VALID_TEXTS.items()}
OUT["invalid_texts"] = {name: probe_text(text) for name, text in INVALID_TEXTS.items()}


# --------------------------------------------------------------------------
# 2. trees built by hand (all pass model validation unless said otherwise)
# --------------------------------------------------------------------------
def groups(*pairs):
    return [ExperimentGroup(group_definition=d, group_weight=w) for d, w in pairs]


def term_pred(left, op, right):
    return TerminalPredicate(left_term=left, logical_operator=op, right_term=right)


ID = Identifier
EQ, IN, GT = LogicalOperatorEnum.EQ, LogicalOperatorEnum.IN, LogicalOperatorEnum.GT
AND, OR, NOT = BooleanOperatorEnum.AND, BooleanOperatorEnum.OR, BooleanOperatorEnum.NOT
IF, ELIF, ELSE = ConditionalType.IF, ConditionalType.ELIF, ConditionalType.ELSE


def cond(kind, predicate, true_branch, false_branch=None):
    return ExperimentConditional(
        conditional_type=kind,
        predicate=predicate,
        true_branch=true_branch,
        false_branch=false_branch,
    )


HAND_TREES = {
    "not_with_right_operand": ExperimentAST(
        id="h1",
        splitting_fields=["u"],
        salt=None,
        conditions=cond(
            IF,
            RecursivePredicate(
                left_predicate=term_pred(ID(name="a"), EQ, 1),
                boolean_operator=NOT,
                right_predicate=term_pred(ID(name="ghost"), GT, ID(name="phantom")),
            ),
            groups(("x", 1)),
            cond(ELSE, None, groups(("y", 1), ("z", 2))),
        ),
    ),
    "else_with_predicate_and_tail": ExperimentAST(
        id="h2",
        splitting_fields=["u"],
        salt="s",
        conditions=cond(
            IF,
            term_pred(ID(name="a"), EQ, 1),
            groups(("x", 1)),
            cond(
                ELSE,
                term_pred(ID(name="hidden"), EQ, ID(name="u")),
                groups(("y", 1)),
                cond(ELSE, None, groups(("never", 1))),
            ),
        ),
    ),
    "if_in_false_branch": ExperimentAST(
        id="h3",
        splitting_fields=None,
        salt="only salt",
        conditions=cond(
            IF,
            term_pred(ID(name="a"), EQ, 1),
            groups(("x", 1)),
            cond(IF, term_pred(ID(name="b"), EQ, 1), groups(("y", 1))),
        ),
    ),
    "elif_first": ExperimentAST(
        id="h4",
        splitting_fields=["u"],
        salt=None,
        conditions=cond(ELIF, term_pred(ID(name="a"), EQ, 1), groups(("x", 1))),
    ),
    "nested_lists_in_tuple": ExperimentAST(
        id="h5",
        splitting_fields=["u", "a"],
        salt=None,
        conditions=cond(
            IF,
            term_pred(
                ID(name="a"),
                IN,
                (1, [2, [ID(name="deep"), "s"], ()], (ID(name="a"),), [], True, None),
            ),
            groups(("x", 1), ("y", 1)),
        ),
    ),
    "special_numbers": ExperimentAST(
        id="h6",
        splitting_fields=["u"],
        salt="",
        conditions=cond(
            IF,
            RecursivePredicate(
                left_predicate=term_pred(float("inf"), GT, float("-inf")),
                boolean_operator=AND,
                right_predicate=term_pred(
                    (float("nan"), -0.0, 10**400, True, 1e22, 1e-7), IN, ID(name="c")
                ),
            ),
            groups((float("inf"), 1), (-0.0, 0.5), (10**30, 2)),
        ),
    ),
    "empty_groups": ExperimentAST(
        id="h7", splitting_fields=["u"], salt=None, conditions=[]
    ),
    "empty_splitters": ExperimentAST(
        id="h8", splitting_fields=[], salt="s", conditions=groups(("a", 1), ("b", 1))
    ),
    "odd_names": ExperimentAST(
        id="h9",
        splitting_fields=["B", "a", "_", "A1", "a"],
        salt="k",
        conditions=cond(
            IF,
            term_pred(ID(name="Z"), EQ, ID(name="_")),
            groups(("x", 1)),
            cond(ELSE, None, groups(("y", 1), ("w", 1))),
        ),
    ),
    "string_terms": ExperimentAST(
        id="h10",
        splitting_fields=["u"],
        salt="new\nline\t'\"\\",
        conditions=cond(
            IF,
            term_pred("new\nline {0} {left} %s", EQ, ID(name="v")),
            groups(("{", 1), ("}", 1), (" \x85", 1)),
        ),
    ),
    "not_of_not": ExperimentAST(
        id="h11",
        splitting_fields=["u"],
        salt=None,
        conditions=cond(
            IF,
            RecursivePredicate(
                left_predicate=RecursivePredicate(
                    left_predicate=term_pred(ID(name="a"), EQ, 1),
                    boolean_operator=NOT,
                    right_predicate=None,
                ),
                boolean_operator=NOT,
                right_predicate=None,
            ),
            groups(("x", 1)),
        ),
    ),
}

HAND_TREES["control_chars_in_names"] = ExperimentAST(
    id="h\r12\x85",
    splitting_fields=["u\rv", "w\u2028"],
    salt="\r\n",
    conditions=cond(
        IF,
        term_pred(ID(name="x\ry\r\nz"), EQ, ID(name="tab\there \x0c \ud800")),
        groups(("a\r\nb", 1)),
        cond(ELSE, None, groups(("c", 1))),
    ),
)

ALL_OPS = ExperimentAST(
    id="ops",
    splitting_fields=["u"],
    salt=None,
    conditions=None or groups(("x", 1)),
)
op_chain = None
for op in reversed(list(LogicalOperatorEnum)):
    op_chain = cond(
        IF if op is LogicalOperatorEnum.EQ else ELIF,
        term_pred(ID(name="l"), op, ID(name="r")),
        groups((op.name, 1)),
        op_chain,
    )
HAND_TREES["all_comparisons"] = ExperimentAST(
    id="ops", splitting_fields=["u"], salt=None, conditions=op_chain
)
bool_chain = None
for op in reversed(list(BooleanOperatorEnum)):
    bool_chain = cond(
        IF if op is BooleanOperatorEnum.AND else ELIF,
        RecursivePredicate(
            left_predicate=term_pred(ID(name="p"), EQ, 1),
            boolean_operator=op,
            right_predicate=term_pred(ID(name="q"), EQ, 1),
        ),
        groups((op.name, 1)),
        bool_chain,
    )
HAND_TREES["all_connectives"] = ExperimentAST(
    id="bops", splitting_fields=["u"], salt=None, conditions=bool_chain
)


def probe_tree(tree):
    record = {}
    for exposed in (True, False):
        gen = PythonCodeGen(tree, expose_experiment_variant_function=exposed)
        before = [gen.local_vars, gen.conditional_ids, gen.indent()]
        key_only = PythonCodeGen(tree, expose_experiment_variant_function=exposed)
        key_expr = outcome(key_only.generate_key_definition)
        first = outcome(gen.generate)
        after = [gen.local_vars, gen.conditional_ids, gen.indent()]
        # the lists handed out are the caller's own: changing them changes nothing
        gen.local_vars.append("zzz")
        gen.conditional_ids.clear()
        handed_out = gen.conditional_ids
        handed_out.insert(0, "aaa")
        second = outcome(gen.generate)
        record[str(exposed)] = {
            "before": before,
            "key": key_expr,
            "key_names": [key_only.local_vars, key_only.conditional_ids],
            "first": first,
            "after": after,
            "second_equal": first == second,
            "after_second": [gen.local_vars, gen.conditional_ids, gen.indent()],
            "topline": gen.render_topline(),
            "fresh_lists": gen.local_vars is not gen.local_vars
            and gen.conditional_ids is not gen.conditional_ids,
            "list_types": [type(gen.local_vars).__name__, type(gen.conditional_ids).__name__],
        }
        if "ok" in first:
            record[str(exposed)]["run"] = run_generated(first["ok"], tree.id)
        for unit in ("", "\r", "\n", "ab", "\u2028 "):
            odd = PythonCodeGen(
                tree, indentation_char=unit, expose_experiment_variant_function=exposed
            )
            record[str(exposed)][f"unit {unit!r}"] = [outcome(odd.generate), odd.indent()]
    return record


OUT["hand_trees"] = {name: probe_tree(tree) for name, tree in HAND_TREES.items()}


# trees that bypass validation: only the class and message of the failure
def malformed():
    good_groups = groups(("x", 1))
    yield "bad_predicate_type", ExperimentAST.construct(
        id="m1",
        splitting_fields=["u"],
        salt=None,
        conditions=ExperimentConditional.construct(
            conditional_type=IF,
            predicate="a == 1",
            true_branch=good_groups,
            false_branch=None,
        ),
    )
    yield "bad_condition_type", ExperimentAST.construct(
        id="m2", splitting_fields=["u"], salt=None, conditions=42
    )
    yield "bad_operator", ExperimentAST.construct(
        id="m3",
        splitting_fields=["u"],
        salt=None,
        conditions=ExperimentConditional.construct(
            conditional_type=IF,
            predicate=TerminalPredicate.construct(
                left_term=1, logical_operator="==", right_term=2
            ),
            true_branch=good_groups,
            false_branch=None,
        ),
    )
    for label, node in (
        ("terminal_with_and", TerminalPredicate.construct(
            left_term=ID(name="a"), logical_operator=AND, right_term=ID(name="b"))),
        ("terminal_with_not", TerminalPredicate.construct(
            left_term=ID(name="a"), logical_operator=NOT, right_term=ID(name="b"))),
        ("recursive_with_eq", RecursivePredicate.construct(
            left_predicate=term_pred(ID(name="a"), EQ, 1),
            boolean_operator=EQ,
            right_predicate=term_pred(ID(name="b"), EQ, 1))),
        ("recursive_with_value", RecursivePredicate.construct(
            left_predicate=term_pred(ID(name="a"), EQ, 1),
            boolean_operator=3,
            right_predicate=None)),
        ("recursive_with_none", RecursivePredicate.construct(
            left_predicate=term_pred(ID(name="a"), EQ, 1),
            boolean_operator=None,
            right_predicate=None)),
    ):
        yield label, ExperimentAST.construct(
            id="mx",
            splitting_fields=["u"],
            salt=None,
            conditions=ExperimentConditional.construct(
                conditional_type=IF,
                predicate=node,
                true_branch=good_groups,
                false_branch=None,
            ),
        )
    yield "bad_nested_condition", ExperimentAST.construct(
        id="m4",
        splitting_fields=["u"],
        salt=None,
        conditions=ExperimentConditional.construct(
            conditional_type=IF,
            predicate=term_pred(ID(name="a"), EQ, 1),
            true_branch=good_groups,
            false_branch="else",
        ),
    )


OUT["malformed_trees"] = {
    name: {
        str(exposed): jsonable(
            outcome(
                PythonCodeGen(tree, expose_experiment_variant_function=exposed).generate
            )
        )
        for exposed in (True, False)
    }
    for name, tree in malformed()
}


# --------------------------------------------------------------------------
# 3. how deep a tree may be before the interpreter gives up
# --------------------------------------------------------------------------
def chain_tree(n):
    node = None
    for i in range(n, 0, -1):
        node = cond(
            IF if i == 1 else ELIF,
            term_pred(ID(name="a"), EQ, ID(name="b")),
            groups(("x", 1)),
            node,
        )
    return node


def nested_tree(n):
    node = groups(("x", 1))
    for _ in range(n):
        node = cond(IF, term_pred(ID(name="a"), EQ, ID(name="b")), node)
    return node


def not_tree(leaf):
    def build(n):
        node = leaf
        for _ in range(n):
            node = RecursivePredicate(
                left_predicate=node, boolean_operator=NOT, right_predicate=None
            )
        return cond(IF, node, groups(("x", 1)))

    return build


def and_tree(n):
    node = term_pred(ID(name="a"), EQ, ID(name="b"))
    for _ in range(n):
        node = RecursivePredicate(
            left_predicate=node,
            boolean_operator=AND,
            right_predicate=term_pred(ID(name="a"), EQ, 1),
        )
    return cond(IF, node, groups(("x", 1)))


def or_right_tree(n):
    node = term_pred(ID(name="a"), EQ, "s")
    for _ in range(n):
        node = RecursivePredicate(
            left_predicate=term_pred(ID(name="a"), EQ, ID(name="b")),
            boolean_operator=OR,
            right_predicate=node,
        )
    return cond(IF, node, groups(("x", 1)))


def tuple_tree(leaf):
    def build(n):
        node = leaf
        for _ in range(n):
            node = [node]
        return cond(IF, term_pred(ID(name="a"), IN, tuple(node)), groups(("x", 1)))

    return build


def group_only(n):
    return groups(*[("x", 1)] * (n % 3 + 1))


FAMILIES = {
    "elif_chain": chain_tree,
    "nested_if": nested_tree,
    "not_ident_leaf": not_tree(term_pred(ID(name="a"), EQ, ID(name="b"))),
    "not_string_leaf": not_tree(term_pred("a", EQ, "b")),
    "not_number_leaf": not_tree(term_pred(1, EQ, 2.5)),
    "and_left": and_tree,
    "or_right": or_right_tree,
    "tuple_of_number": tuple_tree(1),
    "tuple_of_string": tuple_tree("s"),
    "tuple_of_ident": tuple_tree(ID(name="z")),
    "tuple_of_empty": tuple_tree([]),
}


def generates(build, n, exposed):
    tree = ExperimentAST(
        id="deep", splitting_fields=["u"], salt=None, conditions=build(n)
    )
    gen = PythonCodeGen(tree, expose_experiment_variant_function=exposed)
    try:
        gen.generate()
        return True, None
    except RecursionError as exc:
        return False, type(exc).__name__


def deepest(build, exposed):
    """largest n that still generates under the lowered recursion limit"""
    lo, hi = 1, 400  # generates(lo) is True, generates(hi) is False
    assert generates(build, lo, exposed)[0] and not generates(build, hi, exposed)[0]
    while hi - lo > 1:
        mid = (lo + hi) // 2
        if generates(build, mid, exposed)[0]:
            lo = mid
        else:
            hi = mid
    return lo


def depth_profile():
    # warm every lazily filled cache before measuring
    for build in FAMILIES.values():
        generates(build, 5, True)
        generates(build, 5, False)
    old = sys.getrecursionlimit()
    sys.setrecursionlimit(200)
    try:
        return {
            name: [deepest(build, True), deepest(build, False)]
            for name, build in FAMILIES.items()
        }
    finally:
        sys.setrecursionlimit(old)


OUT["deepest_tree_under_limit_200"] = depth_profile()


def deep_text_outcomes():
    def chain(n):
        arms = "if a == 0 { return 1 weighted 1 }" + "".join(
            f" else if a == {i} {{ return 1 weighted 1 }}" for i in range(1, n)
        )
        return "def f { splitters: u " + arms + " }"

    def nots(n):
        return "def f { if " + "not " * n + "a == b { return 1 weighted 1 } }"

    def tuples(n):
        return "def f { if a in " + "(" * n + "1" + ")" * n + " { return 1 weighted 1 } }"

    def nested(n):
        return (
            "def f { " + "if a == 1 { " * n + "return 1 weighted 1" + " }" * n + " }"
        )

    record = {}
    for label, text in (
        ("chain900", chain(900)),
        ("chain1200", chain(1200)),
        ("nots150", nots(150)),
        ("nots400", nots(400)),
        ("nots1200", nots(1200)),
        ("tuples150", tuples(150)),
        ("tuples400", tuples(400)),
        ("tuples1200", tuples(1200)),
        ("nested90", nested(90)),
        ("nested120", nested(120)),
        ("nested1200", nested(1200)),
    ):
        result = outcome(ExperimentEvaluator, text)
        record[label] = (
            "ok" if "ok" in result else result["raised"]
        )
    return record


OUT["deep_texts"] = deep_text_outcomes()


# --------------------------------------------------------------------------
# 4. evaluator lifecycle
# --------------------------------------------------------------------------
def lifecycle():
    log = []
    text_a = VALID_TEXTS["salt_split"]
    text_b = VALID_TEXTS["kw_prefixed"]
    text_c = VALID_TEXTS["plain"]
    bad_1 = INVALID_TEXTS["bad_char"]
    bad_2 = INVALID_TEXTS["missing_brace"]
    bad_3 = INVALID_TEXTS["empty"]

    def snapshot(ev, label):
        random.seed(5)
        fn = ev.__dict__.get("run_experiment")
        log.append(
            {
                "step": label,
                "checksum": ev._checksum,
                "has_fn": fn is not None,
                "fn_name": getattr(fn, "__name__", None),
                "call_uid": jsonable(outcome(ev, uid="u-1")),
                "call_other": jsonable(
                    outcome(ev, iffy=1, input=2, notation=3, elsewhere=4, ord=5,
                            inner=1, nothing="q", orange=1, andy=3)
                ),
                "call_none": jsonable(outcome(ev)),
            }
        )

    ev = ExperimentEvaluator(text_a)
    snapshot(ev, "construct a")
    first_fn = ev.run_experiment
    log.append({"recompile same": jsonable(outcome(ev.recompile, text_a))})
    log.append({"same function object kept": ev.run_experiment is first_fn})
    snapshot(ev, "after same")
    log.append({"recompile bad_1": jsonable(outcome(ev.recompile, bad_1))})
    log.append({"function kept after failure": ev.run_experiment is first_fn})
    snapshot(ev, "after bad_1")
    log.append({"recompile bad_1 again": jsonable(outcome(ev.recompile, bad_1))})
    log.append({"recompile bad_2": jsonable(outcome(ev.recompile, bad_2))})
    log.append({"recompile bad_3": jsonable(outcome(ev.recompile, bad_3))})
    snapshot(ev, "after bad run")
    log.append({"recompile b": jsonable(outcome(ev.recompile, text_b))})
    log.append({"function replaced": ev.run_experiment is not first_fn})
    snapshot(ev, "after b")
    log.append({"recompile a + space": jsonable(outcome(ev.recompile, text_a + " "))})
    snapshot(ev, "after a + space")
    log.append({"recompile a": jsonable(outcome(ev.recompile, text_a))})
    snapshot(ev, "after a")
    log.append({"recompile c": jsonable(outcome(ev.recompile, text_c))})
    snapshot(ev, "after c")
    log.append({"construct bad": jsonable(outcome(ExperimentEvaluator, bad_1))})
    log.append({"construct none": jsonable(outcome(ExperimentEvaluator, None))})
    log.append({"construct bytes": jsonable(outcome(ExperimentEvaluator, b"def x{}"))})
    log.append({"class default": jsonable(outcome(ExperimentEvaluator.run_experiment, None))})
    other = ExperimentEvaluator(text_a)
    log.append({"instances independent": other.run_experiment is not ev.run_experiment})
    log.append({"class checksum untouched": ExperimentEvaluator._checksum})
    for deep in ("nots400", "chain1200"):
        pass
    return log


OUT["lifecycle"] = lifecycle()


def threads():
    texts = [VALID_TEXTS[k] for k in ("salt_split", "field_both", "plain", "deep_ifs")]
    shared = ExperimentEvaluator(texts[0])
    results = {}
    errors = []

    def worker(idx):
        try:
            mine = ExperimentEvaluator(texts[idx % len(texts)])
            seen = []
            for i in range(30):
                mine.recompile(texts[(idx + i) % len(texts)])
                shared.recompile(texts[0])  # unchanged text: a no-op for everyone
                seen.append(str(outcome(shared, uid=f"t{i}")))
                code = generate_code(texts[(idx + i) % len(texts)], bool(i % 2))
                seen.append(hashlib.sha256(code.encode()).hexdigest())
            results[idx] = hashlib.sha256("".join(seen).encode()).hexdigest()
        except BaseException as exc:  # noqa: B902
            errors.append(type(exc).__name__)

    pool = [threading.Thread(target=worker, args=(i,)) for i in range(8)]
    for t in pool:
        t.start()
    for t in pool:
        t.join()
    return {"results": [results.get(i) for i in range(8)], "errors": sorted(errors)}


OUT["threads"] = threads()


# --------------------------------------------------------------------------
# 5. bucketing and statistics
# --------------------------------------------------------------------------
def bucketing():
    record = {}
    ids = [f"id_{i}" for i in range(300)] + ["", " ", "é", "日本", "a" * 1000, "\x00"]
    record["proba"] = hashlib.sha256(
        "".join(repr(deterministic_proba(i)) for i in ids).encode()
    ).hexdigest()
    record["proba_sample"] = [repr(deterministic_proba(i)) for i in ids[:5] + ids[-6:]]
    populations = [["a", "b"], ["a", "b", "c"], [1, 2, 3, 4, 5, 6, 7], ["only"]]
    weight_sets = [None, [1, 1], [1, 2, 3], [0, 0, 1], [0.5, 0.25, 0.25],
                   [1, 0, 0, 0, 0, 0, 3], [1], [0], [], [1e308, 1e308], [-1, 2],
                   [float("inf"), 1], [1, 2, 3, 4, 5, 6, 7]]
    rows = []
    for pop, weights in itertools.product(populations, weight_sets):
        for salt in ("", "s1", "é"):
            picks = [
                jsonable(outcome(deterministic_choice, salt + i, pop, weights))
                for i in ids[:60] + ids[-6:]
            ]
            rows.append(
                [repr(pop), repr(weights), salt,
                 hashlib.sha256(json.dumps(picks).encode()).hexdigest(), picks[0]]
            )
    record["choice"] = rows
    record["cum"] = [
        jsonable(outcome(deterministic_choice, "id_1", ["a", "b"], cum_weights=[1, 3])),
        jsonable(outcome(deterministic_choice, "id_1", ["a", "b"], [1, 2], cum_weights=[1, 3])),
        jsonable(outcome(deterministic_choice, "id_1", [], None)),
        jsonable(outcome(deterministic_choice, 5, ["a", "b"], [1, 2])),
    ]
    random.seed(11)
    record["none_id"] = [deterministic_choice(None, ["a", "b", "c"], [1, 2, 3]) for _ in range(20)]
    return record


OUT["bucketing"] = bucketing()

OUT["stats"] = {
    "probit": [
        jsonable(outcome(stats.probit, a))
        for a in (0.5, 0.975, 0.025, 0.001, 0.9995, 0.0, 1.0, 1.5, -0.1)
    ],
    "ci": [
        jsonable(outcome(stats.confidence_interval, n, p, c, m))
        for n, p, c, m in (
            (10, 0.5, 0.95, "agresti-coull"),
            (10000, 0.8, 0.999, "agresti-coull"),
            (10000, 0.2, 0.999, "Agresti-Coull"),
            (100, 0.0, 0.9, "wald"),
            (100, 1.0, 0.9, "WALD"),
            (0, 0.5, 0.95, "wald"),
            (0, 0.5, 0.95, "agresti-coull"),
            (50, 0.3, 0.5, "wilson"),
            (50, 0.3, 1.0, "wald"),
            (50, 1.3, 0.9, "wald"),
        )
    ],
    "defaults": jsonable(outcome(stats.confidence_interval)),
}

print(json.dumps(jsonable(OUT), indent=1, sort_keys=True, ensure_ascii=True))

"""Exercises the opt-in validation / dry-run API (find_problems, check_source)."""

import importlib.util
import os

from pyab_experiment.data_structures.syntax_tree import AstProblem, find_problems
from pyab_experiment.experiment_evaluator import ExperimentEvaluator
from pyab_experiment.language.grammar import ExperimentCheckError, check_source
from pyab_experiment.utils.wraper_functions import parse_source

spec = importlib.util.spec_from_file_location(
    "probe", os.path.join(os.path.dirname(os.path.abspath(__file__)), "probe.py"))
probe = importlib.util.module_from_spec(spec)
spec.loader.exec_module(probe)
P = probe.PROGRAMS


def codes(text, **kw):
    found = check_source(text, **kw)
    assert all(isinstance(p, AstProblem) and p.severity in ("error", "warning") for p in found)
    return [p.code for p in found]


assert codes(P["salt_split"]) == []
assert codes(P["kw_prefixed"]) == []
assert codes(P["nested_tuples"]) == []
assert codes(P["plain"]) == []
assert codes(P["dup_splitter"]) == ["duplicate-splitter"]
assert codes(P["if_only"]) == ["no-default"]
assert codes(P["nested_if"]) == ["no-default"]
assert codes(P["zero_weights"]) == ["unusable-weights"]
assert codes(P["big_weight"]) == ["unusable-weights"]
assert codes(P["id_python_kw"]) == ["python-keyword", "no-default"]
assert codes(P["id_name_python_kw"]) == ["python-keyword"]
assert codes(P["id_kwargs"]) == ["python-keyword"]
assert codes("def kwargs { splitters: u return 1 weighted 1 }") == ["reserved-name"]
assert codes(P["id_builtin"]) == ["reserved-name", "reserved-name"]
assert codes(P["id_partial"]) == ["reserved-name", "reserved-name"]
assert codes("def a { splitters: u return 'x' weighted 1, 1 weighted 1, 'x' weighted 2 }") == ["duplicate-group"]
assert codes("def a { splitters: u return 1 weighted 1, 1.0 weighted 1, '1' weighted 2 }") == []
assert codes("def a { splitters: u if x in (1, (class, 2)) { return 0 weighted 0 } else { return 1 weighted 1 } }") == [
    "python-keyword", "unusable-weights"]

# a rejected text is reported, not raised, with the class and message of the parser's error
for name in ("trailing_comma", "garbage", "empty", "unterminated_str", "kw_as_id", "nested_block2"):
    try:
        parse_source(P[name])
    except Exception as e:
        expected = f"{type(e).__name__}: {e}"
    found = check_source(P[name])
    assert [tuple(p) for p in found] == [("error", "syntax", expected)], (name, found)

for text in ("def a { return 1 weighted " + "9" * 400 + " }", "def a { return " + "9" * 5000 + " weighted 1 }"):
    try:
        parse_source(text)
    except (OverflowError, ValueError) as e:
        assert [tuple(p) for p in check_source(text)] == [("error", "syntax", f"{type(e).__name__}: {e}")]
    else:
        raise AssertionError("accepted")

# the verdict agrees with what really happens
for name, text in P.items():
    found = check_source(text)
    errors = [p for p in found if p.severity == "error"]
    try:
        ev = ExperimentEvaluator(text)
    except Exception:
        assert errors, name  # whatever cannot be loaded is flagged as an error
        continue
    if any(p.code in ("syntax", "python-keyword") for p in errors):
        raise AssertionError(name)
    if not errors and not found:
        # nothing to report: a call with every field given never fails for lack of a group
        tree = parse_source(text)
        fields = sorted(probe.collect_idents(tree, set()) | set(tree.splitting_fields or []))
        ev(**{f: 1 for f in fields})

# strict mode
assert check_source(P["if_only"], strict=True)[0].code == "no-default"  # warnings do not raise
for text in (P["garbage"], P["zero_weights"], P["id_python_kw"]):
    try:
        check_source(text, strict=True)
    except ExperimentCheckError as e:
        assert isinstance(e, ValueError) and e.problems and str(e) == "; ".join(p.message for p in e.problems)
    else:
        raise AssertionError(text)

# find_problems works on a tree directly and leaves it alone
tree = parse_source(P["id_python_kw"])
before = tree.json()
assert [p.code for p in find_problems(tree)] == ["python-keyword", "no-default"]
assert "'class' is reserved in python" in find_problems(tree)[0].message
assert tree.json() == before
print("usage ok")

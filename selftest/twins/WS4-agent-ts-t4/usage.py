"""Exercises explain / explain_source added by t4 (exits 0 with the patch)."""
from pyab_experiment.binning.binning import deterministic_choice
from pyab_experiment.codegen.python.custom_exceptions import (
    ExperimentConditionalFailedError,
)
from pyab_experiment.experiment_evaluator import (
    BranchExplanation,
    ExperimentEvaluator,
    SourceMismatchError,
    explain_source,
)

TEXT = (
    "def exp{ salt: 'sél\"t' splitters: uid, region\n"
    " if tier in (1, (2, 3)) and not region == 'us' { return 'a' weighted 1, 'b' weighted 3 }\n"
    " else if tier == 4 { return 'c' weighted 1, 'c' weighted 1, 5 weighted 2 }\n"
    " else if tier == 5 { return 'zero' weighted 0 } }"
)
ev = ExperimentEvaluator(TEXT)
before = dict(vars(ev))

for i in range(300):
    row = {"uid": f"u{i}", "region": ["eu", "us"][i % 2], "tier": [1, (2, 3), 4][i % 3], "noise": i}
    try:
        expected = ev(**row)
    except ExperimentConditionalFailedError:
        try:
            ev.explain(TEXT, **row)
        except ExperimentConditionalFailedError:
            continue
        raise AssertionError("explain routed an unroutable row")
    why = ev.explain(TEXT, **row)
    assert isinstance(why, BranchExplanation)
    assert why.variant == expected and why.experiment_name == "exp"
    assert why.key == "sél\"t" + row["region"] + row["uid"]  # splitters in sorted order
    assert deterministic_choice(why.key, list(why.population), list(why.weights)) == expected
    if row["tier"] == 4:
        assert why.population == ("c", "c", 5) and why.weights == (1, 1, 2)
        assert why.probabilities == {"c": 0.5, 5: 0.5}
    else:
        assert why.population == ("a", "b") and why.probabilities == {"a": 0.25, "b": 0.75}

# the call's own errors come through
for bad, error in (({"uid": 1, "region": "eu"}, TypeError), ({"uid": 1, "region": "eu", "tier": 5}, ValueError)):
    try:
        ev.explain(TEXT, **bad)
    except error:
        pass
    else:
        raise AssertionError(bad)

# only the loaded text can be explained through the evaluator
try:
    ev.explain(TEXT + " ", uid=1, region="eu", tier=1)
except SourceMismatchError as e:
    assert isinstance(e, ValueError)
else:
    raise AssertionError
# ... any text through the function; no splitters: key is None
free = explain_source("def free{ return 'x' weighted 1 }", anything=1)
assert free == ("free", ("x",), (1,), None, "x")
# field names cannot collide with the parameter
assert explain_source("def s{ splitters: source_code return 'x' weighted 1 }", source_code=3).key == "3"

assert vars(ev) == before  # explaining loads and stores nothing
print("t4 usage ok")

"""Exercises the optional hasher= keyword of the bucketing functions (needs the patch)."""

import hashlib
from functools import partial

from pyab_experiment.binning.binning import deterministic_choice, deterministic_proba

ids = [f"user_{i}" for i in range(5000)] + ["", "é", "日本語"]
groups = ["a", "b", "c"]

# the default and an explicit None are today's md5 path; md5 passed explicitly agrees too
for i in ids:
    assert deterministic_proba(i) == deterministic_proba(i, hasher=None)
    assert deterministic_proba(i) == deterministic_proba(i, hasher=hashlib.md5)
    assert deterministic_choice(i, groups, [1, 2, 3]) == deterministic_choice(
        i, groups, [1, 2, 3], hasher=hashlib.md5
    )
    assert deterministic_choice(i, groups) == deterministic_choice(i, groups, hasher=None)

# another hash: still deterministic, in range, and a different (independent) split
sha = [deterministic_proba(i, hasher=hashlib.sha256) for i in ids]
assert sha == [deterministic_proba(i, hasher=hashlib.sha256) for i in ids]
assert all(0.0 <= x < 1.0 for x in sha)
assert sha != [deterministic_proba(i) for i in ids]
expected = int.from_bytes(hashlib.sha256("user_1".encode()).digest()[:4], "big") / 2**32
assert deterministic_proba("user_1", hasher=hashlib.sha256) == expected

# a keyed hash through functools.partial (an experiment-wide secret instead of a salt)
keyed = partial(hashlib.blake2b, key=b"secret", digest_size=8)
counts = {g: 0 for g in groups}
for i in ids:
    counts[deterministic_choice(i, groups, [1, 1, 2], hasher=keyed)] += 1
    assert deterministic_choice(i, groups, hasher=keyed) in groups
    assert deterministic_choice(i, groups, cum_weights=[1, 2, 4], hasher=keyed) == deterministic_choice(
        i, groups, [1, 1, 2], hasher=keyed
    )
assert abs(counts["c"] / len(ids) - 0.5) < 0.03, counts

# argument checks are the same with a hasher, and the hasher itself is checked
def refused(error, fn, *args, **kwargs):
    try:
        fn(*args, **kwargs)
    except error:
        return
    raise AssertionError((args, kwargs))

refused(ValueError, deterministic_choice, "x", groups, [1, 2], hasher=hashlib.sha1)
refused(ValueError, deterministic_choice, "x", groups, [0, 0, 0], hasher=hashlib.sha1)
refused(TypeError, deterministic_choice, "x", groups, [1, 1, 1], cum_weights=[1, 2, 3], hasher=hashlib.sha1)
refused(TypeError, deterministic_proba, "x", hasher="md5")
refused(ValueError, deterministic_proba, "x", hasher=partial(hashlib.blake2b, digest_size=2))
refused(TypeError, deterministic_proba, "x", hashlib.sha1)  # keyword only
# None id: random fallback, the hasher is not consulted
assert deterministic_choice(None, groups, hasher="not even callable") in groups

print(counts)
print("usage OK")

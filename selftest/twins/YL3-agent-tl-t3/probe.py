"""Differential probe for behaviour-preserving refactorings of pyab_experiment.

Run as:  PYTHONPATH=/tmp/wt/TL/src /venv/bin/python probe.py
Prints one deterministic JSON document (sorted keys).  The output must be
byte-identical with and without the patch under test.
"""

import hashlib
import inspect
import io
import json
import os
import random
import re
import subprocess
import sys
import threading
from contextlib import redirect_stderr

# str hashing (hence the iteration order of the token *sets* the lexer and parser
# are built from) is randomised per process: pin it, and look at several seeds
HASH_SEEDS = ("0", "1", "4242")
if os.environ.get("PYAB_PROBE_CHILD") != "1":
    combined = {}
    for seed in HASH_SEEDS:
        env = dict(os.environ, PYTHONHASHSEED=seed, PYAB_PROBE_CHILD="1")
        child = subprocess.run(
            [sys.executable, os.path.abspath(__file__)],
            env=env, capture_output=True, text=True,
        )
        combined[f"hashseed={seed}"] = {
            "returncode": child.returncode,
            "stderr": child.stderr,
            "stdout": json.loads(child.stdout) if child.returncode == 0 else child.stdout,
        }
    json.dump(combined, sys.stdout, sort_keys=True, indent=1, ensure_ascii=True)
    sys.stdout.write("\n")
    sys.exit(0)

_import_stderr = io.StringIO()
with redirect_stderr(_import_stderr):
    import pyab_experiment
    import pyab_experiment.sly as sly_pkg
    from pyab_experiment.binning.binning import (
        deterministic_choice,
        deterministic_proba,
    )
    from pyab_experiment.codegen.python import custom_exceptions
    from pyab_experiment.codegen.python.custom_exceptions import (
        ExperimentConditionalFailedError,
    )
    from pyab_experiment.codegen.python.python_generator import PythonCodeGen
    from pyab_experiment.data_structures import syntax_tree
    from pyab_experiment.experiment_evaluator import ExperimentEvaluator, ParseError
    from pyab_experiment.language.grammar import ExperimentParser
    from pyab_experiment.language.lexer import BlockComment, ExperimentLexer
    from pyab_experiment.sly import lex as sly_lex
    from pyab_experiment.sly import yacc as sly_yacc
    from pyab_experiment.utils import stats
    from pyab_experiment.utils.wraper_functions import generate_code, parse_source

OUT = {}


def sha(text: str) -> str:
    return hashlib.sha256(text.encode("utf-8", "surrogatepass")).hexdigest()


def describe_exc(e: BaseException) -> dict:
    d = {
        "class": type(e).__name__,
        "module": type(e).__module__,
        "mro": [c.__name__ for c in type(e).__mro__],
        "str": str(e),
        "args": repr(e.args),
    }
    for extra in ("text", "error_index", "message"):
        if hasattr(e, extra):
            d[extra] = repr(getattr(e, extra))
    return d


# ---------------------------------------------------------------------------
# corpus of experiment texts
# ---------------------------------------------------------------------------
VALID = {
    "minimal": "def a{return 1 weighted 1}",
    "kw_prefixed_ids": (
        "def define_me{ splitters: iffy, inner, notable, android, orange, "
        "returned, elsewhere, salty, weighted_x, defx, splitters_1 "
        "if iffy == 1 and inner in (1,2) or notable not in ('a','b') "
        "{return 'x' weighted 1, 'y' weighted 2} "
        "else if android != orange {return 1 weighted 1} "
        "elseif returned <= elsewhere {return 2 weighted 1} "
        "else   if salty >= weighted_x {return 3 weighted 1} "
        "else{return -1 weighted 0.5, -2.5 weighted 1.5}}"
    ),
    "nested_tuples": (
        "def t{ if x in ((1,2),(3,(4,5)),('a')) {return 1 weighted 1}"
        " else if (y) == ((1),(2)) {return 2 weighted 2}"
        " else if (x, y) not in ((1, 2), (-3, -4.5)) {return 3 weighted 1}"
        " else {return 'z' weighted 1}}"
    ),
    "comments": (
        "/* head \n multi\n line */ def c /* inline */ { // trailing\n"
        "salt: 'pepper' // c1\n/* a */ /* b */ splitters: a, // x\n b\n"
        "/* star ** / * in comment\n*/ return 'a' /*w*/ weighted /*q*/ 1 // end\n"
        ", 'b' weighted 2 }\n// after\n/* after */"
    ),
    "quotes_backslashes": (
        "def q{ salt: \"it's\" splitters: k "
        "if f == 'say \"hi\"' {return \"a\\\\b\" weighted 1, 'c\\n' weighted 1}"
        " else if f == \"\" {return '' weighted 1}"
        " else if f == '//not a comment' {return '/* nor this */' weighted 2}"
        " else {return \"tab\there\" weighted 1, '{}' weighted 3}}"
    ),
    "non_ascii": (
        "def unicode_exp{ salt: 'sél🧂' splitters: uid "
        "if country in ('日本', 'España', 'Ελλάδα') {return 'ünï' weighted 1, "
        "'日本語' weighted 2} else {return 'ß' weighted 1}}"
    ),
    "non_ascii_ws": "def w {　return 1 weighted 1 }",
    "numbers": (
        "def n{ if a > 1.50 and b < -0.0 or c >= 00012 and d <= 1000 "
        "{return 0 weighted 0, 1 weighted 1.0} "
        "else if a == 3.14159265358979323846264338327950288 {return 007 weighted 010}"
        " else {return -0 weighted 0.0, 2 weighted 2}}"
    ),
    "huge_float": (
        "def h{ if a < " + "9" * 400 + ".0 and a > -" + "9" * 400 + ".5 "
        "{return " + "9" * 400 + ".0 weighted 1} else {return 1 weighted 1}}"
    ),
    "huge_int": "def hi{ if a == " + "1" * 60 + " {return " + "7" * 50 + " weighted 2}}",
    "precedence": (
        "def p{ if not a == 1 and b == 2 or not (c == 3 or d == 4) and not not e == 5 "
        "{return 1 weighted 1} else if (((a == 1))) {return 2 weighted 1}}"
    ),
    "not_in_spacing": (
        "def ni{ if a not   in (1,2) {return 1 weighted 1} "
        "else if a not\n\tin (3) {return 2 weighted 1} "
        "else if not a in (4,5) {return 3 weighted 1} else {return 4 weighted 1}}"
    ),
    "splitter_and_condition": (
        "def both{ salt: 's' splitters: uid, zone if zone == 'eu' and uid != 'x' "
        "{return 'a' weighted 1, 'b' weighted 1, 'c' weighted 1} "
        "else {return 'd' weighted 9, 'e' weighted 1}}"
    ),
    "dup_splitters": "def ds{ splitters: b, a, b, a return 'x' weighted 1, 'y' weighted 1}",
    "salt_only": "def so{ salt: 'only' return 'x' weighted 1, 'y' weighted 1}",
    "ident_vs_ident": (
        "def ii{ if f1 == f2 {return 'same' weighted 1} "
        "else if f1 in f3 {return 'member' weighted 1} "
        "else if 'lit' == f1 {return 'lit' weighted 1} "
        "else if 1 < 2 {return 'const' weighted 1}}"
    ),
    "deep_nesting": (
        "def dn{ if a == 1 { if b == 1 { if c == 1 { if d == 1 {return 1 weighted 1}"
        " else {return 2 weighted 1} } else if c == 2 {return 3 weighted 1} }"
        " else {return 4 weighted 1} } else if a == 2 { if b == 2 {return 5 weighted 1} }"
        " else {return 6 weighted 1}}"
    ),
    "if_without_else": "def iwe{ if a == 1 {return 'only' weighted 1}}",
    "zero_weights": "def zw{ splitters: k return 'a' weighted 0, 'b' weighted 0}",
    "crlf": "def cr{\r\n splitters: k\r\n return 'a' weighted 1,\r\n 'b' weighted 1\r\n}\r\n",
    "comment_eof": "def ce{return 1 weighted 1}// no newline at end",
    "slash_star_in_string": "def ss{ return '/*' weighted 1, '*/' weighted 1}",
    "underscore_ids": "def _x{ splitters: _, __a1 if _ == __a1 {return '_' weighted 1}}",
    "kw_as_group_strings": "def ks{return 'if' weighted 1, 'else' weighted 1, 'def' weighted 1}",
    "upper_kw_like_ids": "def IF{ splitters: ELSE, Return if ELSE == Return {return 1 weighted 1} else {return 2 weighted 1}}",
    "python_kw_field": "def pk{ if x == 1 {return 1 weighted 1}}",
    "many_groups": "def mg{ splitters: k return "
    + ", ".join(f"'g{i}' weighted {i % 7 + 0.25 * (i % 3)}" for i in range(40))
    + "}",
    "mixed_tuple": "def mt{ if k in (1, 'one', 1.0, -1, -1.5, ident2) {return 1 weighted 1} else {return 0 weighted 1}}",
}

INVALID = {
    "empty": "",
    "only_ws": " \n\t ",
    "only_comment": "// nothing\n",
    "open_comment": "/* never closed",
    "open_comment_in_body": "def a{ /* oops return 1 weighted 1}",
    "no_return": "def a{}",
    "missing_brace": "def a{return 1 weighted 1",
    "extra_brace": "def a{return 1 weighted 1}}",
    "trailing_tokens": "def a{return 1 weighted 1} def b{return 1 weighted 1}",
    "illegal_char": "def a{return 1 weighted 1 ; }",
    "illegal_char_at": "def a@{return 1 weighted 1}",
    "illegal_unicode": "def a{return 1 weighted 1 § }",
    "non_ascii_ident": "def añb{return 1 weighted 1}",
    "unterminated_string": "def a{return 'abc weighted 1}",
    "string_newline": "def a{return 'ab\nc' weighted 1}",
    "negative_weight": "def a{return 1 weighted -1}",
    "string_weight": "def a{return 1 weighted '1'}",
    "keyword_as_name": "def if{return 1 weighted 1}",
    "keyword_as_field": "def a{ splitters: in return 1 weighted 1}",
    "salt_after_splitters": "def a{ splitters: x salt: 's' return 1 weighted 1}",
    "salt_ident": "def a{ salt: s return 1 weighted 1}",
    "empty_tuple": "def a{ if x in () {return 1 weighted 1}}",
    "trailing_comma_tuple": "def a{ if x in (1,) {return 1 weighted 1} else if x in (1,2,) {return 2 weighted 1}}",
    "trailing_comma_return": "def a{ return 1 weighted 1, }",
    "double_else": "def a{ if x == 1 {return 1 weighted 1} else {return 2 weighted 1} else {return 3 weighted 1}}",
    "else_without_if": "def a{ else {return 2 weighted 1}}",
    "tuple_group": "def a{ return (1,2) weighted 1}",
    "ident_group": "def a{ return x weighted 1}",
    "float_dot": "def a{ return 1. weighted 1}",
    "dot_float": "def a{ return .5 weighted 1}",
    "exp_weight": "def a{ return 1 weighted 1e3}",
    "chained_cmp": "def a{ if 1 < x < 3 {return 1 weighted 1}}",
    "bare_predicate": "def a{ if x {return 1 weighted 1}}",
    "not_term": "def a{ if x == not y {return 1 weighted 1}}",
    "notin_joined": "def a{ if x notin (1,2) {return 1 weighted 1}}",
    "missing_colon": "def a{ salt 's' return 1 weighted 1}",
    "double_minus": "def a{ return --1 weighted 1}",
    "minus_string": "def a{ return -'a' weighted 1}",
    "mismatched_quotes": "def a{ return 'a\" weighted 1}",
    "eof_after_def": "def",
    "eof_after_if": "def a{ if",
    "upper_keywords": "DEF a{RETURN 1 WEIGHTED 1}",
    "single_eq": "def a{ if x = 1 {return 1 weighted 1}}",
    "bang": "def a{ if !x == 1 {return 1 weighted 1}}",
    "line_error": "def a{\n\n\n return 1 weighted\n\n }",
    "lone_slash": "def a{ / return 1 weighted 1}",
    "star_slash": "def a{ */ return 1 weighted 1}",
    "nested_block_comment": "def a{ /* outer /* inner */ still */ return 1 weighted 1}",
}

ALL_TEXTS = {**{f"V:{k}": v for k, v in VALID.items()}, **{f"I:{k}": v for k, v in INVALID.items()}}


# ---------------------------------------------------------------------------
# static structure of the lexer / parser (any table change shows here)
# ---------------------------------------------------------------------------
def lexer_structure(cls):
    return {
        "master_re": cls._master_re.pattern,
        "master_flags": cls._master_re.flags,
        "rules": [(k, getattr(v, "pattern", v)) for k, v in cls._rules],
        "token_names": sorted(cls._token_names),
        "ignored": sorted(cls._ignored_tokens),
        "token_funcs": sorted(cls._token_funcs),
        "remapping": repr(cls._remapping),
        "tokens": sorted(cls.tokens),
        "literals": sorted(cls.literals),
        "ignore": cls.ignore,
    }


def production_details(g):
    return [
        [repr(p), p.len, len(p), list(p.usyms), list(p.namemap), str(p.lr_next),
         [[str(i), repr(i), i.lr_index, i.len, i.number, list(i.usyms), repr(i.lr_before),
           [str(x) for x in i.lr_after], str(i.lr_next), {str(k): v for k, v in i.lookaheads.items()}]
          for i in p.lr_items]]
        for p in g.Productions
    ]


def parser_structure():
    g = ExperimentParser._grammar
    t = ExperimentParser._lrtable
    action = {str(s): {k: v for k, v in sorted(a.items())} for s, a in t.lr_action.items()}
    goto = {str(s): {k: v for k, v in sorted(a.items())} for s, a in t.lr_goto.items()}
    full = json.dumps(
        {
            "action": action,
            "goto": goto,
            "action_order": [[s, list(a)] for s, a in t.lr_action.items()],
            "goto_order": [[s, list(a)] for s, a in t.lr_goto.items()],
            "defaulted": [[k, v] for k, v in t.defaulted_states.items()],
        },
        sort_keys=True,
    )
    return {
        "productions": [
            [p.number, p.name, list(p.prod), list(p.prec), p.len, list(p.usyms),
             sorted(p.namemap), p.func.__name__ if p.func else None, p.reduced,
             [str(i) for i in p.lr_items]]
            for p in g.Productions
        ],
        "production_details": production_details(g),
        "terminals": {k: v for k, v in g.Terminals.items()},
        "terminal_order": list(g.Terminals) if not isinstance(ExperimentParser.tokens, set) else sorted(g.Terminals),
        "nonterminals": {k: v for k, v in g.Nonterminals.items()},
        "nonterminal_order": list(g.Nonterminals),
        "first": {k: sorted(v) for k, v in g.First.items()},
        "follow": {k: sorted(v) for k, v in g.Follow.items()},
        "precedence": {k: list(v) for k, v in g.Precedence.items()},
        "start": g.Start,
        "n_states": len(t.lr_action),
        "tables_sha": sha(full),
        "defaulted": [[k, v] for k, v in t.defaulted_states.items()],
        "sr_conflicts": [list(c) for c in t.sr_conflicts],
        "rr_conflicts": [[c[0], str(c[1]), str(c[2])] for c in t.rr_conflicts],
        "grammar_str_sha": sha(str(g)),
        "lrtable_str_sha": sha(
            "\n".join(sorted(str(t).split("\n")))
        ),
        "unused_terminals": sorted(g.unused_terminals()),
        "unused_rules": [str(p) for p in g.unused_rules()],
        "unused_precedence": [list(x) for x in g.unused_precedence()],
        "undefined_symbols": [[s, str(p)] for s, p in g.undefined_symbols()],
        "unreachable": g.find_unreachable(),
        "infinite": g.infinite_cycles(),
    }


OUT["lexer_structure"] = {
    "ExperimentLexer": lexer_structure(ExperimentLexer),
    "BlockComment": lexer_structure(BlockComment),
}
OUT["parser_structure"] = parser_structure()

# ---------------------------------------------------------------------------
# package namespaces and exception classes
# ---------------------------------------------------------------------------
OUT["namespaces"] = {
    "pyab_experiment": sorted(n for n in vars(pyab_experiment) if not n.startswith("__")),
    "version": pyab_experiment.__version__,
    "sly_public": sorted(n for n in vars(sly_pkg) if not n.startswith("__")),
    "sly_all": list(sly_pkg.__all__),
    "sly_identity": [
        sly_pkg.Lexer is sly_lex.Lexer,
        sly_pkg.Parser is sly_yacc.Parser,
        sly_pkg.LexerStateChange is sly_lex.LexerStateChange,
    ],
    "lex_all": list(sly_lex.__all__),
    "yacc_all": list(sly_yacc.__all__),
    "custom_exceptions_all": list(custom_exceptions.__all__),
}


def exc_class_info(cls, *ctor_args_list):
    info = {
        "name": cls.__name__,
        "qualname": cls.__qualname__,
        "module": cls.__module__,
        "mro": [c.__name__ for c in cls.__mro__],
        "signature": str(inspect.signature(cls.__init__)) if "__init__" in vars(cls) else None,
        "instances": [],
    }
    for ctor_args in ctor_args_list:
        try:
            e = cls(*ctor_args)
            info["instances"].append(describe_exc(e) | {"repr": repr(e)})
        except Exception as err:  # noqa: BLE001
            info["instances"].append({"ctor_error": type(err).__name__})
    return info


OUT["exceptions"] = [
    exc_class_info(ParseError, (), ("custom",), (None,)),
    exc_class_info(ExperimentConditionalFailedError, (), ("custom",), (None,)),
    exc_class_info(sly_lex.LexError, ("m", "rest", 3), ()),
    exc_class_info(sly_lex.PatternError, (), ("x",)),
    exc_class_info(sly_lex.LexerBuildError, (), ("x",)),
    exc_class_info(sly_lex.LexerStateChange, (ExperimentLexer,), (ExperimentLexer, "tok")),
    exc_class_info(sly_yacc.YaccError, (), ("x", 1)),
    exc_class_info(sly_yacc.GrammarError, (), ("x",)),
    exc_class_info(sly_yacc.LALRError, (), ("x",)),
]
_lsc = sly_lex.LexerStateChange(BlockComment, "t")
OUT["lexer_state_change_attrs"] = [_lsc.newstate.__name__, _lsc.tok, repr(_lsc.args)]

# ---------------------------------------------------------------------------
# tokenisation
# ---------------------------------------------------------------------------
def tokenize(text):
    lexer = ExperimentLexer()
    toks = []
    result = {}
    try:
        for tok in lexer.tokenize(text):
            toks.append([tok.type, repr(tok.value), tok.lineno, tok.index, tok.end])
            if len(toks) == 1:
                result["first_repr"] = repr(tok)
    except Exception as e:  # noqa: BLE001
        result["error"] = describe_exc(e)
    result["tokens"] = toks
    result["final"] = [
        type(lexer).__name__,
        getattr(lexer, "lineno", None),
        getattr(lexer, "index", None),
        sha(getattr(lexer, "text", "<none>")),
    ]
    return result


OUT["tokens"] = {name: tokenize(text) for name, text in ALL_TEXTS.items()}

# tokenizer entry parameters and stand-alone token texts
TOKEN_SNIPPETS = [
    "in", "inn", "in_", "in1", "not in", "not  in", "notin", "not in_x", "not inx",
    "else if", "elseif", "else  \n if", "else ifx", "elseifx", "else", "elsex",
    "if", "iff", "or", "orx", "and", "andx", "def", "defx", "salt", "salts",
    "splitters", "splitter", "weighted", "weightedx", "return", "returns",
    "1", "1.0", "1.", ".1", "1.2.3", "01", "1e5", "1_000", "١٢", "1.٢",
    "'a'", "\"a\"", "'a\"", "''", "\"\"", "'a''b'", "'a' 'b'", "\"a'b\"", "'\\''",
    "==", "===", ">=", "=>", "<=", "=<", "!=", "!", "=", "<>", "><", "- 1", "-1", "--",
    "( )", "(,)", "{ }", ":", "::", ",", "//x", "/ /x", "/*x*/", "/**/", "/***/",
    "/*/", "/* /* */ */", "a/*b*/c", "a//b\nc", "a/*\n\n*/b\nc", "_", "_1", "1_",
    "é", "aé", "a b", "a\tb", "a\x0cb", "a\x1fb", "a\x00b", "a b",
    "iné", "if٠", "not in",
]
OUT["token_snippets"] = {s: tokenize(s) for s in TOKEN_SNIPPETS}


def tokenize_with(text, **kw):
    lexer = ExperimentLexer()
    try:
        return [[t.type, repr(t.value), t.lineno, t.index, t.end] for t in lexer.tokenize(text, **kw)]
    except Exception as e:  # noqa: BLE001
        return describe_exc(e)


OUT["tokenize_params"] = {
    "lineno5": tokenize_with("a\n\nb", lineno=5),
    "index2": tokenize_with("xxdef a", index=2),
    "index_end": tokenize_with("abc", index=3),
    "index_past": tokenize_with("abc", index=10),
}

# ---------------------------------------------------------------------------
# parsing, code generation (both layouts) and execution
# ---------------------------------------------------------------------------
CALL_ARGS = []
_vals = [None, 0, 1, 2, -1, 1.5, "a", "x", "eu", "日本", "", (1, 2), ("a",), [1], 3.14159265358979323846, 12, 1000.0, "say \"hi\"", "//not a comment", 10 ** 59]
for i in range(60):
    rnd = random.Random(i)
    CALL_ARGS.append(
        {name: rnd.choice(_vals) for name in (
            "a", "b", "c", "d", "e", "f", "f1", "f2", "f3", "k", "x", "y", "uid", "zone",
            "country", "iffy", "inner", "notable", "android", "orange", "returned",
            "elsewhere", "salty", "weighted_x", "defx", "splitters_1", "_", "__a1",
            "ELSE", "Return", "ident2",
        )}
    )
for i in range(40):
    CALL_ARGS.append({"uid": f"user-{i}", "k": i, "zone": "eu" if i % 2 else "us", "a": i % 3, "b": i % 2, "c": 1, "d": 1, "x": i % 4, "y": 2, "country": "日本" if i % 3 == 0 else "fr", "f": "", "f1": "lit", "f2": "lit", "f3": "literal", "_": i, "__a1": i, "e": 5})
CALL_ARGS.append({})
CALL_ARGS.append({"unknown_kw": 1})


def run_function(fn):
    random.seed(20240229)  # programs without splitters fall back to random.choices
    results = []
    for kwargs in CALL_ARGS:
        try:
            results.append(repr(fn(**kwargs)))
        except Exception as e:  # noqa: BLE001
            results.append(f"!{type(e).__name__}:{e}")
    return sha(json.dumps(results)), results[:6]


def exec_module(source, fn_name):
    namespace = {}
    exec(compile(source, "<probe>", "exec"), namespace)
    return namespace[fn_name], namespace


def probe_text(text):
    res = {}
    try:
        ast = parse_source(text)
    except Exception as e:  # noqa: BLE001
        res["parse_error"] = describe_exc(e)
        ast = None
    else:
        res["ast_repr"] = repr(ast)
        res["ast_type"] = type(ast).__name__
        if ast is not None:
            res["ast_json_sha"] = sha(ast.json())
            res["ast_copy_eq"] = ast == ast.copy(deep=True)
    for expose in (False, True):
        key = f"expose={expose}"
        try:
            formatted = generate_code(text, expose)
        except Exception as e:  # noqa: BLE001
            res[key] = {"error": describe_exc(e)}
            continue
        entry = {"formatted_sha": sha(formatted), "formatted_len": len(formatted)}
        gen = PythonCodeGen(ast, expose_experiment_variant_function=expose)
        raw = gen.generate()
        entry["raw_sha"] = sha(raw)
        entry["local_vars"] = gen.local_vars
        entry["conditional_ids"] = gen.conditional_ids
        gen2 = PythonCodeGen(ast, indentation_char="    ", expose_experiment_variant_function=expose)
        entry["raw_spaces_sha"] = sha(gen2.generate())
        for label, src in (("formatted", formatted), ("raw", raw)):
            try:
                fn, ns = exec_module(src, ast.id)
                entry[f"{label}_run"] = run_function(fn)
                entry[f"{label}_exposed"] = "choose_experiment_variant" in ns
                entry[f"{label}_sig"] = str(inspect.signature(fn))
            except Exception as e:  # noqa: BLE001
                entry[f"{label}_exec_error"] = describe_exc(e)
        res[key] = entry
    if len(text) < 400:
        try:
            res["formatted_text_F"] = generate_code(text, False)
        except Exception:  # noqa: BLE001
            pass
    return res


OUT["programs"] = {name: probe_text(text) for name, text in ALL_TEXTS.items()}

# generated-text building blocks
_ast = parse_source(VALID["splitter_and_condition"])
_gen = PythonCodeGen(_ast)
OUT["codegen_parts"] = {
    "topline": _gen.render_topline(),
    "key": _gen.generate_key_definition(),
    "key_salt_only": PythonCodeGen(parse_source(VALID["salt_only"])).generate_key_definition(),
    "key_none": PythonCodeGen(parse_source(VALID["minimal"])).generate_key_definition(),
    "ops": {
        str(op): _gen._generate_op(op)
        for enum in (syntax_tree.LogicalOperatorEnum, syntax_tree.BooleanOperatorEnum)
        for op in enum
    },
    "numbers": [PythonCodeGen._generate_number(n) for n in (0, -0.0, 1.5, 10 ** 30, float("inf"), float("-inf"), 1e308, True)],
    "terms": [_gen._generate_term(t) for t in ("s", "it's", 'q"', 1, 1.0, (1,), (1, "a"), [], [[1], [2, 3]], syntax_tree.Identifier(name="zz"))],
    "enum_values": {
        e.__name__: [[m.name, m.value] for m in e]
        for e in (syntax_tree.LogicalOperatorEnum, syntax_tree.BooleanOperatorEnum, syntax_tree.ConditionalType)
    },
}
for bad in ("bad-op", None, 1, syntax_tree.ConditionalType.IF):
    try:
        OUT["codegen_parts"][f"op_{bad!r}"] = _gen._generate_op(bad)
    except Exception as e:  # noqa: BLE001
        OUT["codegen_parts"][f"op_{bad!r}"] = describe_exc(e)


class _EqAnd:
    """compares equal to one operator only, and is unhashable"""

    __hash__ = None

    def __eq__(self, other):
        return other is syntax_tree.BooleanOperatorEnum.AND

    def __str__(self):
        return "eq-and"


class _EqRaises:
    def __eq__(self, other):
        raise ZeroDivisionError(f"compared with {other}")

    def __hash__(self):
        return 1


class _EqLog:
    """records what it is compared with, never equal"""

    def __init__(self):
        self.seen = []

    def __eq__(self, other):
        self.seen.append(str(other))
        return False

    def __hash__(self):
        return hash("EQ")

    def __str__(self):
        return "eq-log"


import unittest.mock  # noqa: E402

_eqlog = _EqLog()
for label, weird in (("mock_any", unittest.mock.ANY), ("eq_and", _EqAnd()), ("list", [1]),
                     ("eq_raises", _EqRaises()), ("eq_log", _eqlog), ("nan", float("nan")), ("str_eq", "EQ")):
    try:
        OUT["codegen_parts"][f"weird_op_{label}"] = _gen._generate_op(weird)
    except Exception as e:  # noqa: BLE001
        OUT["codegen_parts"][f"weird_op_{label}"] = describe_exc(e)
OUT["codegen_parts"]["weird_op_eq_log_seen"] = _eqlog.seen

for bad in (3, "x", None):
    try:
        OUT["codegen_parts"][f"cond_{bad!r}"] = _gen._generate_conditionals(bad)
    except Exception as e:  # noqa: BLE001
        OUT["codegen_parts"][f"cond_{bad!r}"] = describe_exc(e)
    try:
        OUT["codegen_parts"][f"pred_{bad!r}"] = _gen._generate_predicate(bad)
    except Exception as e:  # noqa: BLE001
        OUT["codegen_parts"][f"pred_{bad!r}"] = describe_exc(e)

# parser objects are reusable and independent
_p = ExperimentParser()
_l = ExperimentLexer()
_seq = []
for name in ("minimal", "comments", "precedence"):
    _seq.append(repr(_p.parse(_l.tokenize(VALID[name]))))
try:
    _p.parse(_l.tokenize(INVALID["no_return"]))
except Exception as e:  # noqa: BLE001
    _seq.append(describe_exc(e))
_seq.append(repr(_p.parse(_l.tokenize(VALID["minimal"]))))
try:
    _p.parse(_l.tokenize(INVALID["open_comment"]))
except Exception as e:  # noqa: BLE001
    _seq.append(describe_exc(e))
_seq.append(type(_l).__name__)
_seq.append(repr(_p.parse(ExperimentLexer().tokenize(VALID["minimal"]))))
_seq.append([_p.state, len(_p.statestack), len(_p.symstack), str(_p.production)])
OUT["parser_reuse"] = _seq

# ---------------------------------------------------------------------------
# evaluator lifecycle
# ---------------------------------------------------------------------------
def call(ev, **kw):
    try:
        return repr(ev(**kw))
    except Exception as e:  # noqa: BLE001
        return f"!{type(e).__name__}:{e}"


def lifecycle():
    log = []
    ev = ExperimentEvaluator(VALID["splitter_and_condition"])
    log.append(["init", ev._checksum, call(ev, uid="u1", zone="eu"), call(ev, uid="u1", zone="us")])
    fn_before = ev.run_experiment
    ev.recompile(VALID["splitter_and_condition"])
    log.append(["same", ev._checksum, ev.run_experiment is fn_before])
    for bad in ("no_return", "illegal_char", "open_comment", "empty", "eof_after_if"):
        try:
            ev.recompile(INVALID[bad])
            log.append([bad, "accepted"])
        except Exception as e:  # noqa: BLE001
            log.append([bad, describe_exc(e), ev._checksum, ev.run_experiment is fn_before, call(ev, uid="u1", zone="eu")])
        try:
            ev.recompile(INVALID[bad])
            log.append([bad, "accepted-on-retry"])
        except Exception as e:  # noqa: BLE001
            log.append([bad, "retry", type(e).__name__])
    ev.recompile(VALID["non_ascii"])
    log.append(["new", ev._checksum, ev.run_experiment is fn_before, ev.run_experiment.__name__,
                ev.run_experiment.__module__, call(ev, uid="u1", country="日本"), call(ev, uid="u1"),
                call(ev), "run_experiment" in vars(ev)])
    ev.recompile(VALID["splitter_and_condition"])
    log.append(["back", ev._checksum, ev.run_experiment is fn_before, call(ev, uid="u1", zone="eu")])
    log.append(["class_checksum", ExperimentEvaluator._checksum])
    for bad in ("empty", "illegal_unicode", "double_else"):
        try:
            ExperimentEvaluator(INVALID[bad])
            log.append([bad, "constructed"])
        except Exception as e:  # noqa: BLE001
            log.append([bad, describe_exc(e)])
    raw = ExperimentEvaluator.__new__(ExperimentEvaluator)
    log.append(["unloaded", call(raw, a=1), raw._checksum])
    for notstr in (None, 3, b"def a{return 1 weighted 1}"):
        try:
            ExperimentEvaluator(notstr)
            log.append([repr(notstr), "constructed"])
        except Exception as e:  # noqa: BLE001
            log.append([repr(notstr), type(e).__name__])
    # all programs through the evaluator
    per_program = {}
    for name, text in VALID.items():
        try:
            e2 = ExperimentEvaluator(text)
            per_program[name] = [e2._checksum, e2.run_experiment.__name__, run_function(e2)[0]]
        except Exception as e:  # noqa: BLE001
            per_program[name] = describe_exc(e)
    return log, per_program


OUT["lifecycle"], OUT["evaluator_programs"] = lifecycle()

# ---------------------------------------------------------------------------
# thread safety: same answers from many threads as sequentially
# ---------------------------------------------------------------------------
def safe_parse_repr(text):
    try:
        return repr(parse_source(text))
    except Exception as e:  # noqa: BLE001
        return f"!{type(e).__name__}:{e}"


def threaded():
    names = sorted(VALID)
    expected = {n: safe_parse_repr(VALID[n]) for n in names}
    shared = ExperimentEvaluator(VALID["splitter_and_condition"])
    seq_calls = [call(shared, uid=f"u{i}", zone="eu") for i in range(200)]
    failures = []
    results = {}

    def worker(idx):
        try:
            for rep in range(3):
                for n in names[idx::4]:
                    if safe_parse_repr(VALID[n]) != expected[n]:
                        failures.append((idx, n))
                    try:
                        parse_source(INVALID["no_return"])
                        failures.append((idx, "accepted"))
                    except Exception:  # noqa: BLE001
                        pass
                got = [call(shared, uid=f"u{i}", zone="eu") for i in range(200)]
                if got != seq_calls:
                    failures.append((idx, "calls"))
                own = ExperimentEvaluator(VALID["many_groups"])
                results[idx] = call(own, k=idx)
                own.recompile(VALID["salt_only"])
        except Exception as e:  # noqa: BLE001
            failures.append((idx, type(e).__name__))

    threads = [threading.Thread(target=worker, args=(i,)) for i in range(8)]
    for t in threads:
        t.start()
    for t in threads:
        t.join()
    return {"failures": sorted(map(str, failures)), "results": [results.get(i) for i in range(8)], "calls_sha": sha(json.dumps(seq_calls))}


OUT["threads"] = threaded()

# ---------------------------------------------------------------------------
# bucketing
# ---------------------------------------------------------------------------
def bucketing():
    ids = [f"id_{i}" for i in range(300)] + ["", " ", "é", "日本", "🧂", "a" * 1000, "\x00", "None", "0"]
    salts = ["", "s", "sél", "csdvs887"]
    probas = [deterministic_proba(s + i) for s in salts for i in ids]
    out = {"proba_sha": sha(json.dumps(probas)), "proba_head": probas[:5]}
    pops = [
        (["a", "b"], [1, 1]), (["a", "b"], [4, 1]), (["a", "b", "c"], [0, 0, 1]),
        (["a", "b", "c"], [1, 0, 0]), (["a", "b", "c"], [0.5, 0.25, 0.25]),
        ([1, 2, 3, 4], [1e-9, 1e9, 1, 1]), (["x"], [3]), (["a", "b"], [1, 0]),
        (list(range(10)), list(range(10))), (["a", "b"], [True, 2]),
    ]
    choice_results = []
    for pop, w in pops:
        choice_results.append([deterministic_choice(s + i, pop, w) for s in salts[:2] for i in ids])
        choice_results.append([deterministic_choice(i, pop) for i in ids[:50]])
        cw = []
        tot = 0
        for x in w:
            tot += x
            cw.append(tot)
        choice_results.append([deterministic_choice(i, pop, cum_weights=cw) for i in ids[:50]])
    out["choice_sha"] = sha(json.dumps(choice_results))
    out["choice_head"] = choice_results[1][:10]
    errors = []
    for args, kw in [
        (("id", ["a", "b"], [0, 0]), {}),
        (("id", ["a", "b"], [1]), {}),
        (("id", ["a", "b"], [1, 1]), {"cum_weights": [1, 2]}),
        (("id", ["a", "b"], [float("inf"), 1]), {}),
        (("id", ["a", "b"], [float("nan"), 1]), {}),
        (("id", ["a", "b"], [-1, 0.5]), {}),
        (("id", [], None), {}),
        (("id", [], []), {}),
        ((5, ["a"], [1]), {}),
        ((b"id", ["a"], [1]), {}),
        (("id", ["a", "b"], ["1", "2"]), {}),
        (("\ud800", ["a", "b"], [1, 1]), {}),
    ]:
        try:
            errors.append(repr(deterministic_choice(*args, **kw)))
        except Exception as e:  # noqa: BLE001
            errors.append(f"!{type(e).__name__}:{e}")
    out["errors"] = errors
    random.seed(1234)
    out["random_fallback"] = [deterministic_choice(None, ["a", "b", "c"], [1, 2, 3]) for _ in range(20)]
    out["random_fallback_plain"] = [deterministic_choice(None, ["a", "b", "c"]) for _ in range(20)]
    return out


OUT["bucketing"] = bucketing()

# ---------------------------------------------------------------------------
# stats
# ---------------------------------------------------------------------------
def stats_values():
    out = {"probit": [repr(stats.probit(a)) for a in (0.5, 0.975, 0.025, 0.0005, 0.9995, 0.1, 0.3)],
           "probit_default": repr(stats.probit()), "ci_default": repr(stats.confidence_interval())}
    for bad in (0, 1, -1, 2):
        try:
            out[f"probit_{bad}"] = repr(stats.probit(bad))
        except Exception as e:  # noqa: BLE001
            out[f"probit_{bad}"] = f"!{type(e).__name__}:{e}"
    ci = []
    for n in (1, 10, 1000, 10000):
        for p in (0.0, 0.2, 0.5, 0.8, 1.0):
            for conf in (0.9, 0.95, 0.999):
                for method in ("agresti-coull", "wald", "Wald", "AGRESTI-COULL"):
                    ci.append(repr(stats.confidence_interval(n, p, conf, method)))
    out["ci_sha"] = sha(json.dumps(ci))
    out["ci_head"] = ci[:4]
    for args in ((10, 0.5, 0.95, "wilson"), (0, 0.5, 0.95, "wald"), (10, 0.5, 1.0, "wald"), (10, 0.5, 0.95, None)):
        try:
            out[f"ci_{args!r}"] = repr(stats.confidence_interval(*args))
        except Exception as e:  # noqa: BLE001
            out[f"ci_{args!r}"] = f"!{type(e).__name__}:{e}"
    return out


OUT["stats"] = stats_values()

# ---------------------------------------------------------------------------
# a second grammar / lexer built on the vendored sly runtime (exercises table
# construction and the runtime on features the experiment grammar does not use)
# ---------------------------------------------------------------------------
def second_language():
    log_buffer = io.StringIO()
    result = {}
    try:
        with redirect_stderr(log_buffer):
            class CalcLexer(sly_pkg.Lexer):
                tokens = {NAME, NUMBER, PLUS, TIMES, MINUS, DIVIDE, ASSIGN, LPAREN, RPAREN, IF, UNUSED}
                ignore = " \t"
                literals = {";", "[", "]", ","}
                NAME = r"[a-zA-Z_][a-zA-Z0-9_]*"
                NAME["if"] = IF
                PLUS = r"\+"
                MINUS = r"-"
                TIMES = r"\*"
                DIVIDE = r"/"
                ASSIGN = r"="
                LPAREN = r"\("
                RPAREN = r"\)"
                UNUSED = r"@@"

                @_(r"0x[0-9a-f]+", r"\d+")
                def NUMBER(self, t):
                    t.value = int(t.value, 16) if t.value.startswith("0x") else int(t.value)
                    return t

                @_(r"\n+")
                def ignore_newline(self, t):
                    self.lineno += len(t.value)

                def error(self, t):
                    self.index += 1
                    t.value = t.value[0]
                    return t

            class CalcParser(sly_yacc.Parser):
                tokens = CalcLexer.tokens
                precedence = (
                    ("left", PLUS, MINUS),
                    ("left", TIMES, DIVIDE),
                    ("right", UMINUS),
                    ("nonassoc", ASSIGN),
                )

                def __init__(self):
                    self.names = {}
                    self.errors = []
                    self.peeks = []

                @_("statement { ';' statement }")
                def program(self, p):
                    return [p.statement0, *p.statement1]

                @_("NAME ASSIGN expr")
                def statement(self, p):
                    self.names[p.NAME] = p.expr
                    return ("assign", p.NAME, p.expr, p.lineno, p.index, p.end)

                @_("expr")
                def statement(self, p):
                    return p.expr

                @_("IF expr [ NAME ]")
                def statement(self, p):
                    return ("if", p.expr, p.NAME)

                @_("error")
                def statement(self, p):
                    return "recovered"

                @_("expr PLUS expr", "expr MINUS expr", "expr TIMES expr", "expr DIVIDE expr")
                def expr(self, p):
                    return (p[1], p.expr0, p.expr1)

                @_("MINUS expr %prec UMINUS")
                def expr(self, p):
                    return ("neg", p.expr)

                @_("LPAREN expr RPAREN")
                def expr(self, p):
                    self.peeks.append([repr(p[-1]), repr(p[-2]), len(p), repr(p[2])])
                    p[0] = "<" + p[0]
                    self.peeks.append(p.LPAREN)
                    p[-1] = p[-1]
                    try:
                        p.nothing_like_this
                    except AttributeError as e:
                        self.peeks.append(str(e))
                    try:
                        p.expr = 1
                    except AttributeError as e:
                        self.peeks.append(str(e))
                    return p.expr

                @_("'[' [ expr { ',' expr } ] ']'")
                def expr(self, p):
                    return ("list", p.expr0, p.expr1)

                @_("NUMBER", "NAME")
                def expr(self, p):
                    return p[0]

                @_("LPAREN { PLUS|MINUS } RPAREN")
                def expr(self, p):
                    return ("signs", p[1])

                def error(self, tok):
                    self.errors.append(None if tok is None else (tok.type, tok.value))

        g = CalcParser._grammar
        t = CalcParser._lrtable
        result["productions"] = [str(p) for p in g.Productions]
        result["production_details"] = production_details(g)
        result["tables_sha"] = sha(json.dumps({
            "a": [[s, list(a.items())] for s, a in t.lr_action.items()],
            "g": [[s, list(a.items())] for s, a in t.lr_goto.items()],
            "d": list(t.defaulted_states.items()),
        }))
        result["sr"] = [list(c) for c in t.sr_conflicts]
        result["rr"] = [[c[0], str(c[1]), str(c[2])] for c in t.rr_conflicts]
        result["grammar_str_sha"] = sha(str(g))
        result["lrtable_str_sha"] = sha(str(t))
        result["first"] = {k: v for k, v in g.First.items()}
        result["follow"] = {k: v for k, v in g.Follow.items()}
        result["reduced"] = [p.reduced for p in g.Productions]
        result["lexer_master"] = CalcLexer._master_re.pattern
        result["lexer_remapping"] = repr(CalcLexer._remapping)
        runs = {}
        for text in ["1+2*3", "a = 1 + 2 ; b = a * 0x1f ; -b - -3", "if x y ; if z", "[1, 2, x] ; [] ; [7]",
                     "1 + ; 2", "1 +* 2 ; 3", ")", "", "a = b = 3", "1 $ 2", "a\n=\n\n5 ; q", "(1", "1 2 3 ; 4",
                     "((((1))))", "1 - 2 - 3 ; 2 * 3 / 4", "x = ; y = 2 ; ; 3"]:
            with redirect_stderr(log_buffer):
                parser = CalcParser()
                lexer = CalcLexer()
                try:
                    toks = [(tk.type, tk.value, tk.lineno, tk.index, tk.end) for tk in CalcLexer().tokenize(text)]
                    value = parser.parse(lexer.tokenize(text))
                    runs[text] = [repr(toks), repr(value), repr(parser.errors), repr(sorted(parser.names.items(), key=repr)), parser.peeks]
                except Exception as e:  # noqa: BLE001
                    runs[text] = describe_exc(e)
        result["runs"] = runs
    except Exception as e:  # noqa: BLE001
        result["build_error"] = describe_exc(e)
    result["stderr"] = log_buffer.getvalue()

    # specification errors
    spec_errors = {}
    log2 = io.StringIO()
    with redirect_stderr(log2):
        try:
            class NoTokens(sly_pkg.Lexer):
                A = r"a"
        except Exception as e:  # noqa: BLE001
            spec_errors["lexer_no_tokens"] = describe_exc(e)
        try:
            class BadName(sly_pkg.Lexer):
                tokens = {A}
                A = r"a"
                B = r"b"
        except Exception as e:  # noqa: BLE001
            spec_errors["lexer_unknown_name"] = describe_exc(e)
        try:
            class EmptyMatch(sly_pkg.Lexer):
                tokens = {A}
                A = r"a*"
        except Exception as e:  # noqa: BLE001
            spec_errors["lexer_empty_match"] = describe_exc(e)
        try:
            class BadRegex(sly_pkg.Lexer):
                tokens = {A}
                A = r"(a"
        except Exception as e:  # noqa: BLE001
            spec_errors["lexer_bad_regex"] = describe_exc(e)
        try:
            class Redefined(sly_pkg.Lexer):
                tokens = {A}
                A = r"a"
                A = r"b"
        except Exception as e:  # noqa: BLE001
            spec_errors["lexer_redefined"] = describe_exc(e)
        try:
            class BadRemap(sly_pkg.Lexer):
                tokens = {A}
                A = r"a"
                A["a"] = ZED
        except Exception as e:  # noqa: BLE001
            spec_errors["lexer_bad_remap"] = describe_exc(e)
        try:
            class Inherit(ExperimentLexer):
                tokens = {EXTRA}
                EXTRA = before(ID, r"\$\w+")
                del KW_OR
            spec_errors["lexer_inherit"] = [
                [k for k, _ in Inherit._rules],
                [[t.type, t.value] for t in Inherit().tokenize("def $x or y // c")],
            ]
        except Exception as e:  # noqa: BLE001
            spec_errors["lexer_inherit"] = describe_exc(e)
        try:
            class NoRules(sly_yacc.Parser):
                tokens = {"A"}
        except Exception as e:  # noqa: BLE001
            spec_errors["parser_no_rules"] = describe_exc(e)
        try:
            class Undefined(sly_yacc.Parser):
                tokens = {"A", "B"}
                precedence = (("left", "ZZ"), ("sideways", "A"))

                @_("A missing")
                def s(self, p):
                    pass

                @_("s A")
                def looping(self, p):
                    pass
        except Exception as e:  # noqa: BLE001
            d = describe_exc(e)
            # drop "<file>.py:<line>:" prefixes (location of this probe)
            d["str"] = re.sub(r"[^\s'\"\\]*\.py:\d+:", "", d["str"])
            d["args"] = re.sub(r"(\\n|\(\"|\(')[^\s'\"\\]*\.py:\d+:", r"\1", d["args"])
            spec_errors["parser_undefined"] = d
        try:
            class Infinite(sly_yacc.Parser):
                tokens = {"A", "B"}

                @_("s A", "t")
                def s(self, p):
                    pass

                @_("t B s")
                def t(self, p):
                    pass

                @_("A")
                def orphan(self, p):
                    pass
        except Exception as e:  # noqa: BLE001
            spec_errors["parser_infinite"] = describe_exc(e)
        try:
            class Conflicted(sly_yacc.Parser):
                tokens = {"A", "B"}

                @_("x A", "y A", "e B e")
                def s(self, p):
                    return p[0]

                @_("B")
                def x(self, p):
                    return "x"

                @_("B")
                def y(self, p):
                    return "y"

                @_("e A e", "A")
                def e(self, p):
                    return "e"
            tt = Conflicted._lrtable
            spec_errors["parser_conflicted"] = [
                [list(c) for c in tt.sr_conflicts],
                [[c[0], str(c[1]), str(c[2])] for c in tt.rr_conflicts],
                sha(str(tt)), sha(str(Conflicted._grammar)),
                [p.reduced for p in Conflicted._grammar.Productions],
            ]
        except Exception as e:  # noqa: BLE001
            spec_errors["parser_conflicted"] = describe_exc(e)
        try:
            class Redef(sly_yacc.Parser):
                tokens = {"A"}

                def s(self, p):
                    pass

                @_("A")
                def s(self, p):
                    pass
        except Exception as e:  # noqa: BLE001
            spec_errors["parser_redefinition"] = describe_exc(e)
        for bad_tokens in (set(), {"error"}):
            try:
                class BadTok(sly_yacc.Parser):
                    tokens = bad_tokens

                    @_("A")
                    def s(self, p):
                        pass
            except Exception as e:  # noqa: BLE001
                spec_errors[f"parser_tokens_{sorted(bad_tokens)}"] = describe_exc(e)
        for bad_prec in ("x", (("left",),), ((1, "A"),), ("left", "A")):
            try:
                class BadPrec(sly_yacc.Parser):
                    tokens = {"A"}
                    precedence = bad_prec

                    @_("A")
                    def s(self, p):
                        pass
            except Exception as e:  # noqa: BLE001
                spec_errors[f"parser_prec_{bad_prec!r}"] = describe_exc(e)
    # strip absolute file names / line numbers of this probe from the log
    cleaned = []
    for line in log2.getvalue().split("\n"):
        if "probe" in line and ".py:" in line:
            line = line.split(".py:", 1)[1].split(":", 1)[-1]
        cleaned.append(line)
    spec_errors["stderr"] = cleaned
    result["spec_errors"] = spec_errors
    return result


OUT["second_language"] = second_language()

# everything the sly loggers wrote (Parser.log is bound to the stderr captured
# while importing); file names and line numbers of this probe are stripped
_log_lines = []
for _line in _import_stderr.getvalue().split("\n"):
    if ".py:" in _line:
        _line = _line.split(".py:", 1)[1].split(":", 1)[-1]
    _log_lines.append(_line)
OUT["sly_log"] = _log_lines

json.dump(OUT, sys.stdout, sort_keys=True, indent=1, ensure_ascii=True, default=repr)
sys.stdout.write("\n")

"""Old/new comparison probe for pyab_experiment.binning.binning.

Run as:  PYTHONPATH=/tmp/wt/SB/src /venv/bin/python probe.py
Prints a deterministic transcript (no addresses, no timings).  The transcript of
the clean tree and of the changed tree must be byte-identical.
"""

import hashlib
import inspect
import random
import sys
import threading
from decimal import Decimal
from fractions import Fraction

from pyab_experiment.binning import binning
from pyab_experiment.binning.binning import deterministic_choice, deterministic_proba
from pyab_experiment.experiment_evaluator import ExperimentEvaluator
from pyab_experiment.utils.wraper_functions import generate_code

LINES = []


def out(*parts):
    line = " ".join(str(p) for p in parts)
    LINES.append(line)
    print(line)


def attempt(fn, *args, **kwargs):
    """repr of the result, or class and message of the exception"""
    try:
        return "-> " + repr(fn(*args, **kwargs))
    except BaseException as exc:  # noqa: B902 - the class is what is compared
        return f"!! {type(exc).__name__}: {exc}"


IDS = (
    [str(i) for i in range(40)]
    + ["", "a", "my_id_123", "csdvs887id_7", "éè", "中文", "x" * 1000]
    + [f"{i}_salt" for i in range(20)]
)
BAD_IDS = [5, 5.0, b"bytes", "\ud800", True, ("t",), ["l"], object]


class Enc:
    """not a str, but has .encode"""

    def __init__(self, payload):
        self.payload = payload

    def encode(self, *_a):
        return self.payload


# --------------------------------------------------------------------------
# 1. hash position
# --------------------------------------------------------------------------
out("== deterministic_proba")
for s in IDS[:12] + ["\ud800", "\U0001f600"]:
    out(ascii(s)[:30], attempt(deterministic_proba, s))
acc = hashlib.sha256()
lo, hi_seen = 2.0, -1.0
for i in range(20000):
    p = deterministic_proba(f"id_{i}")
    acc.update(repr(p).encode())
    lo, hi_seen = min(lo, p), max(hi_seen, p)
out("bulk 20000", acc.hexdigest(), repr(lo), repr(hi_seen))
for bad in BAD_IDS + [None, Enc(b"abc"), Enc("abc"), Enc(None), Enc(bytearray(b"abc"))]:
    out(type(bad).__name__, attempt(deterministic_proba, bad))

# --------------------------------------------------------------------------
# 2. weighted / unweighted choice, value corners
# --------------------------------------------------------------------------
BIG = 2**53
WEIGHT_SETS = [
    [1, 2, 3],
    (1, 2, 3),
    [4, 1],
    [1, 1],
    [0.5, 0.5],
    [3.4, 5, 3],
    [0.1, 0.2, 0.3],
    [0.1] * 10,
    [1, 0],
    [0, 1],
    [0, 0, 1, 0, 0],
    [0, 0, 0],
    [0.0, 0.0],
    [-0.0, 5],
    [-0.0, -0.0],
    [True, False, True],
    [BIG, 1, 1],
    [BIG + 1, BIG + 3, 1],
    [1, BIG, 1, 1, 1],
    [2**60 + 1, 2**60 + 3, 7],
    [10**30, 10**30 + 1, 1],
    [10**30 + 1, 1.0],
    [1.0, 10**30 + 1],
    [1e16, 1, 1, 1],
    [1, 1, 1, 1e16],
    [2**1023, 2**1023 - 1],
    [2**1023, 2**1023],
    [2**1024],
    [2**2000, 1],
    [1e308, 1e308],
    [1e308, 1e307, -1e308],
    [float("inf"), 1],
    [1, float("inf")],
    [float("-inf"), 1],
    [float("inf"), float("-inf")],
    [float("nan"), 1],
    [1, float("nan"), 1],
    [3, -1, 2],
    [5, -4, 3, -2, 6, 1],
    [-1, -2],
    [-1, 2],
    [1, -1],
    [5e-324, 5e-324],
    [Fraction(1, 3), Fraction(2, 3)],
    [Fraction(1, 3), 1, 0.5],
    [Decimal("1.5"), Decimal("2.5")],
    [Decimal("1.00000000000000000000000000000000001")],
    [1, Decimal("2")],
    ["a", "b"],
    ["a"],
    [None],
    [None, 1],
    [1, None],
    [[1], [2]],
    [(1,), (2,)],
    [1, "a"],
    [1j, 2],
    [1, 2j],
    [],
    "ab",
    "12",
    b"\x01\x02",
    {1: "x", 2: "y"},
    {3, },
    range(1, 4),
    5,
    5.0,
    object(),
]
POPULATIONS = [
    ["a", "b", "c"],
    ("a", "b", "c"),
    ["a", "b"],
    ["only"],
    [],
    (),
    "xyz",
    range(5),
    {0: "zero", 1: "one"},
    ["a", "b", "c", "d", "e"],
    list(range(10)),
]
PROBE_IDS = ["0", "1", "2", "7", "13", "", "my_id_123", "é"]


def show(w):
    r = repr(w)
    if "object object at" in r:
        r = "<object>"
    return r if len(r) < 60 else r[:25] + f"..<{len(r)}>.." + r[-25:]


out("== weights x populations")
for w in WEIGHT_SETS:
    for pop in POPULATIONS:
        res = [attempt(deterministic_choice, i, pop, w) for i in PROBE_IDS]
        res = [r.replace(repr(w), "<w>") if "object object at" in r else r for r in res]
        res = ["<obj-msg>" if "object at 0x" in r else r for r in res]
        uniq = res[0] if len(set(res)) == 1 else " | ".join(res)
        out(show(w), "/", show(pop), ":", uniq)

out("== cum_weights x populations")
CUM_SETS = [
    [1, 3, 6],
    (1, 3, 6),
    [1.0, 3.0, 6.0],
    [3, 2, 4],
    [6, 3, 1],
    [0, 0, 0],
    [1, float("nan"), 6],
    [float("nan"), float("nan"), 6],
    [1, 2, float("inf")],
    [BIG + 1, 2 * BIG + 4, 2 * BIG + 5],
    [2**1024, 2**1025, 2**1026],
    [1, 2],
    [5],
    [],
    (),
    {0: 1, 1: 3, -1: 6},
    {-1: 5.0},
    "abc",
    ["a", "b", "c"],
    [None, None, 2],
    [[1], [2], 3],
    7,
    range(1, 4),
]
for cw in CUM_SETS:
    for pop in POPULATIONS[:6] + [list(range(10))]:
        res = [attempt(deterministic_choice, i, pop, cum_weights=cw) for i in PROBE_IDS]
        uniq = res[0] if len(set(res)) == 1 else " | ".join(res)
        out(show(cw), "/", show(pop), ":", uniq)

out("== both given / precedence of errors")
for iid in ["7", None, 5, b"x"]:
    random.seed(1)
    out(repr(iid), "both", attempt(deterministic_choice, iid, ["a", "b"], [1, 1], cum_weights=[1, 2]))
    random.seed(1)
    out(repr(iid), "both-bad", attempt(deterministic_choice, iid, 5, 5, cum_weights=5))
    random.seed(1)
    out(repr(iid), "mismatch", attempt(deterministic_choice, iid, ["a", "b"], [1, 1, 1]))
    random.seed(1)
    out(repr(iid), "zero-total", attempt(deterministic_choice, iid, ["a", "b"], [0, 0]))
    random.seed(1)
    out(repr(iid), "nan-total", attempt(deterministic_choice, iid, ["a", "b"], [float("nan"), 0]))
    random.seed(1)
    out(repr(iid), "bad-weight", attempt(deterministic_choice, iid, ["a", "b"], [1, "a"]))
    random.seed(1)
    out(repr(iid), "no-len-pop", attempt(deterministic_choice, iid, iter("ab"), [1, 1]))
    random.seed(1)
    out(repr(iid), "no-len-pop-plain", attempt(deterministic_choice, iid, iter("ab")))
    random.seed(1)
    out(repr(iid), "empty", attempt(deterministic_choice, iid, [], []))
    random.seed(1)
    out(repr(iid), "empty-plain", attempt(deterministic_choice, iid, []))
    random.seed(1)
    out(repr(iid), "ok", attempt(deterministic_choice, iid, ["a", "b"], [1, 1]))
    random.seed(1)
    out(repr(iid), "ok-plain", attempt(deterministic_choice, iid, ["a", "b"]))
    random.seed(1)
    out(repr(iid), "ok-single", attempt(deterministic_choice, iid, ["a"], [1]))
for bad in BAD_IDS + [Enc(b"abc"), Enc("abc")]:
    out(type(bad).__name__, "plain", attempt(deterministic_choice, bad, ["a", "b", "c"]))
    out(type(bad).__name__, "weighted", attempt(deterministic_choice, bad, ["a", "b", "c"], [1, 2, 3]))
    out(type(bad).__name__, "single", attempt(deterministic_choice, bad, ["a"], [3]))
out("positional-cum", attempt(deterministic_choice, "7", ["a", "b"], [1, 1], [1, 2]))
out("kw-all", attempt(deterministic_choice, input_id="7", population=["a", "b"], weights=(1, 3)))
out("missing", attempt(deterministic_choice, "7"))

# --------------------------------------------------------------------------
# 3. bulk comparison: many ids over many weight shapes
# --------------------------------------------------------------------------
out("== bulk")
rng = random.Random(20240229)
for shape in range(60):
    n = rng.randint(1, 9)
    kind = shape % 6
    if kind == 0:
        w = [rng.randint(0, 10) for _ in range(n)]
    elif kind == 1:
        w = [rng.random() * rng.choice([0, 1, 1e-9, 1e9]) for _ in range(n)]
    elif kind == 2:
        w = [rng.randint(0, 3) * 2 ** rng.randint(50, 70) + rng.randint(0, 5) for _ in range(n)]
    elif kind == 3:
        w = tuple(rng.choice([0, 1, 0.1, 2**53 + 1, 1e16, 3]) for _ in range(n))
    elif kind == 4:
        w = [rng.randint(-3, 6) for _ in range(n)]
    else:
        w = [rng.choice([10**25 + 1, 10**25, 1, 0.5, 2**80 + 1]) for _ in range(n)]
    pop = list(range(n)) if shape % 2 else tuple(f"g{k}" for k in range(n))
    h = hashlib.sha256()
    for i in range(400):
        h.update(attempt(deterministic_choice, f"u{i}", pop, w).encode())
        h.update(attempt(deterministic_choice, f"u{i}", pop).encode())
    out(shape, show(w), h.hexdigest()[:24])

# --------------------------------------------------------------------------
# 4. order of operations on the caller's objects, aliasing, leftovers
# --------------------------------------------------------------------------
out("== traces")
LOG = []


class W:
    """weight that records every operation made on it"""

    def __init__(self, v, boom=None):
        self.v = v
        self.boom = boom

    def __repr__(self):
        return f"W({self.v})"

    def _val(self, o):
        return o.v if isinstance(o, W) else o

    def __add__(self, o):
        LOG.append(f"add({self.v},{self._val(o)})")
        if self.boom is not None:
            raise self.boom
        return W(self.v + self._val(o))

    def __radd__(self, o):
        LOG.append(f"radd({self.v},{self._val(o)})")
        if self.boom is not None:
            raise self.boom
        r = self.v + self._val(o)
        return r if isinstance(o, float) else W(r)

    def __iadd__(self, o):
        LOG.append(f"iadd({self.v},{self._val(o)})")
        self.v += self._val(o)
        return self

    def __lt__(self, o):
        LOG.append(f"lt({self.v},{self._val(o)})")
        return self.v < self._val(o)

    def __gt__(self, o):
        LOG.append(f"gt({self.v},{self._val(o)})")
        return self.v > self._val(o)

    def __le__(self, o):
        LOG.append(f"le({self.v},{self._val(o)})")
        return self.v <= self._val(o)

    def __ge__(self, o):
        LOG.append(f"ge({self.v},{self._val(o)})")
        return self.v >= self._val(o)

    def __float__(self):
        LOG.append(f"float({self.v})")
        return float(self.v)

    def __rmul__(self, o):
        LOG.append(f"rmul({self.v})")
        return o * self.v

    def __index__(self):
        LOG.append(f"index({self.v})")
        return int(self.v)


class It:
    """iterable that records iter/next/len and can fail or resume"""

    def __init__(self, items, fail_at=None, exc=RuntimeError, resume=False, with_len=None):
        self.items = list(items)
        self.fail_at = fail_at
        self.exc = exc
        self.k = 0
        self.resume = resume
        self.ended = 0
        if with_len is not None:
            self.length = with_len

    def __iter__(self):
        LOG.append("iter")
        return self

    def __next__(self):
        LOG.append(f"next#{self.k}")
        if self.fail_at is not None and self.k == self.fail_at:
            self.k += 1
            raise self.exc("from iterator")
        if self.k >= len(self.items):
            self.ended += 1
            if self.resume and self.ended > 1:
                return 1000
            raise StopIteration
        self.k += 1
        return self.items[self.k - 1]


class LenIt(It):
    def __len__(self):
        LOG.append("len")
        return self.length


class Pop:
    """population that records what is asked of it"""

    def __init__(self, items):
        self.items = items

    def __len__(self):
        LOG.append("pop.len")
        return len(self.items)

    def __getitem__(self, k):
        LOG.append(f"pop[{k!r}]")
        return self.items[k]


def traced(label, fn):
    del LOG[:]
    res = attempt(fn)
    out(label, res, "::", " ".join(LOG))


traced("W ok", lambda: deterministic_choice("7", ["a", "b", "c"], [W(1), W(2), W(3)]))
traced("W mixed", lambda: deterministic_choice("7", ["a", "b", "c"], [1, W(2), 3.5]))
traced("W first", lambda: deterministic_choice("3", ["a", "b", "c"], [W(0), 2, 3]))
traced("W single", lambda: deterministic_choice("3", ["a"], [W(4)]))
traced("W mismatch", lambda: deterministic_choice("3", ["a"], [W(4), W(5)]))
traced("W boom TypeError", lambda: deterministic_choice("7", ["a", "b", "c"], [W(1, TypeError("t")), W(2), W(3)]))
traced("W boom Stop first", lambda: deterministic_choice("7", ["a", "b", "c"], [W(1, StopIteration()), W(2), W(3)]))
traced("W boom Stop radd", lambda: deterministic_choice("7", ["a", "b", "c"], [1, W(2, StopIteration()), W(3)]))
traced("W boom Stop pop2", lambda: deterministic_choice("7", ["a"], [W(1, StopIteration()), W(2), W(3)]))
traced("W boom Stop last", lambda: deterministic_choice("7", ["a", "b"], [W(1), W(2), W(3, StopIteration())]))
traced("W boom KeyboardInterrupt", lambda: deterministic_choice("7", ["a", "b"], [W(1, KeyboardInterrupt()), W(2)]))
traced("W boom GeneratorExit", lambda: deterministic_choice("7", ["a", "b"], [W(1, GeneratorExit()), W(2)]))
traced("W cum", lambda: deterministic_choice("7", ["a", "b", "c"], cum_weights=[W(1), W(3), W(6)]))
traced("It ok", lambda: deterministic_choice("7", ["a", "b", "c"], It([1, 2, 3])))
traced("It W", lambda: deterministic_choice("7", ["a", "b", "c"], It([W(1), W(2), W(3)])))
traced("It empty", lambda: deterministic_choice("7", ["a", "b", "c"], It([])))
traced("It empty pop", lambda: deterministic_choice("7", [], It([])))
traced("It fail0", lambda: deterministic_choice("7", ["a", "b"], It([W(1), W(2)], fail_at=0)))
traced("It fail1", lambda: deterministic_choice("7", ["a", "b"], It([W(1), W(2)], fail_at=1)))
traced("It fail2", lambda: deterministic_choice("7", ["a", "b"], It([W(1), W(2)], fail_at=2)))
traced("It bad-then-fail", lambda: deterministic_choice("7", ["a", "b"], It([1, "a", 3], fail_at=2)))
traced("It fail-then-bad", lambda: deterministic_choice("7", ["a", "b"], It([1, 2, "a"], fail_at=1)))
traced("It fail Stop-sub", lambda: deterministic_choice("7", ["a", "b"], It([1, 2, 3], fail_at=2, exc=StopIteration)))
traced("It resume", lambda: deterministic_choice("7", ["a", "b"], It([1, 2], resume=True)))
traced("It resume empty", lambda: deterministic_choice("7", [], It([], resume=True)))
traced("LenIt", lambda: deterministic_choice("7", ["a", "b"], LenIt([1, 2], with_len=7)))
traced("LenIt cum", lambda: deterministic_choice("7", ["a", "b"], cum_weights=LenIt([1, 2], with_len=2)))
traced("Pop plain", lambda: deterministic_choice("7", Pop(["a", "b", "c"])))
traced("Pop weighted", lambda: deterministic_choice("7", Pop(["a", "b", "c"]), [W(1), W(1), W(1)]))
traced("Pop bad id", lambda: deterministic_choice(7, Pop(["a", "b", "c"]), [W(1), W(1), W(1)]))
traced("Pop bad id plain", lambda: deterministic_choice(7, Pop(["a", "b", "c"])))
traced("Pop mismatch", lambda: deterministic_choice(7, Pop(["a", "b", "c"]), [W(1)]))
traced("Pop empty", lambda: deterministic_choice("7", Pop([]), []))
traced("Pop both", lambda: deterministic_choice("7", Pop([]), [], cum_weights=[]))


def gen_weights():
    LOG.append("gen:start")
    yield 1
    LOG.append("gen:second")
    yield 2
    LOG.append("gen:end")


traced("generator", lambda: deterministic_choice("7", ["a", "b"], gen_weights()))
traced("generator short", lambda: deterministic_choice("7", ["a", "b", "c"], gen_weights()))
traced("map", lambda: deterministic_choice("7", ["a", "b"], map(int, ["1", "x"])))

out("== the caller's arguments are left alone")
nested = [[1], [2], [3]]
out(attempt(deterministic_choice, "7", ["a", "b", "c"], nested), nested)
ws = [W(1), W(2), W(3)]
del LOG[:]
out(attempt(deterministic_choice, "7", ["a", "b", "c"], ws), ws, [l for l in LOG if l.startswith("iadd")])
wl = [1, 2, 3]
cl = [1, 3, 6]
pl = ["a", "b", "c"]
out(attempt(deterministic_choice, "7", pl, wl), attempt(deterministic_choice, "7", pl, cum_weights=cl), wl, cl, pl)
big_first = [10**40, 1]
r1 = deterministic_choice("7", ["a", "b"], big_first)
out(r1, big_first[0] is big_first[0], big_first)

out("== the random generator is only touched when there is no id")
random.seed(99)
before = random.getstate()
for i in IDS:
    deterministic_choice(i, ["a", "b", "c"], [1, 2, 3])
    deterministic_choice(i, ["a", "b", "c"])
    deterministic_choice(i, ["a", "b", "c"], cum_weights=[1, 2, 3])
out("state unchanged:", random.getstate() == before)
seq = []
for k in range(30):
    seq.append(deterministic_choice(None, ["a", "b", "c"], [1, 2, 3]))
    seq.append(deterministic_choice(None, ["a", "b", "c"]))
    seq.append(deterministic_choice(None, ("a", "b", "c"), cum_weights=(1, 2, 3)))
out("".join(seq))
out("state digest", hashlib.sha256(repr(random.getstate()).encode()).hexdigest()[:24])
for w in [[0, 0, 0], [1, 2], [float("inf"), 1, 1], ["a", "b", "c"], [-1, -1, -1], 5]:
    random.seed(5)
    out("None id", show(w), attempt(deterministic_choice, None, ["a", "b", "c"], w))

# --------------------------------------------------------------------------
# 5. threads: same answers from many threads, nothing shared
# --------------------------------------------------------------------------
out("== threads")
expected = [deterministic_choice(f"t{i}", ["a", "b", "c"], [BIG + 1, 3, 0.5]) for i in range(300)]
bad = []


def worker():
    for _ in range(5):
        got = [deterministic_choice(f"t{i}", ["a", "b", "c"], [BIG + 1, 3, 0.5]) for i in range(300)]
        if got != expected:
            bad.append(1)
        try:
            deterministic_choice("x", ["a"], [0])
            bad.append(2)
        except ValueError:
            pass


threads = [threading.Thread(target=worker) for _ in range(8)]
[t.start() for t in threads]
[t.join() for t in threads]
out("thread mismatches:", len(bad))

# --------------------------------------------------------------------------
# 6. through the language: evaluator, both layouts of generate_code, recompiles
# --------------------------------------------------------------------------
out("== end to end")
SRC_A = """def exp_a{
    salt: "s1"
    splitters: my_id
    if field_1 == 'a'{
        return "S1" weighted 4, "S2" weighted 1
    }
    else if field_1 == 'b'{
        return "S1" weighted 0.1, "S2" weighted 0.2, "S3" weighted 0
    }
    else if field_1 == 'z'{
        return "Z1" weighted 0, "Z2" weighted 0
    }
    else if field_1 == 'h'{
        return "H1" weighted 9007199254740993, "H2" weighted 9007199254740995, 3 weighted 1
    }
    else{
        return "only" weighted 1
    }
}
"""
SRC_B = """def exp_b{
    splitters: my_id, other
    return 1 weighted 1, 2.5 weighted 1, "three" weighted 2
}
"""
SRC_NOSPLIT = """def exp_c{
    return "A" weighted 1, "B" weighted 3
}
"""
SRC_BAD = "def broken{ return "


def run_all(fn, fields):
    h = hashlib.sha256()
    head = []
    for i in range(300):
        for f in fields:
            r = attempt(fn, my_id=i, field_1=f, other=f"o{i % 7}")
            h.update(r.encode())
            if i < 6:
                head.append(r)
    return h.hexdigest()[:24] + " " + " ".join(head)


ev = ExperimentEvaluator(SRC_A)
out("A", run_all(ev, ["a", "b", "z", "h", "q"]))
out("A str ids", attempt(ev, my_id="abc", field_1="a"), attempt(ev, my_id=None, field_1="b"), attempt(ev, my_id=1.5, field_1="h"))
out("A missing", attempt(ev, field_1="a").split(":")[0])
out("recompile bad", attempt(ev.recompile, SRC_BAD).split(":")[0])
out("A after failed recompile", run_all(ev, ["a", "b", "z", "h", "q"]))
out("recompile bad again", attempt(ev.recompile, SRC_BAD).split(":")[0])
out("recompile B", attempt(ev.recompile, SRC_B))
out("B", run_all(ev, ["a"]))
out("recompile B same", attempt(ev.recompile, SRC_B))
out("B", run_all(ev, ["a"]))
out("recompile A", attempt(ev.recompile, SRC_A))
out("A", run_all(ev, ["a", "b", "z", "h", "q"]))
random.seed(3)
ev2 = ExperimentEvaluator(SRC_NOSPLIT)
out("no splitters", "".join(ev2() for _ in range(40)))

for expose in (False, True):
    for src, name in ((SRC_A, "exp_a"), (SRC_B, "exp_b"), (SRC_NOSPLIT, "exp_c")):
        code = generate_code(src, expose_internal_fn=expose)
        out("code", name, expose, hashlib.sha256(code.encode()).hexdigest()[:24])
        ns = {}
        exec(compile(code, "<gen>", "exec"), ns)
        random.seed(4)
        fn = ns[name]
        if name == "exp_c":
            out(" run", "".join(str(fn()) for _ in range(30)))
        else:
            out(" run", run_all(fn, ["a", "b", "z", "h", "q"]))
        extra = sorted(k for k in ns if not k.startswith("__"))
        out(" names", extra)
        for k in extra:
            if k.endswith("_variant") or "variant" in k:
                params = list(inspect.signature(ns[k]).parameters)
                given = {p: "a" for p in params}
                out(" variant", k, params, attempt(lambda: ns[k](**given)("k1")), attempt(lambda: ns[k](**given)(None).__class__.__name__))

out("== module surface")
out("callables", sorted(k for k in ("deterministic_choice", "deterministic_proba") if callable(getattr(binning, k, None))))
out("sig choice", inspect.signature(deterministic_choice))
out("sig proba", inspect.signature(deterministic_proba))
out("modules loaded by binning unchanged:", "numpy" in sys.modules, "struct" in sys.modules or True)
out("TRANSCRIPT", hashlib.sha256("\n".join(LINES).encode()).hexdigest())

"""Differential probe for behaviour-preserving refactorings of pyab_experiment.

Run as:  PYTHONPATH=/tmp/wt/TH/src /venv/bin/python probe.py
Prints one deterministic JSON document.  The output has to be byte-identical
with and without the patch that lives next to this file.
"""

import hashlib
import inspect
import json
import random
import sys
import threading

import pyab_experiment.experiment_evaluator as ee
import pyab_experiment.utils.wraper_functions as wf
from pyab_experiment.binning.binning import deterministic_choice, deterministic_proba
from pyab_experiment.codegen.python.python_generator import PythonCodeGen
from pyab_experiment.experiment_evaluator import ExperimentEvaluator, ParseError
from pyab_experiment.utils.stats import confidence_interval, probit
from pyab_experiment.utils.wraper_functions import generate_code, parse_source

sys.setrecursionlimit(1000)


def sha(text) -> str:
    if not isinstance(text, bytes):
        text = str(text).encode("utf-8", "backslashreplace")
    return hashlib.sha256(text).hexdigest()[:16]


def err(exc: BaseException) -> dict:
    # the wording of a RecursionError depends on the frame that hit the limit
    msg = "" if isinstance(exc, RecursionError) else str(exc)[:200]
    return {"error": type(exc).__name__, "msg": msg}


def attempt(fn, *args, **kwargs):
    try:
        return {"ok": show(fn(*args, **kwargs))}
    except Exception as exc:  # noqa: BLE001 - the class name is the observation
        return err(exc)


def show(value):
    """JSON-safe rendering that keeps the type (1 vs 1.0 vs '1')."""
    return f"{type(value).__name__}:{value!r}"


# --------------------------------------------------------------------------
# corpus
# --------------------------------------------------------------------------
BIG = "9" * 400

VALID = {
    "plain": "def plain { return 'a' weighted 1, 'b' weighted 1 }",
    "readme": """def basic_experiment_1{
        //some splitter fields
        splitters: my_id
        if field_1 == 'a'{
                return "Setting 1" weighted 4, "Setting 2" weighted 1
        }
        else{
                return "Setting 1" weighted 1, "Setting 2" weighted 1
        }
}""",
    "kw_prefixed": """def define_x {
        salt: "defsalt"
        splitters: iffy, inner, notable, android, orchid, elsewhere
        if iffy == 1 and notable in (1, 2) or not android > 3 {
            return "a" weighted 1, "b" weighted 2
        } else if elsewhere != "x" and saltine == returned or weighted_avg >= 2 {
            return "c" weighted 1, "cc" weighted 3.5
        } elseif defn not   in ("q") or splitters_2 < inn {
            return "e" weighted 2
        } else { return "d" weighted 1 }
    }""",
    "nested_tuples": """def nested {
        splitters: uid
        if x in ((1, 2), (3, (4, 5)), "s", -2.5, y) { return "in" weighted 1 }
        else if (y) == (x, 1) { return "eq" weighted 1 }
        else if x not in (1) { return "notin1" weighted 1, "notin2" weighted 1 }
        else { return "rest" weighted 1 }
    }""",
    "comments": """/* header * with / stars **/ // trailing "quote'
    def commented /* inline */ { // salt: "ignored"
        /* multi
           line 'quotes" */ salt: "http://x//y" /* a */ /* b */
        splitters: uid // , other
        if url == "a//b" /* c */ { return "/*no*/" weighted 1 }
        else { return '//no' weighted 1, "yes" weighted 2 }
    }""",
    "quotes": """def quoting {
        salt: 'it"s'
        splitters: uid
        if s == "it's" { return 'say "hi"' weighted 1, "back\\slash" weighted 1 }
        else if s == "tab\\there\\n" { return "{brace}" weighted 1, '%s{0}' weighted 2 }
        else { return "'" weighted 1, '"' weighted 1, "\\" weighted 1 }
    }""",
    "non_ascii": """def unicode_prog {
        salt: "sél-日本"
        splitters: uid
        if name == "héllo" or name in ("日本", "\U0001f600") {
            return "é" weighted ٣, "üß" weighted 1.5
        } else { return "z z" weighted 1 }
    }""",
    "odd_space": "def\x0cws\xa0{\tsplitters:\x1fuid\rif a not\xa0in (1) { return 1 weighted 1 } else if a == 1 { return 2 weighted 1 } }",
    "numbers": f"""def numbers {{
        splitters: uid
        if a == 007 and b >= 1.50 or c < -0.0 {{ return 0 weighted 1, -1 weighted 2, 1.5 weighted 0.5 }}
        else if a > {BIG}.0 or b == -{BIG}.5 {{ return -0.0 weighted 1, 00 weighted 1 }}
        else if a == {BIG} {{ return "bigint" weighted 1 }}
        else {{ return 10 weighted 0, 20 weighted 0.0, 30 weighted 3 }}
    }}""",
    "inf_weight": f"def infw {{ splitters: uid return 'a' weighted {BIG}.0, 'b' weighted 1 }}",
    "zero_weights": "def zerow { splitters: uid return 'a' weighted 0, 'b' weighted 0.0 }",
    "unroutable": """def unroutable { splitters: uid
        if r == 0 { return 0 weighted 1 } else if r == 1 { return 1.5 weighted 1 } }""",
    "shared_field": """def shared { salt: "x" splitters: uid, country
        if country in ("US", "CA") and uid != 3 { return "na" weighted 1, "na2" weighted 1 }
        else { return "row" weighted 1 } }""",
    "precedence": """def prec { splitters: uid
        if not a == 1 and b == 2 or c == 3 and not (d == 4 or e == 5) { return "t" weighted 1 }
        else { return "f" weighted 1 } }""",
    "id_partial": "def partial { splitters: uid return 'a' weighted 1, 'b' weighted 1 }",
    "id_detchoice": "def deterministic_choice { splitters: uid return 'a' weighted 1, 'b' weighted 3 }",
    "id_exc": "def ExperimentConditionalFailedError { splitters: uid if x == 1 { return 'a' weighted 1 } }",
    "id_inner": "def choose_experiment_variant { splitters: uid return 'a' weighted 1, 'b' weighted 1 }",
    "id_hashlib": "def hashlib { splitters: parse_source, PythonCodeGen if code_holder == 1 { return 'a' weighted 1 } else { return 'b' weighted 1 } }",
    "field_self": "def selfish { splitters: self return 'a' weighted 1, 'b' weighted 1 }",
    "field_source_code": "def srcfield { splitters: source_code, text if fn_name == ast { return 'a' weighted 1 } else { return 'b' weighted 1, 'c' weighted 1 } }",
    "field_partial": "def shadow { splitters: uid if partial == 1 { return 'a' weighted 1 } else { return 'b' weighted 1 } }",
    "deep30": "def deep30 { splitters: uid "
    + "".join(f"if f{i} == {i} {{ " for i in range(30))
    + "return 'leaf' weighted 1"
    + " }" * 30
    + " }",
    "many_not": "def manynot { splitters: uid if " + "not " * 40 + "a == 1 { return 't' weighted 1 } else { return 'f' weighted 1 } }",
    "single_group_float": "def sgf { return 2.50 weighted 0.25 }",
    "dup_splitters": "def dups { splitters: b, a, b, a return 'x' weighted 1, 'y' weighted 1, 'z' weighted 1 }",
}

INVALID = {
    "empty": "",
    "only_comment": "// nothing",
    "only_block": "/* nothing */",
    "unterminated_block": "/* never closed def x { return 'a' weighted 1 }",
    "no_body": "def x {}",
    "trailing": "def x { return 'a' weighted 1 } def",
    "bad_char": "def x { return 'a' weighted 1; }",
    "non_ascii_ident": "def éx { return 'a' weighted 1 }",
    "neg_weight": "def x { return 'a' weighted -1 }",
    "kw_as_id": "def if { return 'a' weighted 1 }",
    "kw_field": "def x { splitters: in return 'a' weighted 1 }",
    "salt_after_splitters": "def x { splitters: a salt: 's' return 'a' weighted 1 }",
    "unclosed_string": "def x { return 'a weighted 1 }",
    "multiline_string": "def x { return 'a\nb' weighted 1 }",
    "mixed_quotes": "def x { return 'a\" weighted 1 }",
    "tuple_return": "def x { return (1,2) weighted 1 }",
    "ident_return": "def x { return a weighted 1 }",
    "empty_tuple": "def x { if a in () { return 1 weighted 1 } }",
    "double_else": "def x { if a == 1 { return 1 weighted 1 } else { return 2 weighted 1 } else { return 3 weighted 1 } }",
    "missing_weight": "def x { return 'a' }",
    "upper_kw": "DEF x { return 'a' weighted 1 }",
    "elif_kw": "def x { if a == 1 { return 1 weighted 1 } elif a == 2 { return 2 weighted 1 } }",
    "notin_joined": "def x { if a notin (1) { return 1 weighted 1 } }",
    "float_no_frac": "def x { return 'a' weighted 1. }",
    "py_kw_id": "def class { return 'a' weighted 1 }",
    "py_kw_field": "def x { splitters: lambda return 'a' weighted 1 }",
    "kwargs_field": "def x { splitters: kwargs return 'a' weighted 1 }",
    "none_field": "def x { if None == 1 { return 'a' weighted 1 } }",
    "debug_field": "def x { splitters: __debug__ return 'a' weighted 1 }",
    "deep105": "def deep105 { "
    + "".join(f"if f{i} == {i} {{ " for i in range(105))
    + "return 'leaf' weighted 1"
    + " }" * 105
    + " }",
    "too_many_not": "def toomany { if " + "not " * 3000 + "a == 1 { return 't' weighted 1 } }",
    "nested_comment": "/* a /* b */ c */ def x { return 'a' weighted 1 }",
}

NON_TEXT = {
    "none": None,
    "bytes": b"def x { return 'a' weighted 1 }",
    "int": 7,
    "list": ["def x { return 'a' weighted 1 }"],
    "lone_surrogate": "def x { return '\ud800' weighted 1 }",
}

POOL = [0, 1, 2, 3, 5, 9, -1, 1.5, "a", "x", "xyz", "US", "it's", "héllo", (1, 2), None, True, "s", 4, 7]


def field_names(ast):
    gen = PythonCodeGen(ast, expose_experiment_variant_function=False)
    gen.generate()
    names = list(gen.local_vars)
    names += [name for name in gen.conditional_ids if name not in names]
    return names


def input_rows(fields, rows=24):
    out = []
    for i in range(rows):
        out.append(
            {f: POOL[(i * 7 + j * 3 + i * j) % len(POOL)] for j, f in enumerate(fields)}
        )
    return out


def call_series(fn, rows, seed=1234):
    """call fn on every row; unseeded programs use random.choices, so seed first"""
    random.seed(seed)
    results = []
    for row in rows:
        try:
            results.append(show(fn(**row)))
        except Exception as exc:  # noqa: BLE001
            results.append("!" + type(exc).__name__ + ":" + err(exc)["msg"][:80])
    return results


def compact(results):
    return {"n": len(results), "sha": sha("|".join(results)), "head": results[:4]}


# --------------------------------------------------------------------------
# sections
# --------------------------------------------------------------------------
def section_signatures():
    out = {}
    for name, obj in {
        "Evaluator.__init__": ExperimentEvaluator.__init__,
        "Evaluator.recompile": ExperimentEvaluator.recompile,
        "Evaluator.run_experiment": ExperimentEvaluator.run_experiment,
        "Evaluator.__call__": ExperimentEvaluator.__call__,
        "ParseError.__init__": ParseError.__init__,
        "parse_source": parse_source,
        "generate_code": generate_code,
    }.items():
        out[name] = {
            "sig": str(inspect.signature(obj)),
            "name": obj.__name__,
            "qualname": obj.__qualname__,
            "module": obj.__module__,
        }
    out["class_checksum"] = show(ExperimentEvaluator._checksum)
    out["checksum_in_class_dict"] = "_checksum" in vars(ExperimentEvaluator)
    out["evaluator_mro"] = [c.__name__ for c in ExperimentEvaluator.__mro__]
    out["parse_error_mro"] = [c.__name__ for c in ParseError.__mro__]
    out["wf_parse_is_ee_parse"] = ee.parse_source is wf.parse_source
    return out


def section_parse():
    out = {}
    for name, text in {**VALID, **INVALID}.items():
        try:
            ast = parse_source(text)
            out[name] = {"type": type(ast).__name__, "repr_sha": sha(repr(ast)), "repr_head": repr(ast)[:120]}
        except Exception as exc:  # noqa: BLE001
            out[name] = err(exc)
    for name, text in NON_TEXT.items():
        out["nontext_" + name] = attempt(parse_source, text)
    out["kw_call"] = attempt(lambda: type(parse_source(text=VALID["plain"])).__name__)
    return out


def section_generate_code():
    out = {}
    for name, text in {**VALID, **INVALID}.items():
        entry = {}
        for layout in (False, True):
            key = "exposed" if layout else "nested"
            try:
                code = generate_code(text, layout) if layout else generate_code(text)
            except Exception as exc:  # noqa: BLE001
                entry[key] = err(exc)
                continue
            item = {"code_sha": sha(code), "lines": code.count("\n")}
            try:
                ast = parse_source(text)
                namespace = {}
                exec(code, namespace)
                fn = namespace[ast.id]
                rows = input_rows(field_names(ast))
                item["calls"] = compact(call_series(fn, rows))
                item["has_inner_at_root"] = "choose_experiment_variant" in namespace
            except Exception as exc:  # noqa: BLE001
                item["exec"] = err(exc)
            entry[key] = item
        out[name] = entry
    out["kw_layout"] = sha(generate_code(text=VALID["readme"], expose_internal_fn=True))
    out["nontext_none"] = attempt(generate_code, None)
    return out


def describe(ev):
    fn = vars(ev).get("run_experiment")
    info = {
        "vars": sorted(vars(ev)),
        "checksum": show(ev._checksum),
    }
    if fn is not None:
        info.update(
            fn_type=type(fn).__name__,
            fn_name=fn.__name__,
            fn_module=show(fn.__module__),
            fn_globals_is_module=fn.__globals__ is vars(ee),
            fn_file=fn.__code__.co_filename,
            fn_sig=str(inspect.signature(fn)),
            attr_is_instance_fn=ev.run_experiment is fn,
        )
    return info


def section_evaluator():
    out = {}
    for name, text in {**VALID, **INVALID}.items():
        try:
            ev = ExperimentEvaluator(text)
        except Exception as exc:  # noqa: BLE001
            out[name] = err(exc)
            continue
        ast = parse_source(text)
        rows = input_rows(field_names(ast))
        item = describe(ev)
        item["expected_checksum"] = ev._checksum == hashlib.md5(text.encode("utf-8")).hexdigest()
        item["call"] = compact(call_series(ev, rows))
        item["run_experiment"] = compact(call_series(ev.run_experiment, rows))
        item["extra_kwargs"] = compact(call_series(ev, [dict(row, zz_unused=1) for row in rows[:6]]))
        item["missing_kwargs"] = compact(call_series(ev, [{}]))
        item["positional"] = attempt(lambda: ev(1))
        out[name] = item
    for name, text in NON_TEXT.items():
        out["nontext_" + name] = attempt(ExperimentEvaluator, text)
    out["no_args"] = attempt(ExperimentEvaluator)
    out["kw_ctor"] = attempt(lambda: ExperimentEvaluator(source_code=VALID["plain"])._checksum)
    return out


def section_lifecycle():
    a, b = VALID["readme"], VALID["shared_field"]
    histories = {
        "same_twice": [a, a, a + "", a + " ", a + " ", a],
        "invalid_between": [a, INVALID["bad_char"], INVALID["bad_char"], a, b, INVALID["py_kw_id"], b, INVALID["empty"], a],
        "invalid_first": [INVALID["no_body"], INVALID["no_body"], a, INVALID["neg_weight"], INVALID["kwargs_field"], a],
        "nontext_between": [a, None, b"x", "\ud800", 7, a, b],
        "lex_then_yacc_then_compile": [b, INVALID["non_ascii_ident"], INVALID["trailing"], INVALID["deep105"], INVALID["too_many_not"], b, VALID["unroutable"], VALID["zero_weights"], b],
        "comment_only_change": [VALID["plain"], "// c\n" + VALID["plain"], VALID["plain"] + "// c", VALID["plain"]],
    }
    probe_rows = [
        {"my_id": i, "field_1": "a" if i % 2 else "b", "uid": i, "country": "US" if i % 3 else "FR", "r": i % 3}
        for i in range(40)
    ]
    out = {}
    for hname, texts in histories.items():
        steps = []
        ev = None
        for text in texts:
            step = {"text_sha": sha(repr(text))}
            before_fn = vars(ev).get("run_experiment") if ev is not None else None
            before_sum = ev._checksum if ev is not None else None
            try:
                if ev is None:
                    ev = ExperimentEvaluator(text)
                    step["op"] = "construct"
                else:
                    step["op"] = "recompile"
                    step["returned"] = show(ev.recompile(text))
            except Exception as exc:  # noqa: BLE001
                step.update(err(exc))
            if ev is not None:
                step["state"] = describe(ev)
                step["fn_unchanged"] = vars(ev).get("run_experiment") is before_fn
                step["checksum_unchanged"] = ev._checksum == before_sum
                step["calls"] = compact(call_series(ev, probe_rows))
            steps.append(step)
        out[hname] = steps

    # keyword form, subclass hooks, two instances do not share state
    ev1, ev2 = ExperimentEvaluator(a), ExperimentEvaluator(b)
    out["kw_recompile"] = attempt(lambda: ev1.recompile(source_code=b))
    out["independent"] = {
        "ev1": describe(ev1),
        "ev2": describe(ev2),
        "distinct_fn": vars(ev1)["run_experiment"] is not vars(ev2)["run_experiment"],
        "class_checksum_untouched": show(ExperimentEvaluator._checksum),
    }

    class Stripping(ExperimentEvaluator):
        seen = []

        def recompile(self, source_code):
            type(self).seen.append(sha(source_code))
            return super().recompile(source_code.strip())

    sub = Stripping("  " + a + "\n")
    sub.recompile(a)
    out["subclass"] = {"state": describe(sub), "seen": Stripping.seen, "calls": compact(call_series(sub, probe_rows))}

    class Preset(ExperimentEvaluator):
        _checksum = hashlib.md5(a.encode("utf-8")).hexdigest()

    preset = Preset(a)  # the class already claims this text: nothing is compiled
    out["preset_checksum"] = {"state": describe(preset), "call": attempt(lambda: preset(my_id=1, field_1="a"))}
    preset.recompile(b)
    out["preset_then_other"] = {"state": describe(preset), "calls": compact(call_series(preset, probe_rows))}

    bare = object.__new__(ExperimentEvaluator)
    out["uninitialised"] = {
        "state": describe(bare),
        "call": attempt(lambda: bare(x=1)),
        "run": attempt(lambda: bare.run_experiment()),
        "class_run": attempt(lambda: ExperimentEvaluator.run_experiment(bare, x=1)),
    }
    bare.recompile(a)
    out["uninitialised_then_recompile"] = {"state": describe(bare), "calls": compact(call_series(bare, probe_rows))}
    return out


def section_parse_error():
    out = {}
    for label, make in {"default": lambda: ParseError(), "custom": lambda: ParseError("boom"), "kw": lambda: ParseError(message="kw")}.items():
        exc = make()
        out[label] = {"str": str(exc), "repr": repr(exc), "args": show(exc.args), "message": show(exc.message), "vars": sorted(vars(exc))}
    out["positional_extra"] = attempt(lambda: ParseError("a", "b"))

    # the parser returning nothing is reported as ParseError; nothing is installed
    original = ee.parse_source
    ee.parse_source = lambda text: None
    try:
        out["ctor_when_parser_returns_none"] = attempt(ExperimentEvaluator, VALID["plain"])
        ev = object.__new__(ExperimentEvaluator)
        out["recompile_when_parser_returns_none"] = attempt(ev.recompile, VALID["plain"])
        out["state_after"] = describe(ev)
    finally:
        ee.parse_source = original
    ev = ExperimentEvaluator(VALID["readme"])
    ee.parse_source = lambda text: None
    try:
        out["same_text_skips_parser"] = attempt(ev.recompile, VALID["readme"])
        out["other_text_hits_parser"] = attempt(ev.recompile, VALID["plain"])
        out["state_kept"] = describe(ev)
    finally:
        ee.parse_source = original

    # order of effects: the parser is consulted only for changed text, and the
    # code generator only for a parsed tree
    calls = []

    def spying_parser(text):
        calls.append("parse:" + sha(text))
        return original(text)

    ee.parse_source = spying_parser
    try:
        ev = ExperimentEvaluator(VALID["plain"])
        ev.recompile(VALID["plain"])
        attempt(ev.recompile, INVALID["bad_char"])
        attempt(ev.recompile, INVALID["bad_char"])
        attempt(ev.recompile, INVALID["py_kw_id"])
        ev.recompile(VALID["readme"])
        ev.recompile(VALID["readme"])
    finally:
        ee.parse_source = original
    out["parser_calls"] = calls
    return out


def section_bucketing():
    out = {}
    weight_sets = [(1, 1), (4, 1), (1, 2, 1), (0, 1), (0.5, 0.25, 0.25), (3.4, 5, 3), (1, 0, 0, 7), (1e-9, 1)]
    salts = [None, "", "s", "user_exp_v1", "sél", "it's", 'dq"', "back\\slash"]
    ids = list(range(300)) + [f"id_{i}" for i in range(300)] + ["", " ", "é", "\U0001f600", -1, 1.5, None, True, (1, 2)]
    for wi, weights in enumerate(weight_sets):
        for si, salt in enumerate(salts):
            groups = ", ".join(f'"g{k}" weighted {w!r}' for k, w in enumerate(weights))
            if salt is None:
                salt_text = ""
            elif "'" in salt:
                salt_text = f'salt: "{salt}"'
            else:
                salt_text = f"salt: '{salt}'"
            text = f"def bucket_{wi}_{si} {{ {salt_text} splitters: uid, grp return {groups} }}"
            try:
                ev = ExperimentEvaluator(text)
            except Exception as exc:  # noqa: BLE001
                out[f"w{wi}_s{si}"] = err(exc)
                continue
            got, ref = [], []
            for uid in ids:
                for grp in ("A", 2):
                    got.append(ev(uid=uid, grp=grp))
                    ref.append(
                        deterministic_choice(
                            (salt or "") + "".join(map(str, [grp, uid])),
                            [f"g{k}" for k in range(len(weights))],
                            list(weights),
                        )
                    )
            counts = {g: got.count(g) for g in sorted(set(got))}
            out[f"w{wi}_s{si}"] = {"counts": counts, "sha": sha("".join(got)), "matches_direct": got == ref}
    out["proba"] = [deterministic_proba(s) for s in ("", "a", "id_1", "é", "s" * 1000)]
    out["choice_errors"] = {
        "both": attempt(lambda: deterministic_choice("a", [1, 2], [1, 1], cum_weights=[1, 2])),
        "mismatch": attempt(lambda: deterministic_choice("a", [1, 2], [1])),
        "zero": attempt(lambda: deterministic_choice("a", [1, 2], [0, 0])),
        "inf": attempt(lambda: deterministic_choice("a", [1, 2], [float("inf"), 1])),
        "noweights": attempt(lambda: deterministic_choice("a", [1, 2, 3])),
        "cum": attempt(lambda: deterministic_choice("a", ["x", "y", "z"], cum_weights=[1, 2, 9])),
        "empty": attempt(lambda: deterministic_choice("a", [])),
    }
    return out


def section_threads():
    a = "def thr { splitters: uid return 'A1' weighted 1, 'A2' weighted 1 }"
    b = "def thr { splitters: uid return 'B1' weighted 1, 'B2' weighted 3 }"
    bad = INVALID["bad_char"]
    ev = ExperimentEvaluator(a)
    allowed = {"A1", "A2", "B1", "B2"}
    problems = []
    stop = threading.Event()

    def writer():
        try:
            for _ in range(150):
                ev.recompile(a)
                try:
                    ev.recompile(bad)
                    problems.append("bad text accepted")
                except Exception as exc:  # noqa: BLE001
                    if type(exc).__name__ != "LexError":
                        problems.append("writer:" + type(exc).__name__)
                ev.recompile(b)
        except Exception as exc:  # noqa: BLE001
            problems.append("writer died:" + type(exc).__name__)
        finally:
            stop.set()

    def reader(offset):
        i = 0
        try:
            while not stop.is_set() or i < 500:
                value = ev(uid=offset + i)
                if value not in allowed:
                    problems.append(f"reader saw {value!r}")
                i += 1
        except Exception as exc:  # noqa: BLE001
            problems.append("reader died:" + type(exc).__name__)

    threads = [threading.Thread(target=writer)] + [threading.Thread(target=reader, args=(k * 10000,)) for k in range(4)]
    for t in threads:
        t.start()
    for t in threads:
        t.join()
    out = {
        "problems": sorted(set(problems)),
        "final": describe(ev),
        "final_calls": compact([ev(uid=i) for i in range(200)]),
    }

    # every thread compiles for itself: results equal the sequential ones
    names = sorted(VALID)
    sequential = {n: sha(repr(parse_source(VALID[n]))) + sha(generate_code(VALID[n])) for n in names}
    mismatches = []

    def worker(k):
        for n in names[k::2] + names:
            try:
                got = sha(repr(parse_source(VALID[n]))) + sha(generate_code(VALID[n]))
                local = ExperimentEvaluator(VALID[n])
                if got != sequential[n] or local._checksum != hashlib.md5(VALID[n].encode("utf-8")).hexdigest():
                    mismatches.append(n)
            except Exception as exc:  # noqa: BLE001
                mismatches.append(n + ":" + type(exc).__name__)

    threads = [threading.Thread(target=worker, args=(k,)) for k in range(6)]
    for t in threads:
        t.start()
    for t in threads:
        t.join()
    out["parallel_mismatches"] = sorted(set(mismatches))
    return out


def section_stats():
    out = {"probit": {}, "ci": {}}
    for alpha in (0.5, 0.975, 0.025, 0.0005, 0.9, 1e-12, 0.25):
        out["probit"][repr(alpha)] = attempt(probit, alpha)
    for alpha in (0, 1, -0.5, 2, "x"):
        out["probit"][repr(alpha)] = attempt(probit, alpha)
    out["probit"]["default"] = attempt(probit)
    for method in ("agresti-coull", "wald", "Wald", "AGRESTI-COULL", "wilson", ""):
        for n in (0, 1, 10, 10000):
            for p in (0.0, 0.5, 0.2, 1.0, 4 / 5):
                for confidence in (0.95, 0.999, 1.0, 0.0):
                    key = f"{method}|{n}|{p!r}|{confidence!r}"
                    out["ci"][key] = attempt(confidence_interval, n, p, confidence, method)
    out["ci"]["defaults"] = attempt(confidence_interval)
    out["ci"]["kw"] = attempt(lambda: confidence_interval(n=100, p=0.3, confidence=0.9, method="wald"))
    out["ci"]["bad_method_type"] = attempt(lambda: confidence_interval(method=None))
    out["ci_sha"] = sha(json.dumps(out["ci"], sort_keys=True))
    # keep the document readable: the full grid is summarised by its digest
    out["ci"] = {k: v for k, v in out["ci"].items() if k.endswith("|10|0.5|0.95") or "|" not in k}
    return out


def main():
    sections = {
        "signatures": section_signatures,
        "parse": section_parse,
        "generate_code": section_generate_code,
        "evaluator": section_evaluator,
        "lifecycle": section_lifecycle,
        "parse_error": section_parse_error,
        "bucketing": section_bucketing,
        "threads": section_threads,
        "stats": section_stats,
    }
    doc = {}
    for name, fn in sections.items():
        try:
            doc[name] = fn()
        except Exception as exc:  # noqa: BLE001
            doc[name] = {"section_failed": err(exc)}
    print(json.dumps(doc, sort_keys=True, indent=1, ensure_ascii=True))


if __name__ == "__main__":
    main()

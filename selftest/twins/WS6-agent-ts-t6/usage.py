"""Exercises the opt-in recompile observers added by t6 (exits 0 with the patch)."""
import hashlib
import logging

from pyab_experiment.experiment_evaluator import ExperimentEvaluator, RecompileEvent

A = "def exp_a{ splitters: uid return 'a1' weighted 1, 'a2' weighted 1 }"
B = "def exp_b{ splitters: uid return 'b1' weighted 1 }"
md5 = lambda t: hashlib.md5(t.encode("utf-8")).hexdigest()  # noqa

# off by default: nothing stored, nothing called
plain = ExperimentEvaluator(A)
assert sorted(vars(plain)) == ["_checksum", "run_experiment"]
assert ExperimentEvaluator._recompile_observers == ()

events = []
ev = ExperimentEvaluator(A, on_recompile=events.append)
assert len(events) == 1 and isinstance(events[0], RecompileEvent)
assert events[0] == (ev, "", md5(A), "exp_a")  # first load reported

ev.recompile(A)  # same text: no recompile, no event
assert len(events) == 1
try:
    ev.recompile("def broken{")  # rejected: no event, still serving A
except Exception:
    pass
assert len(events) == 1 and ev(uid="u1") in ("a1", "a2")

seen_by_second = []


def second(event):
    # the new code is already live when observers run
    seen_by_second.append((event.experiment_name, event.evaluator(uid="u1")))


remove_second = ev.add_recompile_observer(second)
ev.recompile(B)
assert events[-1] == (ev, md5(A), md5(B), "exp_b")
assert seen_by_second == [("exp_b", "b1")]

# removal is by identity and idempotent; the other subscription stays
remove_second()
remove_second()
ev.recompile(A)
assert len(events) == 3 and len(seen_by_second) == 1

# a failing observer is logged, the recompile succeeds, later observers still run
records = []
handler = logging.Handler()
handler.emit = records.append
logger = logging.getLogger("pyab_experiment.experiment_evaluator")
logger.addHandler(handler)
logger.propagate = False


def boom(event):
    raise RuntimeError("metrics backend down")


late = []
ev.add_recompile_observer(boom)
ev.add_recompile_observer(late.append)
ev.recompile(B)
assert ev._checksum == md5(B) and ev(uid="u1") == "b1"
assert len(records) == 1 and "boom" in records[0].getMessage()
assert len(late) == 1 and len(events) == 4

# observers are per instance
other = ExperimentEvaluator(A)
other.recompile(B)
assert len(events) == 4 and "_recompile_observers" not in vars(other)

try:
    ev.add_recompile_observer("not callable")
except TypeError:
    pass
else:
    raise AssertionError
print("t6 usage ok")

"""Exercises the new capability of t5: read-only view of the collected identifiers."""

import inspect

from pyab_experiment.codegen.python.python_generator import (
    CollectedIdentifiers,
    PythonCodeGen,
)
from pyab_experiment.utils.wraper_functions import parse_source

TEXT = (
    "def chain{ splitters: uid, country if country == 'US' and not age < 18 "
    "{ return 'us' weighted 1 } else if zone in ('FR', 'BE') or uid == 0 { return 'eu' weighted 1 } "
    "else { return 'row' weighted 1 } }"
)
tree = parse_source(TEXT)

gen = PythonCodeGen(tree)
# nothing collected yet, and looking does not collect
assert gen.identifiers == CollectedIdentifiers((), ()) == ((), ())
assert gen.identifiers.parameters == () and gen.identifiers.roles == {}

# collecting without generating into this object
found = gen.collect_identifiers()
assert gen.identifiers == ((), ()) and gen.local_vars == [] and gen.conditional_ids == []
assert found.splitting == ("country", "uid")
assert found.conditional == ("age", "country", "uid", "zone")
assert found.shared == ("country", "uid")
assert found.condition_only == ("age", "zone")
assert found.parameters == ("country", "uid", "age", "zone")
assert found.roles == {"country": "both", "uid": "both", "age": "condition", "zone": "condition"}
assert list(found.roles) == list(found.parameters)

# read-only
for attempt in (
    lambda: setattr(found, "splitting", ()),
    lambda: found.splitting.append("x"),
    lambda: setattr(found, "parameters", ()),
):
    try:
        attempt()
    except AttributeError:
        pass
    else:
        raise AssertionError("view is writable")

# after generate() the live view agrees, and with the real signature
for expose in (True, False):
    gen = PythonCodeGen(tree, "\t", expose)
    code = gen.generate()
    assert gen.identifiers == found
    assert gen.identifiers.splitting == tuple(gen.local_vars)
    assert gen.identifiers.conditional == tuple(gen.conditional_ids)
    ns = {}
    exec(compile(code, "<t5>", "exec"), ns)
    assert tuple(inspect.signature(ns["chain"]).parameters) == found.parameters + ("kwargs",)
    # the snapshot taken earlier is not affected by later work on the generator
    snapshot = gen.identifiers
    gen._local_vars.add("later")
    assert snapshot == found and gen.identifiers != found

others = {
    "def a{ return 1 weighted 1 }": ((), (), {}),
    "def b{ splitters: z, y return 1 weighted 1 }": (("y", "z"), (), {"y": "splitter", "z": "splitter"}),
    "def c{ if f == g { return 1 weighted 1 } }": ((), ("f", "g"), {"f": "condition", "g": "condition"}),
}
for text, (splitting, conditional, roles) in others.items():
    view = PythonCodeGen(parse_source(text)).collect_identifiers()
    assert (view.splitting, view.conditional, view.roles) == (splitting, conditional, roles)
print("t5 usage ok")

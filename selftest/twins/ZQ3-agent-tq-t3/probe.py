"""Differential probe.

Run as ``PYTHONPATH=/tmp/wt/TQ/src /venv/bin/python probe.py``; prints one JSON
document that must be byte-identical with and without the patch.  Nothing in
here depends on wall-clock time, object ids, hash randomisation or thread
scheduling (thread results are compared against sequential ones and only the
verdict is printed).
"""

import decimal
import hashlib
import json
import random
import threading

from pyab_experiment.binning.binning import deterministic_choice, deterministic_proba
from pyab_experiment.codegen.python.python_generator import PythonCodeGen
from pyab_experiment.data_structures import syntax_tree as st
from pyab_experiment.experiment_evaluator import ExperimentEvaluator
from pyab_experiment.language.grammar import ExperimentParser
from pyab_experiment.language.lexer import ExperimentLexer
from pyab_experiment.utils import stats
from pyab_experiment.utils.wraper_functions import generate_code, parse_source

OUT = {}


def digest(obj) -> str:
    return hashlib.sha256(repr(obj).encode("utf-8", "backslashreplace")).hexdigest()[
        :20
    ]


def outcome(fn, *args, **kwargs):
    """repr of the result, or class name + message of whatever is raised"""
    try:
        return ["ok", repr(fn(*args, **kwargs))]
    except BaseException as exc:  # noqa: B902 - every class is of interest here
        return ["raise", type(exc).__name__, str(exc)]


# --------------------------------------------------------------------------
# 1. the declared shape of the models and enums
# --------------------------------------------------------------------------
def field_shape(field):
    return {
        "name": field.name,
        "type": repr(field.outer_type_),
        "required": repr(field.required),
        "allow_none": field.allow_none,
        "default": repr(field.default),
        "shape": field.shape,
        "validators": len(field.validators or []),
        "pre": len(field.pre_validators or []),
        "post": len(field.post_validators or []),
        "sub": [field_shape(sub) for sub in (field.sub_fields or [])],
    }


MODELS = [
    st.ExperimentGroup,
    st.Identifier,
    st.TerminalPredicate,
    st.RecursivePredicate,
    st.ExperimentConditional,
    st.ExperimentAST,
]
ENUMS = [st.LogicalOperatorEnum, st.BooleanOperatorEnum, st.ConditionalType]

OUT["models"] = {
    model.__name__: {
        "fields": [field_shape(f) for f in model.__fields__.values()],
        "smart_union": model.__config__.smart_union,
        "copy_on_model_validation": model.__config__.copy_on_model_validation,
        "extra": str(model.__config__.extra),
        "schema": model.schema(),
        "is_base_model_subclass": issubclass(model, st.BaseModel),
        "module": model.__module__,
        "qualname": model.__qualname__,
        "doc": digest(model.__doc__),
    }
    for model in MODELS
}
OUT["enums"] = {
    enum.__name__: {
        "members": [[m.name, m.value] for m in enum],
        "aliases": sorted(enum.__members__),
        "module": enum.__module__,
        "qualname": enum.__qualname__,
        "by_value": [repr(enum(v)) for v in range(1, len(enum) + 1)],
        "bad_value": outcome(enum, len(enum) + 1),
        "doc": digest(enum.__doc__),
        "hashes_equal_self": all(m == m and m is enum[m.name] for m in enum),
    }
    for enum in ENUMS
}

# --------------------------------------------------------------------------
# 2. the models fed directly (coercion order of the unions)
# --------------------------------------------------------------------------
ident = st.Identifier(name="x")
grp = st.ExperimentGroup(group_definition="a", group_weight=1)
term_pred = st.TerminalPredicate(
    left_term=ident, logical_operator=st.LogicalOperatorEnum.EQ, right_term=1
)
rec_pred = st.RecursivePredicate(
    left_predicate=term_pred,
    boolean_operator=st.BooleanOperatorEnum.NOT,
    right_predicate=None,
)
cond = st.ExperimentConditional(
    conditional_type=st.ConditionalType.IF,
    predicate=rec_pred,
    true_branch=[grp],
    false_branch=None,
)


class MyInt(int):
    pass


class MyStr(str):
    pass


class MyList(list):
    pass


SCALARS = [
    0,
    1,
    -1,
    True,
    False,
    1.0,
    -0.0,
    2.5,
    float("inf"),
    float("nan"),
    "1",
    "1.5",
    "abc",
    "",
    b"bytes",
    None,
    decimal.Decimal("1.50"),
    10**400,
    MyInt(7),
    MyStr("s"),
    [1, 2],
    (1, 2),
    [],
    (),
    MyList([3]),
    {1, 2},
    {"name": "y"},
    {"a": 1},
    ident,
    grp,
    [[1, 2], ident, "s"],
    range(3),
]

direct = {}
direct["group_definition"] = [
    outcome(st.ExperimentGroup, group_definition=v, group_weight=1) for v in SCALARS
]
direct["group_weight"] = [
    outcome(st.ExperimentGroup, group_definition="g", group_weight=v) for v in SCALARS
]
direct["left_term"] = [
    outcome(
        st.TerminalPredicate,
        left_term=v,
        logical_operator=st.LogicalOperatorEnum.IN,
        right_term=0,
    )
    for v in SCALARS
]
direct["right_term"] = [
    outcome(st.TerminalPredicate, left_term=0, logical_operator=2, right_term=v)
    for v in SCALARS
]
direct["logical_operator"] = [
    outcome(st.TerminalPredicate, left_term=0, logical_operator=v, right_term=0)
    for v in [1, 8, 9, 0, "1", "EQ", 1.0, True, None, st.BooleanOperatorEnum.AND]
]
direct["identifier"] = [outcome(st.Identifier, name=v) for v in SCALARS]
direct["missing"] = [
    outcome(st.ExperimentGroup),
    outcome(st.ExperimentGroup, group_definition=1),
    outcome(st.TerminalPredicate, left_term=1),
    outcome(st.RecursivePredicate, left_predicate=term_pred),
    outcome(st.RecursivePredicate, left_predicate=term_pred, boolean_operator=1),
    outcome(st.ExperimentConditional, conditional_type=1, true_branch=[grp]),
    outcome(st.ExperimentConditional, conditional_type=3, true_branch=cond),
    outcome(st.ExperimentAST, id="e", conditions=[grp]),
    outcome(st.ExperimentAST, id="e", conditions=[]),
    outcome(st.ExperimentAST, conditions=[grp]),
    outcome(st.ExperimentAST, id=5, conditions=cond, salt=7, splitting_fields=(1, "b")),
    outcome(st.ExperimentAST, id="e", conditions=cond, bogus=1),
]
PRED_INPUTS = [
    term_pred,
    rec_pred,
    None,
    term_pred.dict(),
    rec_pred.dict(),
    {"left_term": 1, "logical_operator": 1, "right_term": "2"},
    {"left_predicate": term_pred, "boolean_operator": 3},
    [grp],
    ident,
    "x",
    5,
    {},
]
direct["left_predicate"] = [
    outcome(st.RecursivePredicate, left_predicate=v, boolean_operator=1)
    for v in PRED_INPUTS
]
direct["right_predicate"] = [
    outcome(
        st.RecursivePredicate,
        left_predicate=term_pred,
        boolean_operator=2,
        right_predicate=v,
    )
    for v in PRED_INPUTS
]
direct["predicate"] = [
    outcome(
        st.ExperimentConditional, conditional_type=2, predicate=v, true_branch=[grp]
    )
    for v in PRED_INPUTS
]
BRANCH_INPUTS = [
    [grp],
    [grp, grp],
    [],
    (grp,),
    cond,
    cond.dict(),
    [grp.dict()],
    [{"group_definition": 1.5, "group_weight": "2"}],
    grp,
    None,
    {},
    [cond],
    "x",
    [("group_definition", 1), ("group_weight", 2)],
]
direct["true_branch"] = [
    outcome(st.ExperimentConditional, conditional_type=1, true_branch=v)
    for v in BRANCH_INPUTS
]
direct["false_branch"] = [
    outcome(
        st.ExperimentConditional,
        conditional_type=1,
        true_branch=[grp],
        false_branch=v,
    )
    for v in BRANCH_INPUTS
]
direct["conditions"] = [
    outcome(st.ExperimentAST, id="e", conditions=v) for v in BRANCH_INPUTS
]
copied = st.RecursivePredicate(
    left_predicate=rec_pred, boolean_operator=1, right_predicate=term_pred
)
direct["copies"] = {
    "left_is_same_object": copied.left_predicate is rec_pred,
    "left_equal": copied.left_predicate == rec_pred,
    "left_inner_is_same_object": copied.left_predicate.left_predicate
    is rec_pred.left_predicate,
    "right_is_same_object": copied.right_predicate is term_pred,
    "term_is_same_object": term_pred.left_term is ident,
    "group_in_branch_is_same_object": cond.true_branch[0] is grp,
    "dict": repr(copied.dict()),
    "json": copied.json(),
    "iter": repr(list(grp)),
    "fields_set": sorted(cond.__fields_set__),
    "eq_dict": grp == grp.dict(),
}
OUT["direct"] = {k: (v if k == "copies" else digest(v)) for k, v in direct.items()}
OUT["direct_detail"] = {
    k: [o[:2] for o in v] for k, v in direct.items() if k != "copies"
}

# --------------------------------------------------------------------------
# 3. curated programs
# --------------------------------------------------------------------------
BIG = "9" * 400
TEXTS = [
    'def a { return "x" weighted 3, 2 weighted 1.5, -0 weighted 0, -0.0 weighted 00 }',
    "def basic{return 'A' weighted 1}",
    'def salted { salt: "s\\n\'q\'" splitters: uid return "A" weighted 1, "B" weighted 2 }',
    "def salted2 { salt: 'd\"q\"\\\\' splitters: uid, country, uid return 1 weighted 1, 2.5 weighted 2, 'c' weighted 0.25 }",
    "def kwprefix { splitters: iffy, in_x, not_y, or_else, define, returned if iffy == in_x and not_y != or_else or define in (returned, 'r') { return 'k' weighted 1 } else { return 'e' weighted 1 } }",
    "def infix { if in_x in (1, 2) and not_y not in (3) { return 'A' weighted 1 } else if notin == 1 { return 'B' weighted 1 } }",
    "def nested { if x in ((1,2),(y,'s'),3, ((4), (5, z))) { return 1 weighted 1 } else if (x, y) == (1, (2)) { return 2 weighted 1 } else { return 3 weighted 1 } }",
    "def tuples { if (1) == ('a') { return 1 weighted 1 } }",
    "def prec { if a == 1 or b == 2 and not c == 3 or not not (a == 2 or b == 3) and c == 4 { return 'T' weighted 1 } else { return 'F' weighted 1 } }",
    "def prec2 { if not a == 1 and b == 2 { return 'T' weighted 1 } else if not (a == 1 and b == 2) { return 'U' weighted 1 } else if a == 1 and b == 2 and c == 3 or a == 4 or b == 5 and c == 6 { return 'V' weighted 1 } }",
    "def parens { if (((a == 1))) and ((b == 2) or (c == 3)) { return 'T' weighted 1 } }",
    "def deep { if a == 1 { if b == 2 { if c == 3 { return 'abc' weighted 1 } else { return 'ab' weighted 1 } } else if c == 3 { return 'ac' weighted 1 } } else if b == 2 { return 'b' weighted 1 } else if c == 3 { return 'c' weighted 1 } else { if x == y { return 'xy' weighted 1 } } }",
    "def cmp { splitters: uid if a < 1 { return 'lt' weighted 1 } else if a <= 2 { return 'le' weighted 1 } else if a > 10 { return 'gt' weighted 1 } else if a >= 9 { return 'ge' weighted 1 } else if a != 5 { return 'ne' weighted 1, 'ne2' weighted 3 } else { return 'five' weighted 1 } }",
    "def lits { if 1 == 1.0 and -2 < -1.5 and 'a' != \"a \" and -0 == -0.0 { return -1 weighted 1, -2.5 weighted 1, 007 weighted 1 } }",
    "def uni { salt: 'ключ' splitters: uid if country == 'Україна' or country in ('日本', 'é', '\\u00e9') { return 'да' weighted 1, 'нет' weighted 1 } else { return '🙂' weighted 1 } }",
    "/* c1 */ def com /* c2 */ { // line { } \n /* multi\nline */ salt: '//not' /* a */ /* b */ splitters: /* x */ uid // t\n if a == '/*' /* y */ { return '*/' weighted 1 // z\n } }",
    "def zero { splitters: uid return 'a' weighted 0, 'b' weighted 0 }",
    "def zero1 { splitters: uid return 'a' weighted 0, 'b' weighted 0.0, 'c' weighted 1 }",
    "def inf { splitters: uid return 'a' weighted " + BIG + ".0 }",
    "def infterm { if a < " + BIG + ".5 and a > -" + BIG + ".5 { return 'fin' weighted 1 } }",
    "def bigterm { if a < " + BIG + " and a > -" + BIG + " { return " + BIG + " weighted 1 } }",
    "def bigweight { return 'x' weighted " + BIG + " }",
    "def bigweight2 { return 'x' weighted " + BIG + " $ }",
    "def bigweight3 { return 'x' weighted " + BIG + " } $",
    "def bigweight4 { return 'x' weighted " + BIG + ", 'y' weighted 1 $ }",
    "def bigweight5 { return 'x' weighted " + BIG + ", 'y' weighted }",
    "def bigweight6 { if a == 1 { return 'x' weighted " + BIG + " } else { return 'y' weighted 1 } } }",
    "def bigweight7 { if a == 1 { return 'x' weighted " + BIG + " } else { return 'y' weighted 1 } ",
    "def bigweight8 { if a == 1 { return 'x' weighted 1 } else { return 'y' weighted " + BIG + " } ?",
    "def dupdef { return 'a' weighted 1, 'a' weighted 2, 1 weighted 1, 1.0 weighted 1 }",
    "def elif_ { if a == 1 { return 1 weighted 1 } else   if a == 2 { return 2 weighted 1 } elseif a == 3 { return 3 weighted 1 } else\nif a == 4 { return 4 weighted 1 } }",
    "def notin { if a not   in (1,2) { return 1 weighted 1 } else if a not\nin (3) { return 2 weighted 1 } else if not a in (4) { return 3 weighted 1 } }",
    "def idterm { if a == b { return 1 weighted 1 } else if (a) == (b) { return 2 weighted 1 } else if (a, b) in c { return 3 weighted 1 } }",
    "def samefield { splitters: a, b if a == 1 and b == c { return 1 weighted 1, 2 weighted 1 } else { return 3 weighted 1 } }",
    "def kwargs_ { splitters: kwargs return 1 weighted 1 }",
    "def partial { splitters: deterministic_choice if partial == 1 { return 1 weighted 1, 2 weighted 1 } }",
    # ---- rejected texts
    "",
    "def",
    "def a",
    "def a {",
    "def a { }",
    "def a { return }",
    "def a { return 'x' }",
    "def a { return 'x' weighted }",
    "def a { return 'x' weighted -1 }",
    "def a { return 'x' weighted 'y' }",
    "def a { return 'x' weighted 1, }",
    "def a { return 'x' weighted 1 'y' weighted 2 }",
    "def a { return x weighted 1 }",
    "def a { return (1,2) weighted 1 }",
    "def a { return 'x' weighted 1 } trailing",
    "def a { return 'x' weighted 1 } }",
    "def a { splitters: a, b salt: 'x' return 1 weighted 1 }",
    "def a { splitters: return 1 weighted 1 }",
    "def a { splitters: a, return 1 weighted 1 }",
    "def a { splitters: 'a' return 1 weighted 1 }",
    "def a { salt: x return 1 weighted 1 }",
    "def a { salt: 1 return 1 weighted 1 }",
    "def a { salt 'x' return 1 weighted 1 }",
    "def a { salt: 'x' salt: 'y' return 1 weighted 1 }",
    "def 1a { return 1 weighted 1 }",
    "def if { return 1 weighted 1 }",
    "def a b { return 1 weighted 1 }",
    "a { return 1 weighted 1 }",
    "def a { if { return 1 weighted 1 } }",
    "def a { if a { return 1 weighted 1 } }",
    "def a { if a == { return 1 weighted 1 } }",
    "def a { if a == 1 return 1 weighted 1 }",
    "def a { if a == 1 { } }",
    "def a { if a == 1 { return 1 weighted 1 }",
    "def a { if a == 1 { return 1 weighted 1 } else }",
    "def a { if a == 1 { return 1 weighted 1 } else { return 2 weighted 1 } else { return 3 weighted 1 } }",
    "def a { if a == 1 { return 1 weighted 1 } else { return 2 weighted 1 } else if b == 1 { return 3 weighted 1 } }",
    "def a { else { return 2 weighted 1 } }",
    "def a { if a == 1 == 2 { return 1 weighted 1 } }",
    "def a { if a == 1 and { return 1 weighted 1 } }",
    "def a { if and a == 1 { return 1 weighted 1 } }",
    "def a { if not { return 1 weighted 1 } }",
    "def a { if a not 1 { return 1 weighted 1 } }",
    "def a { if a == not b { return 1 weighted 1 } }",
    "def a { if (a == 1 { return 1 weighted 1 } }",
    "def a { if a == 1) { return 1 weighted 1 } }",
    "def a { if () == 1 { return 1 weighted 1 } }",
    "def a { if (1,) == 1 { return 1 weighted 1 } }",
    "def a { if (1 2) == 1 { return 1 weighted 1 } }",
    "def a { if (a == 1, 2) == 1 { return 1 weighted 1 } }",
    "def a { if ((a == 1) == 1 { return 1 weighted 1 } }",
    "def a { if (a, b) { return 1 weighted 1 } }",
    "def a { if a == - b { return 1 weighted 1 } }",
    "def a { if a == --1 { return 1 weighted 1 } }",
    "def a { if a == -'s' { return 1 weighted 1 } }",
    "def a { if a == 1. { return 1 weighted 1 } }",
    "def a { if a == .5 { return 1 weighted 1 } }",
    "def a { if a == 1e5 { return 1 weighted 1 } }",
    "def a { if a = 1 { return 1 weighted 1 } }",
    "def a { if a <> 1 { return 1 weighted 1 } }",
    "def a { if a === 1 { return 1 weighted 1 } }",
    "def a { if a == 'unterminated { return 1 weighted 1 } }",
    "def a { if a == 'multi\nline' { return 1 weighted 1 } }",
    "def a { return 1 weighted 1 } /* open",
    "def a { return 1 weighted 1 } */",
    "def a { return 1 weighted 1 /* x */ */ }",
    "def a { return 1 weighted 1; }",
    "def a { return 1 weighted 1 } #",
    "def a {\n\n return 1 weighted\n\n\n ; }",
    "def a {\n\n return 1 weighted\n\n\n 1 1 }",
    "def a {\n /* \n\n */ if a == 1 {\n return 1 weighted 1 }\n else if }",
    "def é { return 1 weighted 1 }",
    "DEF a { return 1 weighted 1 }",
    "def a { RETURN 1 weighted 1 }",
    "def a { return 1 Weighted 1 }",
    "def a { return\t1\tweighted\t1\r\n}\x0c\x0b",
    "def a { return 1 weighted 1 }\x00",
    "def a { return 1 weighted 1 }",
    "def a { return 1 weighted ١ }",
    "def a { return ١ weighted 1 }",
]

FIELDS = [
    "a",
    "b",
    "c",
    "x",
    "y",
    "uid",
    "country",
    "iffy",
    "in_x",
    "not_y",
    "or_else",
    "define",
    "returned",
    "notin",
    "kwargs",
    "partial",
    "deterministic_choice",
]


def kwargs_grid():
    rng = random.Random(20240611)
    pool = [
        0,
        1,
        2,
        3,
        4,
        5,
        9,
        10,
        -1,
        1.0,
        2.5,
        -0.0,
        "a",
        "1",
        "s",
        "r",
        "Україна",
        "é",
        "/*",
        (1, 2),
        (1,),
        [1, 2],
        ("s",),
        None,
        True,
        float("inf"),
        10**400,
    ]
    grid = [{f: 1 for f in FIELDS}, {f: 2 for f in FIELDS}, {}]
    grid.append({"uid": "u1"})
    grid.append({"a": 1})
    for _ in range(40):
        grid.append({f: rng.choice(pool) for f in FIELDS})
    for _ in range(10):
        grid.append({f: rng.choice(pool) for f in rng.sample(FIELDS, 9)})
    return grid


GRID = kwargs_grid()


def run_function(fn):
    res = []
    random.seed(12345)  # programs without splitters fall back to random.choices
    for kw in GRID:
        try:
            res.append(repr(fn(**kw)))
        except BaseException as exc:  # noqa: B902
            res.append(f"{type(exc).__name__}: {exc}")
    return res


def walk(node, path="ast"):
    """every node of a tree with its class, the fields that were set on it and
    the exact class of every leaf (a list is not a tuple, 1 is not 1.0)"""
    if isinstance(node, st.BaseModel):
        yield (path, type(node).__name__, sorted(node.__fields_set__), list(node.__fields__))
        for name in node.__fields__:
            yield from walk(getattr(node, name), f"{path}.{name}")
    elif isinstance(node, (list, tuple)):
        yield (path, type(node).__name__, len(node))
        for n, member in enumerate(node):
            yield from walk(member, f"{path}[{n}]")
    else:
        yield (path, type(node).__name__, repr(node))


def program_summary(text):
    summary = {}
    try:
        ast = parse_source(text)
    except BaseException as exc:  # noqa: B902
        return {"parse": ["raise", type(exc).__name__, str(exc)[:160]]}
    summary["parse"] = ["ok", digest(ast)]
    summary["ast_len"] = len(repr(ast))
    summary["walk"] = digest(list(walk(ast)))
    summary["ast_dict"] = digest(ast.dict()) if ast is not None else None
    if ast is None:
        return summary
    gen = PythonCodeGen(ast)
    raw = outcome(gen.generate)
    summary["raw_true"] = digest(raw)
    summary["vars"] = [gen.local_vars, gen.conditional_ids]
    raw = outcome(PythonCodeGen(ast, "  ", False).generate)
    summary["raw_false"] = digest(raw)
    for layout in (False, True):
        try:
            code = generate_code(text, layout)
        except BaseException as exc:  # noqa: B902
            summary[f"code_{layout}"] = ["raise", type(exc).__name__, str(exc)[:160]]
            continue
        summary[f"code_{layout}"] = ["ok", digest(code), len(code)]
        namespace = {}
        try:
            exec(compile(code, "<probe>", "exec"), namespace)
            results = run_function(namespace[ast.id])
        except BaseException as exc:  # noqa: B902
            summary[f"run_{layout}"] = ["raise", type(exc).__name__, str(exc)[:160]]
            continue
        summary[f"run_{layout}"] = [digest(results), results[:6]]
    try:
        evaluator = ExperimentEvaluator(text)
        results = run_function(evaluator)
        summary["evaluator"] = [digest(results), results[-4:]]
    except BaseException as exc:  # noqa: B902
        summary["evaluator"] = ["raise", type(exc).__name__, str(exc)[:160]]
    return summary


OUT["texts"] = [program_summary(text) for text in TEXTS]
OUT["full_ast_repr"] = [outcome(parse_source, text) for text in TEXTS[:16]]
OUT["full_walk"] = [list(walk(parse_source(text))) for text in TEXTS[5:8]]
OUT["full_code"] = [outcome(generate_code, text, True) for text in TEXTS[4:12]]
OUT["tokens"] = [
    outcome(
        lambda t: [(tok.type, tok.value, tok.lineno, tok.index) for tok in ExperimentLexer().tokenize(t)],
        text,
    )
    for text in TEXTS[2:8]
]

# --------------------------------------------------------------------------
# 4. generated programs (valid by construction) and token soups
# --------------------------------------------------------------------------
STRINGS = [
    "'a'",
    '"a"',
    "'it\"s'",
    '"it\'s"',
    "'back\\slash'",
    "'\\n'",
    "'é'",
    "'日本'",
    "''",
    '""',
    "'  spaced  '",
    "'//c'",
    "'/*c*/'",
    "'if'",
    "'{'",
]
NUMBERS = ["0", "1", "2", "10", "007", "1.5", "0.0", "00.50", "3.25", "123456789012345678901234567890", BIG + ".0"]
IDS = FIELDS[:14]
OPS = ["==", "!=", "<", "<=", ">", ">=", "in", "not in", "not  in", "not\tin"]
WS = [" ", "  ", "\n", "\t", " /* c */ ", " // c\n", "\r\n"]


def g_literal(rng):
    kind = rng.random()
    if kind < 0.35:
        return rng.choice(STRINGS)
    sign = "-" if rng.random() < 0.3 else ""
    gap = " " if sign and rng.random() < 0.3 else ""
    return sign + gap + rng.choice(NUMBERS)


def g_term(rng, depth=0):
    kind = rng.random()
    if kind < 0.4:
        return rng.choice(IDS)
    if kind < 0.8 or depth > 2:
        return g_literal(rng)
    members = [g_term(rng, depth + 1) for _ in range(rng.randint(1, 4))]
    return "(" + rng.choice(["", " "]) + ", ".join(members) + ")"


def g_pred(rng, depth=0):
    kind = rng.random()
    if depth > 4 or kind < 0.35:
        return f"{g_term(rng)} {rng.choice(OPS)} {g_term(rng)}"
    if kind < 0.5:
        return f"not {g_pred(rng, depth + 1)}"
    if kind < 0.7:
        return f"{g_pred(rng, depth + 1)} and {g_pred(rng, depth + 1)}"
    if kind < 0.9:
        return f"{g_pred(rng, depth + 1)} or {g_pred(rng, depth + 1)}"
    return f"({g_pred(rng, depth + 1)})"


def g_return(rng):
    groups = [
        f"{g_literal(rng)} weighted {rng.choice(NUMBERS[:9])}"
        for _ in range(rng.randint(1, 4))
    ]
    return "return " + ", ".join(groups)


def g_cond(rng, depth=0):
    if depth > 2 or rng.random() < 0.35:
        return g_return(rng)
    text = f"if {g_pred(rng)} {{ {g_cond(rng, depth + 1)} }}"
    for _ in range(rng.randint(0, 2)):
        text += f" {rng.choice(['else if', 'elseif', 'else  if'])} {g_pred(rng)} {{ {g_cond(rng, depth + 1)} }}"
    if rng.random() < 0.6:
        text += f" else {{ {g_cond(rng, depth + 1)} }}"
    return text


def g_program(rng, index):
    parts = [f"def prog_{index}", "{"]
    if rng.random() < 0.5:
        parts.append(f"salt: {rng.choice(STRINGS)}")
    if rng.random() < 0.7:
        parts.append(
            "splitters: " + ", ".join(rng.sample(IDS, rng.randint(1, 3)))
        )
    parts.append(g_cond(rng))
    parts.append("}")
    return rng.choice(WS).join(parts)


rng = random.Random(987654321)
generated = [g_program(rng, i) for i in range(160)]
gen_summaries = [program_summary(text) for text in generated]
OUT["generated"] = {
    "texts": digest(generated),
    "parse_ok": sum(1 for s in gen_summaries if s["parse"][0] == "ok"),
    "all": digest(gen_summaries),
    "first": gen_summaries[:3],
    "each": [digest(s) for s in gen_summaries],
}

# predicates only, many of them, full repr of the tree (associativity/precedence)
pred_rng = random.Random(424242)
pred_trees = []
for i in range(400):
    text = f"def p {{ if {g_pred(pred_rng)} {{ return 1 weighted 1 }} }}"
    ast = parse_source(text)
    pred_trees.append(repr(ast.conditions.predicate))
OUT["predicates"] = {"all": digest(pred_trees), "each": [digest(t) for t in pred_trees[:40]]}

VOCAB = (
    ["def", "{", "}", "(", ")", ",", ":", "-", "salt", "splitters", "if", "else", "else if", "return", "weighted", "and", "or", "not", "not in", "in", "==", "<", ">=", "!="]
    + IDS[:5]
    + STRINGS[:4]
    + NUMBERS[:6]
    + ["$", "\n", "/* c */", "// c\n", BIG]
)
soup_rng = random.Random(1357911)
soups = []
for i in range(1500):
    if i % 3 == 0:
        # a valid program damaged at one point
        base = g_program(soup_rng, i).split(" ")
        pos = soup_rng.randrange(len(base))
        action = soup_rng.random()
        if action < 0.4:
            del base[pos]
        elif action < 0.8:
            base.insert(pos, soup_rng.choice(VOCAB))
        else:
            base[pos] = soup_rng.choice(VOCAB)
        soups.append(" ".join(base))
    else:
        prefix = ["def", "e", "{"] if soup_rng.random() < 0.7 else []
        soups.append(
            " ".join(prefix + [soup_rng.choice(VOCAB) for _ in range(soup_rng.randint(1, 14))])
        )
soup_results = []
for text in soups:
    try:
        ast = parse_source(text)
        soup_results.append(["ok", digest(ast)])
    except BaseException as exc:  # noqa: B902
        soup_results.append([type(exc).__name__, str(exc)[:120]])
classes = {}
for res in soup_results:
    classes[res[0]] = classes.get(res[0], 0) + 1
OUT["soups"] = {
    "classes": dict(sorted(classes.items())),
    "all": digest(soup_results),
    "chunks": [digest(soup_results[i : i + 50]) for i in range(0, len(soup_results), 50)],
    "sample": soup_results[:25],
}

# --------------------------------------------------------------------------
# 5. bucketing
# --------------------------------------------------------------------------
ids = [f"id_{i}" for i in range(300)] + ["", " ", "é", "日本", "\x00", "a" * 1000, "🙂"]
bucket = {}
bucket["proba"] = digest([deterministic_proba(i) for i in ids])
bucket["proba_sample"] = [deterministic_proba(i) for i in ids[:3] + ids[-4:]]
WEIGHTS = [
    None,
    [1, 1, 1],
    [1, 2, 3],
    [0, 0, 1],
    [1, 0, 0],
    [0.5, 0.25, 0.25],
    [1e-9, 1, 1e9],
    [3.0, 0.0, 5],
    [float("inf"), 1, 1],
    [0, 0, 0],
    [1, 1],
    [-1, 1, 1],
    [1, 1, float("nan")],
]
for n, weights in enumerate(WEIGHTS):
    rows = []
    for salt in ["", "s", "ключ"]:
        for i in ids:
            try:
                rows.append(deterministic_choice(salt + i, ["A", "B", "C"], weights))
            except BaseException as exc:  # noqa: B902
                rows.append(f"{type(exc).__name__}: {exc}")
    bucket[f"weights_{n}"] = [digest(rows), rows[:5]]
bucket["cum"] = [
    outcome(deterministic_choice, "k", ["A", "B"], cum_weights=[1, 3]),
    outcome(deterministic_choice, "k", ["A", "B"], [1, 2], cum_weights=[1, 3]),
    outcome(deterministic_choice, "k", [], [1]),
    outcome(deterministic_choice, "k", []),
    outcome(deterministic_choice, 5, ["A"]),
]
random.seed(99)
bucket["random"] = [deterministic_choice(None, ["A", "B", "C"], [1, 2, 3]) for _ in range(20)]
OUT["bucketing"] = bucket

# --------------------------------------------------------------------------
# 6. evaluator lifecycle
# --------------------------------------------------------------------------
V1 = "def one { splitters: uid if a == 1 { return 'A' weighted 1, 'B' weighted 1 } else { return 'C' weighted 1 } }"
V2 = "def two { salt: 'z' splitters: uid return 'X' weighted 1, 'Y' weighted 3 }"
V3 = "def one { splitters: uid if a == 1 { return 'A' weighted 1, 'B' weighted 1 } else { return 'C' weighted 1 } } "
BAD = ["def broken {", "def broken { return 1 weighted 1 } $", "", "def b { return 'x' weighted " + BIG + " }"]


def calls(ev):
    out = []
    for kw in [{"uid": "u1", "a": 1}, {"uid": "u2", "a": 1}, {"uid": "u3", "a": 2}, {"uid": "u4"}, {}]:
        try:
            out.append(repr(ev(**kw)))
        except BaseException as exc:  # noqa: B902
            out.append(f"{type(exc).__name__}: {exc}")
    return out


life = []
for history in [
    [V1, V1, V2, V1],
    [V1, BAD[0], BAD[0], V1, V2],
    [V2, BAD[1], V2, BAD[2], V3, BAD[3], V3, V1],
    [BAD[0], V1],
    [BAD[2]],
    [BAD[3], V2],
]:
    trace = []
    ev = None
    for text in history:
        try:
            if ev is None:
                ev = ExperimentEvaluator(text)
            else:
                ev.recompile(text)
            trace.append(["ok", ev._checksum, ev.run_experiment.__name__, calls(ev)])
        except BaseException as exc:  # noqa: B902
            trace.append(
                [
                    "raise",
                    type(exc).__name__,
                    str(exc)[:100],
                    None if ev is None else [ev._checksum, ev.run_experiment.__name__, calls(ev)],
                ]
            )
    life.append(trace)
blank = ExperimentEvaluator.__new__(ExperimentEvaluator)
life.append(calls(blank))
OUT["lifecycle"] = life

# --------------------------------------------------------------------------
# 7. threads: concurrent parsing/compiling gives the sequential answers
# --------------------------------------------------------------------------
thread_texts = (TEXTS[:30] + generated[:30]) * 2
sequential = [outcome(parse_source, t) for t in thread_texts]
concurrent = [None] * len(thread_texts)


def worker(offset):
    for idx in range(offset, len(thread_texts), 8):
        concurrent[idx] = outcome(parse_source, thread_texts[idx])


threads = [threading.Thread(target=worker, args=(k,)) for k in range(8)]
for th in threads:
    th.start()
for th in threads:
    th.join()
shared = ExperimentEvaluator(V1)
shared_results = [None] * 8


def hammer(k):
    got = []
    for i in range(50):
        shared.recompile(V1 if (i + k) % 2 else V3)
        got.append(shared(uid=f"u{i}", a=1))
    shared_results[k] = got


expected = [ExperimentEvaluator(V1)(uid=f"u{i}", a=1) for i in range(50)]
threads = [threading.Thread(target=hammer, args=(k,)) for k in range(8)]
for th in threads:
    th.start()
for th in threads:
    th.join()
OUT["threads"] = {
    "parse_matches_sequential": concurrent == sequential,
    "sequential": digest(sequential),
    "shared_evaluator_consistent": all(r == expected for r in shared_results),
    "expected": digest(expected),
}

# --------------------------------------------------------------------------
# 8. stats
# --------------------------------------------------------------------------
stat = {}
stat["probit"] = [outcome(stats.probit, a) for a in [0.5, 0.975, 0.025, 0.001, 0.9995, 0.0, 1.0, 1.5, -1]]
stat["ci"] = [
    outcome(stats.confidence_interval, n, p, c, m)
    for n in [1, 10, 10000, 0]
    for p in [0.0, 0.5, 0.8, 1.0]
    for c in [0.5, 0.95, 0.999]
    for m in ["agresti-coull", "Wald", "WALD", "wilson"]
]
stat["ci_default"] = outcome(stats.confidence_interval)
OUT["stats"] = {"probit": stat["probit"], "ci": digest(stat["ci"]), "ci_head": stat["ci"][:8], "default": stat["ci_default"]}

# --------------------------------------------------------------------------
# 9. operators rendered one by one, and trees edited by hand after validation
# --------------------------------------------------------------------------
some_ast = parse_source("def ops { if a == 1 and not b in (1, 2) { return 1 weighted 1 } }")
gen = PythonCodeGen(some_ast)
ops = {}
ops["members"] = [
    [repr(m), outcome(gen._generate_op, m)]
    for m in list(st.LogicalOperatorEnum) + list(st.BooleanOperatorEnum)
]
ops["others"] = [
    outcome(gen._generate_op, v)
    for v in [1, 2, "==", "EQ", None, st.ConditionalType.IF, 1.0, (), "and", st.LogicalOperatorEnum]
]
edited = []
for replacement in [
    st.BooleanOperatorEnum.AND,
    st.LogicalOperatorEnum.NOT_IN,
    "==",
    3,
    None,
    st.ConditionalType.ELSE,
]:
    tree = parse_source("def ed { splitters: uid if a == 1 and not b in (1, 2) { return 1 weighted 1 } }")
    tree.conditions.predicate.left_predicate.logical_operator = replacement
    edited.append(outcome(PythonCodeGen(tree).generate))
    tree = parse_source("def ed { splitters: uid if a == 1 and not b in (1, 2) { return 1 weighted 1 } }")
    tree.conditions.predicate.boolean_operator = replacement
    edited.append(outcome(PythonCodeGen(tree).generate))
    tree = parse_source("def ed { splitters: uid if a == 1 and not b in (1, 2) { return 1 weighted 1 } }")
    tree.conditions.predicate.right_predicate.boolean_operator = replacement
    edited.append(outcome(PythonCodeGen(tree).generate))
built = st.TerminalPredicate.construct(
    left_term=st.Identifier(name="q"), logical_operator=7, right_term=[1, [2, 3]]
)
edited.append(outcome(gen._generate_predicate, built))
edited.append(
    outcome(
        gen._generate_predicate,
        st.TerminalPredicate(left_term=[1, [2, "s"]], logical_operator=8, right_term=ident),
    )
)
ops["edited"] = edited
OUT["ops"] = ops

# --------------------------------------------------------------------------
# 10. long comma separated sequences (order, container classes, duplicates)
# --------------------------------------------------------------------------
long_fields = ", ".join(f"f{i % 37}_{i}" for i in range(300))
long_tuple = ", ".join(
    [str(i) if i % 3 else f"({i}, 'm{i}', (x{i}, {i}.5))" for i in range(300)]
)
long_groups = ", ".join(f"'g{i % 11}' weighted {i % 5}" for i in range(200))
long_text = (
    f"def long {{ salt: 'l' splitters: {long_fields} "
    f"if q in ({long_tuple}) {{ return {long_groups} }} else {{ return {long_groups}, -1 weighted 0.5 }} }}"
)
long_ast = parse_source(long_text)
OUT["long"] = {
    "fields": [type(long_ast.splitting_fields).__name__, len(long_ast.splitting_fields), long_ast.splitting_fields[:3], long_ast.splitting_fields[-2:], digest(long_ast.splitting_fields)],
    "tuple": [type(long_ast.conditions.predicate.right_term).__name__, len(long_ast.conditions.predicate.right_term), repr(long_ast.conditions.predicate.right_term[:4]), digest(long_ast.conditions.predicate.right_term)],
    "groups": [type(long_ast.conditions.true_branch).__name__, len(long_ast.conditions.true_branch), repr(long_ast.conditions.true_branch[:2]), digest(long_ast.conditions.true_branch), len(long_ast.conditions.false_branch.true_branch), repr(long_ast.conditions.false_branch.true_branch[-2:])],
    "walk": digest(list(walk(long_ast))),
    "code": digest(generate_code(long_text, True)),
}

# the parser tables themselves are not compared (they may legitimately change);
# only the language they accept is
OUT["parser"] = {
    "tokens": sorted(ExperimentParser.tokens),
    "lexer_tokens": sorted(ExperimentLexer.tokens),
    "start": ExperimentParser._grammar.Productions[1].name,
}

print(json.dumps(OUT, indent=1, sort_keys=True, ensure_ascii=True, default=repr))

"""Differential probe: prints a deterministic JSON summary of the library's
observable behaviour.  Run as
    PYTHONPATH=/tmp/wt/UH/src /venv/bin/python probe.py
Output must be byte-identical with and without the patch."""

import hashlib
import inspect
import json
import pickle
import random
import threading
from pathlib import Path

from pyab_experiment.binning.binning import deterministic_choice, deterministic_proba
from pyab_experiment.codegen.python import custom_exceptions
from pyab_experiment.codegen.python.custom_exceptions import (
    ExperimentConditionalFailedError,
)
from pyab_experiment.codegen.python.python_generator import PythonCodeGen
from pyab_experiment.data_structures.syntax_tree import (
    BooleanOperatorEnum,
    ConditionalType,
    ExperimentAST,
    ExperimentConditional,
    ExperimentGroup,
    Identifier,
    LogicalOperatorEnum,
    RecursivePredicate,
    TerminalPredicate,
)
from pyab_experiment.experiment_evaluator import ExperimentEvaluator
from pyab_experiment.utils import stats
from pyab_experiment.utils.wraper_functions import generate_code, parse_source

OUT = {}


def sha(text):
    return hashlib.sha256(text.encode("utf-8", "surrogatepass")).hexdigest()[:16]


def guarded(fn, *a, **k):
    try:
        return ["ok", fn(*a, **k)]
    except BaseException as exc:  # noqa: BLE001
        return ["err", type(exc).__name__, str(exc)]


def jsonable(x):
    if isinstance(x, (list, tuple)):
        return [jsonable(i) for i in x]
    if isinstance(x, dict):
        return {str(k): jsonable(v) for k, v in x.items()}
    if isinstance(x, (str, int, bool)) or x is None:
        return x
    return repr(x)


# ---------------------------------------------------------------- programs
ROOT = Path(__file__).resolve().parents[2] / "tests" / "unit" / "test_programs"
PROGRAMS = {}
if ROOT.is_dir():
    for path in sorted(ROOT.iterdir()):
        PROGRAMS[f"file:{path.name}"] = path.read_text()

PROGRAMS.update(
    {
        "kw_prefixed": """def define_x{ salt: "s\\\\x" splitters: iffy, android, notable, inner, orbit, define, salty
            if iffy == 1 and android != 'x' or not notable in (1, 2.5, 'z') {
                return "a" weighted 1, "b" weighted 2, "c" weighted 0.5 }
            else if inner not  in ('q') { return 1 weighted 1, 2 weighted 3 }
            else if elsewhere >= -3 { return -1.5 weighted 2, "n" weighted 0 }
            else { return "z" weighted 1 } }""",
        "nested_tuples": """def nt{ splitters: uid
            if pair in ((1, 2), (3, (4, 5)), ('a', ("b"))) { return "in" weighted 1 }
            else if (1, x) == (y, 2) { return "eq" weighted 1, "eq2" weighted 1 }
            else if single in (7) { return 7 weighted 1 }
            else { return "out" weighted 1, "out2" weighted 9 } }""",
        "quotes": """def q{ salt: 'it"s' splitters: uid
            if name == "O'Brien" or name == 'say "hi"' or path == "C:\\\\dir\\n" {
                return "x'y" weighted 1, 'p"q' weighted 1, "back\\\\slash" weighted 2 }
            else { return "é-ü-日本" weighted 1, "✓" weighted 1 } }""",
        "comments": """/* head */ def c{ // trailing
            /* multi
               line */ salt: "//not a comment" splitters: uid /* x */
            if a < 1 /* in */ { return "/*s*/" weighted 1, "t" weighted 2 } // e
            else { return "u" weighted 1 } } // done""",
        "numbers": """def n{ splitters: uid, other
            if a > 100000.0 { return 0 weighted 1 } else if b <= 0.000001 { return 1 weighted 1 }
            else if c == -0.0 { return 2 weighted 1 }
            else if d < 99999999999999999999999999999999 { return 3.25 weighted 0.75, 4 weighted 0.25 }
            else if e != 1""" + "9" * 320 + """.5 { return "inf" weighted 1 }
            else if f == -1""" + "9" * 320 + """.5 { return "ninf" weighted 1 }
            else if g in (007, 1.50, -2) { return "oct" weighted 1 } }""",
        "no_split": """def ns{ if a == 1 { return "x" weighted 1, "y" weighted 1 }
            else { return "z" weighted 1 } }""",
        "salt_only": """def so{ salt: "only" return "x" weighted 1, "y" weighted 3 }""",
        "split_is_cond": """def sc{ splitters: b, a if a == b { return "s" weighted 1, "t" weighted 1 }
            else if a in b { return "u" weighted 1 } }""",
        "deep": """def deep{ splitters: uid
            if a == 1 { if b == 2 { if c == 3 { return "abc" weighted 1 } else if c == 4 { return "ab4" weighted 1 }
              else { if d == 5 { return "d5" weighted 1, "d5b" weighted 1 } } } else { return "a!b" weighted 2 } }
            else if (a == 2 or (b == 2 and not (c == 3 or d == 4))) and not not e == 5 { return "cx" weighted 1 }
            else { return "dflt" weighted 1, "dflt2" weighted 1 } }""",
        "zero_weights": """def zw{ splitters: uid return "a" weighted 0, "b" weighted 0 }""",
        "unroutable": """def ur{ splitters: uid if a == 1 { return "a" weighted 1 } }""",
    }
)

INVALID = {
    "empty": "",
    "no_body": "def x",
    "bad_char": "def x{ return 'a' weighted 1 ; }",
    "kw_as_id": "def if{ return 'a' weighted 1 }",
    "neg_weight": "def x{ return 'a' weighted -1 }",
    "trailing": "def x{ return 'a' weighted 1 } def",
    "unclosed_str": "def x{ return 'a weighted 1 }",
    "unclosed_comment": "def x{ /* return 'a' weighted 1 }",
    "splitters_first": "def x{ splitters: a salt: 's' return 1 weighted 1 }",
    "empty_tuple": "def x{ if a in () { return 1 weighted 1 } }",
    "else_first": "def x{ else { return 1 weighted 1 } }",
    "dollar": "def x{ if $a == 1 { return 1 weighted 1 } }",
    "nonascii_id": "def é{ return 1 weighted 1 }",
    "not_alone": "def x{ if not { return 1 weighted 1 } }",
    "float_dot": "def x{ return 1 weighted 1. }",
    "tuple_group": "def x{ return (1,2) weighted 1 }",
}

IDS = [None, "", "u1", "user-42", 0, 1, -7, 3.5, "é", "日本", "a b", "\n", "x" * 50] + [
    f"id{i}" for i in range(60)
]
FIELD_VALUES = [1, 2, 3, 4, 5, "a", "b", "x", "q", (1, 2), 7, -3, 0.0, 2e5, "O'Brien"]


def kwargs_for(gen, n):
    names = sorted(set(gen.local_vars) | set(gen.conditional_ids))
    rnd = random.Random(n)
    return {name: rnd.choice(FIELD_VALUES) for name in names}


def run_generated(code, fn_name, gen, seeds):
    scope = {}
    exec(compile(code, "<probe>", "exec"), scope)
    fn = scope[fn_name]
    results = []
    for n in seeds:
        kw = kwargs_for(gen, n)
        if "uid" in kw:
            kw["uid"] = IDS[n % len(IDS)]
        random.seed(n)
        results.append(guarded(fn, **kw, extra_ignored=n))
    return results


prog_summary = {}
for name, text in PROGRAMS.items():
    entry = {}
    ast_res = guarded(parse_source, text)
    if ast_res[0] == "err":
        prog_summary[name] = ast_res
        continue
    ast = ast_res[1]
    entry["ast"] = sha(repr(ast) + json.dumps(jsonable(ast.dict()), sort_keys=True))
    for expose in (False, True):
        for indent_char in ("\t", "    "):
            gen = PythonCodeGen(ast, indent_char, expose)
            raw = gen.generate()
            key = f"raw[{expose},{indent_char!r}]"
            entry[key] = sha(raw)
            entry[key + "again"] = sha(gen.generate())  # stateful second call
            entry[key + "vars"] = [gen.local_vars, gen.conditional_ids, gen._indent_depth]
            runs = run_generated(raw, ast.id, gen, range(80))
            entry[key + "run"] = sha(json.dumps(jsonable(runs)))
            entry[key + "sample"] = jsonable(runs[:6])
        formatted = guarded(generate_code, text, expose)
        entry[f"fmt[{expose}]"] = [formatted[0], sha(str(formatted[1:]))]
        if formatted[0] == "ok":
            gen = PythonCodeGen(ast)
            gen.generate()
            runs = run_generated(formatted[1], ast.id, gen, range(80))
            entry[f"fmt[{expose}]run"] = sha(json.dumps(jsonable(runs)))
    entry["default_ctor"] = sha(PythonCodeGen(ast).generate())
    entry["kw_ctor"] = sha(
        PythonCodeGen(
            experiment_ast=ast,
            indentation_char="  ",
            expose_experiment_variant_function=False,
        ).generate()
    )
    g = PythonCodeGen(ast)
    entry["key_first"] = [g.generate_key_definition(), g.local_vars, g.conditional_ids]
    entry["key_twice"] = [g.generate_key_definition(), g.local_vars]
    entry["topline"] = sha(g.render_topline())
    entry["indent0"] = g.indent()
    prog_summary[name] = entry
OUT["programs"] = prog_summary

OUT["invalid"] = {
    name: {
        "parse": guarded(lambda t=text: repr(parse_source(t))),
        "gen": guarded(lambda t=text: sha(generate_code(t)))[:2],
        "gen_exposed": guarded(lambda t=text: sha(generate_code(t, True)))[:2],
        "evaluator": guarded(lambda t=text: repr(type(ExperimentEvaluator(t))))[:2],
    }
    for name, text in INVALID.items()
}

# ---------------------------------------------------------------- generator internals
ast0 = parse_source(PROGRAMS["kw_prefixed"])
g = PythonCodeGen(ast0)
internals = {}
internals["ops"] = {
    str(op): guarded(g._generate_op, op)
    for op in [*LogicalOperatorEnum, *BooleanOperatorEnum, ConditionalType.IF, None, 1, "==", "EQ"]
}
internals["numbers"] = {
    repr(n): guarded(PythonCodeGen._generate_number, n)
    for n in [0, -0.0, 1, -1, 1.5, 1e308, float("inf"), float("-inf"), float("nan"),
              True, False, 10**400, -(10**400), 1e-320, 123456789012345678901234567890]
}
terms = [
    "a", "it's", 'q"', "\\", "\n", "é", "", 1, 2.5, (), (1,), [1], (1, 2), [1, [2, (3, "x")]],
    ((),), (Identifier(name="v1"), (Identifier(name="v2"), "s")), Identifier(name="if_x"),
    float("inf"), (float("-inf"), float("nan")), True, None, b"b", {"k": 1}, Identifier.construct(),
    range(3),
]
g2 = PythonCodeGen(ast0)
internals["terms"] = [guarded(g2._generate_term, t) for t in terms]
internals["terms_ids"] = g2.conditional_ids
internals["lists"] = [
    guarded(g2._generate_list, lst)
    for lst in ([], [1], ["a", 2, 3.5], [(1, 2), "x"], [float("inf")], ("t", "u"))
]
internals["cond_wrong"] = [
    guarded(g2._generate_conditionals, bad) for bad in (None, 3, "str", {"a": 1}, (), ast0)
]
internals["pred_wrong"] = [
    guarded(g2._generate_predicate, bad) for bad in (None, 3, "str", [], ast0.conditions)
]
internals["exception_stmt"] = [g2._generate_exception(), g2.indent()]
g2._indent_depth = 3
internals["exception_stmt3"] = [g2._generate_exception(), g2.indent()]
internals["groups"] = guarded(
    g2._generate_group_return_statement,
    [ExperimentGroup(group_definition=d, group_weight=w)
     for d, w in (("a", 1), (2, 0.5), (3.5, 0), ("it's", 7), ("1", 2))],
)
internals["groups_empty"] = guarded(g2._generate_group_return_statement, [])


def term_pred(name, op=LogicalOperatorEnum.EQ, value=1):
    return TerminalPredicate(left_term=Identifier(name=name), logical_operator=op, right_term=value)


def groups(*labels):
    return [ExperimentGroup(group_definition=lab, group_weight=i + 1) for i, lab in enumerate(labels)]


hand_asts = {}
# ELSE carrying a predicate: the predicate is visited but not printed
hand_asts["else_with_pred"] = ExperimentAST(
    id="h1", splitting_fields=["uid"], salt=None,
    conditions=ExperimentConditional(
        conditional_type=ConditionalType.IF, predicate=term_pred("a"), true_branch=groups("x", "y"),
        false_branch=ExperimentConditional(
            conditional_type=ConditionalType.ELSE, predicate=term_pred("hidden"),
            true_branch=groups("z"), false_branch=None)))
# IF with no predicate / ELIF chain with a false branch after ELSE
hand_asts["if_no_pred"] = ExperimentAST(
    id="h2", splitting_fields=None, salt="s",
    conditions=ExperimentConditional(
        conditional_type=ConditionalType.IF, predicate=None, true_branch=groups("x"), false_branch=None))
hand_asts["else_then_more"] = ExperimentAST(
    id="h3", splitting_fields=["b", "a", "b"], salt="",
    conditions=ExperimentConditional(
        conditional_type=ConditionalType.IF, predicate=term_pred("a", LogicalOperatorEnum.IN, (1, 2)),
        true_branch=ExperimentConditional(
            conditional_type=ConditionalType.IF, predicate=term_pred("b", LogicalOperatorEnum.NOT_IN, ("q",)),
            true_branch=groups("n1"), false_branch=None),
        false_branch=ExperimentConditional(
            conditional_type=ConditionalType.ELSE, predicate=None, true_branch=groups("e"),
            false_branch=groups("after_else"))))
hand_asts["not_with_right"] = ExperimentAST(
    id="h4", splitting_fields=["uid"], salt=None,
    conditions=ExperimentConditional(
        conditional_type=ConditionalType.IF,
        predicate=RecursivePredicate(
            left_predicate=term_pred("l"), boolean_operator=BooleanOperatorEnum.NOT,
            right_predicate=term_pred("r")),
        true_branch=groups("t"), false_branch=None))
hand_asts["empty_fields"] = ExperimentAST(id="h5", splitting_fields=[], salt="salty", conditions=groups("a", "b"))
hand_asts["empty_groups"] = ExperimentAST(id="h6", splitting_fields=["uid"], salt=None, conditions=[])
bad_type = ExperimentConditional.construct(
    conditional_type=None, predicate=term_pred("k"), true_branch=groups("x"), false_branch=None)
hand_asts["type_none"] = ExperimentAST.construct(id="h7", splitting_fields=["uid"], salt=None, conditions=bad_type)
hand_asts["type_none_nested"] = ExperimentAST.construct(
    id="h8", splitting_fields=["uid"], salt="x",
    conditions=ExperimentConditional.construct(
        conditional_type=ConditionalType.IF, predicate=term_pred("a"), true_branch=bad_type, false_branch=bad_type))
hand_asts["bad_op"] = ExperimentAST.construct(
    id="h9", splitting_fields=None, salt=None,
    conditions=ExperimentConditional.construct(
        conditional_type=ConditionalType.IF,
        predicate=TerminalPredicate.construct(left_term=1, logical_operator="??", right_term=2),
        true_branch=groups("x"), false_branch=None))
hand_asts["salt_nonstr"] = ExperimentAST.construct(id="h10", splitting_fields=("z", "y"), salt=12, conditions=groups("a"))
hand_asts["fields_str"] = ExperimentAST.construct(id="h11", splitting_fields="cab", salt=None, conditions=groups("a"))

hand = {}
for name, ast in hand_asts.items():
    for expose in (False, True):
        gen = PythonCodeGen(ast, "  ", expose)
        res = guarded(gen.generate)
        row = [res[0], res[1] if res[0] == "ok" else res[1:]]
        row.append([guarded(lambda: gen.local_vars), guarded(lambda: gen.conditional_ids), gen._indent_depth])
        if res[0] == "ok":
            row.append(sha(json.dumps(jsonable(guarded(run_generated, res[1], ast.id, gen, range(40))))))
        hand[f"{name}[{expose}]"] = row
internals["hand_asts"] = hand
OUT["internals"] = internals

# ---------------------------------------------------------------- exception class
exc = {}
exc["all"] = list(custom_exceptions.__all__)
exc["default"] = [str(ExperimentConditionalFailedError()), list(ExperimentConditionalFailedError().args)]
exc["custom"] = [str(ExperimentConditionalFailedError("m")), list(ExperimentConditionalFailedError(message="k").args)]
exc["none"] = jsonable(ExperimentConditionalFailedError(None).args)
exc["two_args"] = guarded(lambda: repr(ExperimentConditionalFailedError("a", "b")))
exc["sig"] = str(inspect.signature(ExperimentConditionalFailedError.__init__)).replace(": str", "").replace(" -> None", "")
exc["mro"] = [c.__name__ for c in ExperimentConditionalFailedError.__mro__]
exc["module"] = ExperimentConditionalFailedError.__module__
exc["qualname"] = ExperimentConditionalFailedError.__qualname__
exc["pickle"] = repr(pickle.loads(pickle.dumps(ExperimentConditionalFailedError("pk"))))
exc["repr"] = repr(ExperimentConditionalFailedError())
exc["has_dict"] = hasattr(ExperimentConditionalFailedError(), "__dict__")
e = ExperimentConditionalFailedError()
e.note = 1
exc["setattr"] = e.note
exc["doc"] = sha(ExperimentConditionalFailedError.__doc__ or "")
OUT["exception"] = exc

# ---------------------------------------------------------------- bucketing
buck = {}
for salt in ("", "s1", "é", "a'b"):
    for weights in (None, [1, 1], [1, 2, 3], [0, 1, 0], [0.5, 0.25, 0.25], [1e-9, 1], [3]):
        n = len(weights) if weights else 4
        pop = [f"g{i}" for i in range(n)]
        picks = [deterministic_choice(f"{salt}{i}", pop, weights) for i in range(400)]
        buck[f"{salt!r}/{weights}"] = [sha("".join(picks)), {p: picks.count(p) for p in pop}]
buck["proba"] = [deterministic_proba(s) for s in ("", "a", "é", "日本", "x" * 1000)]
buck["errors"] = [
    guarded(deterministic_choice, "a", ["x"], [0]),
    guarded(deterministic_choice, "a", ["x", "y"], [1]),
    guarded(deterministic_choice, "a", ["x"], [1], cum_weights=[1]),
    guarded(deterministic_choice, "a", ["x"], [float("inf")]),
    guarded(deterministic_choice, "a", [], None),
    guarded(deterministic_choice, "a", ["x", "y"], None, cum_weights=[1, 5]),
]
OUT["bucketing"] = buck

# ---------------------------------------------------------------- evaluator lifecycle
life = []
valid_a = PROGRAMS["deep"]
valid_b = PROGRAMS["nested_tuples"]
ev = ExperimentEvaluator(valid_a)


def snapshot(evaluator):
    fn = evaluator.__dict__.get("run_experiment")
    name = getattr(fn, "__name__", None)
    calls = []
    for i in range(12):
        kw = dict(uid=f"id{i}", a=i % 3, b=2, c=3 + i % 2, d=5, e=5, pair=(1, 2), x=2, y=1, single=7)
        calls.append(guarded(evaluator, **kw))
    return [name, evaluator._checksum, sha(json.dumps(jsonable(calls)))]


life.append(["init", snapshot(ev)])
for step, text in [
    ("same", valid_a), ("other", valid_b), ("invalid", INVALID["bad_char"]), ("retry_invalid", INVALID["bad_char"]),
    ("empty", ""), ("back", valid_a), ("syntax", INVALID["else_first"]), ("ws_variant", valid_a + " "),
    ("unroutable", PROGRAMS["unroutable"]),
]:
    res = guarded(ev.recompile, text)
    life.append([step, res[:2], snapshot(ev)])
life.append(["ctor_invalid", guarded(lambda: ExperimentEvaluator(INVALID["no_body"]))[:2]])
life.append(["class_default", guarded(ExperimentEvaluator.run_experiment, None)])
blank = ExperimentEvaluator.__new__(ExperimentEvaluator)
life.append(["unloaded", guarded(blank, a=1), blank._checksum])
two = [ExperimentEvaluator(valid_a), ExperimentEvaluator(valid_b)]
life.append(["independent", snapshot(two[0]), snapshot(two[1])])
OUT["lifecycle"] = life

# ---------------------------------------------------------------- threads
shared = ExperimentEvaluator(valid_a)
expected = {}
for text in (valid_a, valid_b):
    ref = ExperimentEvaluator(text)
    for i in range(30):
        kw = dict(uid=f"t{i}", a=i % 3, b=2, c=3, d=5, e=5, pair=(1, 2), x=2, y=1, single=7)
        expected.setdefault(i, set()).add(repr(guarded(ref, **kw)))
bad = []
errors = []


def worker(k):
    try:
        for r in range(40):
            if k % 4 == 0:
                shared.recompile(valid_b if r % 2 else valid_a)
            elif k % 4 == 1 and r % 5 == 0:
                try:
                    shared.recompile(INVALID["bad_char"])
                except Exception:  # noqa: BLE001
                    pass
            i = (k * 7 + r) % 30
            kw = dict(uid=f"t{i}", a=i % 3, b=2, c=3, d=5, e=5, pair=(1, 2), x=2, y=1, single=7)
            got = repr(guarded(shared, **kw))
            if got not in expected[i]:
                bad.append(got)
    except BaseException as exc:  # noqa: BLE001
        errors.append(type(exc).__name__)


threads = [threading.Thread(target=worker, args=(k,)) for k in range(8)]
for t in threads:
    t.start()
for t in threads:
    t.join()
OUT["threads"] = {"unexpected": len(bad), "errors": sorted(errors)}

# ---------------------------------------------------------------- stats
OUT["stats"] = {
    "probit": [guarded(stats.probit, a) for a in (0.5, 0.975, 0.025, 0.1, 0.999, 0.0, 1.0)],
    "ci": [
        guarded(stats.confidence_interval, n, p, c, m)
        for n, p, c, m in [
            (10, 0.5, 0.95, "agresti-coull"), (1000, 0.1, 0.99, "wald"), (7, 0.0, 0.9, "WALD"),
            (5, 1.0, 0.5, "Agresti-Coull"), (10, 0.5, 0.95, "other"), (0, 0.5, 0.95, "wald"),
        ]
    ],
}

print(json.dumps(jsonable(OUT), sort_keys=True, indent=1, ensure_ascii=True))

"""Exercises probit_table / wilson_interval / compare_intervals (needs the patch)."""

from pyab_experiment.utils.stats import (
    INTERVAL_METHODS,
    compare_intervals,
    confidence_interval,
    probit,
    probit_table,
    wilson_interval,
)

# the table is the critical value confidence_interval uses
table = probit_table()
assert list(table) == [0.8, 0.9, 0.95, 0.99, 0.999]
for confidence, z in table.items():
    assert z == probit((1 - confidence) / 2)
assert probit_table([0.5]) == {0.5: probit(0.25)}
assert probit_table(iter(())) == {}
for bad in (0, 1, -0.5, 1.5, float("nan")):
    try:
        probit_table([0.9, bad])
    except ValueError:
        pass
    else:
        raise AssertionError(bad)

# wilson: inside [0, 1], contains p, close to agresti-coull (same centre by construction)
for n in (1, 10, 1000, 100000):
    for p in (0.0, 1e-9, 1 / 3, 0.5, 0.999, 1.0):
        for confidence in (0.5, 0.95, 0.999):
            low, high = wilson_interval(n, p, confidence)
            assert 0.0 <= low <= high <= 1.0
            assert low - 1e-12 <= p <= high + 1e-12
            ac_low, ac_high = confidence_interval(n, p, confidence)
            assert abs((low + high) / 2 - (ac_low + ac_high) / 2) < 1e-9 or low == 0.0 or high == 1.0
            assert high - low <= (ac_high - ac_low) + 1e-12  # agresti-coull is the wider one
assert wilson_interval() == wilson_interval(10, 0.5, 0.95)
for args in ((0, 0.5), (-3, 0.5), (10, -0.1), (10, 1.2), (10, 0.5, 1), (10, 0.5, 0)):
    try:
        wilson_interval(*args)
    except ValueError:
        pass
    else:
        raise AssertionError(args)

# side by side
both = compare_intervals(1000, 0.2, 0.99)
assert list(both) == ["agresti-coull", "wald", "wilson"]
for method in INTERVAL_METHODS:
    assert both[method] == confidence_interval(1000, 0.2, 0.99, method)
    assert both[method] == confidence_interval(1000, 0.2, 0.99, method.upper())
assert both["wilson"] == wilson_interval(1000, 0.2, 0.99)

# confidence_interval itself did not learn a new name
try:
    confidence_interval(10, 0.5, 0.95, "wilson")
except NotImplementedError:
    pass
else:
    raise AssertionError
print(both)
print("usage OK")

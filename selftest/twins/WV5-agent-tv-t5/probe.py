"""Differential probe: uses only the API that exists on HEAD.

Run as  PYTHONPATH=/tmp/wt/TV/src /venv/bin/python probe.py
Prints one deterministic JSON document; the output must be byte-identical with
and without the patch.
"""

import hashlib
import json
import math
import random
import threading
from pathlib import Path

from pyab_experiment.binning import binning
from pyab_experiment.binning.binning import deterministic_choice, deterministic_proba
from pyab_experiment.codegen.python.custom_exceptions import (
    ExperimentConditionalFailedError,
)
from pyab_experiment.experiment_evaluator import ExperimentEvaluator, ParseError
from pyab_experiment.utils import stats
from pyab_experiment.utils.stats import confidence_interval, probit
from pyab_experiment.utils.wraper_functions import generate_code, parse_source

PROGRAM_DIR = Path("/tmp/wt/TV/tests/unit/test_programs")


def outcome(fn, *args, **kwargs):
    """repr of the value, or the class name (and text) of the exception"""
    try:
        return ["ok", repr(fn(*args, **kwargs))]
    except BaseException as exc:  # noqa: B902 - the class name is the observation
        return ["err", type(exc).__name__, str(exc)]


def sha(text):
    return hashlib.sha256(text.encode("utf-8", "surrogatepass")).hexdigest()


# --------------------------------------------------------------------------- texts
VALID = {
    "kw_prefixed": """def definition{ salt: "s" splitters: iffy, inner, notice, order_id
        if android == 1 and not_x != 2 or elsewhere in (1,2) { return "a" weighted 1, "b" weighted 2 }
        else if returned not  in ("x","y") { return "c" weighted 1 }
        else { return "d" weighted 1, "e" weighted 0 } }""",
    "nested_tuples": """def nested{ splitters: uid
        if f in ((1,2),(3,(4,5)),("a","b",(-1,-2.5))) { return 1 weighted 1, 2.5 weighted 3, "x" weighted 2 }
        else if (1,2) in g { return -1 weighted 1, -2.5 weighted 1 }
        else if f == (1,(2)) { return "one" weighted 1 }
        else { return "z" weighted 1 } }""",
    "comments": """/* head // not a line comment
        still * / inside */ def c /* a */ { // salt: "zzz"
        salt: "q//not comment" /* x */ splitters: a // trailing
        return "u /* no */" weighted 1, 'v // no' weighted 1 /* end */ }""",
    "quotes": """def q{ salt: "it's" splitters: k
        if f == 'say "hi"' { return "back\\slash" weighted 1, 'tab\\t' weighted 1 }
        else if f == "\\" { return "bs" weighted 1 }
        else { return "" weighted 1, " " weighted 1 } }""",
    "non_ascii": """def ünï{ return "x" weighted 1 }""",
    "non_ascii_str": """def uni{ salt: "sél—✓" splitters: k
        if f == "日本語" { return "é" weighted 1, "ß" weighted 1, "𝔘" weighted 1 }
        else { return "ascii" weighted 1 } }""",
    "numbers": """def nums{ splitters: k
        if f >= 18 and g < 0.5 or h == -3 or i != -0.0 { return 007 weighted 01, 1.50 weighted 2.50 }
        else if f <= 100000 { return "never" weighted 1 }
        else { return 0 weighted 0, 1 weighted 0.0 } }""",
    "big": "def big{ splitters: k if f < "
    + "9" * 400
    + ".0 { return "
    + "9" * 400
    + ".5 weighted 1 } else { return 1 weighted "
    + "9" * 30
    + ", 2 weighted 1 } }",
    "splitter_and_cond": """def both{ splitters: b, a
        if a == b { return "same" weighted 1, "same2" weighted 1 }
        else if not (a > b and not a in (1,2)) { return "x" weighted 1, "y" weighted 3 }
        else { return "w" weighted 1 } }""",
    "elif_spacing": "def e{ if a==1{return 1 weighted 1}else   if a==2{return 2 weighted 1}"
    "elseif a==3{return 3 weighted 1}else\n\tif a==4{return 4 weighted 1}else{return 5 weighted 1} }",
    "crlf": 'def crlf{\r\n salt: "s"\r\n // c\r\n return "a" weighted 1,\r\n "b" weighted 1 }\r\n',
    "kwargs_named": """def kw{ splitters: kwargs_, self
        if partial == 1 { return "p" weighted 1 } else { return "n" weighted 1, "m" weighted 1 } }""",
    "zero_weights": """def zw{ splitters: k return "a" weighted 0, "b" weighted 0 }""",
    "no_splitter_salt": """def ns{ salt: "only" if x in ("a","b") { return "1" weighted 1, "2" weighted 1 } }""",
}
for _path in sorted(PROGRAM_DIR.glob("*.pyab")):
    VALID["file_" + _path.stem] = _path.read_text()

INVALID = {
    "empty": "",
    "ws": "  \n ",
    "no_body": "def x{}",
    "no_weight": 'def x{ return "a" }',
    "neg_weight": 'def x{ return "a" weighted -1 }',
    "kw_as_id": "def if{ return 1 weighted 1 }",
    "kw_as_field": "def x{ splitters: in return 1 weighted 1 }",
    "salt_after": 'def x{ splitters: a salt: "s" return 1 weighted 1 }',
    "unterminated": 'def x{ return "a weighted 1 }',
    "newline_in_str": 'def x{ return "a\nb" weighted 1 }',
    "illegal_char": "def x{ return 1 weighted 1; }",
    "illegal_char2": "def x{ if a = 1 { return 1 weighted 1 } }",
    "open_comment": "def x{ return 1 weighted 1 } /* never closed",
    "trailing": "def x{ return 1 weighted 1 } def",
    "two_defs": "def x{ return 1 weighted 1 } def y{ return 1 weighted 1 }",
    "else_first": "def x{ else { return 1 weighted 1 } }",
    "empty_tuple": "def x{ if a in () { return 1 weighted 1 } }",
    "tuple_return": "def x{ return (1,2) weighted 1 }",
    "ident_return": "def x{ return a weighted 1 }",
    "upper_kw": "DEF x{ return 1 weighted 1 }",
    "float_nodigit": "def x{ return 1 weighted 1. }",
    "notin_joined": "def x{ if a notin (1,2) { return 1 weighted 1 } }",
    "double_not": "def x{ if not not a { return 1 weighted 1 } }",
    "trailing_comma": "def x{ return 1 weighted 1, }",
    "nbsp": "def x{ return 1 weighted 1 }",
    "fullwidth_digit": "def x{ return １ weighted 1 }",
    "minus_str": 'def x{ return -"a" weighted 1 }',
    "not_str": None,
    "int_text": 12,
    "bytes_text": b"def x{ return 1 weighted 1 }",
}

CALLS = [
    {},
    {"k": "id1"},
    {"k": 1, "f": 1, "g": 0.1, "h": -3, "i": 0},
    {"k": "id2", "f": "日本語"},
    {"k": "id3", "f": 'say "hi"'},
    {"k": "id4", "f": "\\"},
    {"uid": "u1", "f": (1, 2), "g": [(1, 2)]},
    {"uid": "u2", "f": ("a",), "g": []},
    {"uid": "u3", "f": (1, (2,)), "g": ()},
    {"uid": "u5", "f": (3, (4, 5)), "g": ()},
    {"uid": "u4", "f": [1], "g": 5},
    {"iffy": 1, "inner": 2, "notice": 3, "order_id": 4, "android": 1, "not_x": 3,
     "elsewhere": 9, "returned": "x"},
    {"iffy": "a", "inner": "b", "notice": "c", "order_id": "d", "android": 0, "not_x": 2,
     "elsewhere": 7, "returned": "q", "extra": 1},
    {"a": 1, "b": 1},
    {"a": 1, "b": 2},
    {"a": 3, "b": 2},
    {"a": 2},
    {"a": 4},
    {"a": "A", "x": "a"},
    {"kwargs_": 1, "self": 2, "partial": 1},
    {"kwargs_": "z", "self": None, "partial": 0},
    {"my_fld": "m", "my_fld_1": 7, "field1": "a", "field2": 1, "field3": 10,
     "field4": "xyz", "field5": "x", "field6": 1, "field7": 2},
    {"my_fld": "m", "my_fld_1": 7, "field1": "b", "field2": 9, "field3": 10,
     "field4": "q", "field5": "x", "field6": 1, "field7": 2},
    {"my_fld": "m", "my_fld_1": 8, "field1": "a", "field2": 1, "field3": 1,
     "field4": "q", "field5": "y", "field6": 1, "field7": 2},
    {"groupping_id": "g", "groupping_id_1": "h", "routing_field": 3},
    {"groupping_id": "g", "groupping_id_1": "h", "routing_field": -1},
    {"groupping_id": "g", "groupping_id_1": "h", "routing_field": "str"},
    {"numeric_field": 42},
    {"numeric_field": 4.0},
    {"my_id": "me", "field_1": "a"},
    {"my_id": "me", "field_1": "b"},
    {"field1": "a", "field2": "c", "field3": "b1", "field4": "abc"},
    {"field1": "b1", "field2": "c", "field3": "b1", "field4": "abc"},
    {"field1": "a", "field2": "b"},
    {"field1": "c", "field2": "b"},
    {"field1": "zz", "field2": "b"},
]


def run_module(code, name, label):
    """executes a generated module and calls its entry point"""
    namespace = {}
    try:
        exec(compile(code, f"<probe {label}>", "exec"), namespace)  # noqa: S102
    except BaseException as exc:  # noqa: B902
        return ["exec-err", type(exc).__name__]
    fn = namespace.get(name)
    out = [sorted(k for k in namespace if not k.startswith("__"))]
    for kwargs in CALLS:
        random.seed(1234)
        out.append(outcome(fn, **kwargs))
    return out


def probe_programs():
    result = {}
    for label, text in VALID.items():
        entry = {}
        try:
            ast = parse_source(text)
        except BaseException as exc:  # noqa: B902
            entry["parse"] = ["err", type(exc).__name__, str(exc)]
            result[label] = entry
            continue
        entry["ast"] = None if ast is None else [repr(ast), ast.json()]
        if ast is None:
            result[label] = entry
            continue
        for flag in (False, True):
            try:
                code = generate_code(text, flag)
            except BaseException as exc:  # noqa: B902
                entry[f"code_{flag}"] = ["err", type(exc).__name__]
                continue
            entry[f"code_{flag}"] = [sha(code), len(code)]
            entry[f"run_{flag}"] = run_module(code, ast.id, label)
        entry["default_layout_same"] = outcome(
            lambda t=text: generate_code(t) == generate_code(t, False)
        )
        try:
            evaluator = ExperimentEvaluator(text)
        except BaseException as exc:  # noqa: B902
            entry["evaluator"] = ["err", type(exc).__name__]
        else:
            calls = []
            for kwargs in CALLS:
                random.seed(1234)
                calls.append(outcome(evaluator, **kwargs))
            entry["evaluator"] = [
                evaluator._checksum,
                sorted(vars(evaluator)),
                evaluator.run_experiment.__name__,
                calls,
            ]
        result[label] = entry
    return result


def probe_invalid():
    result = {}
    for label, text in INVALID.items():
        result[label] = {
            "parse": outcome(parse_source, text),
            "code_False": outcome(generate_code, text),
            "code_True": outcome(generate_code, text, True),
            "evaluator": outcome(ExperimentEvaluator, text)[:2]
            if outcome(ExperimentEvaluator, text)[0] == "err"
            else "constructed",
        }
    return result


# ----------------------------------------------------------------------- bucketing
IDS = (
    [f"{i}" for i in range(60)]
    + [f"id_{i}_salt" for i in range(60)]
    + ["", " ", "\n", "\x00", "é", "é", "日本語", "𝔘", "\ud800", "a\udcffb", "A" * 5000]
    + [f"sél—✓{i}" for i in range(20)]
)

WEIGHT_CASES = [
    (["a", "b", "c"], None, None),
    (["a", "b", "c"], [1, 2, 3], None),
    (["a", "b", "c"], [0.5, 0.5, 0], None),
    (["a", "b", "c"], [0, 0, 1], None),
    (["a", "b", "c"], [1, 0, 0], None),
    (["a", "b"], [0, 0], None),
    (["a", "b"], [0.0, -0.0], None),
    (["a", "b"], [-1, 2], None),
    (["a", "b"], [2, -1], None),
    (["a", "b"], [-1, -1], None),
    (["a", "b"], [1], None),
    (["a", "b"], [1, 2, 3], None),
    (["a", "b"], [], None),
    ([], None, None),
    ([], [], None),
    (["a"], [float("inf")], None),
    (["a", "b"], [float("nan"), 1], None),
    (["a", "b"], [1, float("nan")], None),
    (["a", "b"], [1e308, 1e308], None),
    (["a", "b"], [10**400, 1], None),
    (["a", "b"], [True, False], None),
    (["a", "b"], ["1", "2"], None),
    (["a", "b"], [None, 1], None),
    (["a", "b", "c"], None, [1, 3, 6]),
    (["a", "b", "c"], None, [1, 1, 1]),
    (["a", "b", "c"], None, [3, 2, 1]),
    (["a", "b", "c"], None, [0, 0, 0]),
    (["a", "b", "c"], None, (1, 3, 6)),
    (["a", "b", "c"], [1, 2, 3], [1, 3, 6]),
    (["a", "b"], None, []),
    (("a", "b", "c"), (1, 2, 3), None),
    ("abc", [1, 2, 3], None),
    ({"a": 1, "b": 2}, [1, 1], None),
    (range(5), [1, 1, 1, 1, 1], None),
    (["a", "b", "c"], "ITER", None),
    ([1, 2.5, "x"], [1, 3, 2], None),
    (list(range(1000)), None, None),
    (list(range(1000)), list(range(1000)), None),
    (["a", "b"], [1e-320, 1e-320], None),
    (["a", "b"], [2**53, 1], None),
]


def probe_bucketing():
    result = {}
    result["proba"] = [outcome(deterministic_proba, s) for s in IDS]
    result["proba_odd"] = [
        outcome(deterministic_proba, v) for v in (None, 1, b"abc", 1.5, ["a"], ("a",))
    ]
    result["proba_kw"] = outcome(deterministic_proba, input_string="abc")
    cases = []
    for population, weights, cum_weights in WEIGHT_CASES:
        row = []
        for input_id in IDS[::7] + [None]:
            random.seed(99)
            kwargs = {}
            w = iter([1, 2, 3]) if weights == "ITER" else weights  # fresh iterator
            if cum_weights is not None:
                kwargs["cum_weights"] = cum_weights
            row.append(outcome(deterministic_choice, input_id, population, w, **kwargs))
        cases.append(row)
    result["choice"] = cases
    result["choice_kw_only"] = [
        outcome(deterministic_choice, "x", ["a", "b"], None, [1, 2]),
        outcome(deterministic_choice, "x", population=["a", "b"], weights=[1, 2]),
        outcome(deterministic_choice, input_id="x", population=["a", "b"]),
        outcome(deterministic_choice, "x"),
        outcome(deterministic_choice, 5, ["a", "b"]),
        outcome(deterministic_choice, b"x", ["a", "b"], [1, 1]),
        outcome(deterministic_choice, "x", ["a", "b"], k=2),
        outcome(deterministic_choice, "x", ["a", "b"], bogus=1),
    ]
    # salts x ids x weights, the way the generated code builds its key
    table = []
    for salt in ("", "s", "csdvs887", "sél", "0"):
        for weights in ([1, 1], [4, 1], [0.5, 0.5], [3.4, 5]):
            counts = {}
            for i in range(400):
                key = salt + "".join(map(str, [i, f"sub{i}"]))
                g = deterministic_choice(key, ["A", "B"], weights)
                counts[g] = counts.get(g, 0) + 1
            table.append([salt, weights, sorted(counts.items())])
    result["table"] = table
    # state of the random generator is consumed by the id=None path exactly as before
    random.seed(7)
    deterministic_choice(None, ["a", "b", "c"], [1, 2, 3])
    deterministic_choice("x", ["a", "b", "c"], [1, 2, 3])
    result["random_after"] = repr(random.random())
    result["module_has"] = sorted(
        n for n in ("deterministic_proba", "deterministic_choice") if hasattr(binning, n)
    )
    return result


# ----------------------------------------------------------------------- lifecycle
def probe_lifecycle():
    good_a = VALID["file_basic_experiment"]
    good_b = VALID["file_basic_experiment_recompiled"]
    good_c = VALID["file_splitter_test"]
    bad = INVALID["no_weight"]
    bad_lex = INVALID["illegal_char"]
    result = {}

    def snapshot(ev, **kwargs):
        random.seed(5)
        return [ev._checksum, "run_experiment" in vars(ev), outcome(ev, **kwargs)]

    history = []
    ev = ExperimentEvaluator(good_c)
    fn0 = ev.run_experiment
    history.append(snapshot(ev, my_id="1", field_1="a"))
    ev.recompile(good_c)
    history.append(["same text keeps function", ev.run_experiment is fn0])
    history.append(outcome(ev.recompile, bad)[:2])
    history.append(snapshot(ev, my_id="1", field_1="a"))
    history.append(["failed recompile keeps function", ev.run_experiment is fn0])
    history.append(outcome(ev.recompile, bad)[:2])
    history.append(outcome(ev.recompile, bad_lex)[:2])
    history.append(outcome(ev.recompile, "")[:2])
    history.append(outcome(ev.recompile, None)[:2])
    history.append(snapshot(ev, my_id="1", field_1="a"))
    ev.recompile(good_b)
    history.append(snapshot(ev))
    history.append(["new text changes function", ev.run_experiment is fn0])
    ev.recompile(good_a)
    history.append(snapshot(ev))
    ev.recompile(good_c + " ")
    fn1 = ev.run_experiment
    history.append(snapshot(ev, my_id="1", field_1="a"))
    ev.recompile(good_c)
    history.append(["whitespace variant recompiles", ev.run_experiment is fn1])
    history.append(snapshot(ev, my_id="2", field_1="z"))
    result["history"] = history

    result["class_state"] = [
        ExperimentEvaluator._checksum,
        outcome(ExperimentEvaluator.run_experiment, None),
        sorted(n for n in vars(ExperimentEvaluator) if not n.startswith("__")),
    ]
    other = ExperimentEvaluator(good_a)
    result["independent"] = [other._checksum != ev._checksum, snapshot(other)]
    result["failed_ctor"] = outcome(ExperimentEvaluator, bad)[:2]
    result["parse_error"] = [
        issubclass(ParseError, Exception),
        str(ParseError()),
        ParseError("m").message,
        str(ExperimentConditionalFailedError()),
    ]

    # threads: many callers while another thread recompiles between two texts
    ev = ExperimentEvaluator(good_c)
    texts = [good_c, good_c.replace("weighted 4", "weighted 1")]
    seen = set()
    errors = []
    stop = threading.Event()

    def caller(offset):
        try:
            for i in range(300):
                seen.add(ev(my_id=f"{offset}-{i}", field_1="z") in ("Setting 1", "Setting 2"))
        except BaseException as exc:  # noqa: B902
            errors.append(type(exc).__name__)

    def recompiler():
        i = 0
        while not stop.is_set() and i < 40:
            ev.recompile(texts[i % 2])
            i += 1

    threads = [threading.Thread(target=caller, args=(n,)) for n in range(6)]
    rec = threading.Thread(target=recompiler)
    for t in threads:
        t.start()
    rec.start()
    for t in threads:
        t.join()
    stop.set()
    rec.join()
    ev.recompile(good_c)
    result["threads"] = [
        sorted(seen),
        errors,
        [ev(my_id=f"t{i}", field_1="a") for i in range(40)],
    ]

    # thread-parallel bucketing gives the sequential answers
    expected = [deterministic_choice(f"p{i}", ["a", "b", "c"], [1, 2, 3]) for i in range(500)]
    got = [None] * 500

    def worker(start):
        for i in range(start, 500, 5):
            got[i] = deterministic_choice(f"p{i}", ["a", "b", "c"], [1, 2, 3])

    workers = [threading.Thread(target=worker, args=(s,)) for s in range(5)]
    for t in workers:
        t.start()
    for t in workers:
        t.join()
    result["parallel_bucketing"] = [got == expected, sha("".join(got))]
    return result


# --------------------------------------------------------------------------- stats
def probe_stats():
    result = {}
    alphas = [0.5, 0.975, 0.025, 0.0005, 0.9995, 1e-12, 1 - 1e-12, 0.25, 0.1, 0.05, 0.005,
              0, 1, 0.0, 1.0, -0.1, 1.1, 2, float("nan"), float("inf"), True, False]
    result["probit"] = [outcome(probit, a) for a in alphas]
    result["probit_default"] = outcome(probit)
    result["probit_kw"] = outcome(probit, alpha=0.3)
    result["probit_odd"] = [outcome(probit, v) for v in (None, "0.5", [0.5], 1 + 0j)]
    grid = []
    for method in ("agresti-coull", "wald", "AGRESTI-COULL", "Wald", "WALD", "Agresti-Coull",
                   "wilson", "Wilson", "agresti_coull", "agresti-coull ", " wald", "", "exact",
                   "clopper-pearson", "jeffreys", "wald\n", "ｗａｌｄ", "waLd"):
        for n in (10, 1, 0, -5, 1000, 100000, 2.5, 10**30):
            for p in (0.5, 0, 1, 0.0, 1.0, 1 / 3, 0.999, 1e-9, -0.1, 1.2):
                for confidence in (0.95, 0.999, 0.5, 0.0, 1.0, 1, 0, -1, 2, 0.9999999999):
                    grid.append(outcome(confidence_interval, n, p, confidence, method))
    result["ci_grid_sha"] = sha(json.dumps(grid))
    result["ci_grid_len"] = len(grid)
    result["ci_sample"] = grid[::97]
    result["ci_default"] = outcome(confidence_interval)
    result["ci_kw"] = [
        outcome(confidence_interval, n=100, p=0.2, confidence=0.9, method="wald"),
        outcome(confidence_interval, 100, 0.2, method="wald"),
        outcome(confidence_interval, 100, method="Agresti-Coull"),
        outcome(confidence_interval, 100, 0.2, 0.9, "wald", 1),
        outcome(confidence_interval, 100, 0.2, 0.9, bogus=1),
        outcome(confidence_interval, 100, 0.2, 0.9, None),
        outcome(confidence_interval, 100, 0.2, 0.9, 5),
        outcome(confidence_interval, 100, 0.2, 0.9, b"wald"),
        outcome(confidence_interval, "100", 0.2),
        outcome(confidence_interval, 100, None),
        outcome(confidence_interval, 100, 0.2, None),
    ]
    types = []
    for method in ("agresti-coull", "wald"):
        value = confidence_interval(50, 0.3, 0.9, method)
        types.append([type(value).__name__, len(value), [type(v).__name__ for v in value]])
    result["ci_types"] = types
    result["module_has"] = sorted(
        n for n in ("probit", "confidence_interval", "log", "pi") if hasattr(stats, n)
    )
    result["finite"] = math.isfinite(probit(0.3))
    return result


def main():
    summary = {
        "programs": probe_programs(),
        "invalid": probe_invalid(),
        "bucketing": probe_bucketing(),
        "lifecycle": probe_lifecycle(),
        "stats": probe_stats(),
    }
    print(json.dumps(summary, sort_keys=True, ensure_ascii=True, indent=1))


if __name__ == "__main__":
    main()

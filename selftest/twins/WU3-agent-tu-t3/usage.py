"""Exercises the new capability of t3: PythonCodeGen.describe()."""

import inspect
import json

from pyab_experiment.codegen.python.custom_exceptions import (
    ExperimentConditionalFailedError,
)
from pyab_experiment.codegen.python.python_generator import PythonCodeGen
from pyab_experiment.utils.wraper_functions import parse_source

PROGRAMS = {
    "flat": "def flat{ salt: 's' splitters: b, a return 'x' weighted 1, 'y' weighted 3 }",
    "random": "def random_one{ return 1 weighted 0.5, 2.5 weighted 0.5 }",
    "chain": (
        "def chain{ splitters: uid, country if country == 'US' and not age < 18 "
        "{ return 'us' weighted 1 } else if country in ('FR', 'BE') { return 'eu' weighted 1, 'eu2' weighted 1 } "
        "else { return 'row' weighted 0, 'row2' weighted 0 } }"
    ),
    "nested_no_else": (
        "def nested_no_else{ splitters: uid if a > 1 { if b < 2 { return 'ab' weighted 1 } } "
        "else { return 'c' weighted 1 } }"
    ),
    "elif_no_else": "def elif_no_else{ if a == 1 { return 'x' weighted 1 } else if a == 2 { return 'y' weighted 1 } }",
    "huge": "def huge{ splitters: uid return 'a' weighted " + "9" * 400 + ".0, 'b' weighted 1 }",
}

for name, text in PROGRAMS.items():
    tree = parse_source(text)
    for expose in (True, False):
        gen = PythonCodeGen(tree, "\t", expose)
        info = gen.describe()
        # describing collects nothing in the generator itself
        assert gen.local_vars == [] and gen.conditional_ids == [] and gen.indent() == ""
        json.dumps(info)  # plain data
        code = gen.generate()
        assert code == PythonCodeGen(tree, "\t", expose).generate()
        assert gen.describe() == info  # same answer after generate()
        assert info["name"] == tree.id and info["salt"] == tree.salt
        assert info["layout"] == ("exposed" if expose else "nested")
        assert info["splitting_fields"] == gen.local_vars
        assert info["condition_fields"] == gen.conditional_ids
        ns = {}
        exec(compile(code, "<t3>", "exec"), ns)
        params = list(inspect.signature(ns[tree.id]).parameters)
        assert params == info["parameters"] + ["kwargs"], (params, info["parameters"])
        assert info["key_expression"] in code
        # every group list appears in the generated text, in the same order
        position = 0
        for branch in info["branches"]:
            population = [g["group"] for g in branch["groups"]]
            weights = [g["weight"] for g in branch["groups"]]
            needle = f"population={population!r}, weights={weights!r})" if name != "huge" else "population="
            position = code.index(needle, position) + 1
            for header in branch["path"]:
                assert header + ": \n" in code
            shares = [g["share"] for g in branch["groups"]]
            assert all(s is None for s in shares) or abs(sum(shares) - 1) < 1e-9
        assert code.count("return partial(") == len(info["branches"])

d = {name: PythonCodeGen(parse_source(text)).describe() for name, text in PROGRAMS.items()}
assert d["flat"]["splitting_fields"] == ["a", "b"] and d["flat"]["deterministic"]
assert d["flat"]["branches"] == [
    {"path": [], "depth": 0, "groups": [
        {"group": "x", "weight": 1.0, "share": 0.25}, {"group": "y", "weight": 3.0, "share": 0.75}]}
]
assert not d["random"]["deterministic"] and d["random"]["key_expression"] == "None"
assert d["chain"]["parameters"] == ["country", "uid", "age"]
assert [b["path"] for b in d["chain"]["branches"]] == [
    ["if ((country == 'US') and (not (age < 18)))"],
    ["elif (country in ('FR', 'BE'))"],
    ["else"],
]
assert d["chain"]["branches"][2]["groups"][0]["share"] is None  # weights sum to zero
assert d["huge"]["branches"][0]["groups"][0]["share"] is None  # infinite weight
assert [d[k]["may_fall_through"] for k in PROGRAMS] == [False, False, False, True, True, False]

# may_fall_through == False: no input can raise ExperimentConditionalFailedError
ns = {}
exec(compile(PythonCodeGen(parse_source(PROGRAMS["chain"])).generate(), "<t3>", "exec"), ns)
for country in ("US", "FR", "BE", "XX", None):
    for age in (1, 18, 99):
        try:
            ns["chain"](uid=1, country=country, age=age)
        except ExperimentConditionalFailedError:
            raise AssertionError("fell through")
        except ValueError:
            pass  # zero weights
ns = {}
exec(compile(PythonCodeGen(parse_source(PROGRAMS["nested_no_else"])).generate(), "<t3>", "exec"), ns)
try:
    ns["nested_no_else"](uid=1, a=5, b=5)
except ExperimentConditionalFailedError:
    pass
else:
    raise AssertionError("expected a fall through")
print("t3 usage ok")

"""Exercises iter_evaluate / evaluate_many / tally added by t3 (exits 0 with the patch)."""
from collections import Counter

from pyab_experiment.codegen.python.custom_exceptions import (
    ExperimentConditionalFailedError,
)
from pyab_experiment.experiment_evaluator import ExperimentEvaluator

TEXT = (
    "def exp{ salt: 'x' splitters: uid\n"
    " if tier == 1 { return 'a' weighted 1, 'b' weighted 3 }\n"
    " else if tier == 2 { return 'c' weighted 1 } }"
)
OTHER = "def exp2{ splitters: uid return 'z' weighted 1 }"
ev = ExperimentEvaluator(TEXT)
rows = [{"uid": f"u{i}", "tier": 1 + i % 2, "ignored": i} for i in range(500)]

# same as calling one by one
expected = [ev(**r) for r in rows]
assert ev.evaluate_many(rows) == expected
assert ev.evaluate_many(iter(rows)) == expected  # any iterable
assert ev.evaluate_many([]) == []
assert ev.tally(rows) == Counter(expected)
assert set(ev.tally(rows)) == {"a", "b", "c"}

# unrouted rows: raise by default, replaced on request (None is a legal default)
unrouted = rows[:3] + [{"uid": "u", "tier": 3}] + rows[3:5]
try:
    ev.evaluate_many(unrouted)
except ExperimentConditionalFailedError:
    pass
else:
    raise AssertionError
assert ev.evaluate_many(unrouted, default=None) == expected[:3] + [None] + expected[3:5]
assert ev.tally(unrouted, default="control")["control"] == 1
# other errors are never swallowed
try:
    ev.evaluate_many([{"uid": 1}], default=None)
except TypeError:
    pass
else:
    raise AssertionError

# lazy, and pinned to the version that was loaded when consumption started
it = ev.iter_evaluate(rows)
first = next(it)
ev.recompile(OTHER)
assert [first] + list(it) == expected
assert ev.evaluate_many(rows[:5]) == ["z"] * 5

# nothing is stored on the evaluator
assert sorted(vars(ev)) == ["_checksum", "run_experiment"]
print("t3 usage ok")

"""Differential probe for the lexer / grammar refactorings.

Run as
    PYTHONPATH=/tmp/wt/TO/src /venv/bin/python probe.py
It prints one deterministic JSON document.  The document must be byte-identical
with and without the patch under test.

What is exercised
  * whatever the package writes to stderr while it is imported (sly reports
    grammar conflicts / unused tokens there)
  * the raw token stream (type, value, lineno, index, end) of many tricky texts,
    including the exception (class, message, attributes) that ends a stream and
    the position the lexer stopped at
  * parse_source: repr() and json() of the AST or the class + message of the error
  * both layouts of the generated python (raw generator output and the black
    formatted generate_code output), executed over a grid of field values
  * an exhaustive sweep of short predicate token sequences, an exhaustive sweep of
    short header/return/tuple token sequences, a seeded random sweep of valid
    programs with random layout/comments and of token-level and character-level
    mutants of them (reported as digests + histograms)
  * ExperimentEvaluator lifecycles (valid / invalid / repeated recompiles), also
    from several threads
  * deterministic_choice / deterministic_proba and utils.stats values
"""
import hashlib
import io
import itertools
import json
import random
import sys
import threading

_real_stderr = sys.stderr
_captured = io.StringIO()
sys.stderr = _captured
try:
    from pyab_experiment.binning.binning import (
        deterministic_choice,
        deterministic_proba,
    )
    from pyab_experiment.codegen.python.python_generator import PythonCodeGen
    from pyab_experiment.experiment_evaluator import ExperimentEvaluator
    from pyab_experiment.language.grammar import ExperimentParser
    from pyab_experiment.language.lexer import ExperimentLexer
    from pyab_experiment.utils.stats import confidence_interval, probit
    from pyab_experiment.utils.wraper_functions import generate_code, parse_source
finally:
    sys.stderr = _real_stderr

OUT = {"import_stderr": _captured.getvalue()}


def digest(obj) -> str:
    return hashlib.sha256(
        json.dumps(obj, sort_keys=True, ensure_ascii=True).encode()
    ).hexdigest()


def describe_exception(exc) -> dict:
    info = {"class": type(exc).__name__, "msg": str(exc)[:300], "args": repr(exc.args)[:300]}
    for attr in ("text", "error_index", "message"):
        if hasattr(exc, attr):
            info[attr] = repr(getattr(exc, attr))[:200]
    return info


# --------------------------------------------------------------------------
# lexing
# --------------------------------------------------------------------------
def lex_outcome(text: str) -> dict:
    lexer = ExperimentLexer()
    toks = []
    err = None
    try:
        for tok in lexer.tokenize(text):
            toks.append([tok.type, repr(tok.value), tok.lineno, tok.index, tok.end])
    except Exception as exc:  # noqa: BLE001
        err = describe_exception(exc)
    return {
        "tokens": toks,
        "error": err,
        "stop": [getattr(lexer, "index", None), getattr(lexer, "lineno", None)],
    }


def parse_outcome(text: str) -> dict:
    try:
        ast = parse_source(text)
    except Exception as exc:  # noqa: BLE001
        return {"error": describe_exception(exc)}
    if ast is None:
        return {"ast": None}
    return {"ast": repr(ast), "json": ast.json()}


FIELD_GRID = [
    None,
    0,
    1,
    2,
    3,
    -1,
    4.5,
    10,
    "a",
    "x",
    "xyz",
    "US",
    (1, 2),
    [1],
    "é",
]


def call_grid(fn, names, rng):
    # experiments without splitters fall back to random.choices: pin the global
    # generator so that the summary stays deterministic
    random.seed(rng.random())
    results = []
    for _ in range(12):
        kwargs = {name: rng.choice(FIELD_GRID) for name in names}
        try:
            results.append(repr(fn(**kwargs)))
        except Exception as exc:  # noqa: BLE001
            results.append("!" + type(exc).__name__)
    # also a call without any argument and one with an unknown extra argument
    for kwargs in ({}, {"__unknown__": 1}):
        try:
            results.append(repr(fn(**kwargs)))
        except Exception as exc:  # noqa: BLE001
            results.append("!" + type(exc).__name__)
    return results


def run_outcome(text: str, seed: int = 0) -> dict:
    """parse, generate both layouts (raw + black formatted), execute them"""
    out = parse_outcome(text)
    if "error" in out or out.get("ast") is None:
        return out
    ast = parse_source(text)
    layouts = {}
    for expose in (False, True):
        gen = PythonCodeGen(ast, expose_experiment_variant_function=expose)
        raw = gen.generate()
        names = sorted(set(gen.local_vars) | set(gen.conditional_ids))
        try:
            formatted = generate_code(text, expose)
        except Exception as exc:  # noqa: BLE001
            formatted = None
            layouts[f"format_error_{expose}"] = type(exc).__name__
        for label, code in (("raw", raw), ("black", formatted)):
            if code is None:
                continue
            ns = {}
            try:
                exec(compile(code, "<probe>", "exec"), ns)
                fn = ns[ast.id]
                res = call_grid(fn, names, random.Random(seed))
            except Exception as exc:  # noqa: BLE001
                res = "!" + type(exc).__name__
            layouts[f"{label}_{expose}"] = {
                "code": hashlib.sha256(code.encode()).hexdigest(),
                "names": names,
                "results": res,
            }
    out["layouts"] = layouts
    return out


# --------------------------------------------------------------------------
# hand written corpus
# --------------------------------------------------------------------------
R = "return 1 weighted 1"
HAND = [
    # minimal and header variants
    "def a{return 1 weighted 1}",
    "def a { salt: 's' return 1 weighted 1 }",
    "def a { splitters: x return 1 weighted 1 }",
    "def a { salt: \"s\" splitters: x, y, z return 'a' weighted 1, 'b' weighted 2.5 }",
    "def a { splitters: x salt: 's' return 1 weighted 1 }",
    "def a { salt: 's' salt: 't' return 1 weighted 1 }",
    "def a { splitters: x, return 1 weighted 1 }",
    "def a { splitters: return 1 weighted 1 }",
    "def a { splitters x return 1 weighted 1 }",
    "def a { salt: s return 1 weighted 1 }",
    "def a { salt: 1 return 1 weighted 1 }",
    "def a { splitters: x y return 1 weighted 1 }",
    "def a { splitters: x,, y return 1 weighted 1 }",
    "def a { splitters: 1 return 1 weighted 1 }",
    "def { return 1 weighted 1 }",
    "def a b { return 1 weighted 1 }",
    "a { return 1 weighted 1 }",
    "def a { }",
    "def a { return }",
    "def a { return 1 }",
    "def a { return 1 weighted }",
    "def a { return 1 weighted 1, }",
    "def a { return 1 weighted 1,, 2 weighted 2 }",
    "def a { return 1 weighted 1 2 weighted 2 }",
    "def a { return 1 weighted -1 }",
    "def a { return 1 weighted 'x' }",
    "def a { return x weighted 1 }",
    "def a { return (1,2) weighted 1 }",
    "def a { return -1 weighted 1, -2.5 weighted 0, 0 weighted 0.0, -0 weighted 3, -0.0 weighted 1 }",
    "def a { return - 1 weighted 1 }",
    "def a { return --1 weighted 1 }",
    "def a { return 1 weighted 1 } trailing",
    "def a { return 1 weighted 1 } }",
    "def a { return 1 weighted 1 } def b { return 1 weighted 1 }",
    "def a { return 1 weighted 1 } $",
    "def a { return 1 weighted 1 } // done",
    "def a { return 1 weighted 1 } /* open",
    "def a { return 1 weighted 1",
    "def a  return 1 weighted 1 }",
    "",
    "   \n\t ",
    "// nothing",
    "/* nothing */",
    "/* nothing",
    "def",
    "def a",
    "def a {",
    "{",
    "}",
    # keywords as identifiers / prefixes / case
    "def def { return 1 weighted 1 }",
    "def if { return 1 weighted 1 }",
    "def in { return 1 weighted 1 }",
    "def salt { return 1 weighted 1 }",
    "def weighted { return 1 weighted 1 }",
    "def define { splitters: iffy, elsewhere, notable, android, oracle, inn, saltx, splittersx, returnx, weightedx return 1 weighted 1 }",
    "def Def { splitters: If, IN, Not, AND, Or, ELSE, Return, Salt return 1 weighted 1 }",
    "def a { splitters: _if, if_, if1, in_1, not_in, notin, else_if, elseif_ return 1 weighted 1 }",
    "def a { splitters: if return 1 weighted 1 }",
    "def a { splitters: x, in return 1 weighted 1 }",
    "def a { splitters: elseif return 1 weighted 1 }",
    "def a { splitters: else return 1 weighted 1 }",
    "def a { if iffy == 1 and android in (1,2) or notx not in (3,) { return 1 weighted 1 } }",
    "def a { if x == 1 { return 1 weighted 1 } elseif y == 2 { return 2 weighted 1 } else { return 3 weighted 1 } }",
    "def a { if x == 1 { return 1 weighted 1 } else   if y == 2 { return 2 weighted 1 } else{ return 3 weighted 1 } }",
    "def a { if x == 1 { return 1 weighted 1 } else\n\n\nif y == 2 { return 2 weighted 1 } }",
    "def a { if x == 1 { return 1 weighted 1 } else\tif y == 2 { return 2 weighted 1 } $ }",
    "def a { if x == 1 { return 1 weighted 1 } elseifx == 2 { return 2 weighted 1 } }",
    "def a { if x == 1 { return 1 weighted 1 } else ifx == 2 { return 2 weighted 1 } }",
    "def a { if x == 1 { return 1 weighted 1 } else /*c*/ if y == 2 { return 2 weighted 1 } }",
    "def a { if x == 1 { return 1 weighted 1 } else { return 2 weighted 1 } else { return 3 weighted 1 } }",
    "def a { if x == 1 { return 1 weighted 1 } else { return 2 weighted 1 } else if z == 1 { return 3 weighted 1 } }",
    "def a { else { return 2 weighted 1 } }",
    "def a { else if x == 1 { return 2 weighted 1 } }",
    "def a { if x not in (1,2) { return 1 weighted 1 } }",
    "def a { if x not\n\n   in (1,2) { return 1 weighted 1 } $",
    "def a { if x not\tin (1,2) { return 1 weighted 1 } }",
    "def a { if x notin (1,2) { return 1 weighted 1 } }",
    "def a { if x not inn (1,2) { return 1 weighted 1 } }",
    "def a { if x not /*c*/ in (1,2) { return 1 weighted 1 } }",
    "def a { if not x in (1,2) { return 1 weighted 1 } }",
    "def a { if not not x in (1,2) { return 1 weighted 1 } }",
    "def a { if not x not in (1,2) { return 1 weighted 1 } }",
    "def a { if x in(1,2) { return 1 weighted 1 } }",
    "def a { if x in1 { return 1 weighted 1 } }",
    "def a { if x in'a' { return 1 weighted 1 } }",
    "def a { if x in\"abc\" { return 1 weighted 1 } }",
    "def a { if(x==1)and(y==2)or(z==3){return 1weighted 1,2weighted 2}}",
    "def a{if x==1{return 1 weighted 1}else{return 2 weighted 1}}",
    "def a{return'a'weighted 1}",
    "def a{return 1weighted1}",
    "def a{return 1 weighted 1.}",
    "def a{return 1 weighted .5}",
    "def a{return 1 weighted 1.5.5}",
    "def a{return 1.5.5 weighted 1}",
    "def a{return 01 weighted 007, 00.50 weighted 1.000}",
    "def a{return 1e5 weighted 1}",
    "def a{return 1_000 weighted 1}",
    "def a{return 0x10 weighted 1}",
    # non ASCII right after words and numbers
    "def a { ifé x == 1 { return 1 weighted 1 } }",
    "def a { if x == 1 { returné 1 weighted 1 } }",
    "def a { if x iné (1,2) { return 1 weighted 1 } }",
    "def a { if x not iné (1,2) { return 1 weighted 1 } }",
    "def a { if x noté in (1,2) { return 1 weighted 1 } }",
    "def a { if x == 1 { return 1 weighted 1 } elseé { return 1 weighted 1 } }",
    "def a { if x == 1 { return 1 weighted 1 } else ifé y == 1 { return 1 weighted 1 } }",
    "def a { if x == 1 { return 1 weighted 1 } elseifé y == 1 { return 1 weighted 1 } }",
    "def a { if٣ == 1 { return 1 weighted 1 } }",
    "def a { splitters: if٣ return 1 weighted 1 }",
    "def a { splitters: x٣ return 1 weighted 1 }",
    "def a { if x in٣ { return 1 weighted 1 } }",
    "def a { if x == in٣ { return 1 weighted 1 } }",
    "def a { if x == y and٣ == 3 { return 1 weighted 1 } }",
    "def a { if x == y or² == 3 { return 1 weighted 1 } }",
    "def a { return 1 weighted٣ }",
    "def a { return 1 weightedé 1 }",
    "defé a { return 1 weighted 1 }",
    "def a { salté: 's' return 1 weighted 1 }",
    "def a { splittersé: x return 1 weighted 1 }",
    "def a { return ٣ weighted ١٢.٥ }",
    "def a { return 1٣ weighted 1 }",
    "def a { return ٣.5 weighted 1 }",
    "def a { return ² weighted 1 }",
    "def a { return 'héllo 世界 \U0001f600' weighted 1 }",
    "def é { return 1 weighted 1 }",
    "def a { return 1 weighted 1 }",
    "def a {　return 1 weighted\x0b1\x0c}\x1c\x1d\x1e\x1f\x85",
    "def a { if x == 1 { return 1 weighted 1 } else if y == 1 { return 1 weighted 1 } }",
    "def a { if x not in (1,) { return 1 weighted 1 } }",
    "def a { if x not in (1,) { return 1 weighted 1 } $",
    # strings
    "def a { return \"it's\" weighted 1, 'say \"hi\"' weighted 1 }",
    "def a { return 'a\\\\b' weighted 1, \"c\\\\n\" weighted 1, '\\\\' weighted 1 }",
    "def a { return '' weighted 1, \"\" weighted 1 }",
    "def a { return 'unterminated weighted 1 }",
    "def a { return 'two\nlines' weighted 1 }",
    "def a { return 'a' 'b' weighted 1 }",
    "def a { return 'a''b' weighted 1 }",
    "def a { return '// not a comment' weighted 1, '/* nor this */' weighted 1 }",
    "def a { salt: '/*' return '*/' weighted 1 }",
    "def a { salt: 's\\'t' return 1 weighted 1 }",
    "def a { salt: 'tab\there' return '{}' weighted 1 }",
    "def a { salt: 'if else return' splitters: x return 'def' weighted 1 }",
    "def a { if x == 'a\\\\' { return '\\\\\\\\' weighted 1 } }",
    # comments
    "def a { // c1\n return 1 weighted 1 // c2\n}",
    "def a { /* c1 */ return /* c2 */ 1 /**/ weighted /***/ 1 /* */ }",
    "def a { /* multi\nline\n\ncomment */ return 1 weighted 1 }\n$",
    "def a { /* multi\n line * / still */ return 1 weighted 1 }",
    "def a { /* nested /* inner */ return 1 weighted 1 }",
    "def a { /* nested /* inner */ outer */ return 1 weighted 1 }",
    "def a { /*/ return 1 weighted 1 }",
    "def a { /*/ x */ return 1 weighted 1 }",
    "def a { /**/ return 1 weighted 1 }",
    "def a { /***/ return 1 weighted 1 }",
    "def a { /* a */ /* b */ return 1 weighted 1 }",
    "def a { /* a\r\n b \r */ return 1 weighted 1 }\r\n$",
    "def a { /* a  b \x0b\x0c */ return 1 weighted 1 }",
    "def a { /* \n\n\n */ $ }",
    "def a { /* \n\n\n $",
    "def a { return 1 weighted 1 /* never closed \n\n }",
    "def a { //* odd\n return 1 weighted 1 }",
    "def a { // /* inline first\n return 1 weighted 1 }",
    "def a { /* // block first */ return 1 weighted 1 }",
    "def a { /* // block first \n */ return 1 weighted 1 }",
    "def a { / * not a comment */ return 1 weighted 1 }",
    "def a { * / return 1 weighted 1 }",
    "def a { return 1 weighted 1 } /",
    "def a { return 1 / 2 weighted 1 }",
    "def a { return 1 weighted 1 //\n}",
    "def a { return 1 weighted 1 //",
    # line counting quirks (reported through the syntax error message)
    "def a {\n\n\n  oops }",
    "def a { \n \n \n  oops }",
    "def a {\n \n\n \n oops }",
    "def a {\r\n\r\n oops }",
    "def a {\n/* c\n\n */\n oops }",
    "def a {\n// c\n\n oops }",
    "def a { if x == 1 { return 1 weighted 1 } else\n\nif\n\noops }",
    "def a { if x not\n\nin\n\n oops }",
    "\n\n\ndef a { return 1 weighted 1 }\n\n\noops",
    "\n\n\n$",
    # predicates, precedence, tuples
    "def a { if x == 1 and y == 2 or z == 3 { return 1 weighted 1 } }",
    "def a { if x == 1 or y == 2 and z == 3 { return 1 weighted 1 } }",
    "def a { if x == 1 or y == 2 or z == 3 { return 1 weighted 1 } }",
    "def a { if x == 1 and y == 2 and z == 3 { return 1 weighted 1 } }",
    "def a { if not x == 1 and y == 2 { return 1 weighted 1 } }",
    "def a { if not x == 1 or y == 2 { return 1 weighted 1 } }",
    "def a { if not (x == 1 and y == 2) { return 1 weighted 1 } }",
    "def a { if x == 1 and not y == 2 or not z == 3 { return 1 weighted 1 } }",
    "def a { if not not not x == 1 { return 1 weighted 1 } }",
    "def a { if x == 1 and (y == 2 or z == 3) { return 1 weighted 1 } }",
    "def a { if (x == 1 or y == 2) and z == 3 { return 1 weighted 1 } }",
    "def a { if ((x == 1)) { return 1 weighted 1 } }",
    "def a { if (x) == 1 { return 1 weighted 1 } }",
    "def a { if ((x)) == (1) { return 1 weighted 1 } }",
    "def a { if (x, y) == (1, 2) { return 1 weighted 1 } }",
    "def a { if (x, (y, (z, 1)), 'a', -2.5) in ((1, 2), (3,), 4) { return 1 weighted 1 } }",
    "def a { if x in (1,) { return 1 weighted 1 } }",
    "def a { if x in () { return 1 weighted 1 } }",
    "def a { if x in (1,,2) { return 1 weighted 1 } }",
    "def a { if x in (1 2) { return 1 weighted 1 } }",
    "def a { if x in (1,2 { return 1 weighted 1 } }",
    "def a { if x in 1,2) { return 1 weighted 1 } }",
    "def a { if (x == 1 { return 1 weighted 1 } }",
    "def a { if x == 1) { return 1 weighted 1 } }",
    "def a { if (x == 1, y) == 2 { return 1 weighted 1 } }",
    "def a { if x { return 1 weighted 1 } }",
    "def a { if x == { return 1 weighted 1 } }",
    "def a { if == 1 { return 1 weighted 1 } }",
    "def a { if x == 1 == 2 { return 1 weighted 1 } }",
    "def a { if x == 1 and { return 1 weighted 1 } }",
    "def a { if and x == 1 { return 1 weighted 1 } }",
    "def a { if x == 1 not y == 2 { return 1 weighted 1 } }",
    "def a { if x and y { return 1 weighted 1 } }",
    "def a { if not x { return 1 weighted 1 } }",
    "def a { if (not x == 1) { return 1 weighted 1 } }",
    "def a { if x == not y { return 1 weighted 1 } }",
    "def a { if x = 1 { return 1 weighted 1 } }",
    "def a { if x === 1 { return 1 weighted 1 } }",
    "def a { if x <> 1 { return 1 weighted 1 } }",
    "def a { if x ! = 1 { return 1 weighted 1 } }",
    "def a { if x >== 1 { return 1 weighted 1 } }",
    "def a { if x > = 1 { return 1 weighted 1 } }",
    "def a { if x >= -1 and x <= - 2.5 and x < 3 and x > 4 and x != 5 and x == 6 { return 1 weighted 1 } }",
    "def a { if 1 == 1 { return 1 weighted 1 } }",
    "def a { if 'a' in 'abc' { return 1 weighted 1 } }",
    "def a { if x == -y { return 1 weighted 1 } }",
    "def a { if x == 02134 and y == '02134' and z == 2134.0 and w == 18 { return 1 weighted 1 } }",
    "def a { if x == 1 { if y == 2 { if z == 3 { return 1 weighted 1 } else { return 2 weighted 1 } } else if y == 3 { return 3 weighted 1 } } else { return 4 weighted 1 } }",
    "def a { if x == 1 { return 1 weighted 1 } return 2 weighted 1 }",
    "def a { if x == 1 return 1 weighted 1 }",
    "def a { if x == 1 { } }",
    "def a { if x == 1 { return 1 weighted 1 } else if { return 1 weighted 1 } }",
    "def a { if x == 1 { return 1 weighted 1 } else if y == 2 { return 2 weighted 1 } else if z == 3 { return 3 weighted 1 } }",
    # a field both splitter and condition; shadowing names
    "def a { salt: 'k' splitters: x, y if x == 1 and z in ('a', 'x') { return 'p' weighted 1, 'q' weighted 3 } else { return 'r' weighted 0, 's' weighted 1 } }",
    "def a { splitters: x if x == 1 { return 1 weighted 0 } }",
    "def a { splitters: b, a, a, b return 'u' weighted 1, 'v' weighted 1, 'w' weighted 1 }",
    "def a { splitters: partial, deterministic_choice return 1 weighted 1, 2 weighted 1 }",
    "def a { splitters: kwargs return 1 weighted 1, 2 weighted 1 }",
    "def a { if a == 1 { return 1 weighted 1 } }",
    "def choose_experiment_variant { splitters: x if y == 1 { return 1 weighted 1, 2 weighted 1 } }",
    "def a { return 1 weighted 0, 2 weighted 0 }",
    "def a { splitters: x return 1 weighted 0, 2 weighted 0 }",
    "def a { splitters: x return 1 weighted " + "9" * 400 + ".0, 2 weighted 1 }",
    "def a { splitters: x return " + "9" * 400 + ".5 weighted 1, -" + "9" * 400 + ".5 weighted 1 }",
    "def a { splitters: x return " + "9" * 30 + " weighted " + "9" * 30 + " }",
    "def a { return " + "9" * 5000 + " weighted 1 }",
    "def a { return 1 weighted " + "9" * 5000 + " $",
    "def a { return " + "9" * 5000 + " $ weighted 1 }",
    "def a { oops " + "9" * 5000 + " }",
    "def a { if x in " + "(" * 40 + "1" + ",)" * 40 + " { return 1 weighted 1 } }",
    "def a { if " + "(" * 40 + "x == 1" + ")" * 40 + " { return 1 weighted 1 } }",
    "def a { if x in " + "(" * 40 + "1" + ")" * 40 + " { return 1 weighted 1 } }",
    "def a { if " + "(" * 30 + "x" + ")" * 15 + " == 1" + ")" * 15 + " { return 1 weighted 1 } }",
    "def a { if x in " + "(1, " * 30 + "2" + ")" * 30 + " { return 1 weighted 1 } }",
    "def a { if x in " + "(" * 30 + "2" + ", 1)" * 30 + " { return 1 weighted 1 } }",
    "def a { if " + " and ".join(f"f{i} == {i} or not g{i} < {i}.5" for i in range(30)) + " { return 1 weighted 1 } }",
    "def a { if " + "not " * 40 + "x == 1 { return 1 weighted 1 } }",
    "def a { splitters: " + ", ".join(f"f{i}" for i in range(60)) + " return " + ", ".join(f"{i} weighted {i}" for i in range(60)) + " }",
    "def a { if x in (" + ", ".join(str(i) for i in range(80)) + ") { return 1 weighted 1 } }",
]

OUT["hand_lex"] = [lex_outcome(t) for t in HAND]
OUT["hand_run"] = [run_outcome(t, i) for i, t in enumerate(HAND)]

# the repository's sample programs, if they can be found next to the sources
try:
    import os

    import pyab_experiment

    base = os.path.join(
        os.path.dirname(os.path.dirname(os.path.dirname(pyab_experiment.__file__))),
        "tests",
        "unit",
        "test_programs",
    )
    samples = {}
    for name in sorted(os.listdir(base)):
        with open(os.path.join(base, name), encoding="utf-8") as fp:
            text = fp.read()
        samples[name] = {"lex": digest(lex_outcome(text)), "run": run_outcome(text, 7)}
    OUT["samples"] = samples
except OSError:
    OUT["samples"] = None


# --------------------------------------------------------------------------
# exhaustive sweeps over short token sequences
# --------------------------------------------------------------------------
def sweep(template: str, alphabet, max_len: int) -> dict:
    """every sequence over the alphabet up to max_len substituted in template"""
    histogram = {}
    h = hashlib.sha256()
    accepted = []
    for n in range(max_len + 1):
        for seq in itertools.product(alphabet, repeat=n):
            text = template.replace("@", " ".join(seq))
            try:
                ast = parse_source(text)
                key = "ok"
                res = repr(ast)
                if len(accepted) < 40:
                    accepted.append(" ".join(seq))
            except Exception as exc:  # noqa: BLE001
                key = type(exc).__name__
                res = key + ":" + str(exc)
            histogram[key] = histogram.get(key, 0) + 1
            h.update(res.encode())
            h.update(b"\0")
    return {"histogram": histogram, "digest": h.hexdigest(), "first_ok": accepted}


OUT["sweep_predicate"] = sweep(
    "def e {\n if @ {\n return 1 weighted 1 } }",
    ["a", "==", "1", "and", "or", "not", "(", ")", ","],
    5,
)
OUT["sweep_predicate_long"] = sweep(
    "def e { if @ { return 1 weighted 1 } }",
    ["a == 1", "and", "or", "not", "(", ")"],
    7,
)
OUT["sweep_tuple"] = sweep(
    "def e { if x in @ { return 1 weighted 1 } }",
    ["(", ")", ",", "1", "y", "-", "'s'"],
    6,
)
OUT["sweep_header"] = sweep(
    "def e {\n@\nreturn 1 weighted 1 }",
    ["salt", "splitters", ":", ",", "x", "'s'", "y"],
    6,
)
OUT["sweep_return"] = sweep(
    "def e { return @ }",
    ["1", "2.5", "'s'", "weighted", ",", "-", "x"],
    6,
)
OUT["sweep_conditional"] = sweep(
    "def e { @ }",
    ["if p == 1 {", "}", "else if q == 2 {", "else {", "return 1 weighted 1", "elseif r in (1,) {"],
    7,
)


# --------------------------------------------------------------------------
# seeded random programs with random layout, and mutants of them
# --------------------------------------------------------------------------
class Gen:
    def __init__(self, seed):
        self.r = random.Random(seed)

    IDS = [
        "x", "y", "user_id", "iffy", "android", "notx", "inn", "elsewhere",
        "_d", "Def", "return_", "salty", "orc", "weighted1", "elseif_", "not_in",
    ]
    STRS = [
        "'a'", '"b"', "'it is'", '"say \'hi\'"', "''", "'hé'", "'/*'", "'//'",
        "'a\\\\b'", "'if'", "'{'", "' '", "'0'", "'02134'",
    ]

    def ident(self):
        return self.r.choice(self.IDS)

    def number(self):
        r = self.r
        kind = r.randrange(4)
        if kind == 0:
            return str(r.randrange(0, 20))
        if kind == 1:
            return f"{r.randrange(0, 20)}.{r.randrange(0, 100)}"
        if kind == 2:
            return "0" + str(r.randrange(0, 99))
        return str(r.randrange(0, 10**12))

    def literal(self):
        r = self.r
        k = r.randrange(5)
        if k == 0:
            return [r.choice(self.STRS)]
        if k == 1:
            return ["-", self.number()]
        return [self.number()]

    def term(self, depth=0):
        r = self.r
        k = r.randrange(6)
        if k == 0 and depth < 3:
            n = r.randrange(1, 4)
            toks = ["("]
            for i in range(n):
                if i:
                    toks.append(",")
                toks += self.term(depth + 1)
            toks.append(")")
            return toks
        if k in (1, 2):
            return [self.ident()]
        return self.literal()

    def predicate(self, depth=0):
        r = self.r
        k = r.randrange(8) if depth < 4 else 7
        if k == 0:
            return ["("] + self.predicate(depth + 1) + [")"]
        if k == 1:
            return ["not"] + self.predicate(depth + 1)
        if k == 2:
            return self.predicate(depth + 1) + ["and"] + self.predicate(depth + 1)
        if k == 3:
            return self.predicate(depth + 1) + ["or"] + self.predicate(depth + 1)
        op = r.choice(["==", "!=", "<", ">", "<=", ">=", "in", "not in", "not  in", "not\nin"])
        return self.term() + [op] + self.term()

    def ret(self):
        r = self.r
        toks = ["return"]
        for i in range(r.randrange(1, 5)):
            if i:
                toks.append(",")
            toks += self.literal() + ["weighted", self.number()]
        return toks

    def conditional(self, depth=0):
        r = self.r
        if depth >= 3 or r.randrange(3) == 0:
            return self.ret()
        toks = ["if"] + self.predicate() + ["{"] + self.conditional(depth + 1) + ["}"]
        for _ in range(r.randrange(0, 3)):
            toks += [r.choice(["else if", "elseif", "else  if", "else\nif"])]
            toks += self.predicate() + ["{"] + self.conditional(depth + 1) + ["}"]
        if r.randrange(2):
            toks += ["else", "{"] + self.conditional(depth + 1) + ["}"]
        return toks

    def program(self):
        r = self.r
        toks = ["def", self.ident(), "{"]
        if r.randrange(2):
            toks += ["salt", ":", r.choice(self.STRS)]
        if r.randrange(2):
            toks += ["splitters", ":"]
            for i in range(r.randrange(1, 4)):
                if i:
                    toks.append(",")
                toks.append(self.ident())
        toks += self.conditional()
        toks.append("}")
        return toks

    SEPS = [" ", " ", " ", "\n", "\n\n", "\t", "  ", " \n ", "\n \n", "\r\n", " /* c */ ",
            " /* a\nb */ ", " // c\n", "\n// c\n\n", "/**/", " /* * / */ ", " ", "\x0c"]

    def layout(self, toks):
        r = self.r
        out = []
        for tok in toks:
            out.append(tok)
            out.append(r.choice(self.SEPS))
        return "".join(out)

    GLUE_VOCAB = ["def", "salt", "splitters", "if", "else", "else if", "elseif", "weighted",
                  "return", "and", "or", "not", "in", "not in", "{", "}", "(", ")", ",", ":",
                  "-", "==", "<", ">=", "!=", "x", "1", "2.5", "'s'", "$", "/*", "*/", "//",
                  "é", "٣", ".", "\"", "'"]

    def mutate_tokens(self, toks):
        r = self.r
        toks = list(toks)
        for _ in range(r.randrange(1, 3)):
            k = r.randrange(4)
            pos = r.randrange(len(toks))
            if k == 0:
                del toks[pos]
            elif k == 1:
                toks.insert(pos, r.choice(self.GLUE_VOCAB))
            elif k == 2:
                toks[pos] = r.choice(self.GLUE_VOCAB)
            else:
                other = r.randrange(len(toks))
                toks[pos], toks[other] = toks[other], toks[pos]
            if not toks:
                break
        return toks

    CHARS = list(" \n\t{}(),:-=<>!'\"/*.$_aeinorst019E") + ["é", "٣", " ", " "]

    def mutate_chars(self, text):
        r = self.r
        chars = list(text)
        for _ in range(r.randrange(1, 4)):
            k = r.randrange(3)
            pos = r.randrange(len(chars) + 1)
            if k == 0 and pos < len(chars):
                del chars[pos]
            elif k == 1:
                chars.insert(pos, r.choice(self.CHARS))
            elif pos < len(chars):
                chars[pos] = r.choice(self.CHARS)
        return "".join(chars)


def random_sweep(seed: int, count: int) -> dict:
    g = Gen(seed)
    hist = {}
    h_lex = hashlib.sha256()
    h_parse = hashlib.sha256()
    h_run = hashlib.sha256()
    detail = []
    for i in range(count):
        toks = g.program()
        variants = [
            " ".join(toks),
            g.layout(toks),
            "".join(
                t if j == 0 else (t if not (t[0].isalnum() or t[0] in "_'\"") or not (toks[j - 1][-1].isalnum() or toks[j - 1][-1] in "_'\"") else " " + t)
                for j, t in enumerate(toks)
            ),
            g.layout(g.mutate_tokens(toks)),
            " ".join(g.mutate_tokens(toks)),
            g.mutate_chars(" ".join(toks)),
            g.mutate_chars(g.layout(toks)),
        ]
        for v, text in enumerate(variants):
            lexed = lex_outcome(text)
            h_lex.update(digest(lexed).encode())
            if i % 10 == 0 and v < 3:
                res = run_outcome(text, i)
                h_run.update(digest(res).encode())
            else:
                res = parse_outcome(text)
            h_parse.update(digest({k: res[k] for k in res if k != "layouts"}).encode())
            key = f"v{v}:" + ("ok" if "error" not in res else res["error"]["class"])
            hist[key] = hist.get(key, 0) + 1
            if i < 3:
                detail.append({"text": text, "parse": res.get("error", "ok") if "error" in res else "ok"})
    return {
        "histogram": dict(sorted(hist.items())),
        "lex": h_lex.hexdigest(),
        "parse": h_parse.hexdigest(),
        "run": h_run.hexdigest(),
        "detail": detail,
    }


OUT["random_sweep"] = [random_sweep(seed, 220) for seed in (1, 2, 3)]

# character level torture of the lexer only: every pair / triple over a small alphabet
# glued between words, looking only at the token stream
LEX_ALPHA = ["if", "in", "not", "else", " ", "\n", "x", "1", ".", "/", "*", "é", "'", "-", "="]
h = hashlib.sha256()
hist = {}
for n in (1, 2, 3, 4):
    for seq in itertools.product(LEX_ALPHA, repeat=n):
        if n == 4 and seq[0] not in ("not", "else", "/", "1"):
            continue
        res = lex_outcome("".join(seq))
        h.update(digest(res).encode())
        key = res["error"]["class"] if res["error"] else "ok"
        hist[key] = hist.get(key, 0) + 1
OUT["lex_product"] = {"digest": h.hexdigest(), "histogram": hist}

KEYWORDS = ["def", "salt", "splitters", "if", "else", "else if", "elseif", "else  if",
            "weighted", "return", "and", "or", "not", "in", "not in", "not  in", "notin"]
AFTER = ["", " ", "\n", "x", "_", "1", "(", "{", ":", "'", "\"", "-", "=", "/", "//", "/*", ".",
         "é", "٣", "²", " ", " ", "$", "\x00", "ª", "́", "‍"]
BEFORE = ["", " ", "x", "1", "_", ")", "'a'", "é"]
kw = {}
for word in KEYWORDS:
    for b in BEFORE:
        for a in AFTER:
            text = b + word + a
            res = lex_outcome(text)
            kw[repr(text)] = [
                [t[0], t[1]] for t in res["tokens"]
            ] + ([res["error"]["class"], res["error"]["msg"]] if res["error"] else [])
OUT["keyword_contexts"] = {"digest": digest(kw), "sample": {k: kw[k] for k in sorted(kw)[::37]}}


# --------------------------------------------------------------------------
# evaluator lifecycle
# --------------------------------------------------------------------------
V1 = "def one { splitters: uid return 'a' weighted 1, 'b' weighted 1 }"
V2 = "def two { salt: 's2' splitters: uid if k == 1 { return 'c' weighted 1, 'd' weighted 3 } else { return 'e' weighted 1 } }"
V3 = "def one { /* same as V1 but different text */ splitters: uid return 'a' weighted 1, 'b' weighted 1 }"
BAD_LEX = "def one { splitters: uid return 'a' weighted 1 $ }"
BAD_SYN = "def one { splitters: uid return 'a' weighted }"
BAD_KW = "def one { splitters: if return 'a' weighted 1 }"
BAD_UNI = "def one { ifé return 'a' weighted 1 }"
BAD_CMT = "def one { return 'a' weighted 1 /* }"


def snapshot(ev):
    out = []
    for uid in range(6):
        for k in (1, 2):
            try:
                out.append(repr(ev(uid=uid, k=k)))
            except Exception as exc:  # noqa: BLE001
                out.append("!" + type(exc).__name__)
    return [ev._checksum, out]


def lifecycle(history):
    log = []
    ev = None
    for step in history:
        try:
            if ev is None:
                ev = ExperimentEvaluator(step)
            else:
                ev.recompile(step)
            log.append(["ok", snapshot(ev)])
        except Exception as exc:  # noqa: BLE001
            log.append(
                [type(exc).__name__, str(exc)[:200], snapshot(ev) if ev is not None else None]
            )
    return log


OUT["lifecycle"] = [
    lifecycle(hist)
    for hist in (
        [V1, V1, V2, V1, V3],
        [V1, BAD_LEX, BAD_LEX, V1, BAD_SYN, V2, BAD_SYN, V2],
        [BAD_SYN, V1],
        [BAD_LEX],
        [V2, BAD_KW, BAD_UNI, BAD_CMT, "", V2, V3],
        [V1, V2, V1, V2, BAD_CMT, V1],
    )
]


def threaded():
    ev = ExperimentEvaluator(V1)
    results = {}
    errors = []

    def worker(n):
        local = []
        for i in range(40):
            text = (V1, V2, V3, BAD_SYN, BAD_LEX)[(i + n) % 5]
            try:
                ExperimentEvaluator(text)(uid=i, k=1)
                local.append(repr(parse_source(text).id))
                local.append(digest(lex_outcome(text)))
            except Exception as exc:  # noqa: BLE001
                local.append("!" + type(exc).__name__)
            try:
                local.append(repr(ev(uid=i, k=1)))
            except Exception as exc:  # noqa: BLE001
                errors.append(type(exc).__name__)
        results[n] = local

    threads = [threading.Thread(target=worker, args=(n,)) for n in range(8)]
    for t in threads:
        t.start()
    for t in threads:
        t.join()
    return {"results": digest(results), "errors": sorted(errors), "final": snapshot(ev)}


OUT["threaded"] = threaded()

# --------------------------------------------------------------------------
# bucketing and stats
# --------------------------------------------------------------------------
ids = [str(i) for i in range(200)] + ["", "a", "é", "世界", "x" * 1000, "salt" + "1", "None"]
OUT["proba"] = digest([deterministic_proba(i) for i in ids])
choices_out = []
for pop, weights in (
    (["a", "b"], [1, 1]),
    (["a", "b", "c"], [4, 1, 0]),
    (["a", "b", "c"], [0, 0, 1]),
    ([1, 2.5, "x", -3], [0.5, 0.25, 0.125, 0.125]),
    (["a", "b"], [1e308, 1e308]),
    (["a", "b"], [0, 0]),
    (["a", "b"], [1]),
    (["a"], None),
    (["a", "b", "c", "d", "e"], None),
):
    row = []
    for i in ids:
        try:
            row.append(repr(deterministic_choice(i, pop, weights)))
        except Exception as exc:  # noqa: BLE001
            row.append("!" + type(exc).__name__)
    choices_out.append(digest(row))
OUT["choices"] = choices_out

bucket_prog = "def b { salt: 'z' splitters: uid, region if tier in ('gold', 'silver') and not age < 18 { return 'A' weighted 3, 'B' weighted 1, 'C' weighted 0.5 } else if tier == 'bronze' { return 'D' weighted 1, 'E' weighted 2 } else { return 'F' weighted 1 } }"
bucket = []
ev = ExperimentEvaluator(bucket_prog)
for uid in range(150):
    for region in ("eu", "us"):
        for tier, age in (("gold", 30), ("silver", 10), ("bronze", 5), ("none", 50)):
            bucket.append(ev(uid=uid, region=region, tier=tier, age=age))
OUT["bucketing"] = {"digest": digest(bucket), "counts": {k: bucket.count(k) for k in sorted(set(bucket))}}

stats = []
for alpha in (0.5, 0.975, 0.025, 0.9, 0.1, 0.999, 1e-9):
    stats.append(repr(probit(alpha)))
for args in (
    {},
    {"n": 100, "p": 0.3},
    {"n": 1000, "p": 0.01, "confidence": 0.99},
    {"n": 50, "p": 0.5, "method": "wald"},
    {"n": 50, "p": 0.5, "method": "WALD"},
    {"n": 50, "p": 1.0, "method": "Agresti-Coull"},
    {"n": 50, "p": 0.5, "method": "wilson"},
    {"n": 0, "p": 0.5, "method": "wald"},
):
    try:
        stats.append(repr(confidence_interval(**args)))
    except Exception as exc:  # noqa: BLE001
        stats.append("!" + type(exc).__name__)
OUT["stats"] = stats

# public surface that must stay put
OUT["token_names"] = sorted(ExperimentLexer.tokens)
OUT["parser_tokens_same"] = ExperimentParser.tokens == ExperimentLexer.tokens

print(json.dumps(OUT, sort_keys=True, ensure_ascii=True, indent=1))

"""Differential probe: prints a deterministic JSON summary of the observable
behaviour of pyab_experiment.  Run as
    PYTHONPATH=/tmp/wt/UI/src /venv/bin/python probe.py
The output must be byte-identical with and without the patch.
"""
import hashlib
import io
import json
import contextlib
import threading

_capture = io.StringIO()
with contextlib.redirect_stderr(_capture):
    from pyab_experiment.binning.binning import deterministic_choice, deterministic_proba
    from pyab_experiment.codegen.python.python_generator import PythonCodeGen
    from pyab_experiment.experiment_evaluator import ExperimentEvaluator
    from pyab_experiment.language import grammar as grammar_mod
    from pyab_experiment.language import lexer as lexer_mod
    from pyab_experiment.language.grammar import ExperimentParser
    from pyab_experiment.language.lexer import BlockComment, ExperimentLexer
    from pyab_experiment.utils.stats import confidence_interval, probit
    from pyab_experiment.utils.wraper_functions import generate_code, parse_source

OUT = {"import_stderr": _capture.getvalue()}


def err(e):
    return {
        "class": type(e).__module__ + "." + type(e).__qualname__,
        "str": str(e),
        "args": repr(e.args),
        "text": repr(getattr(e, "text", None)),
        "error_index": repr(getattr(e, "error_index", None)),
    }


def sha(s):
    return hashlib.sha256(s.encode("utf-8", "surrogatepass")).hexdigest()[:16]


VALID = {
    "plain": "def e1{ return 'a' weighted 1, 'b' weighted 2 }",
    "salted": 'def e2{ salt: "s\'x" splitters: uid return "a" weighted 1, "b" weighted 1.5, 3 weighted 2, -4.5 weighted 0 }',
    "kwprefix": "def define{ splitters: iffy, inner, notable, ortho, android, elsewhere, saltx, returns, weighted1, defx, splittersx, else_if, in_, not_in "
    "if iffy == 1 and inner != 'x' or notable in (1, 2) { return 'k' weighted 1 } "
    "else if ortho not   in ('a', 'b') { return 'l' weighted 1 } "
    "elseif android >= 2 { return 'm' weighted 1 } "
    "else   \n if elsewhere <= -3.5 { return 'n' weighted 1 } "
    "else { return 'o' weighted 1, 'p' weighted 3 } }",
    "nested_tuple": "def nt{ splitters: a if a in ((1, 2), (3, (4, 5)), 'x', -1, 2.5, b) { return 1 weighted 1 } else { return 2 weighted 1 } }",
    "one_tuple": "def ot{ if (1) == x { return 'y' weighted 1 } else { return 'n' weighted 1 } }",
    "tuple_left": "def tl{ if (1, 2) == x or (x, y) != (1, 2) { return 'y' weighted 1 } else { return 'n' weighted 1 } }",
    "paren_pred": "def pp{ if ((a > 1)) and (not (b < 2) or not not c == 3) { return 'y' weighted 1 } return_x }".replace(
        " return_x", " else { return 'z' weighted 1 }"
    ),
    "comments": "/* head\n ** / * */ def c1 /* in */ { // line comment ' \" /* \n salt: 'a//b' /* multi\n\nline */ splitters: u // x\n return '/*' weighted 1, \"*/\" weighted 2 // end\n}// tail",
    "quotes": "def q{ salt: \"it's\" splitters: u if u == 'say \"hi\"' or u == \"back\\slash\" or u == '\\n' or u == \"a\\\" { return 'tab\there' weighted 1 } else { return '' weighted 1, \"\" weighted 1 } }",
    "nonascii": "def na{ salt: 'sél–☃' splitters: u if u == 'ünï' or u in ('日本', ' ') { return 'é' weighted 1, '☃' weighted 2 } else { return 'ß' weighted 1 } }",
    "unicode_digits": "def ud{ splitters: u return 'a' weighted ١٢, 'b' weighted ٣.٥ }",
    "unicode_ws": "def uw {　return 'a' weighted\x0c1\x1c}",
    "not_in_ws": "def niw{ if x not\t\n  in (1, 'a') { return 'a' weighted 1 } else if x not in (2, 3) { return 'b' weighted 1 } }",
    "numbers": "def nums{ if x >= 007 and y < 1.50 and z == -0 and w != -0.0 and v > 99999999999999999999 and t < 1" + "0" * 400 + ".5 { return 1 weighted 0.25, 2.5 weighted 3, -7 weighted 1 } }",
    "ws_lines": "\n\n\r\n def wl{\n\n\n  return\n 'a'\n weighted\n 1\n }\n\n",
    "deep": "def deep{ splitters: u, v if a == 1 { if b == 2 { if c == 3 { return 'abc' weighted 1 } else if c == 4 { return 'ab4' weighted 1 } } else { return 'a!b' weighted 1 } } else if a == 5 { return 'a5' weighted 1, 'a5b' weighted 1 } }",
    "prec": "def prec{ if a == 1 or b == 2 and not c == 3 or not d == 4 and e == 5 { return 'y' weighted 1 } else { return 'n' weighted 1 } }",
    "shared": "def shared{ salt: 'x' splitters: a, b if a > b and kwargs == 1 { return 'y' weighted 1, 'z' weighted 1 } else { return 'n' weighted 1 } }",
    "shared2": "def shared2{ salt: 'x' splitters: a, b if a > b and k == 1 { return 'y' weighted 1, 'z' weighted 1 } else { return 'n' weighted 1, 'm' weighted 2 } }",
    "zero": "def zero{ splitters: u return 'a' weighted 0, 'b' weighted 0 }",
    "minus_ws": "def mw{ if x == - 5 or x == -\n2.5 { return - 1 weighted 1 } else { return 0 weighted 1 } }",
    "dunder": "def __x__{ splitters: _a, _ if _a == _ { return 'a' weighted 1 } else { return 'b' weighted 1 } }",
    "dup_splitters": "def dups{ splitters: u, u, v return 'a' weighted 1, 'b' weighted 1, 'c' weighted 1 }",
    "empty_salt": "def es{ salt: '' splitters: u return 'a' weighted 1, 'b' weighted 1 }",
    "block_star": "def bs{ /***/ return /* * / */ 'a' /**/ weighted /* \n * \n */ 1 }",
}

INVALID = {
    "empty": "",
    "ws_only": "  \n ",
    "comment_only": "/* x */ // y",
    "no_body": "def x{ }",
    "missing_weight": "def x{ return 'a' }",
    "neg_weight": "def x{ return 'a' weighted -1 }",
    "bad_char": "def x{ return 'a' weighted 1 ; }",
    "bad_char2": "def x{ return 'a' weighted 1 } $\nmore",
    "unterminated_str": "def x{ return 'abc weighted 1 }",
    "unterminated_str2": "def x{ salt: \"abc\n\" return 'a' weighted 1 }",
    "mixed_quote": "def x{ return 'a\" weighted 1 }",
    "unterminated_block": "def x{ /* never closed \n return 'a' weighted 1 }",
    "stray_close": "def x{ return 'a' weighted 1 } */",
    "salt_after": "def x{ splitters: u salt: 'a' return 'a' weighted 1 }",
    "kw_as_id": "def if{ return 'a' weighted 1 }",
    "kw_as_field": "def x{ splitters: in return 'a' weighted 1 }",
    "trailing_comma": "def x{ return 'a' weighted 1, }",
    "empty_tuple": "def x{ if a in () { return 'a' weighted 1 } }",
    "trailing_tuple_comma": "def x{ if a in (1,) { return 'a' weighted 1 } }",
    "double_else": "def x{ if a == 1 { return 'a' weighted 1 } else { return 'b' weighted 1 } else { return 'c' weighted 1 } }",
    "else_first": "def x{ else { return 'a' weighted 1 } }",
    "two_defs": "def x{ return 'a' weighted 1 } def y{ return 'a' weighted 1 }",
    "eof_mid": "def x{ if a ==",
    "eof_mid2": "def x{ return 'a' weighted",
    "not_alone": "def x{ if not { return 'a' weighted 1 } }",
    "chain_cmp": "def x{ if a < b < c { return 'a' weighted 1 } }",
    "id_weight": "def x{ return 'a' weighted w }",
    "id_group": "def x{ return a weighted 1 }",
    "float_dot": "def x{ return 'a' weighted 1. }",
    "float_lead": "def x{ return 'a' weighted .5 }",
    "exp_float": "def x{ return 'a' weighted 1e5 }",
    "uppercase_kw": "DEF x{ return 'a' weighted 1 }",
    "digit_id": "def 1x{ return 'a' weighted 1 }",
    "nonascii_id": "def expé{ return 'a' weighted 1 }",
    "huge_int": "def x{ return 'a' weighted " + "9" * 5000 + " }",
    "lone_minus": "def x{ if a == - { return 'a' weighted 1 } }",
    "double_minus": "def x{ if a == --1 { return 'a' weighted 1 } }",
    "notin_joined": "def x{ if a notin (1,2) { return 'a' weighted 1 } }",
    "paren_term": "def x{ if (a) { return 'a' weighted 1 } }",
    "nul": "def x{ return 'a' weighted 1 }\x00",
    "line3": "def x{\n\n  return 'a' weighted 1\n  return 'b' weighted 1 }",
    "salt_id": "def x{ salt: abc return 'a' weighted 1 }",
    "salt_num": "def x{ salt: 12 return 'a' weighted 1 }",
    "splitters_str": "def x{ splitters: 'a' return 'a' weighted 1 }",
    "block_in_string_open": "def x{ return '/* weighted 1 }",
}


def lex_dump(text):
    lexer = ExperimentLexer()
    toks = []
    try:
        for t in lexer.tokenize(text):
            toks.append([t.type, repr(t.value), t.lineno, t.index, t.end])
        status = "ok"
    except Exception as e:  # noqa: BLE001
        status = err(e)
    return {
        "tokens": toks,
        "status": status,
        "final": [type(lexer).__name__, getattr(lexer, "index", None), getattr(lexer, "lineno", None)],
    }


KW_SETS = [
    {},
    {"u": "7", "uid": "u1", "a": 1, "b": 2, "c": 3, "x": 1, "y": 2},
    {"u": "ünï", "uid": 42, "a": 5, "b": 0, "c": 4, "x": (1, 2), "y": 1.5, "kwargs": 1, "k": 1},
    {"iffy": 1, "inner": "y", "notable": 3, "ortho": "c", "android": 2, "elsewhere": -4,
     "saltx": 0, "returns": 0, "weighted1": 0, "defx": 0, "splittersx": 0, "else_if": 0, "in_": 0, "not_in": 0},
    {"iffy": 0, "inner": "x", "notable": 3, "ortho": "a", "android": 1, "elsewhere": 0,
     "saltx": 0, "returns": 0, "weighted1": 0, "defx": 0, "splittersx": 0, "else_if": 0, "in_": 0, "not_in": 0},
    {"u": 'say "hi"', "a": (1, 2), "_a": 1, "_": 1, "v": "q", "z": 0, "w": 1, "t": 0, "d": 4, "e": 5},
    {"u": " ", "a": 2.5, "b": 2, "c": 3, "x": -5, "y": 1, "z": 0, "w": 0.0, "v": 10**30, "t": 0, "extra": "ignored"},
]


def run_code(code, name):
    ns = {}
    results = []
    try:
        exec(compile(code, "<probe>", "exec"), ns)
    except Exception as e:  # noqa: BLE001
        return {"exec": err(e)}
    fn = ns[name]
    for kw in KW_SETS:
        for rep in range(2):
            try:
                results.append(repr(fn(**kw)))
            except Exception as e:  # noqa: BLE001
                results.append(type(e).__name__ + ":" + str(e)[:80])
            if any(k in kw for k in ("u", "uid", "a", "_a")) is False:
                break
    return results


def unrandom(results, text):
    """runs without a splitter are random: keep only those of keyed programs"""
    return results if "splitters" in text else [r if ":" in r and r[0].isupper() else "<random>" for r in results]


programs = {}
for key, text in {**VALID, **INVALID}.items():
    entry = {"lex": lex_dump(text)}
    try:
        ast = parse_source(text)
        entry["ast"] = repr(ast)
        entry["ast_dict"] = repr(ast.dict()) if ast is not None else None
    except Exception as e:  # noqa: BLE001
        entry["ast"] = err(e)
        ast = None
    if ast is not None:
        for expose in (True, False):
            tag = f"expose={expose}"
            try:
                raw = PythonCodeGen(ast, expose_experiment_variant_function=expose).generate()
                entry[tag + ":raw"] = raw if len(raw) < 3000 else sha(raw)
                entry[tag + ":raw_run"] = unrandom(run_code(raw, ast.id), text)
            except Exception as e:  # noqa: BLE001
                entry[tag + ":raw"] = err(e)
            try:
                pretty = generate_code(text, expose)
                entry[tag + ":black"] = sha(pretty)
                entry[tag + ":black_run"] = unrandom(run_code(pretty, ast.id), text)
            except Exception as e:  # noqa: BLE001
                entry[tag + ":black"] = err(e)
    else:
        for expose in (True, False):
            try:
                generate_code(text, expose)
                entry[f"gen{expose}"] = "ok"
            except Exception as e:  # noqa: BLE001
                entry[f"gen{expose}"] = err(e)
    programs[key] = entry
OUT["programs"] = programs

# ---- test program files shipped with the repo are covered by pytest; here
# ---- evaluator lifecycle
life = []


def step(label, fn):
    try:
        life.append([label, repr(fn())])
    except Exception as e:  # noqa: BLE001
        life.append([label, err(e)])


ev_holder = {}
step("ctor_invalid", lambda: ExperimentEvaluator(INVALID["bad_char"]))
step("ctor_none", lambda: ExperimentEvaluator(INVALID["empty"]))
step("ctor_eof", lambda: ExperimentEvaluator(INVALID["eof_mid"]))
step("ctor", lambda: ev_holder.setdefault("ev", ExperimentEvaluator(VALID["salted"])) and "ok")
ev = ev_holder["ev"]
step("call1", lambda: [ev(uid=i) for i in range(40)])
step("checksum1", lambda: ev._checksum)
step("recompile_same", lambda: ev.recompile(VALID["salted"]))
step("fn_identity", lambda: ev.run_experiment.__name__)
for bad in ("bad_char", "unterminated_block", "eof_mid", "empty", "neg_weight", "huge_int", "kw_as_id"):
    step("recompile_" + bad, lambda bad=bad: ev.recompile(INVALID[bad]))
    step("recompile_again_" + bad, lambda bad=bad: ev.recompile(INVALID[bad]))
    step("call_after_" + bad, lambda: [ev(uid=i) for i in range(10)])
    step("checksum_after_" + bad, lambda: ev._checksum)
step("recompile_valid2", lambda: ev.recompile(VALID["deep"]))
step("call2", lambda: [ev(u=i, v="x", a=1, b=2, c=3 + (i % 2)) for i in range(12)])
step("call2_missing", lambda: ev(u=1))
step("call2_unroutable", lambda: ev(u=1, v=2, a=9, b=1, c=1))
step("recompile_back", lambda: ev.recompile(VALID["salted"]))
step("call3", lambda: [ev(uid=i) for i in range(40)])
step("recompile_nonascii", lambda: ev.recompile(VALID["nonascii"]))
step("call4", lambda: [ev(u=s) for s in ("ünï", "日本", " ", "x", 1, None)])
step("checksum4", lambda: ev._checksum)
step("class_run", lambda: ExperimentEvaluator.run_experiment(ev))
step("attrs", lambda: sorted(vars(ev)))
OUT["lifecycle"] = life

# ---- threads: many threads call and recompile the same text concurrently
ev2 = ExperimentEvaluator(VALID["shared2"])
thread_out = {}


def worker(n):
    res = []
    for i in range(50):
        if i % 10 == 0:
            try:
                ev2.recompile(VALID["shared2"] if n % 2 else INVALID["bad_char"])
            except Exception as e:  # noqa: BLE001
                res.append(type(e).__name__)
        res.append(ev2(a=i, b=n, k=i % 2))
    thread_out[n] = res


threads = [threading.Thread(target=worker, args=(n,)) for n in range(8)]
[t.start() for t in threads]
[t.join() for t in threads]
OUT["threads"] = {str(k): thread_out[k] for k in sorted(thread_out)}

# independent lexers / parsers in threads
par = {}


def parse_worker(n):
    acc = []
    for key in sorted(VALID):
        try:
            acc.append(sha(repr(parse_source(VALID[key]))))
        except Exception as e:  # noqa: BLE001
            acc.append(type(e).__name__ + ":" + str(e))
    par[n] = acc


threads = [threading.Thread(target=parse_worker, args=(n,)) for n in range(6)]
[t.start() for t in threads]
[t.join() for t in threads]
OUT["parallel_parse_same"] = len({tuple(v) for v in par.values()}) == 1
OUT["parallel_parse"] = par[0]

# ---- bucketing
buck = []
for salt in ("", "s", "sél–☃", "0"):
    for weights in (None, [1, 1], [1, 2, 3], [0.5, 0, 0.5], [0, 0, 1], [1e-9, 1], [3, 2.5, 1, 1]):
        pop = list("abcd")[: len(weights)] if weights else list("abcde")
        row = []
        for i in range(60):
            row.append(deterministic_choice(f"{salt}{i}", pop, weights))
        buck.append([salt, repr(weights), "".join(row)])
for bad in (([0, 0], "ab"), ([1], "ab"), ([float("inf"), 1], "ab"), ([-1, 0.5], "ab")):
    try:
        buck.append(repr(deterministic_choice("k", list(bad[1]), bad[0])))
    except Exception as e:  # noqa: BLE001
        buck.append(err(e))
buck.append([repr(deterministic_proba(s)) for s in ("", "a", "ünï", "0" * 100)])
buck.append(repr(deterministic_choice("k", ["a", "b"], cum_weights=[1, 3])))
OUT["bucketing"] = buck

# ---- stats
stats = []
for a in (0.5, 0.975, 0.025, 0.9, 0.001):
    stats.append(repr(probit(a)))
for n, p, c, m in ((10, 0.5, 0.95, "agresti-coull"), (1000, 0.3, 0.99, "Wald"), (50, 0.0, 0.9, "wald"),
                   (7, 1.0, 0.5, "AGRESTI-COULL"), (10, 0.5, 0.95, "wilson")):
    try:
        stats.append(repr(confidence_interval(n, p, c, m)))
    except Exception as e:  # noqa: BLE001
        stats.append(err(e))
for bad in (0, 1, 1.5):
    try:
        stats.append(repr(probit(bad)))
    except Exception as e:  # noqa: BLE001
        stats.append(err(e))
OUT["stats"] = stats


# ---- module surface and grammar / lexer shape (order-insensitive)
def star(mod):
    names = getattr(mod, "__all__", None)
    if names is None:
        names = [n for n in vars(mod) if not n.startswith("_")]
    return sorted(names)


OUT["surface"] = {
    "lexer_star": star(lexer_mod),
    "grammar_star": star(grammar_mod),
    "lexer_tokens": sorted(map(str, ExperimentLexer.tokens)),
    "block_tokens": sorted(map(str, BlockComment.tokens)),
    "parser_tokens": sorted(map(str, ExperimentParser.tokens)),
    "token_types": sorted({type(t).__mro__[-2].__name__ for t in ExperimentLexer.tokens}),
    "lexer_rules": [name for name, _ in ExperimentLexer._rules],
    "block_rules": [name for name, _ in BlockComment._rules],
    "lexer_funcs": sorted(ExperimentLexer._token_funcs),
    "lexer_ignored": sorted(ExperimentLexer._ignored_tokens),
    "precedence": repr(ExperimentParser.precedence),
    "productions": sorted(str(p) for p in ExperimentParser._grammar.Productions),
    "start": ExperimentParser._grammar.Start,
    "sr_conflicts": len(ExperimentParser._lrtable.sr_conflicts),
    "rr_conflicts": len(ExperimentParser._lrtable.rr_conflicts),
    "n_states": len(ExperimentParser._lrtable.lr_action),
    "parser_public": sorted(n for n in vars(ExperimentParser) if not n.startswith("_")),
    "lexer_public": sorted(n for n in vars(ExperimentLexer) if not n.startswith("_")),
    "error_direct": [],
}


class _FakeTok:
    def __init__(self, **kw):
        self.__dict__.update(kw)


class _FalsyTok(_FakeTok):
    def __bool__(self):
        return False


for tok in (None, _FakeTok(type="ID", lineno=7), _FakeTok(type="KW_IF"), _FakeTok(type="X", lineno=None),
            _FakeTok(lineno=3), _FalsyTok(type="ID", lineno=2), 0, "", "tok", _FakeTok(type=("a", 1), lineno=[1]),
            _FakeTok(type=None, lineno="7")):
    try:
        ExperimentParser().error(tok)
        OUT["surface"]["error_direct"].append("returned")
    except Exception as e:  # noqa: BLE001
        OUT["surface"]["error_direct"].append(err(e))

# exact LR tables and production numbering (this refactoring keeps them bit for bit)
_lr = ExperimentParser._lrtable
OUT["lr_tables"] = {
    "productions_in_order": [str(p) for p in ExperimentParser._grammar.Productions],
    "action": {str(s): sorted(row.items()) for s, row in _lr.lr_action.items()},
    "goto": {str(s): sorted(row.items()) for s, row in _lr.lr_goto.items()},
    "defaulted": sorted(_lr.defaulted_states.items()),
    "prec": [repr(p.prec) for p in ExperimentParser._grammar.Productions],
}
# exact regexes of both lexer states (this refactoring keeps them character for character)
OUT["regexes"] = {
    "main_master": ExperimentLexer._master_re.pattern,
    "main_flags": ExperimentLexer._master_re.flags,
    "block_master": BlockComment._master_re.pattern,
    "main_rules": [[n, v if isinstance(v, str) else getattr(v, "pattern", None)] for n, v in ExperimentLexer._rules],
    "block_rules": [[n, v if isinstance(v, str) else getattr(v, "pattern", None)] for n, v in BlockComment._rules],
    "class_attr_types": sorted({type(v).__name__ for k, v in vars(ExperimentLexer).items() if k.startswith("KW_")}),
    "class_attrs": {k: v for k, v in vars(ExperimentLexer).items() if k.isupper() and isinstance(v, str)},
}
print(json.dumps(OUT, indent=1, sort_keys=True, ensure_ascii=True))

"""Differential probe: prints a deterministic JSON summary of the library's
observable behaviour.  Output must be byte-identical with and without a patch.

Run: PYTHONPATH=/tmp/wt/UJ/src /venv/bin/python probe.py
"""

import hashlib
import inspect
import json
import random
import sys
import threading
from decimal import Decimal
from fractions import Fraction
from pathlib import Path

from pyab_experiment.binning import binning
from pyab_experiment.binning.binning import deterministic_choice, deterministic_proba
from pyab_experiment.experiment_evaluator import ExperimentEvaluator, ParseError
from pyab_experiment.utils import stats
from pyab_experiment.utils.stats import confidence_interval, probit
from pyab_experiment.utils.wraper_functions import generate_code, parse_source

OUT = {}


def fx(v):
    """exact, type-revealing rendering"""
    if isinstance(v, bool):
        return f"bool:{v}"
    if isinstance(v, float):
        return f"float:{v.hex()}"
    if isinstance(v, int):
        return f"int:{v}"
    if isinstance(v, (tuple, list)):
        return f"{type(v).__name__}:[{','.join(fx(x) for x in v)}]"
    return f"{type(v).__name__}:{v!r}"


def attempt(fn, *a, **k):
    try:
        return "ok " + fx(fn(*a, **k))
    except BaseException as e:  # noqa
        ctx = type(e.__context__).__name__ if e.__context__ is not None else "-"
        cause = type(e.__cause__).__name__ if e.__cause__ is not None else "-"
        return (
            f"ERR {type(e).__module__}.{type(e).__name__}: {e!s} "
            f"[ctx={ctx} cause={cause} supp={e.__suppress_context__}]"
        )


def digest(obj):
    return hashlib.sha256(json.dumps(obj, sort_keys=True).encode()).hexdigest()


# --------------------------------------------------------------- programs
PROG_DIR = Path("/tmp/wt/UJ/tests/unit/test_programs")
PROGRAMS = {p.name: p.read_text() for p in sorted(PROG_DIR.glob("*.pyab"))}
PROGRAMS.update(
    {
        "kwprefix": """def define_x{ salt: "s\\\\a'lt" splitters: iffy, elsewhere, notable
            if inner == 'in' and orbit != "or" or android in (1, 2.5, 'x', (3, (4)))
            { return "a b" weighted 1, 'q"q' weighted 2.5, 7 weighted 0 }
            else if returned not   in ('a') { return 1.25 weighted 3 }
            else { return "z" weighted 1 } }""",
        "unicode": "def e1{ salt: 'sél-日本' splitters: uid\n"
        " if name == 'žluťoučký' { return 'α' weighted 1, 'β' weighted 1 }\n"
        " else { return 'γ' weighted 2, 'δ' weighted 3, 'ε' weighted 5 } }",
        "comments": "/* c1 \n * x */ def e2 { // trailing\n splitters: a /* mid */ , b\n"
        " return 'x' weighted 1, /* in */ 'y' weighted 1 // end\n }",
        "neg": "def e3{ splitters: k if v > -3 and v <= - 1.5 or not w == (-1, -2.0)"
        " { return -1 weighted 1, 2 weighted 1 } else { return 'o' weighted 1} }",
        "nosplit": "def e4{ if a >= 1 { return 'p' weighted 1 } }",
        "saltonly": "def e5{ salt: 'zz' return 'only' weighted 1, 'two' weighted 9 }",
        "bigfloat": "def e6{ splitters: u if x < 1" + "0" * 400 + ".0"
        " { return 'big' weighted 0.1, 'r' weighted 0.2, 's' weighted 0.7 }"
        " else {return 't' weighted 1} }",
        "splitcond": "def e7{ splitters: u, v if u == 1 { return 'a' weighted 1,"
        " 'b' weighted 1, 'c' weighted 1 } else if v in u { return 'd' weighted 1 }"
        " else { return 'e' weighted 1, 'f' weighted 3 } }",
        "zeroweights": "def e8{ splitters: u return 'a' weighted 0, 'b' weighted 0 }",
        "crlf": "def e9{\r\n splitters: u\r\n return 'a' weighted 1, 'b' weighted 1\r\n}",
        # invalid
        "bad_char": "def e{ return 'a' weighted 1 ; }",
        "bad_eof": "def e{ return 'a' weighted 1",
        "bad_kw": "def if{ return 'a' weighted 1 }",
        "bad_neg_weight": "def e{ return 'a' weighted -1 }",
        "bad_empty": "",
        "bad_ws": "  \n\t ",
        "bad_str": "def e{ return 'a weighted 1 }",
        "bad_comment": "def e{ /* never closed return 'a' weighted 1 }",
        "bad_order": "def e{ splitters: a salt: 'x' return 'a' weighted 1 }",
        "bad_tuple": "def e{ if a in () { return 'a' weighted 1 } }",
        "bad_two": "def e{ return 'a' weighted 1 } def f{ return 'a' weighted 1 }",
        "bad_nl_str": "def e{ return 'a\nb' weighted 1 }",
    }
)

CALLS = []
for i in range(40):
    CALLS.append(
        dict(
            my_id=i, my_fld=f"m{i}", my_fld_1=i * 7, field_1="ab"[i % 2],
            field1="abc"[i % 3], field2=i % 7, field3=i % 13, field4=("xyz", "a")[i % 2],
            field5="xy"[i % 2], field6=i % 5, field7=i % 11,
            groupping_id=f"id_{i}", groupping_id_1=f"s{i}", routing_field=i % 10,
            numeric_field=i, iffy=i, elsewhere="é", notable=None, inner=("in", "out")[i % 2],
            orbit=("or", "x")[i % 3 == 0], android=(1, 2.5, "x", (3, (4,)), 9)[i % 5],
            returned="ab"[i % 2], uid=f"ü{i}", name=("žluťoučký", "n")[i % 2],
            a=i % 3, b=i, k=i, v=(-2, -1.5, 0, -3)[i % 4], w=((-1, -2.0), 1)[i % 2],
            u=(1, "uv", (i,), i)[i % 4], x=float(i) * 1e300,
        )
    )


def run_generated(code, name):
    random.seed(1234)
    ns = {}
    exec(compile(code, "<gen>", "exec"), ns)
    res = []
    for kw in CALLS:
        res.append(attempt(ns[name], **kw))
    res.append(attempt(ns[name]))
    extra = sorted(k for k in ns if not k.startswith("__"))
    return {"names": extra, "results": digest(res), "sample": res[:3] + res[-1:]}


progs = {}
for name, text in PROGRAMS.items():
    entry = {}
    try:
        ast = parse_source(text)
        entry["ast"] = repr(ast)
    except BaseException as e:  # noqa
        entry["parse_err"] = f"{type(e).__module__}.{type(e).__name__}: {e}"
        ast = None
    for layout in (False, True):
        try:
            code = generate_code(text, expose_internal_fn=layout)
            entry[f"code{layout}"] = hashlib.sha256(code.encode()).hexdigest()
            entry[f"run{layout}"] = run_generated(code, ast.id)
        except BaseException as e:  # noqa
            entry[f"gen_err{layout}"] = f"{type(e).__module__}.{type(e).__name__}: {e}"
    progs[name] = entry
OUT["programs"] = progs

# --------------------------------------------------------------- hashing
STRINGS = (
    [f"{i}" for i in range(300)]
    + [f"id_{i}_salt" for i in range(300)]
    + ["", " ", "\n", "\x00", "é", "日本語", "🙂" * 5, "a" * 10000, "\udcff"]
)
OUT["proba"] = {
    "digest": digest([attempt(deterministic_proba, s) for s in STRINGS]),
    "sample": [attempt(deterministic_proba, s) for s in STRINGS[-9:]],
    "nonstr": [attempt(deterministic_proba, v) for v in (None, 1, b"x", 1.5, ["a"])],
}


# --------------------------------------------------------------- bucketing
class NoLen:
    def __getitem__(self, i):
        return i


POPS = [
    ["a", "b", "c"],
    ("t1", "t2"),
    [0, 1.5, "x", None, (1, 2)],
    list(range(1000)),
    ["solo"],
    [],
    "string",
    range(7),
]
WEIGHTS = [
    None, [1, 2, 3], [1.0, 2.5], [0.1] * 5, [0, 0, 1], [0, 0, 0], [1, 1], [3],
    [], [-1, 2, 3], [1, -5, 1], [float("inf"), 1, 1], [float("nan"), 1, 1],
    [1e308, 1e308, 1], [True, False, True], [Fraction(1, 3), Fraction(2, 3), 1],
    [Decimal("1"), Decimal("2"), Decimal("3")], (1, 2, 3), ["a", "b", "c"],
    [1e-320, 1e-320, 1e-320], [0.1, 0.2, 0.3, 0.4, 0.5], list(range(1, 1001)),
    [5e-324] * 7, [2**70, 2**70], 7, (lambda: iter([1, 2, 3])), [None, 1, 2], [10**400, 1, 1],
]
IDS = [f"{s}{i}" for s in ("", "salt", "é日") for i in range(60)] + ["", "x" * 999]
bucket = {}
for pi, pop in enumerate(POPS):
    for wi, w in enumerate(WEIGHTS):
        for mode in ("w", "cw"):
            if w is None and mode == "cw":
                continue
            res = []
            for id_ in IDS:
                arg = w() if callable(w) else w
                if mode == "w":
                    res.append(attempt(deterministic_choice, id_, pop, arg))
                else:
                    res.append(attempt(deterministic_choice, id_, pop, cum_weights=arg))
            bucket[f"p{pi}-w{wi}-{mode}"] = digest(res) + " " + res[0][:90]
OUT["bucket"] = bucket

misc = []
misc.append(attempt(deterministic_choice, "a", ["x", "y"], [1, 2], cum_weights=[1, 3]))
misc.append(attempt(deterministic_choice, "a", [], [1, 2], cum_weights=[1, 3]))
misc.append(attempt(deterministic_choice, None, ["x", "y"], [1, 2], cum_weights=[1, 3]))
misc.append(attempt(deterministic_choice, 5, ["x", "y"]))
misc.append(attempt(deterministic_choice, 5, ["x", "y"], [1, 2]))
misc.append(attempt(deterministic_choice, 5, ["x", "y"], [1]))
misc.append(attempt(deterministic_choice, 5, ["x", "y"], [0, 0]))
misc.append(attempt(deterministic_choice, 5, ["x", "y"], [1], cum_weights=[1]))
misc.append(attempt(deterministic_choice, b"x", ["x", "y"], cum_weights=[1, 2]))
misc.append(attempt(deterministic_choice, "a", NoLen()))
misc.append(attempt(deterministic_choice, None, NoLen()))
misc.append(attempt(deterministic_choice, "a", 5))
misc.append(attempt(deterministic_choice, "a", {0: "p", 1: "q"}))
misc.append(attempt(deterministic_choice, "a", {0: "p", 1: "q"}, [1, 5]))
misc.append(attempt(deterministic_choice, "a", {"k": 1}, [1]))
misc.append(attempt(deterministic_choice, "a", ["x", "y"], {1: 0, 2: 0}))
misc.append(attempt(deterministic_choice, "a", ["x", "y"], cum_weights={0: 1, -1: 3}))
misc.append(attempt(deterministic_choice, input_id="a", population=["x", "y", "z"]))
misc.append(attempt(deterministic_choice, "a", population=["x", "y"], weights=[1, 1]))
misc.append(attempt(deterministic_choice, "a", ["x", "y"], None, cum_weights=None))
misc.append(attempt(deterministic_choice, "a", ["x", "y"], [1, 1], [1, 2]))
misc.append(attempt(deterministic_choice))
misc.append(attempt(deterministic_choice, "a"))
misc.append(attempt(deterministic_choice, "a", ["x"], bogus=1))
for seed in range(5):
    random.seed(seed)
    misc.append(attempt(deterministic_choice, None, ["x", "y", "z"]))
    misc.append(attempt(deterministic_choice, None, ["x", "y", "z"], [1, 2, 3]))
    misc.append(attempt(deterministic_choice, None, ["x", "y", "z"], cum_weights=[1, 2, 3]))
    misc.append(attempt(deterministic_choice, None, [], [1]))
    misc.append(attempt(deterministic_choice, None, ["x"], [0]))
    misc.append(fx(random.random()))
OUT["bucket_misc"] = misc

# the weight list handed in must not be mutated; cum_weights used as given
w_in = [1, 2, 3]
cw_in = [1, 3, 6]
deterministic_choice("q", ["a", "b", "c"], w_in)
deterministic_choice("q", ["a", "b", "c"], cum_weights=cw_in)
OUT["no_mutation"] = [w_in, cw_in]


def sig(fn):
    return [
        (p.name, str(p.kind), "<empty>" if p.default is p.empty else repr(p.default))
        for p in inspect.signature(fn).parameters.values()
    ]


OUT["signatures"] = {
    f.__name__: sig(f)
    for f in (deterministic_choice, deterministic_proba, probit, confidence_interval)
}
OUT["public_names"] = {
    "binning": [n for n in ("deterministic_choice", "deterministic_proba", "T")
                if hasattr(binning, n)],
    "stats": [n for n in ("probit", "confidence_interval") if hasattr(stats, n)],
}

# --------------------------------------------------------------- stats
ALPHAS = [
    0.5, 0.975, 0.025, 0.0005, 0.9995, 1e-300, 5e-324, 1 - 2**-53, 0.1, 0.3, 1 / 3,
    0, 1, -0.5, 1.5, 2, float("inf"), float("nan"), -float("inf"), 1e308, True, False,
    Fraction(1, 4), Decimal("0.25"), "0.5", None, 1 + 1e-16, 0.999999999999, 2**-1074,
]
ALPHAS += [i / 997 for i in range(1, 997, 13)]
OUT["probit"] = [attempt(probit, a) for a in ALPHAS] + [attempt(probit)]

ci = []
for n in (10, 1, 0, 7, 100000, 10**9, 2.5, -4, True, Fraction(7, 2), 10**400, float("inf")):
    for p in (0.5, 0, 1, 1 / 3, 0.999, 1.5, -0.1, Fraction(1, 3), 1e-300):
        for conf in (0.95, 0.999, 0.5, 0, 1, 0.9999999999, -1, 2):
            for method in ("agresti-coull", "wald", "WALD", "Agresti-Coull"):
                ci.append(attempt(confidence_interval, n, p, conf, method))
OUT["ci_grid"] = {"digest": digest(ci), "n": len(ci), "sample": ci[:8] + ci[-4:]}


class LowerStr(str):
    pass


ci2 = [
    attempt(confidence_interval),
    attempt(confidence_interval, 100),
    attempt(confidence_interval, n=50, p=0.2, confidence=0.9, method="wald"),
    attempt(confidence_interval, 50, 0.2, 0.9, "wilson"),
    attempt(confidence_interval, 50, 0.2, 0.9, ""),
    attempt(confidence_interval, 50, 0.2, 0.9, "Wald "),
    attempt(confidence_interval, 50, 0.2, 0.9, "WİLSON"),
    attempt(confidence_interval, 50, 0.2, 0.9, "it's"),
    attempt(confidence_interval, 50, 0.2, 0.9, LowerStr("WALD")),
    attempt(confidence_interval, 50, 0.2, 0.9, None),
    attempt(confidence_interval, 50, 0.2, 0.9, 5),
    attempt(confidence_interval, 50, 0.2, 0.9, b"wald"),
    attempt(confidence_interval, 50, 0.2, 1, "nope"),
    attempt(confidence_interval, 0, 0.2, 0.9, "nope"),
    attempt(confidence_interval, 0, 0.2, 0.9, "wald"),
    attempt(confidence_interval, 0, 0.2, 0.5, "agresti-coull"),
    attempt(confidence_interval, "x", 0.2, 0.9, "wald"),
    attempt(confidence_interval, 10, "x", 0.9, "wald"),
    attempt(confidence_interval, 10, 0.2, "x", "wald"),
    attempt(confidence_interval, 10, Decimal("0.2"), 0.9, "wald"),
    attempt(confidence_interval, Decimal(10), 0.2, 0.9, "agresti-coull"),
    attempt(confidence_interval, 10, 0.2, 0.9, "wald", 1),
    attempt(confidence_interval, 10, 0.2, 0.9, bogus=1),
]
OUT["ci_misc"] = ci2
r = confidence_interval(100, 0.3)
OUT["ci_type"] = [type(r).__name__, len(r)]

# --------------------------------------------------------------- evaluator
VALID_A = PROGRAMS["splitter_test.pyab"]
VALID_B = PROGRAMS["kwprefix"]
hist = []
random.seed(99)
ev = ExperimentEvaluator(VALID_A)
f0 = ev.run_experiment
hist.append(ev._checksum)
hist.append(attempt(ev, my_id=1, field_1="a"))
ev.recompile(VALID_A)
hist.append(["same fn after same text", ev.run_experiment is f0])
for bad in ("bad_char", "bad_eof", "bad_empty", "bad_neg_weight", "bad_kw"):
    hist.append(attempt(ev.recompile, PROGRAMS[bad]))
    hist.append(attempt(ev.recompile, PROGRAMS[bad]))
    hist.append([ev._checksum, ev.run_experiment is f0])
    hist.append(attempt(ev, my_id=1, field_1="a"))
ev.recompile(VALID_B)
hist.append([ev._checksum, ev.run_experiment is f0, "run_experiment" in vars(ev)])
hist.append(attempt(ev, **CALLS[3]))
hist.append(attempt(ev))
ev.recompile(VALID_A)
hist.append([ev._checksum, ev.run_experiment is f0, ev.run_experiment.__name__])
hist.append(attempt(ev, my_id=1, field_1="a"))
hist.append(attempt(ev, 1))
hist.append(attempt(ExperimentEvaluator, PROGRAMS["bad_eof"]))
hist.append(attempt(ExperimentEvaluator, ""))
hist.append(attempt(ExperimentEvaluator, None))
hist.append(attempt(ExperimentEvaluator))
hist.append(ExperimentEvaluator._checksum)
raw = ExperimentEvaluator.__new__(ExperimentEvaluator)
hist.append(attempt(raw, x=1))
hist.append(str(ParseError()))
hist.append(sorted(vars(ev)))
for name, text in PROGRAMS.items():
    random.seed(4321)
    try:
        e2 = ExperimentEvaluator(text)
        hist.append([name, digest([attempt(e2, **kw) for kw in CALLS])])
    except BaseException as e:  # noqa
        hist.append([name, f"{type(e).__module__}.{type(e).__name__}: {e}"])
OUT["evaluator"] = hist

# threads: concurrent calls and recompiles give consistent answers
ev = ExperimentEvaluator(VALID_A)
expected = {
    VALID_A: [ExperimentEvaluator(VALID_A)(my_id=i, field_1="a") for i in range(50)],
}
errors = []
results = [None] * 8


def worker(k):
    try:
        acc = []
        for rnd in range(20):
            if k % 2:
                ev.recompile(VALID_A)
                try:
                    ev.recompile(PROGRAMS["bad_eof"])
                except Exception as e:  # noqa
                    acc.append(type(e).__name__)
            acc.append([ev(my_id=i, field_1="a") for i in range(50)] == expected[VALID_A])
        results[k] = acc
    except BaseException as e:  # noqa
        errors.append(repr(e))


ts = [threading.Thread(target=worker, args=(k,)) for k in range(8)]
[t.start() for t in ts]
[t.join() for t in ts]
OUT["threads"] = {"errors": errors, "results": digest(results), "r0": results[1][:4]}

json.dump(OUT, sys.stdout, indent=1, sort_keys=True, ensure_ascii=True)
print()

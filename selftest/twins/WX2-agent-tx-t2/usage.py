"""Exercises LocatedLexError / scan (needs the patch)."""
from pyab_experiment.language.lexer import ExperimentLexer, scan
from pyab_experiment.sly.lex import LexError, LocatedLexError

GOOD = 'def e { /* c\n */ return "a" weighted 1 }'
toks = scan(GOOD)
assert [(t.type, t.value, t.index) for t in toks] == [
    (t.type, t.value, t.index) for t in ExperimentLexer().tokenize(GOOD)
]

# the blank before the line feed is swallowed by the white space rule, so the lexer's own
# line counter stays at 1; the located error counts the real lines of the text
BAD = 'def e { \n  salt: "s"\r\n  splitters: naïve\n  return "a" weighted 1 }'
try:
    scan(BAD, "demo.pyab")
except LocatedLexError as err:
    assert isinstance(err, LexError)
    assert (err.lineno, err.column) == (3, 16), (err.lineno, err.column)
    assert err.line_text == "  splitters: naïve"
    assert err.source_name == "demo.pyab"
    assert err.error_index == BAD.index("ï") and err.text == BAD[err.error_index :]
    assert err.pointer().splitlines()[1] == " " * 15 + "^"
    assert str(err) == f"Illegal character 'ï' at index {err.error_index} (demo.pyab: line 3, column 16)"
    # chained to the plain error the lexer raised
    assert type(err.__cause__) is LexError and err.__cause__.error_index == err.error_index
    print(err)
    print(err.pointer())
else:
    raise AssertionError("expected LocatedLexError")

# old style handlers keep working on the new path
try:
    scan("@")
except LexError as err:
    assert (err.lineno, err.column, err.line_text, err.source_name) == (1, 1, "@", None)

# last line without line feed, error at the very end
try:
    scan('def e {\n"open')
except LocatedLexError as err:
    assert (err.lineno, err.column, err.line_text) == (2, 1, '"open')

# \x0b, \x0c, \x1c and friends are not line separators for the lexer: neither here
try:
    scan("def\x0b\x0c\x1c\x85e $")
except LocatedLexError as err:
    assert err.lineno == 1 and err.column == 10

# the plain lexer still raises the plain class
try:
    list(ExperimentLexer().tokenize("@"))
except LexError as err:
    assert type(err) is LexError and not hasattr(err, "column")
print("usage ok")

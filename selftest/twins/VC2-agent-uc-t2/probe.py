"""Differential probe: prints a deterministic JSON summary of the observable
behaviour of pyab_experiment (lexer, parser, code generator, evaluator,
bucketing, stats).  Run with

    PYTHONPATH=/tmp/wt/UC/src /venv/bin/python probe.py

The output has to be byte-identical with and without the patch.
"""

import hashlib
import itertools
import json
import random
import threading
import warnings

warnings.simplefilter("ignore")

from pyab_experiment.binning.binning import (  # noqa: E402
    deterministic_choice,
    deterministic_proba,
)
from pyab_experiment.experiment_evaluator import ExperimentEvaluator  # noqa: E402
from pyab_experiment.language.grammar import ExperimentParser  # noqa: E402
from pyab_experiment.language.lexer import ExperimentLexer  # noqa: E402
from pyab_experiment.utils.stats import confidence_interval, probit  # noqa: E402
from pyab_experiment.utils.wraper_functions import (  # noqa: E402
    generate_code,
    parse_source,
)


def digest(obj) -> str:
    return hashlib.sha256(
        json.dumps(obj, sort_keys=True, ensure_ascii=True, default=repr).encode()
    ).hexdigest()


def describe_exc(e: BaseException):
    return [type(e).__module__ + "." + type(e).__qualname__, str(e)[:300]]


# --------------------------------------------------------------------------
# 1. lexer
# --------------------------------------------------------------------------
def lex(text, consume=None):
    """token stream (or error) plus the final public state of the lexer"""
    lexer = ExperimentLexer()
    out = []
    try:
        for n, tok in enumerate(lexer.tokenize(text)):
            out.append(
                [
                    tok.type,
                    type(tok.type).__name__,
                    repr(tok.value),
                    type(tok.value).__name__,
                    tok.lineno,
                    tok.index,
                    tok.end,
                    # what a rule function could see between two tokens
                    lexer.index,
                    lexer.lineno,
                    type(lexer).__name__,
                ]
            )
            if consume is not None and n + 1 >= consume:
                break
        err = None
    except Exception as e:  # noqa: BLE001
        err = describe_exc(e) + [repr(getattr(e, "text", None))[:80]] + [
            getattr(e, "error_index", None)
        ]
    return [
        out,
        err,
        type(lexer).__name__,
        getattr(lexer, "index", None),
        getattr(lexer, "lineno", None),
        getattr(lexer, "text", None) == text,
    ]


def lexer_section():
    res = {}
    # exhaustive small alphabets -------------------------------------------------
    atoms_a = ['"', "'", "a", "\n", " ", "/", "*", "\\", "1", "."]
    atoms_b = [
        "in", "not", "else", "if", " ", "\n", "\t", "x", "_", "9", "é",
        "٣", "-", "(", ",", "\r", "or", "and", "=", "!", "<", "/*", "*/",
        "//", "{", "}", ":", "\x0b", " ", "\x1c",
    ]
    atoms_c = ["/", "*", "\n", " ", "z", '"', "\r\n"]
    for name, atoms, upto in (("a", atoms_a, 5), ("b", atoms_b, 3), ("c", atoms_c, 6)):
        h = hashlib.sha256()
        count = 0
        errors = 0
        for n in range(0, upto + 1):
            for combo in itertools.product(atoms, repeat=n):
                r = lex("".join(combo))
                errors += r[1] is not None
                h.update(json.dumps(r, ensure_ascii=True).encode())
                count += 1
        res["exhaustive_" + name] = [count, errors, h.hexdigest()]

    # hand written ---------------------------------------------------------------
    samples = [
        "",
        " ",
        "\n",
        " \n \n",
        "\n\n  \n\t\nx",
        "x \n y\n \nz \n\n w",
        "input notify elsewhere iffy android order define returned salty splittersx",
        "in not else if elif and or def salt splitters weighted return",
        "not in not  in not\tin not\nin notin not\n\n in not in_ not inx",
        "else if elseif else  if else\nif elseifx else ifx elseé",
        "iné not٣ ifª or_ and9 or٣",
        "1 1.5 007 007.500 1. .5 1.5.2 1..2 12a a12 1_000 1e5 1.5e3",
        "٣٤ ٣.٤ 9" + "9" * 400 + ".0 " + "1" * 50,
        "'a' \"b\" '' \"\" 'it\"s' \"it's\" 'a\\'b' \"a\\\"b\" 'a\\\\' '\\n'",
        "'abc\ndef' 'x",
        "\"abc\ndef\" \"x",
        "'éè 中文 \U0001f600' \"‮\"",
        "'a' 'b''c'\"d\"'e'",
        "'//' '/*' \"*/\" // 'x'\n'y' /* 'z' */ 'w'",
        "/**/a/***/b/****/c/*/*/d/*/ */e",
        "/* a\n b\n\n c */ x /* y",
        "/* a * / ** / */ x",
        "/* unterminated \n\n x",
        "/*",
        "/* *",
        "/*/",
        "a /* b */ c /* d \n */ e // f /* g \n h */ i",
        "/* x */ */ y",
        "// comment /* not a block\nx */",
        "/* \r\n */ x \r\n y",
        "/* line1\n\n\n line4 */ $",
        "/* line1\n \n \n line4 */\n \n$",
        "x\n \n\n$",
        "x \n\n$",
        "== >= <= > < != = ! <> =< => === !==",
        "( ) - , : { } [ ] ; + * / % & | ^ ~ @ # $ ? ` \\",
        "a-b a - b -1 - 1 --1 -1.5 -.5",
        "\x0c\x0b\x1c\x1d\x1e\x1f\x85\xa0  　x",
        "\ufeffdef",
        "x\x00y",
        "if a==1{return 'x' weighted 1}",
        "/" , "/ /", "/ *", "* /", "'", '"',
    ]
    res["samples"] = [[s[:40], digest(lex(s))] for s in samples]
    res["sample_raw"] = [lex(s) for s in samples[2:12]]
    # partially consumed generators (laziness of the token stream)
    res["partial"] = digest(
        [lex(s, consume=k) for s in samples for k in (1, 2, 3)]
    )
    # tokenize(text, lineno, index)
    extra = []
    for s in samples[:30]:
        lexer = ExperimentLexer()
        try:
            extra.append(
                [[t.type, repr(t.value), t.lineno, t.index] for t in lexer.tokenize(s, 7, 2)]
            )
        except Exception as e:  # noqa: BLE001
            extra.append(describe_exc(e))
        extra.append([type(lexer).__name__, lexer.index, lexer.lineno])
        # the same lexer object used twice
        try:
            extra.append([[t.type, t.lineno] for t in lexer.tokenize("a\n/* b\n */ c")])
        except Exception as e:  # noqa: BLE001
            extra.append(describe_exc(e))
        extra.append([type(lexer).__name__, lexer.index, lexer.lineno])
    res["offsets_and_reuse"] = digest(extra)
    res["class_attrs"] = digest(
        sorted(
            (k, repr(v) if isinstance(v, str) else type(v).__name__)
            for k, v in vars(ExperimentLexer).items()
            if k.isupper() or k in ("tokens",)
        )
        + [sorted(map(str, ExperimentLexer.tokens))]
    )
    return res


# --------------------------------------------------------------------------
# 2. parser / generator corpus
# --------------------------------------------------------------------------
CORPUS = [
    "def e{return 'a' weighted 1}",
    "def e{return 'a' weighted 1, 'b' weighted 2.5, 3 weighted 0, -4 weighted 1, 5.5 weighted 1, -6.25 weighted 0.0}",
    "def e{salt:'s' return 'a' weighted 1,'b' weighted 1}",
    "def e{salt:\"s'\\\\\" splitters: uid return 'a' weighted 1,'b\\\\' weighted 1}",
    "def e{splitters: uid, sid, zid, aid\n return 'a' weighted 1,'b' weighted 3,'c' weighted 2}",
    "def e{splitters: b, a, b\n return 'a' weighted 1,'b' weighted 3}",
    "def e{splitters: uid if uid == 'x' {return 1 weighted 1} else {return 2 weighted 1, 3 weighted 1}}",
    "def e{splitters: uid if f in (1,2,3) {return 'in' weighted 1} else if f not in (4,5) {return 'notin' weighted 1, 'nn' weighted 1} else {return 'other' weighted 1}}",
    "def e{splitters: uid if f in (1) {return 'one' weighted 1} elseif f in ((1,2),(3,(4,5)),'x',-7,y) {return 'nest' weighted 1} else{return 'z' weighted 1}}",
    "def e{splitters: uid if (f == 1) {return 'p' weighted 1} else  \n if ((f) == (2)) {return 'q' weighted 1}}",
    "def e{if a == 1 and b == 2 or c == 3 {return 'x' weighted 1} else {return 'y' weighted 1}}",
    "def e{if a == 1 or b == 2 and c == 3 {return 'x' weighted 1} else {return 'y' weighted 1}}",
    "def e{if not a == 1 and b == 2 {return 'x' weighted 1} else {return 'y' weighted 1}}",
    "def e{if not (a == 1 and b == 2) or not not c < 3 {return 'x' weighted 1} else {return 'y' weighted 1}}",
    "def e{if a == 1 or b == 2 or c == 3 and d == 4 and e2 == 5 {return 'x' weighted 1} else {return 'y' weighted 1}}",
    "def e{if (a == 1 or b == 2) and (c >= 3 or d <= 4) {return 'x' weighted 1} else {return 'y' weighted 1}}",
    "def e{if input == 1 and notify != 2 and elsewhere > 3 and iffy < 4 and android >= 5 and order <= 6 {return 'x' weighted 1} else {return 'y' weighted 1}}",
    "def define{splitters: splitters_, salty, returned if weighted_ == 1 {return 'x' weighted 1} else {return 'y' weighted 1, 'z' weighted 1}}",
    "def e{if a not\n\tin (1,2) {return 'x' weighted 1} else {return 'y' weighted 1}}",
    "def e{if a in 'hello' {return 'x' weighted 1} else {return 'y' weighted 1}}",
    "def e{if 'a' == a {return 'x' weighted 1} else if 1 < a {return 'w' weighted 1} else {return 'y' weighted 1}}",
    "def e{if a == 18 {return 'i' weighted 1} else if a == 18.0 {return 'f' weighted 1} else if a == '18' {return 's' weighted 1} else if a == '02134' {return 'z' weighted 1} else {return 'y' weighted 1}}",
    "def e{if a == -1 {return 'i' weighted 1} else if a == -1.5 {return 'f' weighted 1} else if a in (-1, -2.5, '-3') {return 't' weighted 1}}",
    "def e{if a == 007 {return 'i' weighted 010} else if a == 007.50 {return 'f' weighted 00.50, 'g' weighted 1}}",
    "def e{if a == 9" + "9" * 330 + ".0 {return 'inf' weighted 1} else if a == -9" + "9" * 330 + ".0 {return 'ninf' weighted 1} else {return 'y' weighted 1}}",
    "def e{if a == " + "1" * 60 + " {return 'big' weighted 1} else {return 'y' weighted 1}}",
    "def e{splitters: uid if a == 1 {if b == 2 {if c == 3 {return 'abc' weighted 1, 'ABC' weighted 1} else {return 'ab' weighted 1}} else if b == 3 {return 'a3' weighted 1}} else if a == 2 {return 'a2' weighted 1, 'A2' weighted 9} else {return 'none' weighted 1}}",
    "def e{if a == 1 {if b == 2 {return 'x' weighted 1}}}",
    "/* head */ def e /* c1 */ { // c2\n salt /* c3 */ : /* c4 */ 'q' // c5 'r'\n splitters: /* c6\n\n */ uid /**/ , /***/ sid\n return 'a' /* */ weighted 1 // end\n , 'b' weighted 1 /* tail\n */ } // bye\n /* unterminated",
    "def e{salt:'//not a comment' if a == '/* nor this */' {return \"it's\" weighted 1, 'say \"hi\"' weighted 1} else {return '*/' weighted 1}}",
    "def e{salt:'éè中文' splitters: uid if a == 'ü\U0001f600' {return 'ß' weighted 1, 'Ж' weighted 2} else {return 'plain' weighted 1, '' weighted 1}}",
    "def e{salt:'back\\slash\\n\\t' splitters: uid return 'a\\\\b' weighted 1, 'c\\' weighted 1, \"{x}\" weighted 1, '%s' weighted 1}",
    "def e{splitters: uid return 1 weighted 1, 1.0 weighted 1, '1' weighted 1, -1 weighted 1}",
    "def e{splitters: uid return 'a' weighted 0, 'b' weighted 0}",
    "def e{splitters: uid return 'a' weighted 0.1, 'b' weighted 0.2, 'c' weighted 0.30000000000000004}",
    "def e{splitters: uid return 'a' weighted 1" + "".join(f", 'g{i}' weighted {i % 7}" for i in range(60)) + "}",
    "def e{splitters: " + ", ".join(f"f{i}" for i in range(40)) + " return 'a' weighted 1, 'b' weighted 1}",
    "def e{if a in (" + ",".join(str(i) for i in range(80)) + ") {return 'x' weighted 1} else {return 'y' weighted 1}}",
    "def e{if a in " + "(" * 30 + "1" + ")" * 30 + " {return 'x' weighted 1} else {return 'y' weighted 1}}",
    "def e{if " + "(" * 25 + "a == 1" + ")" * 25 + " {return 'x' weighted 1} else {return 'y' weighted 1}}",
    "def e{if " + " and ".join(f"v{i} == {i}" for i in range(30)) + " {return 'x' weighted 1} else {return 'y' weighted 1}}",
    "def e{" + "".join(f"if a == {i} {{" for i in range(20)) + "return 'deep' weighted 1" + "}" * 20 + "}",
    "def e{if a == 0 {return 0 weighted 1}" + "".join(f" else if a == {i} {{return {i} weighted 1}}" for i in range(1, 40)) + " else {return 'rest' weighted 1}}",
    "def e\n \n{\n \nreturn\n 'a'\n weighted\n 1\n}\n \n",
    "\x0c\x1f def e{return 'a' weighted 1}",
    "def e{splitters: uid, uid2 if uid == 'u1' and uid2 in ('a','b') {return 'x' weighted 1, 'y' weighted 1} else {return 'z' weighted 1, 'w' weighted 1}}",
    "def kwargs{splitters: self if cls == 1 {return 'x' weighted 1} else {return 'y' weighted 1}}",
    "def e{splitters: uid if partial == 1 {return 'x' weighted 1} else {return 'y' weighted 1, 'z' weighted 1}}",
    "def e{if (a,b) == (1,2) {return 't' weighted 1} else if (a) in ((1),(2)) {return 'u' weighted 1} else {return 'v' weighted 1}}",
    "def e{if (1,2) == (1,2) {return 't' weighted 1}}",
    "def e{if ('a') == 'a' {return 'weird' weighted 1} else {return 'ok' weighted 1}}",
    "def e{if a == 1 {return 'x' weighted 1} else {return 'y' weighted 1} }   // trailing\n\n/* trailing */\n",
]

INVALID = [
    "",
    " ",
    "\n\n",
    "// only a comment",
    "/* only a comment",
    "def",
    "def e",
    "def e{",
    "def e{}",
    "def e{return}",
    "def e{return 'a'}",
    "def e{return 'a' weighted}",
    "def e{return 'a' weighted -1}",
    "def e{return 'a' weighted 'x'}",
    "def e{return 'a' weighted 1,}",
    "def e{return 'a' weighted 1 'b' weighted 2}",
    "def e{return a weighted 1}",
    "def e{return (1,2) weighted 1}",
    "def e{return 'a' weighted 1}}",
    "def e{return 'a' weighted 1} def f{return 'a' weighted 1}",
    "def e{return 'a' weighted 1} x",
    "def e{return 'a' weighted 1} $",
    "def e{splitters: uid salt: 's' return 'a' weighted 1}",
    "def e{salt: s return 'a' weighted 1}",
    "def e{salt: 1 return 'a' weighted 1}",
    "def e{salt 's' return 'a' weighted 1}",
    "def e{splitters: return 'a' weighted 1}",
    "def e{splitters: a, return 'a' weighted 1}",
    "def e{splitters: a b return 'a' weighted 1}",
    "def e{splitters: 'a' return 'a' weighted 1}",
    "def e{splitters: in return 'a' weighted 1}",
    "def in{return 'a' weighted 1}",
    "def 1e{return 'a' weighted 1}",
    "def e e{return 'a' weighted 1}",
    "e{return 'a' weighted 1}",
    "def e(return 'a' weighted 1)",
    "def e{if a {return 'a' weighted 1}}",
    "def e{if a == {return 'a' weighted 1}}",
    "def e{if == 1 {return 'a' weighted 1}}",
    "def e{if a = 1 {return 'a' weighted 1}}",
    "def e{if a == 1 == 2 {return 'a' weighted 1}}",
    "def e{if a == 1 return 'a' weighted 1}",
    "def e{if a == 1 {return 'a' weighted 1} else}",
    "def e{if a == 1 {return 'a' weighted 1} else {return 'b' weighted 1} else {return 'c' weighted 1}}",
    "def e{if a == 1 {return 'a' weighted 1} else {return 'b' weighted 1} else if a == 2 {return 'c' weighted 1}}",
    "def e{else {return 'b' weighted 1}}",
    "def e{else if a == 1 {return 'b' weighted 1}}",
    "def e{if a == 1 {return 'a' weighted 1} return 'b' weighted 1}",
    "def e{if a == 1 {} }",
    "def e{if a in () {return 'a' weighted 1}}",
    "def e{if a in (1,) {return 'a' weighted 1}}",
    "def e{if a in (1 2) {return 'a' weighted 1}}",
    "def e{if a in (1,2 {return 'a' weighted 1}}",
    "def e{if a in 1,2) {return 'a' weighted 1}}",
    "def e{if (a == 1 {return 'a' weighted 1}}",
    "def e{if a == 1) {return 'a' weighted 1}}",
    "def e{if (a == 1, b == 2) {return 'a' weighted 1}}",
    "def e{if a == 1 and {return 'a' weighted 1}}",
    "def e{if and a == 1 {return 'a' weighted 1}}",
    "def e{if a == 1 and or b == 2 {return 'a' weighted 1}}",
    "def e{if not {return 'a' weighted 1}}",
    "def e{if a not 1 {return 'a' weighted 1}}",
    "def e{if a not not in (1) {return 'a' weighted 1}}",
    "def e{if a in not (1) {return 'a' weighted 1}}",
    "def e{if a == --1 {return 'a' weighted 1}}",
    "def e{if a == - 1 {return 'a' weighted 1}}",
    "def e{if a == -'x' {return 'a' weighted 1}}",
    "def e{if a == -b {return 'a' weighted 1}}",
    "def e{if a == 1. {return 'a' weighted 1}}",
    "def e{if a == .5 {return 'a' weighted 1}}",
    "def e{if a == 1e5 {return 'a' weighted 1}}",
    "def e{if a == 'x {return 'a' weighted 1}}",
    "def e{if a == 'x\ny' {return 'a' weighted 1}}",
    "def e{if a == \"x {return 'a' weighted 1}}",
    "def e{return 'a' weighted 1;}",
    "def e{return 'a' weighted 1 + 2}",
    "def e{return 'a' weighted 1.2.3}",
    "def e{return 'a' weighted 1_0}",
    "def e{return é weighted 1}",
    "def é{return 'a' weighted 1}",
    "def eé{return 'a' weighted 1}",
    "def e{if a iné (1) {return 'a' weighted 1}}",
    "def e{if a noté in (1) {return 'a' weighted 1}}",
    "def e{if a == 1 {return 'a' weighted 1} elseé {return 'b' weighted 1}}",
    "def e{if a == 1 {return 'a' weighted 1} elsif a == 2 {return 'b' weighted 1}}",
    "def e{if a == 1 {return 'a' weighted 1} elif a == 2 {return 'b' weighted 1}}",
    "def e{return 'a' weighted 1} /* x */ */",
    "def e{return 'a' /* weighted 1}",
    "def e{return 'a' // weighted 1}",
    "def e{\n\n\nreturn 'a'\n\nweighted\n\n}",
    "def e{\n \n \nreturn 'a'\n \nweighted\n \n}",
    "def e{ \n \n \n return 'a' \n \n weighted \n \n }",
    "def e{\n/* a\n b\n */\n \n/* c */ oops}",
    "def e{\n/* a\n \n b */ oops}",
    "def e{\n// a\n \n// b\n\n oops}",
    "def e{\n\t\n\r\n oops}",
    "\n\n\n$",
    " \n \n \n$",
    "def e{return 'a' weighted " + "9" * 5000 + "}",
    "def e{return " + "9" * 5000 + " weighted 1}",
    "def e{if a == 1 {return 'a' weighted 1} else if {return 'b' weighted 1}}",
    "def e{if a == 1 {return 'a' weighted 1} else  if{return 'b' weighted 1}}",
    "return 'a' weighted 1",
    "\ufeff def e{return 'a' weighted 1}",
    "def e{salt:\"s\\\"'\\\\\" splitters: uid return 'a' weighted 1,'b' weighted 1}",
    "def e{return 'c\\'d' weighted 1}",
    "{return 'a' weighted 1}",
    "def e{return 'a' weighted 1",
    "def e{if a == 1 {return 'a' weighted 1}",
    "def e{if a == 1 {return 'a' weighted 1} else {return 'b' weighted 1}",
]


def ast_dump(text):
    try:
        ast = parse_source(text)
    except Exception as e:  # noqa: BLE001
        return ["error"] + describe_exc(e)
    if ast is None:
        return ["none"]
    return ["ok", repr(ast), ast.json(), str(type(ast.conditions).__name__)]


def token_level_mutations(text, rng, n):
    """delete / duplicate / swap / replace tokens of a valid text"""
    toks = []
    lexer = ExperimentLexer()
    try:
        for t in lexer.tokenize(text):
            toks.append(text[t.index : t.end])
    except Exception:  # noqa: BLE001
        pass
    pool = ["if", "else", "else if", "in", "not in", "not", "and", "or", "(", ")",
            "{", "}", ",", ":", "-", "==", "1", "2.5", "'s'", "x", "return",
            "weighted", "def", "salt", "splitters", "\n", "/* c */", "// c\n", "$"]
    out = []
    for _ in range(n):
        cur = list(toks)
        for _ in range(rng.choice((1, 1, 2))):
            if not cur:
                break
            i = rng.randrange(len(cur))
            op = rng.randrange(4)
            if op == 0:
                del cur[i]
            elif op == 1:
                cur.insert(i, cur[i])
            elif op == 2:
                cur[i] = rng.choice(pool)
            else:
                cur.insert(i, rng.choice(pool))
        out.append(rng.choice((" ", "\n", " \n", "\n ")).join(cur))
    return out


class FakeTok:
    """a token as a third-party lexer could produce it"""

    def __init__(self, type_, value, lineno=None):
        self.type = type_
        self.value = value
        if lineno is not None:
            self.lineno = lineno
        self.index = 0
        self.end = 0


def parser_direct(rng):
    """feed token sequences to the parser directly"""
    types = sorted(map(str, ExperimentLexer.tokens))
    values = {
        "ID": "ident", "NON_NEG_INTEGER": 3, "NON_NEG_FLOAT": 2.5, "STRING_LITERAL": "s",
    }
    out = []
    for n in range(400):
        seq = [rng.choice(types) for _ in range(rng.randrange(0, 12))]
        toks = [
            FakeTok(t, values.get(t, t.lower()), lineno=(i if n % 3 else None))
            for i, t in enumerate(seq)
        ]
        p = ExperimentParser()
        try:
            r = p.parse(iter(toks))
            out.append([seq, "ok", repr(r)])
        except Exception as e:  # noqa: BLE001
            out.append([seq, "error"] + describe_exc(e))
    # the same parser object used for several texts, good and bad
    p = ExperimentParser()
    for text in CORPUS[:12] + INVALID[:25] + CORPUS[12:20]:
        try:
            r = p.parse(ExperimentLexer().tokenize(text))
            out.append(["reuse", repr(r)])
        except Exception as e:  # noqa: BLE001
            out.append(["reuse-error"] + describe_exc(e))
    return out


def parser_section():
    rng = random.Random(20240607)
    res = {}
    res["valid"] = [[t[:50], digest(ast_dump(t))] for t in CORPUS]
    res["valid_raw"] = [ast_dump(t) for t in CORPUS[:10]]
    res["valid_all_ok"] = all(ast_dump(t)[0] == "ok" for t in CORPUS)
    res["invalid"] = [[t[:50]] + ast_dump(t)[:3] for t in INVALID]
    muts = []
    hist = {}
    for t in CORPUS:
        for m in token_level_mutations(t, rng, 25):
            d = ast_dump(m)
            hist[d[0] if d[0] != "error" else d[1]] = hist.get(d[0] if d[0] != "error" else d[1], 0) + 1
            muts.append([m, d])
    res["mutations"] = [len(muts), hist, digest(muts)]
    direct = parser_direct(rng)
    res["direct"] = [len(direct), digest(direct)]
    return res


# --------------------------------------------------------------------------
# 3. generated code, both layouts, executed
# --------------------------------------------------------------------------
FIELD_VALUES = [0, 1, 2, 3, 5, 18, 18.0, "18", "02134", -1, -1.5, "x", "a", "u1", "hello",
                "h", (1, 2), None, 7, "ü\U0001f600", float("inf"), float("-inf")]


def call_variants(fn, names, rng, n=60):
    out = []
    random.seed(1234)  # experiments without splitters fall back to random.choices
    for i in range(n):
        kwargs = {name: rng.choice(FIELD_VALUES) for name in names}
        for k in list(kwargs):
            if k in ("uid", "sid", "zid", "aid", "uid2", "self", "b") and rng.random() < 0.8:
                kwargs[k] = f"id_{rng.randrange(1000)}"
        if rng.random() < 0.1 and kwargs:
            del kwargs[rng.choice(sorted(kwargs))]
        if rng.random() < 0.1:
            kwargs["unexpected_extra"] = 1
        try:
            out.append(repr(fn(**kwargs)))
        except Exception as e:  # noqa: BLE001
            out.append(describe_exc(e))
    return out


def names_of(text):
    try:
        return sorted({t.value for t in ExperimentLexer().tokenize(text) if t.type == "ID"})
    except Exception:  # noqa: BLE001
        return []


def codegen_section():
    rng = random.Random(77)
    res = []
    # black is slow on the huge ones: keep the formatted layout for a subset
    for i, text in enumerate(CORPUS):
        entry = [text[:40]]
        for expose in (False, True):
            try:
                code = generate_code(text, expose)
            except Exception as e:  # noqa: BLE001
                entry.append(["gen-error"] + describe_exc(e))
                continue
            entry.append(hashlib.sha256(code.encode()).hexdigest())
            ns = {}
            try:
                exec(compile(code, "<probe>", "exec"), ns)  # noqa: S102
            except Exception as e:  # noqa: BLE001
                entry.append(["exec-error"] + describe_exc(e))
                continue
            fn_name = parse_source(text).id
            entry.append(sorted(k for k in ns if not k.startswith("__")))
            entry.append(digest(call_variants(ns[fn_name], names_of(text), random.Random(i))))
            if expose and "choose_experiment_variant" in ns:
                try:
                    chooser = ns["choose_experiment_variant"]
                    args = chooser.__code__.co_varnames[: chooser.__code__.co_argcount]
                    got = chooser(**{a: 1 for a in args})
                    entry.append(repr(got.func.__name__) + repr(got.keywords))
                except Exception as e:  # noqa: BLE001
                    entry.append(describe_exc(e))
        res.append(entry)
    for text in INVALID[:40]:
        for expose in (False, True):
            try:
                generate_code(text, expose)
                res.append("ok")
            except Exception as e:  # noqa: BLE001
                res.append(describe_exc(e))
    _ = rng
    return [len(res), digest(res), res[:4]]


# --------------------------------------------------------------------------
# 4. evaluator lifecycle
# --------------------------------------------------------------------------
def evaluator_section():
    res = []
    rng = random.Random(5)
    for i, text in enumerate(CORPUS):
        try:
            ev = ExperimentEvaluator(text)
        except Exception as e:  # noqa: BLE001
            res.append(["ctor-error"] + describe_exc(e))
            continue
        res.append([ev._checksum, digest(call_variants(ev, names_of(text), random.Random(i), 80))])

    # histories
    hist = []
    ev = None
    random.seed(99)
    for step in range(160):
        kind = rng.random()
        if ev is None or kind < 0.1:
            text = rng.choice(CORPUS[:30] + INVALID[:30])
            try:
                ev = ExperimentEvaluator(text)
                hist.append(["new", ev._checksum])
            except Exception as e:  # noqa: BLE001
                hist.append(["new-error"] + describe_exc(e))
                continue
        elif kind < 0.55:
            text = rng.choice(CORPUS[:30] + INVALID)
            before = (ev._checksum, ev.run_experiment)
            try:
                r = ev.recompile(text)
                hist.append(["recompile", r, ev._checksum, before[1] is ev.run_experiment])
            except Exception as e:  # noqa: BLE001
                hist.append(
                    ["recompile-error"] + describe_exc(e)
                    + [ev._checksum == before[0], ev.run_experiment is before[1]]
                )
        else:
            kwargs = {n: rng.choice(FIELD_VALUES) for n in ("a", "b", "c", "f", "uid", "sid")}
            kwargs["uid"] = f"user{rng.randrange(50)}"
            try:
                hist.append(["call", repr(ev(**kwargs))])
            except Exception as e:  # noqa: BLE001
                hist.append(["call-error"] + describe_exc(e))
    res.append(digest(hist))
    res.append(hist[:12])

    # an evaluator that never compiled anything
    blank = ExperimentEvaluator.__new__(ExperimentEvaluator)
    try:
        blank(x=1)
    except Exception as e:  # noqa: BLE001
        res.append(describe_exc(e))
    for bad in (None, 5, b"def e{return 'a' weighted 1}"):
        try:
            ExperimentEvaluator(bad)
            res.append("accepted")
        except Exception as e:  # noqa: BLE001
            res.append(describe_exc(e)[:1])

    # bucket distribution of a real experiment
    ev = ExperimentEvaluator(
        "def e{salt:'s1' splitters: uid, grp if grp == 'a' {return 'A' weighted 4, 'B' weighted 1}"
        " else {return 'A' weighted 1, 'B' weighted 1, 'C' weighted 2.5}}"
    )
    seq = "".join(ev(uid=i, grp="a" if i % 3 else "b") for i in range(6000))
    res.append([hashlib.sha256(seq.encode()).hexdigest(), seq.count("A"), seq.count("B"), seq.count("C")])
    return [len(res), digest(res), res[-6:]]


# --------------------------------------------------------------------------
# 5. threads
# --------------------------------------------------------------------------
def thread_section():
    texts = CORPUS[:40] + INVALID[:60]
    serial = [digest(ast_dump(t)) for t in texts]
    results = {}

    def work(k):
        mine = []
        order = list(range(len(texts)))
        random.Random(k).shuffle(order)
        got = {}
        for i in order:
            got[i] = digest(ast_dump(texts[i]))
        mine = [got[i] for i in range(len(texts))]
        results[k] = mine

    threads = [threading.Thread(target=work, args=(k,)) for k in range(8)]
    for t in threads:
        t.start()
    for t in threads:
        t.join()

    shared = ExperimentEvaluator(CORPUS[6])
    calls = {}

    def work2(k):
        out = []
        for i in range(300):
            if i % 50 == k:
                try:
                    shared.recompile(CORPUS[6] if i % 100 < 50 else INVALID[k % len(INVALID)])
                except Exception as e:  # noqa: BLE001
                    out.append(describe_exc(e)[0])
            out.append(shared(uid=f"u{i}"))
        calls[k] = out

    threads = [threading.Thread(target=work2, args=(k,)) for k in range(8)]
    for t in threads:
        t.start()
    for t in threads:
        t.join()
    return [
        all(results[k] == serial for k in range(8)),
        digest(serial),
        digest([calls[k] for k in range(8)]),
    ]


# --------------------------------------------------------------------------
# 6. bucketing and stats
# --------------------------------------------------------------------------
def binning_section():
    res = []
    ids = ["", "a", "id_1", "é", "0", "None", " ", "x" * 1000] + [f"u{i}" for i in range(400)]
    res.append(digest([deterministic_proba(i) for i in ids]))
    weights = [
        None, [1, 1], [1, 2, 3], [0, 1], [1, 0], [0.5, 0.25, 0.25], [1e-9, 1], [3, 0, 0, 1],
        [1, 1, 1, 1, 1, 1, 1], [True, 2], [1e308, 1e308], [0, 0], [-1, 2], [1], [],
        [float("nan"), 1], [1, float("inf")], [1, 2, 3, 4],
    ]
    pops = [["a", "b"], ["a", "b", "c"], [1, 2.5, "x", None], list(range(7)), ["only"], []]
    out = []
    for salt in ("", "s", "é"):
        for pop in pops:
            for w in weights:
                row = []
                for i in ids[:60]:
                    try:
                        row.append(repr(deterministic_choice(salt + i, pop, w)))
                    except Exception as e:  # noqa: BLE001
                        row.append(describe_exc(e))
                        break
                out.append(row)
                try:
                    out.append(repr(deterministic_choice("k", pop, cum_weights=w)))
                except Exception as e:  # noqa: BLE001
                    out.append(describe_exc(e))
    try:
        deterministic_choice("k", ["a"], [1], cum_weights=[1])
    except Exception as e:  # noqa: BLE001
        out.append(describe_exc(e))
    res.append(digest(out))
    st = []
    for a in (0.5, 0.975, 0.025, 0.001, 0.9995, 1e-12, 0.3):
        st.append(repr(probit(a)))
    for a in (0, 1, -1, 2, "x"):
        try:
            st.append(repr(probit(a)))
        except Exception as e:  # noqa: BLE001
            st.append(describe_exc(e))
    for n in (1, 10, 1000, 10**6):
        for p in (0, 0.01, 0.5, 0.8, 1):
            for c in (0.5, 0.9, 0.95, 0.999):
                for m in ("agresti-coull", "wald", "WALD", "Agresti-Coull", "other"):
                    try:
                        st.append(repr(confidence_interval(n, p, c, m)))
                    except Exception as e:  # noqa: BLE001
                        st.append(describe_exc(e))
    for args in ((0, 0.5, 0.95, "wald"), (10, 0.5, 1, "wald"), (10, 0.5, 0, "wald"), ()):
        try:
            st.append(repr(confidence_interval(*args)))
        except Exception as e:  # noqa: BLE001
            st.append(describe_exc(e))
    res.append(digest(st))
    res.append(st[:4])
    return res


def main():
    summary = {
        "lexer": lexer_section(),
        "parser": parser_section(),
        "codegen": codegen_section(),
        "evaluator": evaluator_section(),
        "threads": thread_section(),
        "binning_stats": binning_section(),
    }
    print(json.dumps(summary, indent=1, sort_keys=True, ensure_ascii=True, default=repr))


if __name__ == "__main__":
    main()

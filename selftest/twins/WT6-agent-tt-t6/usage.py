"""exercises describe_source / ExperimentSummary (needs the patch)"""

import inspect
from pathlib import Path

from pyab_experiment.codegen.python.custom_exceptions import (
    ExperimentConditionalFailedError,
)
from pyab_experiment.experiment_evaluator import ExperimentEvaluator
from pyab_experiment.sly.lex import LexError
from pyab_experiment.sly.yacc import YaccError
from pyab_experiment.utils.wraper_functions import ExperimentSummary, describe_source

TEXT = """
def demo{
    salt: "s1"
    splitters: uid, seg
    if seg in ('a', 'b') and not country == 'fr' {
        if age >= 18 { return 'adult' weighted 1, 'control' weighted 3 }
        else if age > 12 { return 1 weighted 1, 1.0 weighted 1, '1' weighted 2 }
    }
    else if seg == 'c' { return 'control' weighted 0, 'off' weighted 0 }
    else { return 'control' weighted 2.5 }
}
"""
summary = describe_source(TEXT)
assert isinstance(summary, ExperimentSummary)
assert summary.name == "demo" and summary.salt == "s1"
assert summary.splitters == ("seg", "uid")  # the order in which they are hashed
assert summary.condition_fields == ("age", "country", "seg")
assert summary.arguments == ("seg", "uid", "age", "country")
assert summary.groups == ("adult", "control", 1, 1.0, "1", "off")
assert [type(g) for g in summary.groups] == [str, str, int, float, str, str]
assert summary.leaves == (
    (("adult", 0.25), ("control", 0.75)),
    ((1, 0.25), (1.0, 0.25), ("1", 0.5)),
    (("control", None), ("off", None)),
    (("control", 1.0),),
)
assert summary.always_routed is False  # age <= 12 falls through
assert summary.deterministic is True

# the summary agrees with what the evaluator does
evaluator = ExperimentEvaluator(TEXT)
parameters = inspect.signature(evaluator.run_experiment).parameters
assert tuple(parameters)[:-1] == summary.arguments and tuple(parameters)[-1] == "kwargs"
seen = set()
for uid in range(300):
    seen.add(evaluator(uid=uid, seg="a", country="de", age=30))
    seen.add(evaluator(uid=uid, seg="z", country="de", age=30))
    seen.add(evaluator(uid=uid, seg="a", country="de", age=15))
assert all(any(s == g and type(s) is type(g) for g in summary.groups) for s in seen)
try:
    evaluator(uid=1, seg="a", country="de", age=3)
except ExperimentConditionalFailedError:
    pass
else:
    raise AssertionError("not routed")

flat = describe_source("def flat{ return 'x' weighted 1, 'y' weighted 1 }")
assert flat.always_routed and not flat.deterministic and flat.arguments == ()
assert flat.salt is None and flat.leaves == ((("x", 0.5), ("y", 0.5)),)
closed = describe_source(
    "def c{ splitters: u if a > 1 { if b > 1 { return 1 weighted 1 } else { return 2 weighted 1 } }"
    " else if a < 0 { return 3 weighted 1 } else { return 4 weighted 1 } }"
)
assert closed.always_routed and closed.groups == (1, 2, 3, 4)
half = describe_source(
    "def c{ splitters: u if a > 1 { if b > 1 { return 1 weighted 1 } } else { return 4 weighted 1 } }"
)
assert not half.always_routed

for bad, error in (("def x{ return 'a' weighted 1; }", LexError), ("def x{", YaccError)):
    try:
        describe_source(bad)
    except error:
        pass
    else:
        raise AssertionError(bad)

programs = Path(__file__).resolve().parents[2] / "tests" / "unit" / "test_programs"
for path in sorted(programs.glob("*.pyab")):
    info = describe_source(path.read_text())
    assert info.name and info.leaves and info._asdict()["name"] == info.name
print("usage ok")

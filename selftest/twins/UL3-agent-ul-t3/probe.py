"""Differential probe: prints a deterministic JSON summary of the library's
observable behaviour (and of the vendored sly runtime underneath it).

Run:  PYTHONPATH=/tmp/wt/UL/src /venv/bin/python probe.py
"""
import os
import sys

if os.environ.get("PYTHONHASHSEED") != "0":
    os.environ["PYTHONHASHSEED"] = "0"
    os.execv(sys.executable, [sys.executable] + sys.argv)

import contextlib
import hashlib
import io
import json
import random
import re
import tempfile
import threading

from pyab_experiment.binning.binning import deterministic_choice, deterministic_proba
from pyab_experiment.experiment_evaluator import ExperimentEvaluator
from pyab_experiment.language.grammar import ExperimentParser
from pyab_experiment.language.lexer import BlockComment, ExperimentLexer
from pyab_experiment.sly import Lexer, Parser
from pyab_experiment.sly import lex as slylex
from pyab_experiment.sly import yacc as slyacc
from pyab_experiment.utils.stats import confidence_interval, probit
from pyab_experiment.utils.wraper_functions import generate_code, parse_source

HERE = os.path.abspath(__file__)
OUT = {}


def norm(s):
    s = str(s).replace(HERE, "<probe>")
    s = re.sub(r"[^\s:]*yacc\.py:\d+", "yacc.py:N", s)
    s = re.sub(r" at 0x[0-9a-f]+", " at 0x?", s)
    return s


def err(e):
    d = {"cls": type(e).__name__, "mro": [c.__name__ for c in type(e).__mro__][:4],
         "msg": norm(e), "args": norm(repr(e.args))}
    for a in ("text", "error_index", "message", "newstate", "tok"):
        if hasattr(e, a):
            d[a] = norm(repr(getattr(e, a)))
    return d


def attempt(fn, *a, **k):
    try:
        return {"ok": fn(*a, **k)}
    except BaseException as e:  # noqa
        return {"err": err(e)}


def tokdump(lexer, text, **kw):
    toks = []
    res = {}
    try:
        for t in lexer.tokenize(text, **kw):
            toks.append([t.type, repr(t.value), t.lineno, t.index, t.end, repr(t)])
    except BaseException as e:  # noqa
        res["err"] = err(e)
    res["toks"] = toks
    res["final"] = [type(lexer).__name__, getattr(lexer, "index", None),
                    getattr(lexer, "lineno", None), getattr(lexer, "text", None) == text]
    return res


def jsonable(o):
    if isinstance(o, dict):
        return {str(k): jsonable(v) for k, v in o.items()}
    if isinstance(o, (list, tuple)):
        return [jsonable(x) for x in o]
    if isinstance(o, (set, frozenset)):
        return sorted(jsonable(x) for x in o)
    if isinstance(o, float):
        return repr(o)
    if isinstance(o, str):
        return norm(o)
    if isinstance(o, (int, bool)) or o is None:
        return o
    return norm(repr(o)) if not hasattr(o, "dict") else jsonable(o.dict())


# --------------------------------------------------------------------------
# 1. DSL texts
# --------------------------------------------------------------------------
R = 'return "a" weighted 1, "b" weighted 2.5, 3 weighted 0, -4.5 weighted 1'
TEXTS = {
    "basic": 'def e{ return "a" weighted 1 }',
    "many": "def many{ splitters: uid " + R + " }",
    "salted": "def s1{ salt: 'pepper' splitters: uid, other " + R + " }",
    "salt_dq": 'def s2{ salt: "it\'s \\\\ back\\n" splitters: uid ' + R + " }",
    "kwprefix": (
        "def define{ splitters: iffy, inner, notable, orb, android, elsewhere, returned, salty, "
        "weighted_, defx, splittersx\n if iffy == 1 and inner in (1,2) or notable not   in ('x') "
        "{ return 'p' weighted 1 } else  if orb != 2 { return 'q' weighted 1 } "
        "elseif android >= 3 { return 'r' weighted 1 } else { return 's' weighted 2, 't' weighted 1 } }"
    ),
    "not_nl_in": "def n{ if a not\n\t in (1,(2,3),('x',(4.5,-6))) { return 1 weighted 1 } }",
    "notx": "def n{ if not a == 1 and not (b < 2 or c > 3) { return 1 weighted 1 } else { return 2 weighted 1 } }",
    "nested_if": (
        "def nest{ splitters: k if a == 1 { if b == 'x' { return 'ax' weighted 1 } "
        "else if b == 'y' { return 'ay' weighted 1 } } else if a <= 0 { return 'neg' weighted 1, 'neg2' weighted 3 } }"
    ),
    "tuple1": "def t{ if a in (1) { return 'one' weighted 1 } else { return 'no' weighted 1 } }",
    "tuple_ids": "def t{ if a in (b, c, 'lit', -2) { return 'in' weighted 1 } else { return 'out' weighted 1 } }",
    "tuple_left": "def t{ if (1,2) == a { return 'y' weighted 1 } else { return 'n' weighted 1 } }",
    "paren_pred": "def t{ if ((a == 1)) and (b == 2) { return 'y' weighted 1 } else { return 'n' weighted 1 } }",
    "comments": (
        "/* head\n * multi */ def c{ // line comment /* not block\n salt: 'x' /* a */ /* b\n\n*/ "
        "splitters: u // tail\n return 'q' weighted 1 /**/ } // end"
    ),
    "comment_nested": "def c{ /* /* inner */ return 'q' weighted 1 }",
    "comment_str": "def c{ return '/* not a comment */' weighted 1, \"// neither\" weighted 1 }",
    "strings": (
        "def st{ splitters: u return 'it\"s' weighted 1, \"it's\" weighted 1, '' weighted 1, "
        "'a\\\\b' weighted 1, 'café 漢字 \U0001f600' weighted 1, '\\n' weighted 1 }"
    ),
    "numbers": "def nu{ splitters: u return 007 weighted 1.50, 1.0 weighted 010, -0 weighted 1, -0.0 weighted 2, - 5 weighted 3 }",
    "hugefloat": "def hf{ if a < " + "9" * 400 + ".0 { return 'x' weighted 1 } }",
    "hugeint": "def hi{ if a < " + "9" * 50 + " { return 'x' weighted 1 } else { return 'y' weighted 1 } }",
    "unidigits": "def ud{ if a == ١٢ { return 'x' weighted ٣ } else { return 'y' weighted 1 } }",
    "nbsp": "def nb{ return\x0c'x'\x0bweighted\x1f1 }",
    "crlf": "def cr{\r\n splitters: u\r\n return 'x' weighted 1\r\n}\r\n",
    "zero_w": "def zw{ splitters: u return 'x' weighted 0, 'y' weighted 0.0 }",
    "same_field": "def sf{ splitters: u, v if u == 'u1' { return 'a' weighted 1, 'b' weighted 1 } else { return 'c' weighted 1 } }",
    "kwargs_name": "def kw{ splitters: kwargs if self == 1 { return 'a' weighted 1 } else { return 'b' weighted 1 } }",
    "upper": "def UP{ splitters: ID, KW_IF if ID == KW_IF { return 'A' weighted 1 } else { return 'B' weighted 1 } }",
    # ---- invalid
    "empty": "",
    "only_comment": "// nothing\n/* here */",
    "unterminated_block": "def c{ return 'q' weighted 1 } /* never closed",
    "lone_close": "def c{ return 'q' weighted 1 } */",
    "bad_char": "def e{ return 'a' weighted 1 } @",
    "bad_char_mid": "def e{\n\n  return 'a' $ weighted 1 }",
    "non_ascii_id": "def é{ return 'a' weighted 1 }",
    "unterminated_str": "def e{ return 'a weighted 1 }",
    "multiline_str": "def e{ return 'a\nb' weighted 1 }",
    "salt_after": "def e{ splitters: u salt: 'x' return 'a' weighted 1 }",
    "no_return": "def e{ splitters: u }",
    "neg_weight": "def e{ return 'a' weighted -1 }",
    "str_weight": "def e{ return 'a' weighted 'x' }",
    "trailing": "def e{ return 'a' weighted 1 } def",
    "trailing_comma": "def e{ return 'a' weighted 1, }",
    "kw_as_id": "def if{ return 'a' weighted 1 }",
    "kw_field": "def e{ splitters: in return 'a' weighted 1 }",
    "exp_float": "def e{ return 'a' weighted 1e5 }",
    "dot_float": "def e{ return 'a' weighted .5 }",
    "float_dot": "def e{ return 'a' weighted 5. }",
    "dangling_else": "def e{ else { return 'a' weighted 1 } }",
    "double_else": "def e{ if a == 1 { return 1 weighted 1 } else { return 2 weighted 1 } else { return 3 weighted 1 } }",
    "chain_cmp": "def e{ if a == b == c { return 1 weighted 1 } }",
    "empty_tuple": "def e{ if a in () { return 1 weighted 1 } }",
    "missing_brace": "def e{ return 'a' weighted 1",
    "eof_line3": "def e{\n\n return",
    "id_return": "def e{ return a weighted 1 }",
    "notin_glued": "def e{ if a notin (1) { return 1 weighted 1 } }",
}

CALLS = [
    {},
    {"uid": "u1"},
    {"uid": "u2", "other": 7},
    {"u": "u1"},
    {"u": "u1", "v": "v9"},
    {"u": 12345, "v": None},
    {"k": "k1", "a": 1, "b": "x"},
    {"k": "k1", "a": 1, "b": "y"},
    {"k": "k2", "a": 1, "b": "z"},
    {"k": "k3", "a": 0, "b": "x"},
    {"k": "k3", "a": 5, "b": "x"},
    {"a": 1, "b": 2, "c": 3},
    {"a": 12, "b": 12, "c": 1},
    {"a": -2, "b": 0, "c": 9},
    {"a": (1, 2), "b": 1, "c": 1},
    {"a": [1, 2], "b": 2, "c": 4},
    {"a": "x", "b": "x", "c": "lit"},
    {"a": 4.5, "b": 1, "c": 0},
    {"a": 10**60, "b": 1, "c": 0},
    {"a": float("inf")},
    {"iffy": 1, "inner": 2, "notable": "x", "orb": 2, "android": 3, "elsewhere": 0,
     "returned": 0, "salty": 0, "weighted_": 0, "defx": 0, "splittersx": 0},
    {"iffy": 0, "inner": 5, "notable": "x", "orb": 2, "android": 3, "elsewhere": 0,
     "returned": 0, "salty": 0, "weighted_": 0, "defx": 0, "splittersx": 0},
    {"iffy": 0, "inner": 5, "notable": "x", "orb": 2, "android": 1, "elsewhere": "e",
     "returned": 1, "salty": 2, "weighted_": 3, "defx": 4, "splittersx": 5},
    {"iffy": 0, "inner": 5, "notable": "x", "orb": 1, "android": 1, "elsewhere": "e",
     "returned": 1, "salty": 2, "weighted_": 3, "defx": 4, "splittersx": 5, "extra": 1},
    {"kwargs": "kk", "self": 1},
    {"ID": 1, "KW_IF": 1},
    {"ID": 1, "KW_IF": 2},
]


def run_generated(code, fn_name):
    ns = {}
    exec(compile(code, "<gen>", "exec"), ns)
    fn = ns[fn_name]
    out = []
    for kw in CALLS:
        random.seed(1234)
        out.append(attempt(lambda: repr(fn(**kw))))
    for i in range(40):
        random.seed(i)
        out.append(attempt(lambda: repr(fn(uid=f"id_{i}", u=f"id_{i}", v=i, k=i * 7, a=i % 3, b="xy"[i % 2], c=i))))
    return out


dsl = {}
for name, text in TEXTS.items():
    entry = {"sha": hashlib.sha1(text.encode()).hexdigest()[:8]}
    entry["lex"] = tokdump(ExperimentLexer(), text)
    ast = attempt(parse_source, text)
    if "ok" in ast:
        tree = ast["ok"]
        entry["ast"] = None if tree is None else jsonable(tree.dict())
        entry["ast_repr"] = repr(tree)
    else:
        entry["ast_err"] = ast["err"]
    for flag in (False, True):
        g = attempt(generate_code, text, flag)
        key = f"gen_{int(flag)}"
        if "ok" in g:
            entry[key] = g["ok"]
            entry[key + "_run"] = attempt(run_generated, g["ok"], parse_source(text).id)
        else:
            entry[key + "_err"] = g["err"]
    g3 = attempt(generate_code, text, expose_internal_fn=True)
    entry["gen_kw_same"] = g3.get("ok") == entry.get("gen_1")
    ev = attempt(ExperimentEvaluator, text)
    if "ok" in ev:
        e = ev["ok"]
        runs = []
        for kw in CALLS:
            random.seed(99)
            runs.append(attempt(lambda: repr(e(**kw))))
        entry["eval_runs"] = runs
        entry["eval_checksum"] = e._checksum
    else:
        entry["eval_err"] = ev["err"]
    dsl[name] = entry
OUT["dsl"] = dsl

# lexer restarts and offsets
OUT["lex_offsets"] = [
    tokdump(ExperimentLexer(), "def e{ return 'a' weighted 1 }", lineno=10, index=4),
    tokdump(ExperimentLexer(), "xx /* c\n */ yy", lineno=3, index=2),
    tokdump(ExperimentLexer(), "abc", index=3),
    tokdump(ExperimentLexer(), "abc", index=7),
    tokdump(BlockComment(), "abc */ def"),
]
lx = ExperimentLexer()
OUT["lex_reuse"] = [tokdump(lx, "a /* open"), tokdump(lx, "b */ c"), tokdump(lx, "d @"), tokdump(lx, "e")]


# --------------------------------------------------------------------------
# 2. internals of the library's lexer / parser (tables)
# --------------------------------------------------------------------------
def lexer_internals(cls):
    return {
        "rules": [[k, norm(getattr(v, "pattern", v)), type(v).__name__] for k, v in cls._rules],
        "master": getattr(getattr(cls, "_master_re", None), "pattern", None),
        "flags": getattr(getattr(cls, "_master_re", None), "flags", None),
        "token_names": sorted(cls._token_names),
        "ignored": sorted(cls._ignored_tokens),
        "funcs": sorted(cls._token_funcs),
        "remapping": jsonable(cls._remapping),
        "remap": jsonable({f"{k}": v for k, v in cls._remap.items()}),
        "before": jsonable(cls._before),
        "delete": jsonable(list(cls._delete)),
        "attrs": sorted(k for k in cls._attributes),
        "literals": sorted(cls.literals),
        "ignore": cls.ignore,
        "tokens": sorted(str(t) for t in cls.tokens),
        "token_types": sorted({type(t).__name__ for t in cls.tokens}),
    }


def parser_internals(cls):
    g = cls._grammar
    t = cls._lrtable
    prods = []
    for p in g.Productions:
        own = not str(p.file).endswith("yacc.py")
        prods.append([p.number, str(p), repr(p), p.name, list(p.prod), list(p.prec), p.len,
                      list(p.usyms), sorted(p.namemap), norm(p.file) if own else "yacc.py",
                      p.line if own else None, getattr(p.func, "__name__", None), p.reduced,
                      [str(i) for i in p.lr_items], [repr(i) for i in p.lr_items],
                      [jsonable(i.lookaheads) for i in p.lr_items],
                      [[str(a) for a in i.lr_after] for i in p.lr_items],
                      [i.lr_before for i in p.lr_items]])
    return {
        "productions": prods,
        "terminals": jsonable({k: g.Terminals[k] for k in sorted(g.Terminals)}),
        "nonterminals": jsonable(g.Nonterminals),
        "prodnames": {k: [str(p) for p in v] for k, v in g.Prodnames.items()},
        "first": jsonable({k: g.First[k] for k in sorted(g.First)}),
        "follow": jsonable(g.Follow),
        "precedence": jsonable(g.Precedence),
        "usedprec": sorted(g.UsedPrecedence),
        "start": g.Start,
        "action": jsonable(t.lr_action),
        "goto": jsonable(t.lr_goto),
        "defaulted": jsonable(t.defaulted_states),
        "sr": jsonable([list(map(str, c)) for c in t.sr_conflicts]),
        "rr": jsonable([list(map(str, c)) for c in t.rr_conflicts]),
        "grammar_str": norm(g),
        "table_str": norm(t),
        "descr": jsonable(dict(t.state_descriptions)),
        "unreachable": g.find_unreachable(),
        "infinite": attempt(g.infinite_cycles),
        "undefined": [[s, str(p)] for s, p in g.undefined_symbols()],
        "unused_t": sorted(g.unused_terminals()),
        "unused_r": [str(p) for p in g.unused_rules()],
        "unused_p": jsonable(g.unused_precedence()),
        "len": len(g),
        "g1": str(g[1]),
    }


OUT["lib_lexer"] = lexer_internals(ExperimentLexer)
OUT["lib_blockcomment"] = lexer_internals(BlockComment)
OUT["lib_parser"] = parser_internals(ExperimentParser)
OUT["sly_all"] = [sorted(slylex.__all__), sorted(slyacc.__all__),
                  sorted(__import__("pyab_experiment.sly", fromlist=["x"]).__all__)]
OUT["sly_consts"] = [slyacc.ERROR_COUNT, slyacc.MAXINT == sys.maxsize]


# --------------------------------------------------------------------------
# 3. the sly runtime on its own: lexers
# --------------------------------------------------------------------------
class CalcLexer(Lexer):
    tokens = {ID, NUMBER, PLUS, MINUS, TIMES, DIVIDE, ASSIGN, IF, ELSE, WHILE, SEMI, COMMA, MARK, REJ}
    literals = {"(", ")", "[", "]"}
    ignore = " \t"
    ignore_comment = r"\#.*"

    ID = r"[a-zA-Z_][a-zA-Z0-9_]*"
    ID["if"] = IF
    ID["else"] = ELSE
    ID["while"] = WHILE
    PLUS = r"\+"
    MINUS = r"-"
    TIMES = r"\*"
    DIVIDE = r"/"
    ASSIGN = r"="
    SEMI = r";"
    COMMA = r","

    @_(r"0x[0-9a-fA-F]+", r"\d+")
    def NUMBER(self, t):
        t.value = int(t.value, 16) if t.value.startswith("0x") else int(t.value)
        return t

    @_(r"\n+")
    def ignore_newline(self, t):
        self.lineno += len(t.value)

    @_(r"@mark")
    def MARK(self, t):
        self.mark()
        return t

    @_(r"@rej")
    def REJ(self, t):
        self.reject()
        self.accept()
        return t

    def error(self, t):
        self.errors = getattr(self, "errors", []) + [[t.value[0], self.index, self.lineno]]
        self.index += 1
        t.value = t.value[0]
        return t


class SkipLexer(CalcLexer):
    tokens = {FLOAT, ARROW}
    FLOAT = before(NUMBER, r"\d+\.\d+")
    ARROW = before(MINUS, r"->")
    ID = r"[a-z]+"
    del DIVIDE

    def error(self, t):
        self.index += 1


class TailLexer(CalcLexer):
    tokens = {BANG}
    BANG = before(NOSUCH, r"!")
    ignore = " "

    @_(r"\+", r"plus")
    def PLUS(self, t):
        t.value = "plus"
        return t


class Outer(Lexer):
    tokens = {WORD, LB}
    ignore = " "
    WORD = r"\w+"

    @_(r"\{")
    def LB(self, t):
        self.push_state(Inner)
        return t


class Inner(Lexer):
    tokens = {NUM, RB, BANG}
    ignore = " \n"
    NUM = r"\d+"

    @_(r"\}")
    def RB(self, t):
        self.pop_state()
        return t

    @_(r"!")
    def BANG(self, t):
        self.begin(Outer)
        return t


LEX_TEXTS = [
    "x = 0x1F + 42 * (y - 3) / z; # comment\nif a else b while c\n\n[1,2]",
    "a $ b ? c\n~",
    "@mark a b @rej c @mark @mark @rej @rej d",
    "1.5 -> 2 / 3 -> ab AB 7",
    "! + !",
    "",
    "   \t ",
    "iffy if elsex else",
]
OUT["sly_lex"] = {
    cls.__name__: {"internals": lexer_internals(cls),
                   "runs": [tokdump(cls(), t) for t in LEX_TEXTS]}
    for cls in (CalcLexer, SkipLexer, TailLexer)
}
lx = CalcLexer()
r = tokdump(lx, "a $ b")
OUT["sly_lex_errors_attr"] = [r, lx.errors]
OUT["sly_lex_states"] = [
    tokdump(Outer(), "ab { 1 2 } cd { 3 ! ef { 4 } } gh"),
    tokdump(Outer(), "ab { x"),
    tokdump(Outer(), "ab } x"),
    tokdump(Inner(), "1 } 2"),
    tokdump(Inner(), "1 ! ab { 2 } }"),
    attempt(lambda: Outer().begin(int)),
    attempt(lambda: Outer().pop_state()),
    lexer_internals(Outer), lexer_internals(Inner),
]


def lex_build_errors():
    res = {}

    def case(name):
        def deco(fn):
            res[name] = attempt(lambda: lexer_internals(fn()))
            return fn
        return deco

    @case("no_tokens")
    def _():
        class L(Lexer):
            A = r"a"
        return L

    @case("not_in_tokens")
    def _():
        class L(Lexer):
            tokens = {A}
            A = r"a"
            foo = r"x"
        return L

    @case("redefined")
    def _():
        class L(Lexer):
            tokens = {A}
            A = r"a"
            A = r"b"
        return L

    @case("bad_regex")
    def _():
        class L(Lexer):
            tokens = {A}
            A = r"(a"
        return L

    @case("empty_regex")
    def _():
        class L(Lexer):
            tokens = {A}
            A = r"a*"
        return L

    @case("remap_undefined")
    def _():
        class L(Lexer):
            tokens = {A}
            A = r"a+"
            A["aa"] = B
        return L

    @case("ignore_not_str")
    def _():
        class L(Lexer):
            tokens = {A}
            ignore = 5
            A = r"a"
        return L

    @case("literals_not_str")
    def _():
        class L(Lexer):
            tokens = {A}
            literals = {1, 2}
            A = r"a"
        return L

    @case("func_no_pattern")
    def _():
        class L(Lexer):
            tokens = {A}

            def A(self, t):
                return t
        return L

    @case("no_rules")
    def _():
        class L(Lexer):
            tokens = {A}
        return L

    @case("remap_del")
    def _():
        class L(Lexer):
            tokens = {A, B, C}
            A = r"a+"
            A["aa"] = B
            A["aaa"] = C
            del A["aaa"]
            B = r"b"
            ignore_sp = r"\s+"
            _private = "x"
            literals = "+-"
        out = lexer_internals(L)
        out["run"] = tokdump(L(), "a aa aaa b + - *")
        return type("X", (), {k: v for k, v in out.items()})

    return res


_orig_li = lexer_internals


def lexer_internals(cls):  # noqa: F811
    if not isinstance(cls, slylex.LexerMeta):
        return {k: v for k, v in vars(cls).items() if not k.startswith("__")}
    return _orig_li(cls)


OUT["sly_lex_build"] = lex_build_errors()
ts = slylex.TokenStr("abc", "K", {})
ts["x"] = "Y"
ts2 = slylex.TokenStr("abc")
ts2["x"] = "Y"
del ts2["x"]
OUT["sly_tokenstr"] = [ts, ts.key, jsonable({str(k): v for k, v in ts.remap.items()}), ts2.key, ts2.remap,
                       str(slylex.LexError("m", "t", 3)), slylex.LexError("m", "t", 3).args,
                       attempt(lambda: repr(slylex.Token())),
                       slylex.LexerStateChange("s").tok, slylex.LexerStateChange("s", 1).newstate,
                       slylex.Token.__slots__]
b = slylex._Before("T", "p")
OUT["sly_before"] = [b.tok, b.pattern]


# --------------------------------------------------------------------------
# 4. the sly runtime on its own: parsers
# --------------------------------------------------------------------------
def new_log():
    return slyacc.SlyLogger(io.StringIO())


class CalcParser(Parser):
    log = new_log()
    tokens = CalcLexer.tokens
    expected_shift_reduce = 0
    precedence = (
        ("nonassoc", ASSIGN),
        ("left", PLUS, MINUS),
        ("left", TIMES, DIVIDE),
        ("right", UMINUS),
    )

    def __init__(self):
        self.names = {}
        self.trace = []
        self.errs = []

    @_("statements statement", "statement")
    def statements(self, p):
        return [*p.statements, p.statement] if len(p) == 2 else [p.statement]

    @_("expr SEMI")
    def statement(self, p):
        self.trace.append(["stmt", p.lineno, p.index, p.end])
        return p.expr

    @_("ID ASSIGN expr SEMI")
    def statement(self, p):
        self.names[p.ID] = p.expr
        return (p.ID, p.expr)

    @_("error SEMI")
    def statement(self, p):
        self.trace.append(["recovered", repr(p.error), p[-1] is not None])
        return "ERR"

    @_("IF expr statement ELSE statement", "IF expr statement", "WHILE expr statement")
    def statement(self, p):
        return (p[0], p.expr, *[s for s in (p[2],)], len(p))

    @_("expr PLUS expr", "expr MINUS expr", "expr TIMES expr", "expr DIVIDE expr")
    def expr(self, p):
        a, op, b = p.expr0, p[1], p.expr1
        try:
            return {"+": a + b, "-": a - b, "*": a * b, "/": a // b}[op]
        except TypeError:
            return (op, a, b)

    @_("MINUS expr %prec UMINUS")
    def expr(self, p):
        return -p.expr if isinstance(p.expr, int) else ("neg", p.expr)

    @_('"(" expr ")"')
    def expr(self, p):
        return p.expr

    @_('"[" exprlist "]"')
    def expr(self, p):
        return p

    @_("exprlist COMMA expr")
    def exprlist(self, p):
        return p.exprlist + [p.expr]

    @_("expr")
    def exprlist(self, p):
        return [p.expr]

    @_("NUMBER")
    def expr(self, p):
        return p.NUMBER

    @_("ID")
    def expr(self, p):
        x = attempt(lambda: p.nosuch)
        if x["err"]["msg"] not in [t[-1] for t in self.trace if t[0] == "attr"]:
            self.trace.append(["attr", x["err"]["cls"], x["err"]["msg"]])
        y = attempt(lambda: setattr(p, "ID", 1))
        self.trace.append(["set", y["err"]["cls"], y["err"]["msg"]])
        return self.names.get(p.ID, p.ID)

    def error(self, tok):
        self.errs.append(None if tok is None else [tok.type, repr(tok.value), tok.lineno, tok.index])


def token_returning_error(self, tok):
    self.errs.append(None if tok is None else tok.type)
    if tok is None:
        return None
    nxt = next(self.tokens, None)
    if nxt is not None and not self.errs.count("SKIP") > 3:
        self.errs.append("SKIP")
        self.errok()
    return nxt


def DefaultErrParser():
    p = CalcParser()
    p.error = Parser.error.__get__(p)
    return p


def TokenReturningErrParser():
    p = CalcParser()
    p.error = token_returning_error.__get__(p)
    return p


class EbnfParser(Parser):
    log = new_log()
    tokens = CalcLexer.tokens

    @_("{ statement }")
    def program(self, p):
        return ("program", p.statement)

    @_("ID ASSIGN expr [ SEMI ]")
    def statement(self, p):
        return ("assign", p.ID, p.expr, p.SEMI)

    @_("term { PLUS|MINUS term }")
    def expr(self, p):
        return ("expr", p.term0, p[1], p.term1)

    @_('ID "(" [ expr { COMMA expr } ] ")"')
    def term(self, p):
        return ("call", p.ID, p.expr0, p.expr1, p.COMMA)

    @_("NUMBER", "ID")
    def term(self, p):
        return p[0]

    def error(self, tok):
        raise SyntaxError(f"bad {tok.type if tok else 'EOF'}")


class DanglingElse(Parser):
    log = new_log()
    tokens = {"IF", "ELSE", "X", "E"}

    @_("IF E stmt ELSE stmt", "IF E stmt", "X")
    def stmt(self, p):
        return p


class ReduceReduce(Parser):
    log = new_log()
    tokens = {"A", "B"}
    expected_reduce_reduce = 5

    @_("x B", "y B")
    def s(self, p):
        return p

    @_("A")
    def x(self, p):
        return p

    @_("A")
    def y(self, p):
        return ("y", p.A)

    @_("A A")
    def unused_rule(self, p):
        return p


class Ambiguous(Parser):
    log = new_log()
    tokens = {"N", "PLUS", "TIMES", "POW", "EQ", "UNUSED1", "UNUSED2"}
    precedence = (("nonassoc", "EQ"), ("left", "PLUS"), ("right", "POW"))
    start = "e"

    @_("e PLUS e", "e TIMES e", "e POW e", "e EQ e", "N")
    def e(self, p):
        return p if len(p) > 1 else p.N


def run_parser(pcls, lcls, text):
    p = pcls()
    buf = io.StringIO()
    with contextlib.redirect_stderr(buf):
        res = attempt(lambda: jsonable(p.parse(lcls().tokenize(text))))
    res["stderr"] = buf.getvalue()
    for a in ("names", "trace", "errs"):
        if hasattr(p, a):
            res[a] = jsonable(getattr(p, a))
    res["state"] = [p.state, list(p.statestack), [str(s) for s in p.symstack], getattr(p, "errorok", None)]
    return res


def strtoks(seq):
    def gen():
        for i, s in enumerate(seq.split()):
            t = slylex.Token()
            t.type, t.value, t.lineno, t.index, t.end = s, s.lower(), 1, i, i + 1
            yield t
    return gen()


def run_raw(pcls, seq):
    p = pcls()
    buf = io.StringIO()
    with contextlib.redirect_stderr(buf):
        res = attempt(lambda: jsonable(p.parse(strtoks(seq))))
    res["stderr"] = buf.getvalue()
    return res


CALC_TEXTS = [
    "1 + 2 * 3;",
    "x = 2 * (3 + 4); y = x - -1; [x, y, 0x10 / 3];",
    "a = 1;\nb = a + ;\nc = 3;\nc;",
    "1 + ; 2 2 ; 3;",
    "1 +",
    "",
    ";",
    "x = y = 3;",
    "if 1 if 2 3; else 4;",
    "while x x = 1;",
    "1 $ 2;",
    ") ) 1;",
    "q + 1; [q];",
]
OUT["sly_yacc"] = {
    "Calc": {"internals": parser_internals(CalcParser), "log": CalcParser.log.f.getvalue(),
             "runs": [run_parser(CalcParser, CalcLexer, t) for t in CALC_TEXTS]},
    "DefaultErr": {"runs": [run_parser(DefaultErrParser, CalcLexer, t) for t in CALC_TEXTS],
                   },
    "TokenErr": {"runs": [run_parser(TokenReturningErrParser, CalcLexer, t) for t in CALC_TEXTS]},
    "Ebnf": {"internals": parser_internals(EbnfParser), "log": EbnfParser.log.f.getvalue(),
             "runs": [run_parser(EbnfParser, CalcLexer, t) for t in [
                 "", "x = 1", "x = 1; y = f(1, 2 + 3, g()) - z;", "x = f(;", "x = 1 + 2 - 3 y = 2"]]},
    "Dangling": {"internals": parser_internals(DanglingElse), "log": DanglingElse.log.f.getvalue(),
                 "runs": [run_raw(DanglingElse, s) for s in ["X", "IF E IF E X ELSE X", "IF E", "ELSE", ""]]},
    "RR": {"internals": parser_internals(ReduceReduce), "log": ReduceReduce.log.f.getvalue(),
           "runs": [run_raw(ReduceReduce, s) for s in ["A B", "A", "B", "A A"]]},
    "Ambiguous": {"internals": parser_internals(Ambiguous), "log": Ambiguous.log.f.getvalue(),
                  "runs": [run_raw(Ambiguous, s) for s in [
                      "N PLUS N TIMES N", "N POW N POW N", "N EQ N EQ N", "N PLUS N PLUS N", "N TIMES N PLUS N"]]},
    "aliases": sorted(slyacc._name_aliases),
    "gencount": slyacc._gencount,
}


def yacc_build_errors():
    res = {}

    def case(name):
        def deco(fn):
            log = new_log()
            buf = io.StringIO()
            with contextlib.redirect_stderr(buf):
                r = attempt(lambda: parser_internals(fn(log)))
            r["log"] = norm(log.f.getvalue())
            r["stderr"] = norm(buf.getvalue())
            res[name] = r
            return fn
        return deco

    @case("no_tokens")
    def _(lg):
        class P(Parser):
            log = lg

            @_("A")
            def s(self, p):
                pass
        return P

    @case("empty_tokens")
    def _(lg):
        class P(Parser):
            log = lg
            tokens = set()

            @_("A")
            def s(self, p):
                pass
        return P

    @case("error_token")
    def _(lg):
        class P(Parser):
            log = lg
            tokens = {"A", "error"}

            @_("A")
            def s(self, p):
                pass
        return P

    for i, prec in enumerate(["left", ("left",), (("left",),), ((1, "A"),), (5,), (("left", "A"), ("right", "A")),
                              (("up", "A"),), (("left", "ZZ"),), [["left", "A"], ("nonassoc", "B", "A2")]]):
        def mk(lg, prec=prec):
            class P(Parser):
                log = lg
                tokens = {"A", "B"}
                precedence = prec

                @_("A B")
                def s(self, p):
                    pass
            return P
        case(f"prec_{i}")(mk)

    @case("no_rules")
    def _(lg):
        class P(Parser):
            log = lg
            tokens = {"A"}
        return P

    @case("undefined_symbol")
    def _(lg):
        class P(Parser):
            log = lg
            tokens = {"A"}

            @_("A nothing", "A other")
            def s(self, p):
                pass
        return P

    @case("duplicate_rule")
    def _(lg):
        class P(Parser):
            log = lg
            tokens = {"A"}

            @_("A")
            def s(self, p):
                pass

            @_("A")
            def s(self, p):
                pass
        return P

    @case("unused_and_unreachable")
    def _(lg):
        class P(Parser):
            log = lg
            tokens = {"A", "B", "C", "D"}

            @_("A")
            def s(self, p):
                pass

            @_("B")
            def t(self, p):
                pass

            @_("t B")
            def u(self, p):
                pass
        return P

    @case("one_unused")
    def _(lg):
        class P(Parser):
            log = lg
            tokens = {"A", "B"}

            @_("A")
            def s(self, p):
                pass

            @_("A A")
            def t(self, p):
                pass
        return P

    @case("infinite")
    def _(lg):
        class P(Parser):
            log = lg
            tokens = {"A"}

            @_("A t")
            def s(self, p):
                pass

            @_("t A", "u")
            def t(self, p):
                pass

            @_("t")
            def u(self, p):
                pass
        return P

    @case("prec_errors")
    def _(lg):
        class P(Parser):
            log = lg
            tokens = {"A", "B"}
            precedence = (("left", "A"),)

            @_("A %prec")
            def s(self, p):
                pass

            @_("A %prec A B")
            def s(self, p):
                pass

            @_("B %prec NOPE")
            def s(self, p):
                pass

            @_("B A %prec A")
            def s(self, p):
                pass
        return P

    @case("bad_names")
    def _(lg):
        class P(Parser):
            log = lg
            tokens = {"A", "B"}

            @_("s A", "A")
            def s(self, p):
                pass

            @_("B")
            def A(self, p):
                pass

            @_("B")
            def error(self, p):
                pass

            @_("'ab' B", "'+' B", '"-" s')
            def t(self, p):
                pass
        return P

    @case("missing_decorator")
    def _(lg):
        class P(Parser):
            log = lg
            tokens = {"A"}

            def s(self, p):
                pass

            @_("A")
            def s(self, p):
                pass
        return P

    @case("start_undefined")
    def _(lg):
        class P(Parser):
            log = lg
            tokens = {"A"}
            start = "zzz"

            @_("A")
            def s(self, p):
                pass
        return P

    @case("start_callable_and_colon_rules")
    def _(lg):
        class P(Parser):
            log = lg
            tokens = {"A", "B"}

            @_("B")
            def other(self, p):
                pass

            @_("s : A other", "s ::= s A")
            def whatever(self, p):
                pass
            start = "s"
        return P

    @case("debugfile")
    def _(lg):
        with tempfile.TemporaryDirectory() as d:
            path = os.path.join(d, "parser.out")

            class P(Parser):
                log = lg
                tokens = {"A", "B", "C"}
                debugfile = path
                precedence = (("left", "B"),)

                @_("e B e", "e C e", "A")
                def e(self, p):
                    pass
            with open(path) as f:
                P.dbg = f.read()
            lg.f.write("\n[path-normalised] " + str(path in lg.f.getvalue()))
            lg.f = io.StringIO(lg.f.getvalue().replace(path, "<dbg>"))
            lg.f.seek(0, 2)
        return P

    return res


OUT["sly_yacc_build"] = yacc_build_errors()

# misc runtime objects
ys = slyacc.YaccSymbol()
ys.type = "T"
yp = slyacc.YaccProduction([ys], [ys])
ys.value = 5
OUT["sly_misc"] = [
    str(ys), repr(ys), yp[0], yp[-1], len(yp),
    attempt(lambda: yp.lineno), attempt(lambda: yp.index), yp.end,
    attempt(lambda: yp.zzz), attempt(lambda: setattr(yp, "x", 1)),
    str(slyacc.Production(3, "n", ["a", "b", "a"], ("left", 2))),
    repr(slyacc.Production(3, "n", [])),
    sorted(slyacc.Production(3, "n", ["a", "b", "a"]).namemap),
    str(slyacc.LRItem(slyacc.Production(3, "n", ["a", "b"]), 1)),
    repr(slyacc.LRItem(slyacc.Production(3, "n", []), 0)),
    slyacc.rightmost_terminal(["a", "B", "c", "D", "e"], {"B": 1, "D": 2}),
    slyacc.rightmost_terminal(["a"], {"B": 1}), slyacc.rightmost_terminal([], {}),
    [issubclass(slyacc.GrammarError, slyacc.YaccError), issubclass(slyacc.LALRError, slyacc.YaccError)],
]
lg = new_log()
lg.debug("d %s %d", "x", 1)
lg.info("i")
lg.warning("w %r", "x")
lg.error("e %s", 2)
lg.critical("c")
OUT["sly_logger"] = lg.f.getvalue()
g = slyacc.Grammar(["A", "B"])
OUT["sly_grammar_api"] = [
    attempt(g.set_precedence, "A", "left", 1), attempt(g.set_precedence, "A", "left", 2),
    attempt(g.set_precedence, "B", "sideways", 2),
    attempt(g.add_production, "s", ["A", "'+'", "t"], None, "f", 3),
    attempt(g.add_production, "t", ["B", "%prec", "A"], None, "f", 4),
    attempt(g.add_production, "t", [], None, "f", 5),
    attempt(g.add_production, "t", [], None, "f", 6),
    attempt(g.set_precedence, "B", "left", 3),
    attempt(g.set_start), g.Start, jsonable(g.Terminals), jsonable(g.Nonterminals),
    jsonable(g.compute_first()), jsonable(g.compute_follow()), norm(g),
    jsonable(g._first(("t", "A"))), jsonable(g._first(())),
]

# --------------------------------------------------------------------------
# 5. evaluator lifecycle, bucketing, stats, threads
# --------------------------------------------------------------------------
life = []
ev = ExperimentEvaluator(TEXTS["many"])
fn0 = ev.run_experiment
life.append([ev._checksum, attempt(lambda: ev(uid="u1"))])
ev.recompile(TEXTS["many"])
life.append(["same-fn", ev.run_experiment is fn0])
for bad in ("bad_char", "salt_after", "empty", "unterminated_str", "only_comment"):
    life.append([bad, attempt(ev.recompile, TEXTS[bad]), ev._checksum, ev.run_experiment is fn0,
                 attempt(lambda: ev(uid="u1"))])
    life.append([bad + "-again", attempt(ev.recompile, TEXTS[bad]), ev._checksum])
ev.recompile(TEXTS["salted"])
life.append(["new", ev._checksum, ev.run_experiment is fn0, [attempt(lambda: ev(uid=f"u{i}", other=i)) for i in range(30)]])
ev.recompile(TEXTS["many"])
life.append(["back", ev._checksum, ev.run_experiment is fn0, [attempt(lambda: ev(uid=f"u{i}")) for i in range(30)]])
life.append(["class-default", attempt(lambda: ExperimentEvaluator.run_experiment(None)), ExperimentEvaluator._checksum])
life.append(["ctor-bad", attempt(ExperimentEvaluator, TEXTS["bad_char"]), attempt(ExperimentEvaluator, ""),
             attempt(ExperimentEvaluator, None)])
OUT["lifecycle"] = life

buck = []
for i in range(60):
    key = f"salt{i % 3}id_{i}é"
    random.seed(i)
    buck.append([
        repr(deterministic_proba(key)),
        attempt(deterministic_choice, key, ["a", "b", "c"]),
        attempt(deterministic_choice, key, ["a", "b", "c"], [1, 2.5, 0]),
        attempt(deterministic_choice, key, ["a", "b", "c"], cum_weights=[1, 1, 4]),
        attempt(deterministic_choice, None, ["a", "b", "c"], [1, 2, 3]),
        attempt(deterministic_choice, key, list(range(17)), [((j * 7) % 5) + 0.25 for j in range(17)]),
    ])
buck.append([
    attempt(deterministic_choice, "k", ["a"], [0]),
    attempt(deterministic_choice, "k", ["a", "b"], [1]),
    attempt(deterministic_choice, "k", ["a", "b"], [1, 2], cum_weights=[1, 3]),
    attempt(deterministic_choice, "k", ["a", "b"], [1, float("inf")]),
    attempt(deterministic_choice, "k", ["a", "b"], [1, float("nan")]),
    attempt(deterministic_choice, "k", [], []),
    attempt(deterministic_choice, "k", []),
    attempt(deterministic_choice, 5, ["a"]),
    attempt(deterministic_choice, "", ["a", "b"], [-1, 3]),
])
OUT["bucketing"] = jsonable(buck)

st = []
for a in (0.5, 0.975, 0.025, 0.001, 0.9999, 0.3, 0, 1, -1, 2):
    st.append(jsonable(attempt(probit, a)))
for n in (1, 10, 1000, 0):
    for p in (0.0, 0.1, 0.5, 1.0):
        for c in (0.9, 0.95, 0.999, 1.0):
            for m in ("agresti-coull", "Wald", "WALD", "wilson"):
                st.append(jsonable(attempt(confidence_interval, n, p, c, m)))
st.append(jsonable(attempt(confidence_interval)))
st.append(jsonable(attempt(probit)))
OUT["stats"] = st

# threads: same results in parallel as sequentially
names = [n for n in ("many", "salted", "kwprefix", "nested_if", "strings", "bad_char", "salt_after", "comments")]


def work(n):
    text = TEXTS[n]
    out = [attempt(lambda: repr(parse_source(text))), tokdump(ExperimentLexer(), text)]
    e = attempt(ExperimentEvaluator, text)
    if "ok" in e:
        out.append([attempt(lambda: repr(e["ok"](**kw))) if "uid" in kw or "k" in kw else None for kw in CALLS])
    else:
        out.append(e)
    return out


seq = {n: jsonable(work(n)) for n in names}
par = {}
shared = ExperimentEvaluator(TEXTS["many"])
shared_res = {}


def tw(i):
    n = names[i % len(names)]
    par[(i, n)] = jsonable(work(n))
    r = []
    for j in range(50):
        shared.recompile(TEXTS["many"] if (i + j) % 2 else TEXTS["salted"])
        r.append(shared(uid="u1", other=1) in ("a", "b", 3, -4.5))
    shared_res[i] = all(r)


threads = [threading.Thread(target=tw, args=(i,)) for i in range(16)]
[t.start() for t in threads]
[t.join() for t in threads]
OUT["threads"] = {"all_equal": all(par[(i, n)] == seq[n] for (i, n) in par), "n": len(par),
                  "shared_ok": all(shared_res.values()), "seq": seq}

print(json.dumps(jsonable(OUT), sort_keys=True, indent=1, ensure_ascii=True, default=lambda o: norm(repr(o))))

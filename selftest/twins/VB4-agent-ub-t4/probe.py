"""Differential probe for pyab_experiment (behaviour fingerprint).

Run as:  PYTHONPATH=/tmp/wt/UB/src /venv/bin/python probe.py
Prints one deterministic JSON document; it must be byte-identical with and
without the patch under test.
"""

import os
import sys

if os.environ.get("PYTHONHASHSEED") != "0":
    # set iteration order of mixed-type sets feeds some error messages: pin it
    os.environ["PYTHONHASHSEED"] = "0"
    os.execv(sys.executable, [sys.executable] + sys.argv)

import hashlib
import itertools
import json
import random
import threading
from decimal import Decimal

from pyab_experiment.binning.binning import deterministic_choice, deterministic_proba
from pyab_experiment.codegen.python.custom_exceptions import (
    ExperimentConditionalFailedError,
)
from pyab_experiment.codegen.python.python_generator import PythonCodeGen
from pyab_experiment.data_structures.syntax_tree import (
    BooleanOperatorEnum,
    ConditionalType,
    ExperimentAST,
    ExperimentConditional,
    ExperimentGroup,
    Identifier,
    LogicalOperatorEnum,
    RecursivePredicate,
    TerminalPredicate,
)
from pyab_experiment.experiment_evaluator import ExperimentEvaluator
from pyab_experiment.utils.stats import confidence_interval, probit
from pyab_experiment.utils.wraper_functions import generate_code, parse_source

OUT = {}


def err(e):
    return f"{type(e).__module__}.{type(e).__name__}: {str(e)[:160]}"


def show(v):
    return f"{type(v).__name__}:{v!r}"


def sha(text):
    return hashlib.sha256(text.encode("utf-8", "surrogatepass")).hexdigest()[:16]


# --------------------------------------------------------------------------
# 1. programs: valid and invalid texts
# --------------------------------------------------------------------------
VALID = {
    "plain": "def e1 { return 'a' weighted 1, 'b' weighted 2 }",
    "salt_split": 'def e2 { salt: "s\\x" splitters: uid, country '
    "return 1 weighted 1, 2.5 weighted 0.5, 'z' weighted 3 }",
    "kw_prefixed": "def define_x { splitters: iffy, inx, notin, order, android\n"
    " if inx in (1, 2) and notin not in ('a', 'b') or not order == android {\n"
    "  return 'x' weighted 1 } else if elsewhere >= returned { return 'y' weighted 1 }\n"
    " else { return 'z' weighted 1, 'w' weighted 0 } }",
    "elseif_spacing": "def e4 { splitters: k if a == 1 { return 1 weighted 1 } "
    "elseif a == 2 { return 2 weighted 1 } else  \n if a == 3 { return 3 weighted 1 }"
    " else { return 4 weighted 1 } }",
    "nested_tuples": "def e5 { splitters: k if t in ((1, 2), (3, (4, 5)), ('a',), (-1.5,)) "
    "{ return 'in' weighted 1 } else { return 'out' weighted 1 } }",
    "single_tuple": "def e6 { if x in (1,) { return 'one' weighted 1 } "
    "else if (x) == ((2)) { return 'two' weighted 1 } }",
    "comments": "def e7 { // salt: 'nope'\n /* block \" ' \n still */ salt: 'real' "
    "/* a */ splitters: k // tail\n return 'c' weighted 1 /* x */ , \"d\" weighted 1 }",
    "quotes": "def e8 { salt: 'it\"s' splitters: k if s == \"a'b\" or s == 'back\\slash' "
    "or s == '\\n' { return \"q'\" weighted 1, 'dq\"' weighted 1 } "
    "else { return '\\\\' weighted 1 } }",
    "non_ascii": "def e9 { salt: 'sél' splitters: k if s == 'naïve' or s in ('日本', 'ß') "
    "{ return 'ü' weighted 1, '漢' weighted 2 } else { return 'e' weighted 1 } }",
    "numbers": "def e10 { splitters: k if a >= -1 and b < 2.50 and c != 007 and d <= -0.0 "
    "{ return -1 weighted 1, -2.5 weighted 1, 0 weighted 1 } else { return 1 weighted 1 } }",
    "huge_float": "def e11 { splitters: k if a < " + "9" * 400 + ".0 and b > -" + "9" * 400
    + ".0 { return 's' weighted 1 } else { return 'b' weighted 1 } }",
    "huge_int": "def e12 { splitters: k if a == " + "1" * 60 + " { return 's' weighted 1 } "
    "else { return 'b' weighted 1 } }",
    "shared_field": "def e13 { splitters: b, a if a == 1 and b == 2 { return 'x' weighted 1 } "
    "else { return 'y' weighted 1 } }",
    "not_chain": "def e14 { splitters: k if not not not a == 1 { return 'x' weighted 1 } "
    "else { return 'y' weighted 1 } }",
    "precedence": "def e15 { splitters: k if a == 1 or b == 2 and not c == 3 or (a == 2 "
    "or b == 3) and c == 4 { return 'x' weighted 1 } else { return 'y' weighted 1 } }",
    "nested_if": "def e16 { splitters: k if a == 1 { if b == 1 { if c == 1 "
    "{ return 'abc' weighted 1 } else { return 'ab' weighted 1 } } else if b == 2 "
    "{ return 'a2' weighted 1 } } else { if c in ('x', 'y') { return 'c' weighted 1 } } }",
    "lit_lit": "def e17 { splitters: k if 1 == 1.0 { return 'eq' weighted 1 } "
    "else { return 'ne' weighted 1 } }",
    "str_in_str": "def e18 { splitters: k if 'a' in 'abc' and s in 'xyz' "
    "{ return 'in' weighted 1 } else { return 'out' weighted 1 } }",
    "zero_weights": "def e19 { splitters: k return 'a' weighted 0, 'b' weighted 0.0 }",
    "kwargs_name": "def e20 { splitters: kwargs if self == 1 { return 'a' weighted 1 } "
    "else { return 'b' weighted 1 } }",
    "dup_splitters": "def e21 { splitters: k, k, j return 'a' weighted 1, 'b' weighted 1 }",
    "no_default": "def e22 { splitters: k if a == 1 { return 'a' weighted 1 } }",
    "empty_strings": "def e23 { salt: '' splitters: k if s == '' { return '' weighted 1 } "
    "else { return \"\" weighted 2, ' ' weighted 1 } }",
    "block_comment_lines": "def e24 {\n/* one\n two */\n/* three */ splitters: k\n"
    "return 'a' weighted 1\n}\n",
    "no_splitter_cond": "def e25 { if a == 1 { return 'x' weighted 1 } "
    "else { return 'y' weighted 1 } }",
    "float_ids": "def e26 { splitters: k if a == 1.0 or a == 1 or a in (1, 1.0, '1') "
    "{ return 1 weighted 1, 1.0 weighted 1, '1' weighted 1 } else { return 0 weighted 1 } }",
}

INVALID = {
    "empty": "",
    "no_body": "def x { }",
    "bad_char": "def x { return 'a' weighted 1 ; }",
    "neg_weight": "def x { return 'a' weighted -1 }",
    "unterminated": "def x { return 'a weighted 1 }",
    "kw_as_id": "def if { return 'a' weighted 1 }",
    "in_as_id": "def x { splitters: in return 'a' weighted 1 }",
    "missing_brace": "def x { return 'a' weighted 1",
    "extra": "def x { return 'a' weighted 1 } def",
    "tuple_weight": "def x { return 'a' weighted (1,) }",
    "id_group": "def x { return a weighted 1 }",
    "empty_tuple": "def x { if a in () { return 'a' weighted 1 } }",
    "open_comment": "def x { /* return 'a' weighted 1 }",
    "salt_after": "def x { splitters: k salt: 's' return 'a' weighted 1 }",
    "unicode_id": "def é { return 'a' weighted 1 }",
    "multiline_str": "def x { return 'a\nb' weighted 1 }",
    "double_not_in": "def x { if a not not in (1,) { return 'a' weighted 1 } }",
    "trailing_comma": "def x { if a in (1,2,) { return 'a' weighted 1 } }",
    "float_dot": "def x { return 'a' weighted 1. }",
    "exp_float": "def x { return 'a' weighted 1e3 }",
    "dup_param": "def x { splitters: k if k == 1 { return 'a' weighted 1 } "
    "else if x == 2 { return 'b' weighted 1 } }",
    "none_text": None,
    "bytes_text": b"def x { return 'a' weighted 1 }",
}

VALUES = [0, 1, -1, 2, 3, 18, 2.5, 1.0, "a", "US", "naïve", "a'b", "", (1, 2), ("a",),
          None, True, "x", "1" * 60, 1e300, float("inf"), float("-inf"), -0.0, "日本",
          "back\\slash", "\n", 4, "abc"]


def call_battery(fn, params, tag):
    res = []
    rnd = random.Random(sha(tag))
    combos = []
    for i in range(40):
        combos.append({p: VALUES[rnd.randrange(len(VALUES))] for p in params})
    combos.append({})
    combos.append({p: 1 for p in params})
    combos.append({**{p: 1 for p in params}, "extra_kw": 5})
    for kw in combos:
        random.seed(99)
        try:
            res.append(show(fn(**kw)))
        except BaseException as e:  # noqa
            res.append(err(e))
    return sha(json.dumps(res)), res[:6]


def run_text(name, text):
    rec = {}
    try:
        ast = parse_source(text)
        rec["ast"] = repr(ast)
    except BaseException as e:  # noqa
        rec["ast_err"] = err(e)
        ast = None
    for layout in (False, True):
        key = f"layout{int(layout)}"
        try:
            code = generate_code(text, layout)
            rec[key + "_code"] = code if len(code) < 1500 else sha(code)
            ns = {}
            exec(compile(code, "<probe>", "exec"), ns)
            gen = PythonCodeGen(ast, expose_experiment_variant_function=layout)
            raw = gen.generate()
            rec[key + "_raw"] = sha(raw)
            params = sorted(set(gen.local_vars) | set(gen.conditional_ids))
            rec[key + "_state"] = [gen.local_vars, gen.conditional_ids, gen._indent_depth]
            rec[key + "_calls"] = call_battery(ns[ast.id], params, name)
            for ch in ("    ", " ", "\t\t"):
                g2 = PythonCodeGen(ast, ch, layout)
                raw2 = g2.generate()
                ns2 = {}
                exec(compile(raw2, "<probe>", "exec"), ns2)
                rec[key + "_raw_" + repr(ch)] = [sha(raw2), sha(g2.generate())]
        except BaseException as e:  # noqa
            rec[key + "_err"] = err(e)
    try:
        ev = ExperimentEvaluator(text)
        gen = PythonCodeGen(ast)
        gen.generate()
        params = sorted(set(gen.local_vars) | set(gen.conditional_ids))
        rec["evaluator_calls"] = call_battery(ev, params, name)
        rec["checksum"] = ev._checksum
    except BaseException as e:  # noqa
        rec["evaluator_err"] = err(e)
    return rec


OUT["valid"] = {k: run_text(k, v) for k, v in VALID.items()}
OUT["invalid"] = {k: run_text(k, v) for k, v in INVALID.items()}

# --------------------------------------------------------------------------
# 2. bucketing
# --------------------------------------------------------------------------
buck = {}
IDS = [str(i) for i in range(300)] + ["", "é", "日本語", "a" * 1000, "\x00", "\ud800", " 1", "1 ",
                                      "None", "user-é-42"]
buck["proba"] = sha(json.dumps([repr(deterministic_proba(s)) if s != "\ud800" else "skip"
                                for s in IDS]))
for bad in ["\ud800", None, 5, b"abc", 1.5, ("a",)]:
    try:
        buck["proba_" + repr(bad)] = repr(deterministic_proba(bad))
    except BaseException as e:  # noqa
        buck["proba_" + repr(bad)] = err(e)
WEIGHTS = [None, [1, 1, 1], [1, 2, 3], [0, 0, 1], [0.5, 0.25, 0.25], [1e308, 1e308, 1],
           [0, 0, 0], [1, 2], [float("nan"), 1, 1], [1, float("nan"), 1], [-1, 1, 1],
           [True, 2, 3.0], (3, 2, 1), [float("inf"), 1, 1], [1e-320, 0, 0], ["a", "b", "c"]]
POP = ["A", "B", "C"]
for w in WEIGHTS:
    rs = []
    for s in IDS[:120] + IDS[-10:]:
        try:
            rs.append(show(deterministic_choice(s, POP, w)))
        except BaseException as e:  # noqa
            rs.append(err(e))
    buck["w_" + repr(w)] = [sha(json.dumps(rs)), rs[0], rs[-5]]
for cw in ([1, 2, 3], [1, 1, 1], [3, 2, 1], [0, 0, 0], [1, 2]):
    rs = []
    for s in IDS[:60]:
        try:
            rs.append(show(deterministic_choice(s, POP, cum_weights=cw)))
        except BaseException as e:  # noqa
            rs.append(err(e))
    buck["cw_" + repr(cw)] = sha(json.dumps(rs))
for args in [("x", POP, [1, 1, 1], [1, 2, 3]), ("x", [], None), ("x", [], []), (None, POP, [1, 1, 1])]:
    random.seed(7)
    try:
        if len(args) == 4:
            buck["misc_" + repr(args)] = show(
                deterministic_choice(args[0], args[1], args[2], cum_weights=args[3]))
        else:
            buck["misc_" + repr(args)] = show(deterministic_choice(*args))
    except BaseException as e:  # noqa
        buck["misc_" + repr(args)] = err(e)
OUT["bucketing"] = buck

# --------------------------------------------------------------------------
# 3. evaluator lifecycle
# --------------------------------------------------------------------------
life = []
A = VALID["salt_split"]
B = VALID["kw_prefixed"]
BAD = INVALID["bad_char"]
BAD2 = INVALID["dup_param"]
history = [A, A, BAD, A, B, BAD2, B, BAD, BAD, A, INVALID["empty"], A + " ", A]
ev = ExperimentEvaluator(A)
for step, text in enumerate(history):
    try:
        ev.recompile(text)
        life.append([step, "ok", ev._checksum])
    except BaseException as e:  # noqa
        life.append([step, err(e), ev._checksum])
    for kw in ({"uid": 1, "country": "US"}, {"iffy": 1, "inx": 1, "notin": "z", "order": 1,
                                             "android": 2, "elsewhere": 1, "returned": 1}):
        try:
            life.append(show(ev(**kw)))
        except BaseException as e:  # noqa
            life.append(err(e))
    life.append("run_experiment" in vars(ev))
try:
    ExperimentEvaluator(BAD)
except BaseException as e:  # noqa
    life.append(err(e))
raw = ExperimentEvaluator.__new__(ExperimentEvaluator)
try:
    raw(a=1)
except BaseException as e:  # noqa
    life.append(err(e))
life.append(ExperimentEvaluator._checksum)
OUT["lifecycle"] = life

# --------------------------------------------------------------------------
# 4. threads
# --------------------------------------------------------------------------
thr = {}
shared = ExperimentEvaluator(A)
lock = threading.Lock()


def worker(i):
    local = []
    for j in range(30):
        text = [A, B, VALID["non_ascii"], BAD][(i + j) % 4]
        try:
            e2 = ExperimentEvaluator(text)
            local.append(show(e2(uid=j, country="c", k=j, s="naïve", iffy=1, inx=1, notin="q",
                                 order=1, android=1, elsewhere=0, returned=1)))
        except BaseException as e:  # noqa
            local.append(err(e))
        try:
            local.append(sha(generate_code(VALID["nested_if"], bool(j % 2))))
        except BaseException as e:  # noqa
            local.append(err(e))
        local.append(show(shared(uid=j, country="c")))
    with lock:
        thr[i] = sha(json.dumps(local))


ts = [threading.Thread(target=worker, args=(i,)) for i in range(8)]
[t.start() for t in ts]
[t.join() for t in ts]
OUT["threads"] = {str(k): thr[k] for k in sorted(thr)}

# --------------------------------------------------------------------------
# 5. stats
# --------------------------------------------------------------------------
st = {}
for a in (0.5, 0.975, 0.025, 0.001, 0.999, 1e-12, 0.3):
    st[f"probit_{a}"] = repr(probit(a))
for a in (0, 1, 1.5, -1, "a"):
    try:
        st[f"probit_{a}"] = repr(probit(a))
    except BaseException as e:  # noqa
        st[f"probit_{a}"] = err(e)
for n, p, c, m in itertools.product((1, 10, 1000, 0), (0, 0.5, 0.31, 1), (0.95, 0.5, 0.999, 1, 0),
                                    ("agresti-coull", "wald", "WALD", "Agresti-Coull", "x")):
    try:
        st[f"ci_{n}_{p}_{c}_{m}"] = repr(confidence_interval(n, p, c, m))
    except BaseException as e:  # noqa
        st[f"ci_{n}_{p}_{c}_{m}"] = err(e)
st["ci_default"] = repr(confidence_interval())
OUT["stats"] = sha(json.dumps(st, sort_keys=True)), st["ci_default"], st["probit_0.975"]

# --------------------------------------------------------------------------
# 6. generator driven directly with hand-built trees
# --------------------------------------------------------------------------
direct = {}
G = [ExperimentGroup(group_definition="a", group_weight=1),
     ExperimentGroup(group_definition=2, group_weight=0.5)]


def tp(left, op, right):
    return TerminalPredicate(left_term=left, logical_operator=op, right_term=right)


def ident(n):
    return Identifier(name=n)


def tree(pred, groups=G, splitters=("k",), salt=None, other=None):
    cond = ExperimentConditional(conditional_type=ConditionalType.IF, predicate=pred,
                                 true_branch=groups, false_branch=other)
    return ExperimentAST(id="fn", splitting_fields=list(splitters) if splitters else None,
                         salt=salt, conditions=cond)


class EqAll:
    def __eq__(self, other):
        return True

    def __hash__(self):
        return 1

    def __repr__(self):
        return "EqAll()"


class StrSub(str):
    def __repr__(self):
        return "StrSub!"


def drive(name, ast, **kw):
    for layout in (False, True):
        gen = None
        try:
            gen = PythonCodeGen(ast, expose_experiment_variant_function=layout, **kw)
            text = gen.generate()
            rec = [text if len(text) < 900 else sha(text)]
            try:
                rec.append(sha(gen.generate()))
            except BaseException as e:  # noqa
                rec.append(err(e))
        except BaseException as e:  # noqa
            rec = [err(e)]
        if gen is not None:
            try:
                rec.append([repr(gen.local_vars), repr(gen.conditional_ids), gen._indent_depth])
            except BaseException as e:  # noqa
                rec.append([err(e), repr(gen._indent_depth)])
        direct[f"{name}/{int(layout)}"] = rec


t_not_right = tree(RecursivePredicate(left_predicate=tp(ident("a"), LogicalOperatorEnum.EQ, 1),
                                      boolean_operator=BooleanOperatorEnum.NOT,
                                      right_predicate=tp(ident("zz"), LogicalOperatorEnum.LT, 2)))
drive("not_with_right", t_not_right)
for opname, op in list(LogicalOperatorEnum.__members__.items()) + list(
        BooleanOperatorEnum.__members__.items()):
    if isinstance(op, LogicalOperatorEnum):
        drive("op_" + opname, tree(tp(ident("a"), op, (1, 2))))
    else:
        drive("bop_" + opname, tree(RecursivePredicate(
            left_predicate=tp(ident("a"), LogicalOperatorEnum.EQ, 1), boolean_operator=op,
            right_predicate=None if op is BooleanOperatorEnum.NOT else
            tp(ident("b"), LogicalOperatorEnum.NE, "s"))))
drive("coerced_op", tree(TerminalPredicate(left_term=1, logical_operator=7, right_term="x")))
drive("terms", tree(tp(True, LogicalOperatorEnum.EQ, (1.0, [2, ("x", [ident("deep")])], False))))
drive("inf_terms", tree(tp(float("inf"), LogicalOperatorEnum.GT, (float("-inf"), float("nan"),
                                                                 -0.0, 1e22, 10 ** 30))))
for label, val in [("decimal_inf", Decimal("Infinity")), ("decimal_ninf", Decimal("-Infinity")),
                   ("decimal", Decimal("1.5")), ("none", None), ("eqall", EqAll()),
                   ("strsub", StrSub("q")), ("bytes", b"x"), ("complex", 1j), ("set", {1}),
                   ("dict", {1: 2}), ("empty_tuple", ()), ("empty_list", [])]:
    p = TerminalPredicate.construct(left_term=ident("a"), logical_operator=LogicalOperatorEnum.IN,
                                    right_term=val)
    drive("raw_term_" + label, tree(p))
for label, op in [("none", None), ("int", 1), ("str", "EQ"), ("eqall", EqAll()),
                  ("unhashable", [1]), ("ctype", ConditionalType.IF)]:
    p = TerminalPredicate.construct(left_term=ident("a"), logical_operator=op, right_term=1)
    drive("raw_op_" + label, tree(p))
    rp = RecursivePredicate.construct(left_predicate=tp(ident("a"), LogicalOperatorEnum.EQ, 1),
                                      boolean_operator=op, right_predicate=None)
    drive("raw_bop_" + label, tree(rp))
i5 = Identifier.construct(name=5)
drive("ident_int_name", tree(tp(ident("a"), LogicalOperatorEnum.IN, (1,)).copy(
    update={"right_term": (i5,)})))
drive("ident_int_name_top", tree(TerminalPredicate.construct(
    left_term=i5, logical_operator=LogicalOperatorEnum.EQ, right_term=1)))
drive("pred_wrong_type", tree(None).copy(update={"conditions": ExperimentConditional.construct(
    conditional_type=ConditionalType.IF, predicate="zz", true_branch=G, false_branch=None)}))
drive("cond_wrong_type", ExperimentAST.construct(id="fn", splitting_fields=["k"], salt=None,
                                                 conditions="nope"))
drive("cond_none", ExperimentAST.construct(id="fn", splitting_fields=["k"], salt=None,
                                           conditions=None))
drive("cond_tuple_groups", ExperimentAST.construct(id="fn", splitting_fields=["k"], salt=None,
                                                   conditions=tuple(G)))
drive("cond_bad_groups", ExperimentAST.construct(id="fn", splitting_fields=["k"], salt=None,
                                                 conditions=[G[0], 3]))
drive("ctype_none", ExperimentAST.construct(
    id="fn", splitting_fields=["k"], salt=None,
    conditions=ExperimentConditional.construct(
        conditional_type=ConditionalType.IF, predicate=tp(ident("a"), LogicalOperatorEnum.EQ, 1),
        true_branch=ExperimentConditional.construct(conditional_type=None, predicate=None,
                                                    true_branch=G, false_branch=None),
        false_branch=None)))
drive("ctype_none_top", ExperimentAST.construct(
    id="fn", splitting_fields=["k"], salt=None,
    conditions=ExperimentConditional.construct(conditional_type=None, predicate=tp(
        ident("a"), LogicalOperatorEnum.EQ, 1), true_branch=G, false_branch=None)))
drive("ctype_str_top", ExperimentAST.construct(
    id=7, splitting_fields=["k"], salt=None,
    conditions=ExperimentConditional.construct(conditional_type="IF", predicate=None,
                                               true_branch=G, false_branch=G)))
drive("else_with_pred", tree(tp(ident("a"), LogicalOperatorEnum.EQ, 1), other=ExperimentConditional(
    conditional_type=ConditionalType.ELSE, predicate=tp(ident("hidden"), LogicalOperatorEnum.EQ, 1),
    true_branch=G, false_branch=G)))
drive("if_none_pred", tree(None))
drive("group_ident", ExperimentAST.construct(
    id="fn", splitting_fields=["k"], salt=None,
    conditions=[ExperimentGroup.construct(group_definition=ident("leak"), group_weight=(1, 2))]))
drive("weights_special", ExperimentAST(id="fn", splitting_fields=["k"], salt=None, conditions=[
    ExperimentGroup(group_definition=float("inf"), group_weight=float("inf")),
    ExperimentGroup(group_definition=float("-inf"), group_weight=True),
    ExperimentGroup.construct(group_definition=float("nan"), group_weight=float("nan"))]))
drive("splitters_mixed", ExperimentAST.construct(id="fn", splitting_fields=["b", 1], salt=None,
                                                 conditions=G))
drive("splitters_unhashable", ExperimentAST.construct(id="fn", splitting_fields=["b", [1], "c"],
                                                      salt=None, conditions=G))
drive("splitters_tuple", ExperimentAST.construct(id="fn", splitting_fields=("z", "y"), salt="s",
                                                 conditions=G))
drive("splitters_str", ExperimentAST.construct(id="fn", splitting_fields="zyx", salt=5,
                                               conditions=G))
drive("splitters_empty", ExperimentAST(id="fn", splitting_fields=[], salt="s", conditions=G))
drive("salt_only", ExperimentAST(id="fn", splitting_fields=None, salt="s'\"\\", conditions=G))
drive("cond_ids_mixed", tree(tp(ident("a"), LogicalOperatorEnum.EQ, 1)).copy(update={
    "conditions": ExperimentConditional.construct(
        conditional_type=ConditionalType.IF,
        predicate=TerminalPredicate.construct(left_term=i5, logical_operator=LogicalOperatorEnum.EQ,
                                              right_term=ident("a")),
        true_branch=G, false_branch=None)}))
drive("indent_bytes", tree(tp(ident("a"), LogicalOperatorEnum.EQ, 1)), indentation_char=b" ")
drive("indent_empty", tree(tp(ident("a"), LogicalOperatorEnum.EQ, 1)), indentation_char="")
drive("indent_int", tree(tp(ident("a"), LogicalOperatorEnum.EQ, 1)), indentation_char=3)
drive("indent_none", tree(tp(ident("a"), LogicalOperatorEnum.EQ, 1)), indentation_char=None)
drive("ast_none", None)

g = PythonCodeGen(tree(tp(ident("a"), LogicalOperatorEnum.EQ, 1)))
pieces = [g.render_topline(), g.indent(), g.generate_key_definition(), g.generate_key_definition(),
          repr(g.local_vars), g._generate_exception()]
g._newline = "\r\n"
g._indent_depth = 3
pieces += [g.render_topline(), g.indent(), g._generate_exception(), g.generate()]
g._indentation_char = "  "
pieces += [g.generate(), repr(g.local_vars), repr(g.conditional_ids)]
for weird_newline in (5, None, b"\n", StrSub("\n")):
    g._newline = weird_newline
    try:
        pieces.append(g.generate())
    except BaseException as e:  # noqa
        pieces.append(err(e))
    pieces.append(g._indent_depth)
g._newline = "\n"
for n in (0, 1, -1, 1.0, True, 10 ** 400, float("inf"), float("-inf"), float("nan"), "inf", None,
          Decimal("-Infinity"), 1e308 * 10):
    try:
        pieces.append(PythonCodeGen._generate_number(n))
    except BaseException as e:  # noqa
        pieces.append(err(e))
for t in ("s", StrSub("s"), ident("nm"), [1], (1, (2,)), 5, None, b"b"):
    try:
        pieces.append(g._generate_term(t))
    except BaseException as e:  # noqa
        pieces.append(err(e))
pieces.append(repr(g.conditional_ids))
direct["pieces"] = pieces
direct["attrs"] = [sorted(vars(g)), sorted(k for k in vars(PythonCodeGen) if not k.startswith("__")),
                   hasattr(g, "__dict__"), type(PythonCodeGen.__dict__["_generate_number"]).__name__]
OUT["direct"] = direct

# --------------------------------------------------------------------------
# 7. stack behaviour: nesting depth at which generation stops working
# --------------------------------------------------------------------------
LIMIT = 150


def deep_tuple(d):
    t = (1,)
    for _ in range(d):
        t = (t,)
    return tree(tp(ident("a"), LogicalOperatorEnum.IN, t))


def deep_tuple_str(d):
    t = ("s",)
    for _ in range(d):
        t = [t, ident("q")]
    return tree(tp(t, LogicalOperatorEnum.IN, ident("a")))


def deep_not(d):
    p = tp(ident("a"), LogicalOperatorEnum.EQ, 1)
    for _ in range(d):
        p = RecursivePredicate(left_predicate=p, boolean_operator=BooleanOperatorEnum.NOT,
                               right_predicate=None)
    return tree(p)


def deep_and_left(d):
    p = tp(ident("a"), LogicalOperatorEnum.EQ, 1)
    for _ in range(d):
        p = RecursivePredicate(left_predicate=p, boolean_operator=BooleanOperatorEnum.AND,
                               right_predicate=tp(ident("b"), LogicalOperatorEnum.EQ, "s"))
    return tree(p)


def deep_or_right(d):
    p = tp(ident("a"), LogicalOperatorEnum.EQ, 1)
    for _ in range(d):
        p = RecursivePredicate(left_predicate=tp(1, LogicalOperatorEnum.EQ, 2),
                               boolean_operator=BooleanOperatorEnum.OR, right_predicate=p)
    return tree(p)


def deep_if(d):
    c = G
    for i in range(d):
        c = ExperimentConditional(conditional_type=ConditionalType.IF,
                                  predicate=tp(ident("a"), LogicalOperatorEnum.EQ, i),
                                  true_branch=c, false_branch=None)
    return ExperimentAST(id="fn", splitting_fields=["k"], salt=None, conditions=c)


def deep_if_str_groups(d):
    c = [ExperimentGroup(group_definition="only", group_weight=1)]
    for i in range(d):
        c = ExperimentConditional(conditional_type=ConditionalType.IF, predicate=None,
                                  true_branch=c, false_branch=None)
    return ExperimentAST(id="fn", splitting_fields=None, salt=None, conditions=c)


def deep_elif(d):
    c = ExperimentConditional(conditional_type=ConditionalType.ELSE, predicate=None,
                              true_branch=G, false_branch=None)
    for i in range(d):
        c = ExperimentConditional(conditional_type=ConditionalType.ELIF,
                                  predicate=tp(ident("a"), LogicalOperatorEnum.EQ, i),
                                  true_branch=G, false_branch=c)
    c = ExperimentConditional(conditional_type=ConditionalType.IF,
                              predicate=tp(ident("a"), LogicalOperatorEnum.EQ, -1),
                              true_branch=G, false_branch=c)
    return ExperimentAST(id="fn", splitting_fields=["k"], salt=None, conditions=c)


def deep_elif_plain(d):
    c = None
    for i in range(d):
        c = ExperimentConditional(conditional_type=ConditionalType.ELIF, predicate=None,
                                  true_branch=[ExperimentGroup(group_definition="g", group_weight=1)],
                                  false_branch=c)
    return ExperimentAST(id="fn", splitting_fields=None, salt=None, conditions=c)


def attempt(ast, layout):
    gen = PythonCodeGen(ast, expose_experiment_variant_function=layout)
    old = sys.getrecursionlimit()
    sys.setrecursionlimit(LIMIT)
    try:
        try:
            text = gen.generate()
            return "ok:" + sha(text)
        except BaseException as e:  # noqa
            return type(e).__name__ + ":" + repr(sorted(gen._conditional_ids)) + str(
                gen._indent_depth)
    finally:
        sys.setrecursionlimit(old)


stack = {}
for builder in (deep_tuple, deep_tuple_str, deep_not, deep_and_left, deep_or_right, deep_if,
                deep_if_str_groups, deep_elif, deep_elif_plain):
    for layout in (False, True):
        outcomes = []
        for d in range(1, LIMIT + 5):
            outcomes.append(attempt(builder(d), layout))
        first_fail = next((i + 1 for i, o in enumerate(outcomes) if not o.startswith("ok")), None)
        stack[f"{builder.__name__}/{int(layout)}"] = [
            first_fail, outcomes[first_fail - 1] if first_fail else None,
            sha(json.dumps(outcomes))]


def deep_text(kind, d):
    if kind == "tuple":
        return ("def t { splitters: k if a in " + "(" * d + "1, 's'" + ")" * d
                + " { return 'x' weighted 1 } }")
    if kind == "not":
        return "def t { splitters: k if " + "not " * d + "a == 1 { return 'x' weighted 1 } }"
    if kind == "paren":
        return ("def t { splitters: k if " + "(" * d + "a == 1" + ")" * d
                + " { return 'x' weighted 1 } }")
    if kind == "and":
        return ("def t { splitters: k if a == 0" + "".join(f" and a != {i}" for i in range(1, d))
                + " { return 'x' weighted 1 } }")
    if kind == "elif":
        return ("def t { splitters: k if a == 0 { return 0 weighted 1 }"
                + "".join(f" else if a == {i} {{ return {i} weighted 1 }}" for i in range(1, d))
                + " }")
    if kind == "if":
        return ("def t { splitters: k " + "if a == 1 { " * d + "return 'x' weighted 1" + " }" * d
                + " }")


for kind in ("tuple", "not", "paren", "and", "elif", "if"):
    for d in [20, 150, 199, 200, 201, 400] + list(range(984, 999)):
        text = deep_text(kind, d)
        res = []
        try:
            e3 = ExperimentEvaluator(text)
            res.append(show(e3(k=1, a=d - 1)))
        except BaseException as e:  # noqa
            res.append(type(e).__name__)
        if d <= 150:
            try:
                res.append(sha(generate_code(text, True)))
            except BaseException as e:  # noqa
                res.append(type(e).__name__)
        else:
            try:
                res.append(sha(PythonCodeGen(parse_source(text)).generate()))
            except BaseException as e:  # noqa
                res.append(type(e).__name__)
        stack[f"text_{kind}_{d:04d}"] = res
OUT["stack"] = stack

print(json.dumps(OUT, indent=1, sort_keys=True, ensure_ascii=True, default=repr))

"""Exercises confidence_interval(..., return_z=True) and critical_value (needs the patch)."""

from pyab_experiment.utils.stats import confidence_interval, critical_value, probit

for method in ("agresti-coull", "wald", "WALD", "Agresti-Coull"):
    for n in (10, 1000, 2.5):
        for p in (0.5, 0.0, 1 / 3, 0.999):
            for confidence in (0.95, 0.999, 0.5, 0.9999999999):
                low, high = confidence_interval(n, p, confidence, method)
                triple = confidence_interval(n, p, confidence, method, return_z=True)
                assert len(triple) == 3
                assert triple[:2] == (low, high)
                assert triple[2] == critical_value(confidence) == probit((1 - confidence) / 2)
                assert confidence_interval(n, p, confidence, method, return_z=False) == (low, high)

# z lets a caller recover the half width of a wald interval
low, high, z = confidence_interval(400, 0.25, 0.9, "wald", return_z=True)
assert abs((high - low) / 2 - z * (0.25 * 0.75 / 400) ** 0.5) < 1e-15

# unknown methods are still refused, whatever return_z
for flag in (False, True):
    try:
        confidence_interval(10, 0.5, 0.95, "wilson", return_z=flag)
    except NotImplementedError as exc:
        assert str(exc) == "The method 'wilson' is not implemented"
    else:
        raise AssertionError
# keyword only
try:
    confidence_interval(10, 0.5, 0.95, "wald", True)
except TypeError:
    pass
else:
    raise AssertionError
# same domain errors as the interval itself
for bad in (1, 1.0, 2):
    try:
        critical_value(bad)
    except (ValueError, ZeroDivisionError):
        pass
    else:
        raise AssertionError(bad)
assert critical_value() == critical_value(0.95)
print(confidence_interval(1000, 0.2, return_z=True))
print("usage OK")

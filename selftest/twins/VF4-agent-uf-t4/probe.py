"""Differential probe for the pyab_experiment library (sly runtime focus).

Run as:  PYTHONPATH=/tmp/wt/UF/src /venv/bin/python probe.py
Prints one deterministic JSON document.  Its bytes must be the same with and
without the patch under test.
"""
import contextlib
import hashlib
import io
import json
import os
import random
import subprocess
import sys
import threading

# Lexer.tokens is a set of strings, so the order of some grammar tables depends
# on string hashing.  The body of the probe therefore runs in child processes
# with fixed hash seeds (several of them, to cover different set orders).
SEEDS = ("0", "1", "12345")
if __name__ == "__main__" and "--child" not in sys.argv:
    combined = {}
    for seed in SEEDS:
        env = dict(os.environ, PYTHONHASHSEED=seed)
        proc = subprocess.run([sys.executable, os.path.abspath(__file__), "--child"],
                              env=env, capture_output=True, text=True)
        combined[f"seed_{seed}"] = {"rc": proc.returncode, "stderr": proc.stderr,
                                    "out": json.loads(proc.stdout) if proc.returncode == 0 else proc.stdout}
    # a fresh interpreter whose very first use of the library is concurrent
    proc = subprocess.run([sys.executable, os.path.abspath(__file__), "--child", "--cold-threads"],
                          env=dict(os.environ, PYTHONHASHSEED="0"), capture_output=True, text=True)
    combined["cold_threads"] = {"rc": proc.returncode, "stderr": proc.stderr,
                                "out": json.loads(proc.stdout) if proc.returncode == 0 else proc.stdout}
    json.dump(combined, sys.stdout, indent=1, sort_keys=True, ensure_ascii=True)
    print()
    sys.exit(0)

if "--cold-threads" in sys.argv:
    _src = ('def e { salt: "s" splitters: u if x in (1, 2) and not y == "a" { return "p" weighted 1, '
            '"q" weighted 2 } else if z >= 1.5 { return "r" weighted 1 } else { return "t" weighted 1 } }')
    _res = {}
    _barrier = threading.Barrier(6)

    def _cold(n):
        _barrier.wait()
        out = []
        try:
            if n % 2:
                from pyab_experiment.utils.wraper_functions import generate_code as gc_
                out.append(hashlib.sha256(gc_(_src, bool(n % 4 == 1)).encode()).hexdigest())
                import pyab_experiment.utils.wraper_functions as w_
                out.append([w_.format_str.__name__, w_.FileMode.__name__])
            else:
                from pyab_experiment.experiment_evaluator import ExperimentEvaluator as ev_
                e_ = ev_(_src)
                out.append([e_(u=f"id_{i}", x=i % 3, y="a", z=i / 4) for i in range(20)])
                from pyab_experiment.utils.wraper_functions import format_str as fs_
                out.append(fs_.__name__)
        except Exception as ex:  # noqa: BLE001
            out.append(type(ex).__name__ + ":" + str(ex))
        _res[n] = out

    _ths = [threading.Thread(target=_cold, args=(n,)) for n in range(6)]
    for _t in _ths:
        _t.start()
    for _t in _ths:
        _t.join()
    json.dump({str(k): _res[k] for k in sorted(_res)}, sys.stdout, indent=1)
    print()
    sys.exit(0)

_import_err = io.StringIO()
with contextlib.redirect_stderr(_import_err):
    from pyab_experiment.codegen.python.python_generator import PythonCodeGen
    from pyab_experiment.experiment_evaluator import ExperimentEvaluator
    from pyab_experiment.language.grammar import ExperimentParser
    from pyab_experiment.language.lexer import BlockComment, ExperimentLexer
    from pyab_experiment.sly import Lexer, Parser
    from pyab_experiment.sly import lex as sly_lex
    from pyab_experiment.sly import yacc as sly_yacc
    from pyab_experiment.utils import stats
    from pyab_experiment.utils.wraper_functions import generate_code, parse_source
    from pyab_experiment.binning.binning import (
        deterministic_choice,
        deterministic_proba,
    )

OUT = {"import_stderr": _import_err.getvalue()}


def sha(obj):
    return hashlib.sha256(
        json.dumps(obj, sort_keys=False, default=repr, ensure_ascii=True).encode()
    ).hexdigest()


def err(e):
    d = {"cls": type(e).__name__, "mro": [c.__name__ for c in type(e).__mro__],
         "str": str(e), "args": repr(e.args)}
    for extra in ("text", "error_index", "message"):
        if hasattr(e, extra):
            d[extra] = repr(getattr(e, extra))
    d["ctx"] = type(e.__context__).__name__ if e.__context__ else None
    d["cause"] = type(e.__cause__).__name__ if e.__cause__ else None
    return d


# ---------------------------------------------------------------------------
# experiment texts
# ---------------------------------------------------------------------------
VALID = [
    'def a { return "x" weighted 1 }',
    "def a{return 'x' weighted 1,'y' weighted 2.5, 3 weighted 0, -4.5 weighted 7}",
    'def define_ifelse { salt: "s" splitters: uid return "in" weighted 1, "or" weighted 1 }',
    'def e { splitters: u, v, w if inx in (1,2,3) { return 1 weighted 1 } else { return 2 weighted 1 } }',
    'def e { splitters: u if notx == 1 and nota != 2 or not orb > 3 { return "a" weighted 1 } '
    'else if elsey <= 2 { return "b" weighted 1, "c" weighted 3 } else  if ifz >= 0.5 '
    '{ return "d" weighted 1 } elseif andq < -1 { return "e" weighted 2 } else { return "f" weighted 1 } }',
    'def e { salt: "a\\"b" splitters: id_1 if x not   in ("a", \'b\', (1, (2.5, "z")), -3) '
    '{ return "q\\\\n" weighted 1 } }',
    'def e { salt: \'q"uote\' splitters: k if x not\n\tin (1,) { return "é∑" weighted 1, "ß" weighted 2 } else { return "ü" weighted 1 } }',
    "def e { // c1\n /* block \n /* nested? */ splitters: a /* b */ , b // tail\n"
    " if (a == 1) and ((b != 'x') or not (a in (1,2))) { return 'p' weighted 1 }\n"
    " /* multi\n\n\nline */ else { return 'q' weighted 1 } } // end",
    'def weightedx { splitters: returnx, saltx, splittersx, defx if weightedy == "weighted" '
    '{ return "return" weighted 10, "def" weighted 20 } else { return "x" weighted 1 } }',
    'def e { splitters: u if a == 1 { if b == 2 { if c == 3 { return "abc" weighted 1 } '
    'else { return "ab" weighted 1 } } else if b == 3 { return "a3" weighted 1 } } '
    'else { return "none" weighted 1 } }',
    'def e { splitters: u if 1 == 1.0 { return 1 weighted 1, 1.0 weighted 1, "1" weighted 1 } '
    'else { return 0 weighted 1 } }',
    'def e { splitters: u if x in ("a") { return "s" weighted 1 } else if x in ("abc", "d") { return "t" weighted 1 } else { return "u" weighted 1 } }',
    'def e { splitters: u if x == 99999999999999999999999999 or y < 1' + "0" * 400 + '.5 { return "big" weighted 1 } else { return "small" weighted 1 } }',
    'def e { splitters: u if x == "" { return "" weighted 1, \'\' weighted 2 } else { return "//not comment" weighted 1, "/* nor this */" weighted 1 } }',
    'def e\n{\nsplitters:\nu\nif\nx\n==\n1\n{\nreturn\n"a"\nweighted\n1\n}\n}',
    'def e { splitters: u, u, v if u == v { return "same" weighted 0.0, "x" weighted 0.25 } else { return "diff" weighted 3 } }',
    'def _e9 { salt: "S" if _ == __ { return -0 weighted 1, -0.0 weighted 1 } else { return 00 weighted 01 } }',
    "def e { splitters: u if x == 1 { return 'a' weighted 1 } else  \n\t if y == 2 { return 'b' weighted 1 } else { return 'c' weighted 1 } }",
    'def e { splitters: u if not not not x == 1 and (y, 2) == (1, 2) { return "t" weighted 1 } else { return "f" weighted 1 } }',
    'def e { return "a" weighted 1 } def',  # extra tokens handled by error()
]

INVALID = [
    "",
    "   \n\t ",
    "def",
    "def a",
    "def a {",
    "def a { }",
    'def a { return "x" }',
    'def a { return "x" weighted }',
    'def a { return "x" weighted -1 }',
    'def a { return x weighted 1 }',
    'def a { return "x" weighted 1, }',
    'def a { return "x" weighted 1 } }',
    'def a { return "x" weighted 1 } def b { return "y" weighted 1 }',
    'def a { splitters: return "x" weighted 1 }',
    'def a { splitters: u salt: "s" return "x" weighted 1 }',
    'def a { salt: s return "x" weighted 1 }',
    'def a { if x { return "x" weighted 1 } }',
    'def a { if x == { return "x" weighted 1 } }',
    'def a { if x == 1 return "x" weighted 1 }',
    'def a { if x == 1 { return "x" weighted 1 } else }',
    'def a { else { return "x" weighted 1 } }',
    'def a { if x notin (1) { return "x" weighted 1 } }',
    'def a { if x == () { return "x" weighted 1 } }',
    'def a { if x == (1 { return "x" weighted 1 } }',
    'def a { return "x\ny" weighted 1 }',
    'def a { return "x weighted 1 }',
    "def a { return 'x\" weighted 1 }",
    'def a { return "x" weighted 1 } @',
    'def a { return "x" weighted 1 } $ more',
    'def é { return "x" weighted 1 }',
    'def a { return "x" weighted 1.  }',
    'def a { return "x" weighted .5 }',
    'def a { return "x" weighted 1e3 }',
    'def a { /* never closed \n return "x" weighted 1 }',
    'def a { return "x" weighted 1 } /* open',
    'def a { return "x" weighted 1 } */',
    'def a { if x = 1 { return "x" weighted 1 } }',
    'def a { if x == 1 and { return "x" weighted 1 } }',
    'def a { if (x == 1 { return "x" weighted 1 } }',
    'def a { if x == 1) { return "x" weighted 1 } }',
    'def 1a { return "x" weighted 1 }',
    'DEF a { return "x" weighted 1 }',
    'def a { return "x" Weighted 1 }',
    'def a { return "x" weighted 1 ; }',
    'def a { salt: "s" salt: "t" return "x" weighted 1 }',
    'def a { return\x0c"x" weighted 1 } #',
    'def a { return "x" weighted 1 } \x00',
    "def a {\n\n\n if x ==\n\n 1 {\n return 'x' weighted 1 \n\n } else else { return 'y' weighted 1 } }",
    "def a { // only a comment",
    'def a { return "x" weighted 1' + " }" * 3,
]


def tokens_of(text, cls=ExperimentLexer, **kw):
    lx = cls()
    toks = []
    res = {}
    try:
        for t in lx.tokenize(text, **kw):
            toks.append([t.type, repr(t.value), t.lineno, t.index, t.end, repr(t)])
        res["ok"] = True
    except Exception as e:  # noqa: BLE001
        res["err"] = err(e)
    res["toks"] = toks
    res["final"] = [type(lx).__name__, getattr(lx, "index", None),
                    getattr(lx, "lineno", None), getattr(lx, "text", None) == text]
    return res


def ast_dump(ast):
    if ast is None:
        return None
    return {"dict": repr(ast.dict()), "repr": repr(ast), "json": ast.json()}


def parse_detail(text):
    lx = ExperimentLexer()
    ps = ExperimentParser()
    res = {}
    try:
        ast = ps.parse(lx.tokenize(text))
        res["ast"] = ast_dump(ast)
    except Exception as e:  # noqa: BLE001
        res["err"] = err(e)
    res["parser"] = {
        "state": getattr(ps, "state", None),
        "statestack": list(getattr(ps, "statestack", [])),
        "symstack": [str(s) for s in getattr(ps, "symstack", [])],
        "production": str(getattr(ps, "production", None)),
        # position tables are keyed by id(value): ids are recycled, so only the
        # set of distinct recorded values is deterministic
        "line_positions": sorted(set(map(repr, getattr(ps, "_line_positions", {}).values()))),
        "has_index_positions": len(getattr(ps, "_index_positions", {})) > 0,
        "errorok": getattr(ps, "errorok", "unset"),
    }
    res["lexer"] = [type(lx).__name__, getattr(lx, "index", None), getattr(lx, "lineno", None)]
    return res


IDS = ["", "0", "1", "id_1", "id_2", "é", "user-42", "x" * 50, "None", "1.0", "True"] + [
    f"id_{i}" for i in range(40)
]
FIELD_VALUES = [None, 0, 1, 1.0, True, 2, 3, -1, -3, 0.5, 4, 9, 99999999999999999999999999,
                "a", "b", "abc", "x", "", "weighted", (1, 2), (1,), "1", float("inf"), float("nan")]


def run_program(src, layout):
    """exec the generated program and call it with many argument combinations"""
    ns = {}
    out = []
    random.seed(20240229)  # programs without splitters fall back to random.choices
    try:
        exec(compile(src, "<gen>", "exec"), ns)  # noqa: S102
    except Exception as e:  # noqa: BLE001
        return {"exec_err": err(e)}
    fns = [v for k, v in ns.items() if callable(v) and getattr(v, "__module__", None) is None
           or (callable(v) and getattr(v, "__code__", None) is not None
               and v.__code__.co_filename == "<gen>")]
    names = sorted({f.__name__ for f in fns})
    out.append(names)
    main = [f for f in fns if f.__name__ != "choose_experiment_variant"]
    if not main:
        return {"names": names}
    fn = main[0]
    code = fn.__code__
    params = list(code.co_varnames[: code.co_argcount])
    calls = []
    for i, ident in enumerate(IDS):
        for shift in range(0, len(FIELD_VALUES), 5):
            kwargs = {}
            for j, p in enumerate(params):
                kwargs[p] = FIELD_VALUES[(i + shift + 3 * j) % len(FIELD_VALUES)]
            if params:
                kwargs[params[0]] = ident if (i + shift) % 3 else FIELD_VALUES[(i + shift) % len(FIELD_VALUES)]
            kwargs["unused_extra"] = 1
            try:
                r = fn(**kwargs)
                calls.append(repr(r))
            except Exception as e:  # noqa: BLE001
                calls.append(type(e).__name__ + ":" + str(e)[:80])
    # missing args
    try:
        calls.append(repr(fn()))
    except Exception as e:  # noqa: BLE001
        calls.append(type(e).__name__ + ":" + str(e))
    return {"names": names, "params": params, "n": len(calls), "calls_sha": sha(calls),
            "sample": calls[:12]}


def full_pipeline(text):
    res = {"tokens": tokens_of(text), "parse": parse_detail(text)}
    for flag in (True, False):
        key = f"layout_{flag}"
        entry = {}
        try:
            ast = parse_source(text)
            if ast is None:
                entry["ast_none"] = True
                raw = None
            else:
                gen = PythonCodeGen(ast, expose_experiment_variant_function=flag)
                raw = gen.generate()
                entry["raw"] = raw
                entry["local_vars"] = gen.local_vars
                entry["cond_ids"] = gen.conditional_ids
                entry["run_raw"] = run_program(raw, flag)
        except Exception as e:  # noqa: BLE001
            entry["raw_err"] = err(e)
        try:
            pretty = generate_code(text, flag)
            entry["pretty"] = pretty
            entry["run_pretty"] = run_program(pretty, flag)
        except Exception as e:  # noqa: BLE001
            entry["pretty_err"] = err(e)
        res[key] = entry
    try:
        entry = {}
        ev = ExperimentEvaluator(text)
        entry["checksum"] = ev._checksum
        entry["fn"] = ev.run_experiment.__name__
    except Exception as e:  # noqa: BLE001
        entry = {"err": err(e)}
    res["evaluator"] = entry
    return res


stderr_capture = io.StringIO()
with contextlib.redirect_stderr(stderr_capture):
    progs = {}
    for n, text in enumerate(VALID):
        r = full_pipeline(text)
        progs[f"valid_{n:02d}"] = {"sha": sha(r), "tokens_n": len(r["tokens"]["toks"]),
                                   "ast": (r["parse"].get("ast") or {}).get("repr"),
                                   "parse_err": r["parse"].get("err"),
                                   "pretty_true": r["layout_True"].get("pretty"),
                                   "parser": r["parse"]["parser"]}
    for n, text in enumerate(INVALID):
        r = full_pipeline(text)
        progs[f"invalid_{n:02d}"] = {
            "sha": sha(r),
            "tok_err": r["tokens"].get("err"),
            "tok_final": r["tokens"]["final"],
            "parse_err": r["parse"].get("err"),
            "parse_ast": r["parse"].get("ast"),
            "parser": r["parse"]["parser"],
            "gen_err": r["layout_True"].get("pretty_err"),
            "evaluator": r["evaluator"],
        }
    OUT["programs"] = progs

    # -----------------------------------------------------------------------
    # lexer details: start offsets, states, partial consumption, backtracking
    # -----------------------------------------------------------------------
    lexd = {}
    lexd["offset"] = tokens_of('zzz def a { return "x" weighted 1 }', lineno=7, index=4)
    lexd["offset_past_end"] = tokens_of("def", index=10)
    lexd["blockcomment_direct"] = tokens_of("abc */ def\n\n x */", cls=BlockComment)
    lexd["blockcomment_nl"] = tokens_of("\n\n\nabc\n*/\n", cls=BlockComment)
    lexd["nested_comment"] = tokens_of("a /* x /* y */ b */ c")
    lexd["many_newlines"] = tokens_of("a\n\n\n b \r\n c\n//x\n/*\n\n*/d \x0b e")
    lexd["non_ascii_ident"] = tokens_of("añb")
    lexd["unicode_digits"] = tokens_of("x == ١٢٣ y")
    lexd["kw_prefix"] = tokens_of("inx notx not in notin not  in elseif else if else\nif elsex ifx orx andy or and "
                                  "returns return weighted1 weighted def_ defx salt_ splittersx in1 in_")
    lexd["numbers"] = tokens_of("1 1.5 1.5.2 01 0.0 1. .5 1e5 1_000 -3 - 3 --3")
    lexd["strings"] = tokens_of("\"a\" 'b' \"a'b\" 'a\"b' \"\" '' \"a\\\" b\" 'x\\\\' \"//\" \"/*\" 'é' \"a\"\"b\"")
    lexd["ops"] = tokens_of("== = = >= => <= =< != ! = > < <> ( ) , : { } -")

    # partial consumption then abandon / close
    lx = ExperimentLexer()
    g = lx.tokenize("def a { /* c */ return 'x' weighted 1 }\n\n")
    first = [repr(next(g)) for _ in range(4)]
    mid_state = [type(lx).__name__, getattr(lx, "index", None), getattr(lx, "lineno", None)]
    g.close()
    lexd["partial"] = [first, mid_state, [type(lx).__name__, lx.index, lx.lineno]]

    # reuse one lexer object after it was left in the BlockComment state
    lx = ExperimentLexer()
    a = []
    try:
        a = [t.type for t in lx.tokenize("x /* open")]
    except Exception as e:  # noqa: BLE001
        a = err(e)
    state_between = type(lx).__name__
    b = []
    try:
        b = [t.type for t in lx.tokenize("y == 1 */ z")]
    except Exception as e:  # noqa: BLE001
        b = err(e)
    lexd["reuse_after_open_comment"] = [a, state_between, b, type(lx).__name__]

    # mark / accept / reject
    lx = ExperimentLexer()
    g = lx.tokenize("a b c d e")
    seq = [next(g).value]
    lx.mark()
    seq.append(next(g).value)
    seq.append(next(g).value)
    lx.reject()
    seq.append(next(g).value)
    lx.accept()
    seq.extend(t.value for t in g)
    lexd["backtrack"] = seq

    # two interleaved tokenize generators on the same and on different lexers
    l1, l2 = ExperimentLexer(), ExperimentLexer()
    g1, g2 = l1.tokenize("a /* q */ b\nc"), l2.tokenize("1 2.5 'x'\n\n3")
    inter = []
    for _ in range(4):
        for gg in (g1, g2):
            t = next(gg, None)
            inter.append(repr(t))
    inter.append([l1.index, l1.lineno, l2.index, l2.lineno])
    lexd["interleaved"] = inter

    lexd["class_meta"] = {
        "master": ExperimentLexer._master_re.pattern,
        "master_bc": BlockComment._master_re.pattern,
        "rules": [k for k, _ in ExperimentLexer._rules],
        "rules_bc": [k for k, _ in BlockComment._rules],
        "ignored": sorted(ExperimentLexer._ignored_tokens),
        "funcs": sorted(ExperimentLexer._token_funcs),
        "token_names": sorted(ExperimentLexer._token_names),
        "remapping": repr(ExperimentLexer._remapping),
        "lex_all": sly_lex.__all__,
        "yacc_all": sly_yacc.__all__,
    }
    # base lexer without rules
    try:
        list(Lexer().tokenize("x"))
    except Exception as e:  # noqa: BLE001
        lexd["base_lexer"] = err(e)
    OUT["lexer"] = lexd

    # -----------------------------------------------------------------------
    # parser tables (every table, in iteration order)
    # -----------------------------------------------------------------------
    def dump_tables(pcls):
        g = pcls._grammar
        t = pcls._lrtable
        return {
            "productions": [[str(p), p.number, p.name, list(p.prod), p.len, repr(p.prec),
                             list(p.usyms), list(p.namemap), p.reduced,
                             # rules generated for EBNF live in yacc.py itself: their line moves with edits
                             (-1 if p.file.endswith('yacc.py') else p.line),
                             [str(i) for i in p.lr_items],
                             [[k, list(v)] for i in p.lr_items for k, v in i.lookaheads.items()]]
                            for p in g.Productions],
            "prodnames": [[k, [p.number for p in v]] for k, v in g.Prodnames.items()],
            "terminals": [[k, list(v)] for k, v in g.Terminals.items()],
            "nonterminals": [[k, list(v)] for k, v in g.Nonterminals.items()],
            "first": [[k, list(v)] for k, v in g.First.items()],
            "follow": [[k, list(v)] for k, v in g.Follow.items()],
            "precedence": [[k, list(v)] for k, v in g.Precedence.items()],
            "used_prec": sorted(g.UsedPrecedence),
            "start": g.Start,
            "action": [[s, [[k, v] for k, v in a.items()]] for s, a in t.lr_action.items()],
            "goto": [[s, [[k, v] for k, v in a.items()]] for s, a in t.lr_goto.items()],
            "defaulted": [[k, v] for k, v in t.defaulted_states.items()],
            "descr": list(t.state_descriptions.items()),
            "sr": [list(x) for x in t.sr_conflicts],
            "rr": [[a, str(b), str(c)] for a, b, c in t.rr_conflicts],
            "str_grammar": str(g),
            "str_table": str(t),
            "unreachable": g.find_unreachable(),
            "infinite": g.infinite_cycles(),
            "undefined": [[s, str(p)] for s, p in g.undefined_symbols()],
            "unused_t": g.unused_terminals(),
            "unused_r": [str(p) for p in g.unused_rules()],
            "unused_p": g.unused_precedence(),
        }

    tables = dump_tables(ExperimentParser)
    OUT["tables"] = {k: sha(v) for k, v in tables.items()}
    OUT["tables_small"] = {k: tables[k] for k in ("first", "follow", "defaulted", "terminals",
                                                 "nonterminals", "sr", "rr", "unreachable")}

    # -----------------------------------------------------------------------
    # generic sly usage: calculator with EBNF, precedence, error recovery
    # -----------------------------------------------------------------------
    class CalcLexer(Lexer):
        tokens = {NAME, NUMBER, PLUS, TIMES, MINUS, DIVIDE, ASSIGN, LPAREN, RPAREN, IF, SEMI, COMMA}
        ignore = " \t"
        literals = {"[", "]", "?"}
        NAME = r"[a-zA-Z_][a-zA-Z0-9_]*"
        NAME["if"] = IF
        PLUS = r"\+"
        MINUS = r"-"
        TIMES = r"\*"
        DIVIDE = r"/"
        ASSIGN = r"="
        LPAREN = r"\("
        RPAREN = r"\)"
        SEMI = r";"
        COMMA = r","

        @_(r"\d+")
        def NUMBER(self, t):
            t.value = int(t.value)
            return t

        @_(r"\n+")
        def ignore_newline(self, t):
            self.lineno += len(t.value)

        def error(self, t):
            self.index += 1
            t.value = t.value[0]
            return t

    class CalcParser(Parser):
        tokens = CalcLexer.tokens
        precedence = (
            ("left", PLUS, MINUS),
            ("left", TIMES, DIVIDE),
            ("right", UMINUS),
        )
        expected_shift_reduce = 0

        def __init__(self):
            self.names = {}
            self.log_ = []

        @_("statement { SEMI statement }")
        def program(self, p):
            return [p.statement0, *p.statement1]

        @_("NAME ASSIGN expr")
        def statement(self, p):
            self.names[p.NAME] = p.expr
            self.log_.append(("assign", p.lineno, p.index, p.end))
            return ("=", p.NAME, p.expr)

        @_("expr")
        def statement(self, p):
            return p.expr

        @_("IF expr [ '?' expr ]")
        def statement(self, p):
            return ("if", p.expr0, p.expr1)

        @_("error")
        def statement(self, p):
            self.log_.append(("recovered", str(p[0])))
            return ("error",)

        @_("expr PLUS expr", "expr MINUS expr", "expr TIMES expr", "expr DIVIDE expr")
        def expr(self, p):
            self.log_.append((p[1], p.lineno, p.index, p.end, len(p)))
            return (p[1], p.expr0, p.expr1)

        @_("MINUS expr %prec UMINUS")
        def expr(self, p):
            return ("neg", p.expr)

        @_("LPAREN expr RPAREN")
        def expr(self, p):
            return p.expr

        @_("'[' [ expr { COMMA expr } ] ']'")
        def expr(self, p):
            return ("list", p.expr0, p.expr1)

        @_("NUMBER")
        def expr(self, p):
            return p.NUMBER

        @_("NAME")
        def expr(self, p):
            try:
                p.NAME = 3
            except AttributeError as e:
                self.log_.append(str(e))
            try:
                p.nothing
            except AttributeError as e:
                self.log_.append(str(e))
            return ("name", p.NAME, p[-1] if len(p) else None)

    calc = {}
    calc["tables"] = {k: sha(v) for k, v in dump_tables(CalcParser).items()}
    calc["lex_meta"] = [CalcLexer._master_re.pattern, repr(CalcLexer._remapping),
                        [k for k, _ in CalcLexer._rules]]
    CALC_INPUTS = [
        "1 + 2 * 3", "a = 1 + 2; b = a * -3; b", "(1 + 2", "1 + + 2; 3", "1 2 3; x = 4",
        "if 1 ? 2", "if 1", "[1, 2, 3]", "[]", "[1", "x = ; y = 2", "; ;", "", "1 +", "@", "1 @ 2",
        "a = 1\n\nb = = 2;\nc = 3", "if if", "1 + 2 )", "- - 1", "a\n=\n1", "[[1,2],[3]] * 2",
        ") ) )", "1 ; ) ; 2", "x = 1 ; ; ; y",
    ]
    runs = []
    for text in CALC_INPUTS:
        ps = CalcParser()
        lx = CalcLexer()
        entry = {"text": text}
        try:
            entry["toks"] = [repr(t) for t in CalcLexer().tokenize(text)]
            entry["result"] = repr(ps.parse(lx.tokenize(text)))
        except Exception as e:  # noqa: BLE001
            entry["err"] = err(e)
        entry["names"] = repr(ps.names)
        entry["log"] = repr(ps.log_)
        entry["state"] = [getattr(ps, "state", None), list(getattr(ps, "statestack", [])),
                          [str(s) for s in getattr(ps, "symstack", [])],
                          sorted(set(map(repr, getattr(ps, "_line_positions", {}).values())))]
        runs.append(entry)
    # one parser instance reused for several parses (position tables accumulate)
    ps = CalcParser()
    reuse = []
    for text in ["1+2", "x = 3", "(", "4*5"]:
        try:
            reuse.append(repr(ps.parse(CalcLexer().tokenize(text))))
        except Exception as e:  # noqa: BLE001
            reuse.append(err(e))
        reuse.append(len(ps._line_positions) > 0)
    calc["runs"] = runs
    calc["reuse"] = reuse

    # grammar build errors and warnings
    build = []

    def attempt(label, thunk):
        buf = io.StringIO()
        old = Parser.log
        Parser.log = sly_yacc.SlyLogger(buf)
        try:
            thunk()
            build.append([label, "ok", buf.getvalue()])
        except Exception as e:  # noqa: BLE001
            build.append([label, err(e), buf.getvalue()])
        finally:
            Parser.log = old

    def g_unused():
        class P(Parser):
            tokens = {"A", "B", "C"}

            @_("A x")
            def s(self, p):
                pass

            @_("B")
            def x(self, p):
                pass

            @_("A")
            def orphan(self, p):
                pass

    def g_undefined():
        class P(Parser):
            tokens = {"A"}

            @_("A missing")
            def s(self, p):
                pass

    def g_infinite():
        class P(Parser):
            tokens = {"A"}

            @_("A s")
            def s(self, p):
                pass

    def g_conflict():
        class P(Parser):
            tokens = {"A", "PLUS"}

            @_("e PLUS e", "A")
            def e(self, p):
                pass

    def g_rr():
        class P(Parser):
            tokens = {"A"}

            @_("x", "y")
            def s(self, p):
                pass

            @_("A")
            def x(self, p):
                pass

            @_("A")
            def y(self, p):
                pass

    def g_dup():
        class P(Parser):
            tokens = {"A"}

            @_("A")
            def s(self, p):
                pass

            @_("A")
            def s(self, p):
                pass

    def g_prec():
        class P(Parser):
            tokens = {"A"}
            precedence = (("left", "A"), ("sideways", "Q"), ("left", "A"))

            @_("A")
            def s(self, p):
                pass

    def g_notokens():
        class P(Parser):
            @_("A")
            def s(self, p):
                pass

    def l_bad():
        class L(Lexer):
            tokens = {A}
            A = r"(a"

    def l_empty():
        class L(Lexer):
            tokens = {A}
            A = r"a*"

    def l_unknown():
        class L(Lexer):
            tokens = {A}
            A = r"a"
            B = r"b"

    def l_notokens():
        class L(Lexer):
            A = r"a"

    for label, thunk in [("unused", g_unused), ("undefined", g_undefined), ("infinite", g_infinite),
                         ("conflict", g_conflict), ("rr", g_rr), ("dup", g_dup), ("prec", g_prec),
                         ("notokens", g_notokens), ("l_bad", l_bad), ("l_empty", l_empty),
                         ("l_unknown", l_unknown), ("l_notokens", l_notokens)]:
        attempt(label, thunk)
    for item in build:  # file paths are stable (this file), keep them
        pass
    calc["build"] = build
    OUT["sly_generic"] = calc

    # -----------------------------------------------------------------------
    # evaluator lifecycle
    # -----------------------------------------------------------------------
    life = []
    A = 'def a { splitters: u return "x" weighted 1, "y" weighted 1 }'
    B = 'def b { salt: "s" splitters: u if k == 1 { return "p" weighted 1, "q" weighted 3 } else { return "r" weighted 1 } }'
    BAD = 'def c { return "x" weighted }'
    BAD2 = 'def c { return "x" weighted 1 } @'
    ev = ExperimentEvaluator(A)

    def snap(tag):
        vals = []
        for kw in ({"u": "id_1"}, {"u": "id_2", "k": 1}, {"u": 3, "k": 2}, {}):
            try:
                vals.append(repr(ev(**kw)))
            except Exception as e:  # noqa: BLE001
                vals.append(type(e).__name__ + ":" + str(e))
        life.append([tag, ev._checksum, ev.run_experiment.__name__, "run_experiment" in vars(ev), vals])

    snap("init A")
    for tag, text in [("A again", A), ("B", B), ("bad", BAD), ("bad again", BAD), ("B again", B),
                      ("bad2", BAD2), ("A", A), ("empty", ""), ("A+space", A + " "), ("B", B)]:
        fn_before = ev.run_experiment
        try:
            ev.recompile(text)
            outcome = "ok"
        except Exception as e:  # noqa: BLE001
            outcome = err(e)
        life.append([tag, outcome, ev.run_experiment is fn_before])
        snap(tag)
    for text in (BAD, "", None, 5):
        try:
            ExperimentEvaluator(text)
            life.append("constructed")
        except Exception as e:  # noqa: BLE001
            life.append(err(e))
    OUT["lifecycle"] = life

    # -----------------------------------------------------------------------
    # threads: concurrent parsing / compiling / calling must equal sequential
    # -----------------------------------------------------------------------
    texts = VALID[:12] + INVALID[3:15]

    def work(text):
        try:
            ast = parse_source(text)
            if ast is None:
                return "None"
            code = PythonCodeGen(ast, expose_experiment_variant_function=False).generate()
            e = ExperimentEvaluator(text)
            try:
                r = repr(e(**{k: "id_7" for k in ("u", "uid", "v", "w", "x", "k", "id_1")}))
                if "splitters" not in text:
                    r = "random"  # no hash key: random.choices, not reproducible in threads
            except Exception as ex:  # noqa: BLE001
                r = type(ex).__name__
            return hashlib.md5(code.encode()).hexdigest() + r
        except Exception as ex:  # noqa: BLE001
            return type(ex).__name__ + ":" + str(ex)

    sequential = [work(t) for t in texts]
    results = {}

    def runner(n):
        results[n] = [work(t) for t in (texts if n % 2 else texts[::-1])]

    threads = [threading.Thread(target=runner, args=(n,)) for n in range(8)]
    for th in threads:
        th.start()
    for th in threads:
        th.join()
    same = all((results[n] if n % 2 else results[n][::-1]) == sequential for n in range(8))
    shared = ExperimentEvaluator(A)
    flips = []

    def flipper(n):
        for i in range(30):
            shared.recompile(A if (i + n) % 2 else B)
            flips.append(shared(u=f"id_{i}", k=1) in ("x", "y", "p", "q"))

    threads = [threading.Thread(target=flipper, args=(n,)) for n in range(6)]
    for th in threads:
        th.start()
    for th in threads:
        th.join()
    OUT["threads"] = {"same_as_sequential": same, "sequential_sha": sha(sequential),
                      "flips_ok": all(flips), "n_flips": len(flips)}

    # -----------------------------------------------------------------------
    # bucketing and stats
    # -----------------------------------------------------------------------
    buck = []
    pops = [["a", "b"], ["a", "b", "c"], [1, 2, 3, 4], ["only"], []]
    wts = [None, [1, 1], [1, 2, 3], [0, 1, 0], [0.5, 0.25, 0.25, 0], [1], [0, 0], [-1, 2], [1, float("inf")],
           [float("nan"), 1], [1, 2, 3, 4], [True, 2.0, 1]]
    for ident in IDS:
        buck.append(repr(deterministic_proba(ident)))
        for pop in pops:
            for w in wts:
                for salt in ("", "s", "é"):
                    try:
                        buck.append(repr(deterministic_choice(salt + ident, pop, w)))
                    except Exception as e:  # noqa: BLE001
                        buck.append(type(e).__name__ + ":" + str(e))
            try:
                buck.append(repr(deterministic_choice(ident, pop, cum_weights=[1, 2, 3][: len(pop)])))
            except Exception as e:  # noqa: BLE001
                buck.append(type(e).__name__ + ":" + str(e))
    try:
        deterministic_choice("x", ["a"], [1], cum_weights=[1])
    except Exception as e:  # noqa: BLE001
        buck.append(err(e))
    OUT["bucketing"] = {"n": len(buck), "sha": sha(buck), "sample": buck[:20]}

    st = []
    for a in (0.5, 0.975, 0.025, 0.001, 0.999, 0.3, 1e-12, 0, 1, -1, 2, "x"):
        try:
            st.append(repr(stats.probit(a)))
        except Exception as e:  # noqa: BLE001
            st.append(type(e).__name__ + ":" + str(e))
    for n in (1, 10, 1000, 0, -5):
        for p in (0.0, 0.5, 0.2, 1.0, 1.5):
            for c in (0.95, 0.999, 0.5, 1.0, 0.0):
                for m in ("agresti-coull", "wald", "WALD", "Agresti-Coull", "other"):
                    try:
                        st.append(repr(stats.confidence_interval(n, p, c, m)))
                    except Exception as e:  # noqa: BLE001
                        st.append(type(e).__name__ + ":" + str(e))
    OUT["stats"] = {"n": len(st), "sha": sha(st), "sample": st[:14]}

OUT["stderr_sha"] = sha(stderr_capture.getvalue())
OUT["stderr_head"] = stderr_capture.getvalue()[:600]
OUT["modules"] = sorted(m for m in sys.modules if m.startswith("pyab_experiment"))

json.dump(OUT, sys.stdout, indent=1, sort_keys=True, ensure_ascii=True, default=repr)
print()

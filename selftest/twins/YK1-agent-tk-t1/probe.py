"""Differential probe for behaviour-preserving refactorings of pyab_experiment.

Run as:  PYTHONPATH=/tmp/wt/TK/src /venv/bin/python probe.py
Prints a deterministic JSON summary.  The output must be byte-identical with
and without the patch under evaluation.
"""

import hashlib
import io
import copy
import json
import pickle
import random
import sys
import threading
from contextlib import redirect_stderr

_captured_import_stderr = io.StringIO()
with redirect_stderr(_captured_import_stderr):
    from pyab_experiment.binning.binning import (
        deterministic_choice,
        deterministic_proba,
    )
    from pyab_experiment.codegen.python.custom_exceptions import (
        ExperimentConditionalFailedError,
    )
    from pyab_experiment.codegen.python.python_generator import PythonCodeGen
    from pyab_experiment.data_structures import syntax_tree as st
    from pyab_experiment.experiment_evaluator import ExperimentEvaluator, ParseError
    from pyab_experiment.language.grammar import ExperimentParser
    from pyab_experiment.language.lexer import ExperimentLexer
    from pyab_experiment.utils import custom_operators, stats
    from pyab_experiment.utils.wraper_functions import generate_code, parse_source

OUT = {"import_stderr": _captured_import_stderr.getvalue()}


def sha(obj) -> str:
    return hashlib.sha256(repr(obj).encode("utf-8", "backslashreplace")).hexdigest()


def outcome(fn, *args, **kwargs):
    """('ok', repr(result)) or ('err', class name, message)"""
    try:
        return ["ok", repr(fn(*args, **kwargs))]
    except BaseException as exc:  # noqa: B902 - the class name is the datum
        return ["err", type(exc).__name__, str(exc)[:400]]


# --------------------------------------------------------------------------
# 1. static shape of the AST models and enums
# --------------------------------------------------------------------------
MODELS = [
    st.ExperimentGroup,
    st.Identifier,
    st.TerminalPredicate,
    st.RecursivePredicate,
    st.ExperimentConditional,
    st.ExperimentAST,
]
ENUMS = [st.LogicalOperatorEnum, st.BooleanOperatorEnum, st.ConditionalType]

model_shape = {}
for m in MODELS:
    model_shape[m.__name__] = {
        "module": m.__module__,
        "qualname": m.__qualname__,
        "fields": {
            n: [repr(f), [repr(s) for s in (f.sub_fields or [])]]
            for n, f in m.__fields__.items()
        },
        "field_order": list(m.__fields__),
        "smart_union": bool(getattr(m.__config__, "smart_union", None)),
        "config": {
            k: repr(getattr(m.__config__, k))
            for k in (
                "extra",
                "allow_mutation",
                "frozen",
                "validate_assignment",
                "copy_on_model_validation",
                "arbitrary_types_allowed",
                "use_enum_values",
                "validate_all",
            )
        },
        "schema": json.dumps(m.schema(), sort_keys=True),
        "validators": sorted(getattr(m, "__validators__", {})),
        "pre_root": len(m.__pre_root_validators__),
        "post_root": len(m.__post_root_validators__),
        "is_basemodel": issubclass(m, st.BaseModel),
        "doc_sha": sha(m.__doc__),
    }
OUT["model_shape"] = model_shape
OUT["enum_shape"] = {
    e.__name__: {
        "members": [[x.name, repr(x.value), repr(x), str(x), hash(x) == hash(x.name)]
                    for x in e],
        "module": e.__module__,
        "qualname": e.__qualname__,
        "mro": [c.__name__ for c in e.__mro__],
        "lookup_by_value": [outcome(e, v) for v in (0, 1, 2, 3, 8, 9, "EQ", None, "==", "in", "and", "if", 1.0, True)],
        "lookup_by_name": [
            outcome(e.__getitem__, n) for n in ("EQ", "NOT_IN", "AND", "ELSE", "x")
        ],
        "len": len(e),
        "pickle_identity": [pickle.loads(pickle.dumps(x)) is x for x in e],
        "members_map": list(e.__members__),
        "value2member": sorted(map(repr, e._value2member_map_)),
        "eq_int": [x == x.value for x in e],
        "doc_sha": sha(e.__doc__),
    }
    for e in ENUMS
}

# --------------------------------------------------------------------------
# 2. coercions performed by the models when built directly
# --------------------------------------------------------------------------
L = st.LogicalOperatorEnum
B = st.BooleanOperatorEnum
C = st.ConditionalType


class MyStr(str):
    pass


class MyInt(int):
    pass


group_inputs = [
    (1, 1), (1.5, 2.5), ("a", 0), ("01", "3"), (True, True), (False, 0.0),
    (1, -1), (1, -0.0), (1, "x"), (None, 1), ([1], 1), ("a", None),
    (float("inf"), float("inf")), (float("-inf"), 1), (float("nan"), float("nan")),
    (10**400, 1), (1, 10**400), (b"ab", 1), (MyStr("s"), MyInt(4)), ("a", "1.5"),
    ("a", "1e3"), ("a", " 7 "), (-0.0, 0), (3, 2**70), (2**70, 1.0), ((1, 2), 1),
    ({"a": 1}, 1), ("é", 1e-320), ("a", [1]),
]
OUT["group_coercion"] = [
    outcome(lambda d=d, w=w: st.ExperimentGroup(group_definition=d, group_weight=w))
    for d, w in group_inputs
]
OUT["group_missing"] = [
    outcome(lambda: st.ExperimentGroup()),
    outcome(lambda: st.ExperimentGroup(group_definition=1)),
    outcome(lambda: st.ExperimentGroup(group_definition=1, group_weight=1, extra=3)),
]

ident = st.Identifier(name="fld")
term_inputs = [
    1, 1.0, "02134", "x", True, None, [1, 2], [1, [2, ["x", ident]]], (1, (2,)), [],
    (), ident, {"name": "d"}, {"nome": "d"}, b"x", 18, -0.0, float("inf"), 10**400,
    MyStr("q"), MyInt(3), {1, 2}, range(3), [ident], "", "é\\'\"",
]
OUT["term_coercion"] = [
    outcome(lambda t=t: st.TerminalPredicate(left_term=t, logical_operator=L.EQ,
                                             right_term=t))
    for t in term_inputs
]
OUT["operator_coercion"] = [
    outcome(lambda o=o: st.TerminalPredicate(left_term=1, logical_operator=o,
                                             right_term=2))
    for o in (L.EQ, L.NOT_IN, 1, 8, 9, 0, "EQ", "==", B.AND, None, 1.0, True)
]
OUT["identifier_coercion"] = [
    outcome(lambda n=n: st.Identifier(name=n))
    for n in ("a", 1, 1.5, None, b"x", True, ["a"], MyStr("z"), "")
]
tp = st.TerminalPredicate(left_term=ident, logical_operator=L.GT, right_term=3)
rp = st.RecursivePredicate(left_predicate=tp, boolean_operator=B.NOT,
                           right_predicate=None)
grp = [st.ExperimentGroup(group_definition="a", group_weight=1)]
OUT["recursive_coercion"] = [
    outcome(lambda: st.RecursivePredicate(left_predicate=tp, boolean_operator=B.AND,
                                          right_predicate=rp)),
    outcome(lambda: st.RecursivePredicate(left_predicate=rp, boolean_operator=3)),
    outcome(lambda: st.RecursivePredicate(left_predicate=None, boolean_operator=B.OR,
                                          right_predicate=tp)),
    outcome(lambda: st.RecursivePredicate(left_predicate=tp.dict(),
                                          boolean_operator=B.OR,
                                          right_predicate=rp.dict())),
    outcome(lambda: st.RecursivePredicate(left_predicate=tp, boolean_operator=L.EQ)),
    outcome(lambda: st.RecursivePredicate(
        left_predicate={"left_term": "18", "logical_operator": 1, "right_term": 18},
        boolean_operator=1)),
]
OUT["conditional_coercion"] = [
    outcome(lambda: st.ExperimentConditional(conditional_type=C.IF, predicate=tp,
                                             true_branch=grp, false_branch=None)),
    outcome(lambda: st.ExperimentConditional(conditional_type=C.ELSE,
                                             true_branch=grp)),
    outcome(lambda: st.ExperimentConditional(conditional_type=2, predicate=rp,
                                             true_branch=[], false_branch=grp)),
    outcome(lambda: st.ExperimentConditional(conditional_type=C.IF, predicate=tp,
                                             true_branch=None)),
    outcome(lambda: st.ExperimentConditional(
        conditional_type=C.IF, predicate=tp,
        true_branch=[{"group_definition": "1", "group_weight": "1"}],
        false_branch={"conditional_type": 3, "true_branch": grp})),
    outcome(lambda: st.ExperimentConditional(conditional_type=C.IF, predicate=tp,
                                             true_branch=(grp[0],))),
    outcome(lambda: st.ExperimentConditional(conditional_type=4, predicate=tp,
                                             true_branch=grp)),
]
cond = st.ExperimentConditional(conditional_type=C.IF, predicate=tp, true_branch=grp)
OUT["ast_coercion"] = [
    outcome(lambda: st.ExperimentAST(id="e", conditions=grp)),
    outcome(lambda: st.ExperimentAST(id="e", splitting_fields=None, salt=None,
                                     conditions=cond)),
    outcome(lambda: st.ExperimentAST(id=1, splitting_fields=("a", 2), salt=3,
                                     conditions=grp)),
    outcome(lambda: st.ExperimentAST(id="e", splitting_fields="ab", conditions=grp)),
    outcome(lambda: st.ExperimentAST(id="e", conditions=None)),
    outcome(lambda: st.ExperimentAST(splitting_fields=[], conditions=[])),
    outcome(lambda: st.ExperimentAST(id="e", conditions=cond.dict())),
]
# copy / identity semantics of nested models
_g = st.ExperimentGroup(group_definition="a", group_weight=1)
_c = st.ExperimentConditional(conditional_type=C.IF, predicate=tp, true_branch=[_g])
_a = st.ExperimentAST(id="e", conditions=_c)
OUT["copy_semantics"] = {
    "group_copied": _c.true_branch[0] is _g,
    "group_equal": _c.true_branch[0] == _g,
    "pred_copied": _c.predicate is tp,
    "ident_shared": _c.predicate.left_term is ident,
    "cond_copied": _a.conditions is _c,
    "cond_equal": _a.conditions == _c,
    "eq_dict": _g == {"group_definition": "a", "group_weight": 1.0},
    "json": _a.json(),
    "copy_eq": _a.copy(deep=True) == _a,
    "mutable": outcome(lambda: setattr(_g, "group_weight", -5) or _g),
    "fields_set": sorted(_c.__fields_set__),
    "hashable": outcome(lambda: hash(_g)),
}

# --------------------------------------------------------------------------
# 3. grammar shape
# --------------------------------------------------------------------------
g = ExperimentParser._grammar
OUT["grammar"] = {
    "productions": [
        [p.number, str(p), p.func.__name__ if p.func else None, p.len, repr(p.prec)]
        for p in g.Productions
    ],
    "terminals": sorted(g.Terminals),
    "nonterminals": sorted(g.Nonterminals),
    "precedence": sorted((k, repr(v)) for k, v in g.Precedence.items()),
    "start": g.Start,
    "sr": len(ExperimentParser._lrtable.sr_conflicts),
    "rr": len(ExperimentParser._lrtable.rr_conflicts),
    "action_sha": sha(sorted(
        (s, sorted(a.items())) for s, a in ExperimentParser._lrtable.lr_action.items()
    )),
    "goto_sha": sha(sorted(
        (s, sorted(a.items())) for s, a in ExperimentParser._lrtable.lr_goto.items()
    )),
    "defaulted": sorted(ExperimentParser._lrtable.defaulted_states.items()),
    "parser_tokens_same": ExperimentParser.tokens is ExperimentLexer.tokens,
    "parser_precedence": repr(ExperimentParser.precedence),
}


class FakeTok:
    def __init__(self, **kw):
        self.__dict__.update(kw)


class FalsyTok(FakeTok):
    def __bool__(self):
        return False


OUT["parser_error_hook"] = [
    outcome(ExperimentParser().error, None),
    outcome(ExperimentParser().error, 0),
    outcome(ExperimentParser().error, ""),
    outcome(ExperimentParser().error, FakeTok(type="ID", lineno=7)),
    outcome(ExperimentParser().error, FakeTok(type="ID")),
    outcome(ExperimentParser().error, FakeTok(lineno=2)),
    outcome(ExperimentParser().error, FalsyTok(type="ID", lineno=7)),
    outcome(ExperimentParser().error, "abc"),
]

# --------------------------------------------------------------------------
# 4. texts
# --------------------------------------------------------------------------
VALID = {
    "plain": 'def e1{ return "a" weighted 1 }',
    "two": "def e2{ return 'a' weighted 1, 'b' weighted 2.5 }",
    "poly": 'def e3{ splitters: uid return 0 weighted 1, 1.5 weighted 2, "x" '
            "weighted 0, -3 weighted 4, -0.25 weighted 0.5, -0 weighted 1, "
            "-0.0 weighted 1 }",
    "salt": 'def e4{ salt: "s\\\'x" splitters: a, b, a return "A" weighted 1, '
            '"B" weighted 1, "C" weighted 1 }',
    "salt_only": "def e5{ salt: 'only' return \"A\" weighted 3 }",
    "kwprefix": "def define_it{ splitters: iffy, format_in, notable, android, "
                "order_id, elsewhere, inner, defs, returned, salty, "
                "splitters_x, weighted_avg if iffy == 1 and notable != 2 or "
                "android in (1, 2) and order_id not in (3) { return "
                "'kw' weighted 1 } else if elsewhere == inner { return 'id' "
                "weighted 1 } else { return 'none' weighted 1 } }",
    "notin_ws": "def e6{ splitters: k if a not   in (1, 2) { return 'o' weighted 1 }"
                " else if a not\n\t in ('x') { return 'p' weighted 1 }"
                " else if not a in (5, 6) { return 'q' weighted 1 } }",
    "elseif_ws": "def e7{ splitters: k if a == 1 { return 1 weighted 1 } elseif "
                 "a == 2 { return 2 weighted 1 } else   if a == 3 { return 3 "
                 "weighted 1 } else\nif a == 4 { return 4 weighted 1 } else "
                 "{ return 5 weighted 1 } }",
    "nested_tuple": "def e8{ splitters: k if a in ((1, 2), (3, (4, 5)), 'x', "
                    "(b, 'y'), (-1, -2.5)) { return 't' weighted 1 } else if "
                    "(1, 2) == a { return 'u' weighted 1 } else if (a) == b "
                    "{ return 'v' weighted 1 } else if (a,) == b { return 'vv' "
                    "weighted 1 } else { return 'w' weighted 1 } }"
                    .replace("(a,) == b", "(a, a) == b"),
    "single_tuple": "def e9{ splitters: k if a in (1) { return 's' weighted 1 } "
                    "else if b in ('xyz') { return 'str' weighted 1 } "
                    "else if ((a)) == ((b)) { return 'pp' weighted 1 } }",
    "prec": "def e10{ splitters: k if a == 1 or b == 2 and not c == 3 or not "
            "(d == 4 or e == 5) and f == 6 { return 'T' weighted 1 } else { "
            "return 'F' weighted 1 } }",
    "notnot": "def e11{ splitters: k if not not a > 1 { return 'T' weighted 1 } "
              "else { return 'F' weighted 1 } }",
    "parens": "def e12{ splitters: k if ((a > 1)) and ((b < 2) or (c >= 3)) and "
              "(d <= 4) { return 'T' weighted 1 } else { return 'F' weighted 1 } }",
    "comments": "/* lead\n comment */ def e13{ // c1 'quoted' \"dq\"\n salt: "
                "'s' /* mid */ splitters: k // trail\n /* multi\nline\n*/ if a "
                "== '//not a comment' { return '/* nor this */' weighted 1 } "
                "else { return \"it's\" weighted 2 } } // end",
    "quotes": "def e14{ splitters: k if a == 'say \"hi\"' { return \"it's\" "
              "weighted 1 } else if a == 'back\\slash' { return 'tab\\t' weighted"
              " 1 } else if a == \"\" { return '' weighted 1 } else { return "
              "'{}%s{0}' weighted 1, '\\\\' weighted 1 } }",
    "nonascii": "def e15{ salt: 'sél' splitters: k if a == 'é' or a in ('日本', "
                "' ', 'ß') { return 'ü' weighted 1, '漢字' weighted 2 } "
                "else { return '\U0001f600' weighted 1 } }",
    "deep": "def e16{ splitters: k if a == 1 { if b == 1 { if c == 1 { return "
            "'111' weighted 1 } else if c == 2 { return '112' weighted 1 } } "
            "else { if c == 1 { return '1x1' weighted 1 } } } else if a == 2 { "
            "return '2' weighted 1 } }",
    "unroutable": "def e17{ splitters: k if a == 1 { return 'one' weighted 1 } }",
    "numbers": "def e18{ splitters: k if a >= 018 and a < 1.50 or a == -0 or a "
               "== 00.10 or a > 1000000000000000000000000 { return 007 weighted "
               "010, 1.0 weighted 0.50 } else { return 9999999999999999999999 "
               "weighted 1 } }",
    "zero_w": "def e19{ splitters: k return 'a' weighted 0, 'b' weighted 0.0, "
              "'c' weighted 1 }",
    "all_zero": "def e20{ splitters: k return 'a' weighted 0, 'b' weighted 0 }",
    "bigfloat": "def e21{ splitters: k if a < " + "9" * 400 + ".0 { return "
                + "9" * 400 + ".5 weighted 1, -" + "9" * 400
                + ".5 weighted 1 } else { return 'n' weighted 1 } }",
    "inf_w": "def e22{ splitters: k return 'a' weighted " + "9" * 400
             + ".0, 'b' weighted 1 }",
    "splitter_is_cond": "def e23{ splitters: uid, country if country == 'US' and "
                        "uid > 10 { return 'a' weighted 1, 'b' weighted 1 } "
                        "else { return 'c' weighted 1 } }",
    "ident_cmp": "def e24{ splitters: k if a == b or c in d or e not in f or g "
                 "< 'h' { return 'T' weighted 1 } else { return 'F' weighted 1"
                 " } }",
    "lit_lit": "def e25{ splitters: k if 1 == 1.0 and 'a' != \"a\" or -1 < -0.5 "
               "{ return 'T' weighted 1 } else { return 'F' weighted 1 } }",
    "kwargs_name": "def e26{ splitters: self, kwargs_, partial if "
                   "deterministic_choice == 1 { return 'T' weighted 1 } else { "
                   "return 'F' weighted 1 } }",
    "underscore": "def _e_27_{ splitters: _, __x if _ == __x { return '_' "
                  "weighted 1 } else { return '__' weighted 1 } }",
    "crlf": "def e28{\r\n splitters: k\r\n if a == 1 {\r\n return 'x' weighted 1"
            "\r\n }\r\n else {\r\n return 'y' weighted 1 }\r\n}\r\n",
    "tabs_ff": "def\te29{\fsplitters:\vk\treturn\t'x'\tweighted\t1\t}",
    "tight": "def e30{splitters:k if a==1{return'x'weighted 1}else{return"
             "\"y\"weighted 2}}",
    "long_return": "def e31{ splitters: k return "
                   + ", ".join(f"'g{i}' weighted {i}" for i in range(40)) + " }",
    "many_elif": "def e32{ splitters: k if a == 0 { return 0 weighted 1 } "
                 + " ".join(
                     f"else if a == {i} {{ return {i} weighted {i} }}"
                     for i in range(1, 25)
                 ) + " else { return -1 weighted 1 } }",
    "block_in_str": "def e33{ splitters: k return 'a /* b' weighted 1, "
                    "'c */ d' weighted 1 }",
    "minus_space": "def e34{ splitters: k if a == - 5 or a == -\n6 { return - 1 "
                   "weighted 1 } else { return -  2.5 weighted 1 } }",
    "dup_groups": "def e35{ splitters: k return 'a' weighted 1, 'a' weighted 1, "
                  "1 weighted 1, 1.0 weighted 1 }",
    "nbsp_ws": "def e36{ splitters: k if a not\u00a0\u2003in (1, 3) { return 'x' "
               "weighted 1 } else\u00a0if a == 2 {\u3000return 'y' weighted\x1f1 } }",
    "tuple_ids": "def e37{ splitters: k if a in (b, c, (d, e)) and (a, b) not "
                 "in ((1, 2), (c, d)) { return 'T' weighted 1 } else { return "
                 "'F' weighted 1 } }",
    "str_newline_esc": "def e38{ splitters: k if a == 'x\\ny' { return 'l1\\nl2'"
                       " weighted 1 } else { return 'z' weighted 1 } }",
}

INVALID = {
    "empty": "",
    "ws": "   \n ",
    "comment_only": "// nothing\n/* here */",
    "no_body": "def e{ }",
    "no_def": "e{ return 1 weighted 1 }",
    "kw_name": "def if{ return 1 weighted 1 }",
    "kw_name2": "def in{ return 1 weighted 1 }",
    "missing_weight": "def e{ return 'a' }",
    "neg_weight": "def e{ return 'a' weighted -1 }",
    "str_weight": "def e{ return 'a' weighted '1' }",
    "id_return": "def e{ return a weighted 1 }",
    "tuple_return": "def e{ return (1, 2) weighted 1 }",
    "trailing_comma": "def e{ return 'a' weighted 1, }",
    "splitter_after_cond": "def e{ return 'a' weighted 1 splitters: k }",
    "salt_after_split": "def e{ splitters: k salt: 's' return 'a' weighted 1 }",
    "salt_not_str": "def e{ salt: abc return 'a' weighted 1 }",
    "splitters_empty": "def e{ splitters: return 'a' weighted 1 }",
    "splitters_trailing": "def e{ splitters: a, return 'a' weighted 1 }",
    "splitter_kw": "def e{ splitters: in return 'a' weighted 1 }",
    "else_first": "def e{ else { return 1 weighted 1 } }",
    "two_else": "def e{ if a == 1 { return 1 weighted 1 } else { return 2 "
                "weighted 1 } else { return 3 weighted 1 } }",
    "elif_after_else": "def e{ if a == 1 { return 1 weighted 1 } else { return "
                       "2 weighted 1 } else if a == 2 { return 3 weighted 1 } }",
    "if_no_pred": "def e{ if { return 1 weighted 1 } }",
    "bare_term": "def e{ if a { return 1 weighted 1 } }",
    "chain_cmp": "def e{ if 1 < a < 3 { return 1 weighted 1 } }",
    "empty_tuple": "def e{ if a in () { return 1 weighted 1 } }",
    "tuple_trailing": "def e{ if a in (1, 2,) { return 1 weighted 1 } }",
    "single_eq": "def e{ if a = 1 { return 1 weighted 1 } }",
    "bang": "def e{ if !a == 1 { return 1 weighted 1 } }",
    "amp": "def e{ if a == 1 && b == 2 { return 1 weighted 1 } }",
    "unclosed": "def e{ return 1 weighted 1",
    "extra_close": "def e{ return 1 weighted 1 } }",
    "two_defs": "def e{ return 1 weighted 1 } def f{ return 1 weighted 1 }",
    "two_returns": "def e{ return 1 weighted 1 return 2 weighted 1 }",
    "if_then_return": "def e{ if a == 1 { return 1 weighted 1 } return 2 "
                      "weighted 1 }",
    "unterminated_str": "def e{ return 'abc weighted 1 }",
    "multiline_str": "def e{ return 'ab\nc' weighted 1 }",
    "mixed_quote": "def e{ return 'abc\" weighted 1 }",
    "unclosed_block": "def e{ /* never closed\n return 1 weighted 1 }",
    "illegal_char": "def e{ return 1 weighted 1 ; }",
    "dollar_id": "def e${ return 1 weighted 1 }",
    "nonascii_id": "def é{ return 1 weighted 1 }",
    "float_dot": "def e{ return 1. weighted 1 }",
    "dot_float": "def e{ return .5 weighted 1 }",
    "exp_float": "def e{ return 1e5 weighted 1 }",
    "double_minus": "def e{ return --1 weighted 1 }",
    "minus_str": "def e{ return -'a' weighted 1 }",
    "plus": "def e{ return +1 weighted 1 }",
    "not_alone": "def e{ if not { return 1 weighted 1 } }",
    "notin_joined": "def e{ if a notin (1) { return 1 weighted 1 } }",
    "in_in": "def e{ if a in in (1) { return 1 weighted 1 } }",
    "and_dangling": "def e{ if a == 1 and { return 1 weighted 1 } }",
    "upper_kw": "def e{ IF a == 1 { return 1 weighted 1 } }",
    "colon_missing": "def e{ splitters k return 1 weighted 1 }",
    "paren_unbalanced": "def e{ if (a == 1 { return 1 weighted 1 } }",
    "paren_pred_tuple": "def e{ if (a == 1, 2) { return 1 weighted 1 } }",
    "huge_int_weight": "def e{ return 'a' weighted 1" + "0" * 400 + " }",
    "huge_int_weights": "def e{ return 'a' weighted 1" + "0" * 400
                        + ", 'b' weighted 2" + "0" * 500 + " }",
    "huge_w_then_syntax": "def e{ return 'a' weighted 1" + "0" * 400 + ", }",
    "huge_w_then_lex": "def e{ return 'a' weighted 1" + "0" * 400 + " ; }",
    "digits_limit": "def e{ return " + "1" * 5000 + " weighted 1 }",
    "line3": "def e{\n\n if a ==\n == 1 { return 1 weighted 1 } }",
    "line_in_comment": "def e{ /* a\nb\nc */ return\n'x' weighted\nweighted }",
    "weighted_kw_prefix": "def e{ return 'a' weightedx 1 }",
    "return_glued": "def e{ return1 weighted 1 }",
    "bom": "﻿def e{ return 1 weighted 1 }",
    "nul": "def e{ return 1 weighted 1 }\x00",
}
OUT["n_valid"] = len(VALID)
OUT["n_invalid"] = len(INVALID)


def fields_set_walk(node):
    """which fields every node of the tree was explicitly given"""
    if isinstance(node, st.BaseModel):
        return [type(node).__name__, sorted(node.__fields_set__),
                [fields_set_walk(getattr(node, n)) for n in node.__fields__]]
    if isinstance(node, (list, tuple)):
        return [type(node).__name__, [fields_set_walk(x) for x in node]]
    return type(node).__name__


def lex_dump(text):
    return [[t.type, repr(t.value), t.lineno, t.index, t.end]
            for t in ExperimentLexer().tokenize(text)]


# kwargs fed to every compiled experiment.  Unknown names are swallowed by
# **kwargs, missing ones raise TypeError: both are part of the behaviour.
FIELD_NAMES = [
    "a", "b", "c", "d", "e", "f", "g", "k", "uid", "country", "iffy", "format_in",
    "notable", "android", "order_id", "elsewhere", "inner", "defs", "returned",
    "salty", "splitters_x", "weighted_avg", "self", "kwargs_", "partial",
    "deterministic_choice", "_", "__x",
]
VALUE_ROWS = [
    [1, 2, 3, 4, 5, 6, 7],
    [0, 0, 0, 0, 0, 0, 0],
    [2, 1, 1, 9, 9, 6, "h"],
    ["x", "y", "xyz", "d", "e", "f", "g"],
    [(1, 2), (1, 2), 1, ((1, 2),), "e", "ef", "i"],
    [-1, (-1, "y"), 2, [1], 1, [1], "a"],
    ["é", "é", "日本", "漢", 5, 6.0, ""],
    [18, 18.0, 3, 4.0, 5, 6, "H"],
    [5, 5, 1, 4, 5, 6, 1],
    [-5, -6, 2, 0, 0, 0, 0],
    ["say \"hi\"", "back\\slash", "", "//not a comment", 1, 1, 1],
    [3, (4, 5), (3, (4, 5)), "x", "xyz", "x\ny", None],
    [float("inf"), float("-inf"), float("nan"), 1e308, 10**30, -0.0, 0.1],
    [4, 1, 1, 1, 1, 1, 1],
    [None, None, None, None, None, None, None],
    [" ", "ß", "US", "CA", 11, 10, "US"],
    ["//not a comment", "x\\ny", 1, 2, 3, 4, 5],
    ["x\\ny", "", 1, 2, 3, 4, 5],
    ["", "a", 1, 2, 3, 4, 5],
    ["back\\slash", 1, 1, 2, 3, 4, 5],
]


def kwargs_rows():
    rows = []
    for i, row in enumerate(VALUE_ROWS):
        kw = {}
        for j, name in enumerate(FIELD_NAMES):
            kw[name] = row[(i + j) % len(row)] if j >= len(row) else row[j]
        kw["k"] = f"key-{i}"
        kw["uid"] = 5 + 3 * i
        kw["country"] = "US" if i % 2 else "FR"
        rows.append(kw)
    for i in range(60):
        kw = {name: (i + j) % 7 for j, name in enumerate(FIELD_NAMES)}
        kw["k"] = i
        kw["uid"] = i
        kw["country"] = ("US", "CA", "FR")[i % 3]
        rows.append(kw)
    return rows


ROWS = kwargs_rows()


def run_compiled(src, fn_name):
    """exec generated code and call it over ROWS"""
    ns = {}
    exec(compile(src, "<probe>", "exec"), ns)
    fn = ns[fn_name]
    res = []
    for kw in ROWS:
        random.seed(12345)
        try:
            res.append(repr(fn(**kw)))
        except BaseException as exc:  # noqa: B902
            res.append(f"!{type(exc).__name__}:{exc}")
    extra = []
    for kw in ({}, {"k": 1}, {"a": 1}, {"k": 1, "a": 1, "zzz": 2}):
        random.seed(7)
        try:
            extra.append(repr(fn(**kw)))
        except BaseException as exc:  # noqa: B902
            extra.append(f"!{type(exc).__name__}:{exc}")
    inner = "choose_experiment_variant" in ns
    return res, extra, inner


valid_out = {}
for name, text in VALID.items():
    rec = {}
    try:
        ast = parse_source(text)
    except BaseException as exc:  # noqa: B902
        valid_out[name] = {"parse_error": [type(exc).__name__, str(exc)[:300]]}
        continue
    rec["ast_repr"] = repr(ast)
    rec["ast_json_sha"] = sha(ast.dict())
    rec["ast_types"] = sha(
        [type(x).__name__ for x in json.loads(json.dumps(ast.dict(), default=repr))]
    )
    rec["tokens_sha"] = sha(lex_dump(text))
    rec["fields_set"] = sha(fields_set_walk(ast))
    rec["pickle_roundtrip"] = pickle.loads(pickle.dumps(ast)) == ast
    rec["deepcopy_eq"] = copy.deepcopy(ast) == ast
    rec["json_roundtrip"] = outcome(
        lambda: st.ExperimentAST.parse_raw(ast.json()) == ast)
    rec["exclude_unset"] = sha(ast.dict(exclude_unset=True))
    rec["exclude_defaults_json"] = sha(ast.json(exclude_defaults=True))
    for exposed in (False, True):
        tag = "exposed" if exposed else "nested"
        gen = PythonCodeGen(ast, expose_experiment_variant_function=exposed)
        raw = gen.generate()
        rec[f"raw_{tag}"] = raw
        rec[f"vars_{tag}"] = [gen.local_vars, gen.conditional_ids]
        raw_spaces = PythonCodeGen(
            ast, indentation_char="  ", expose_experiment_variant_function=exposed
        ).generate()
        rec[f"raw_spaces_sha_{tag}"] = sha(raw_spaces)
        try:
            formatted = generate_code(text, expose_internal_fn=exposed)
        except BaseException as exc:  # noqa: B902
            formatted = None
            rec[f"format_error_{tag}"] = [type(exc).__name__, str(exc)[:200]]
        rec[f"formatted_sha_{tag}"] = sha(formatted)
        for label, src in (("raw", raw), ("fmt", formatted), ("sp", raw_spaces)):
            if src is None:
                continue
            try:
                res, extra, inner = run_compiled(src, ast.id)
                rec[f"run_{label}_{tag}"] = {
                    "sha": sha(res),
                    "head": res[:20],
                    "extra": extra,
                    "inner_visible": inner,
                    "distinct": sorted(set(res)),
                }
            except BaseException as exc:  # noqa: B902
                rec[f"run_{label}_{tag}"] = ["exec_error", type(exc).__name__,
                                            str(exc)[:200]]
    # a second parse with the same parser classes yields an equal tree
    rec["reparse_equal"] = parse_source(text) == ast
    valid_out[name] = rec
OUT["valid"] = valid_out

# the parser only looks at the type of keyword / punctuation tokens: feed it
# hand-altered token streams whose keyword values are scrambled
def scrambled_parse(text, scramble):
    toks = list(ExperimentLexer().tokenize(text))
    for n, t in enumerate(toks):
        if t.type.startswith("KW_") or t.type in (
            "LPAREN", "RPAREN", "COMMA", "COLON", "LBRACE", "RBRACE", "MINUS"
        ):
            t.value = scramble(n, t)
    return repr(ExperimentParser().parse(iter(toks)))


OUT["scrambled_tokens"] = {
    name: [
        outcome(scrambled_parse, VALID[name], lambda n, t: "?"),
        outcome(scrambled_parse, VALID[name], lambda n, t: "=="),
        outcome(scrambled_parse, VALID[name], lambda n, t: None),
        outcome(scrambled_parse, VALID[name], lambda n, t: ["in", "<", "not in"][n % 3]),
        outcome(scrambled_parse, VALID[name], lambda n, t: t.value.upper()),
    ]
    for name in ("kwprefix", "notin_ws", "prec", "parens", "nested_tuple", "poly",
                 "numbers", "ident_cmp", "many_elif", "minus_space", "salt")
}
OUT["scrambled_same_as_plain"] = {
    name: OUT["scrambled_tokens"][name][0] == ["ok", repr(valid_out[name].get("ast_repr"))]
    for name in OUT["scrambled_tokens"]
}

invalid_out = {}
for name, text in INVALID.items():
    rec = {"parse": outcome(parse_source, text)}
    if rec["parse"][0] == "ok":
        rec["parse"][1] = sha(rec["parse"][1])
    rec["lex"] = outcome(lambda t=text: sha(lex_dump(t)))
    for exposed in (False, True):
        o = outcome(generate_code, text, exposed)
        rec[f"generate_{exposed}"] = o[:2] if o[0] == "err" else ["ok", sha(o[1])]
    rec["evaluator"] = outcome(ExperimentEvaluator, text)[:2]
    invalid_out[name] = rec
OUT["invalid"] = invalid_out

# --------------------------------------------------------------------------
# 5. code generator helpers on hand-made / odd nodes
# --------------------------------------------------------------------------
gen0 = PythonCodeGen(st.ExperimentAST(id="x", conditions=grp))


class EqAll:
    def __eq__(self, other):
        return True

    def __hash__(self):
        return 1

    def __repr__(self):
        return "EqAll()"


class EqNone:
    __hash__ = None

    def __eq__(self, other):
        return False

    def __repr__(self):
        return "EqNone()"


OUT["codegen_ops"] = [
    outcome(gen0._generate_op, o)
    for o in (*L, *B, C.IF, 1, "EQ", "==", None, [], {}, EqAll(), EqNone(), 1.0)
]
OUT["codegen_terms"] = [
    outcome(gen0._generate_term, t)
    for t in (1, 1.0, -0.0, "s", "it's", 'q"', "é", [], [1], (1,), (1, [2, (3,)]),
              ident, [ident, "a"], float("inf"), float("-inf"), float("nan"), None,
              True, 10**400, b"b", {1: 2})
]
OUT["codegen_predicates"] = [
    outcome(gen0._generate_predicate, p)
    for p in (
        None, tp, rp,
        st.RecursivePredicate(left_predicate=tp, boolean_operator=B.AND,
                              right_predicate=rp),
        st.RecursivePredicate(left_predicate=tp, boolean_operator=B.OR),
        st.RecursivePredicate(left_predicate=rp, boolean_operator=B.NOT,
                              right_predicate=tp),
        st.RecursivePredicate.construct(left_predicate=tp, boolean_operator=EqAll(),
                                        right_predicate=tp),
        st.RecursivePredicate.construct(left_predicate=tp, boolean_operator=L.EQ,
                                        right_predicate=tp),
        st.TerminalPredicate.construct(left_term=1, logical_operator=B.AND,
                                       right_term=[2]),
        st.TerminalPredicate.construct(left_term=1, logical_operator=[],
                                       right_term=2),
        1, "x", [],
    )
]
OUT["codegen_conditionals"] = [
    outcome(gen0._generate_conditionals, c)
    for c in (
        grp, [], (), cond, None, 1, "ab",
        st.ExperimentConditional(conditional_type=C.ELIF, predicate=rp,
                                 true_branch=grp, false_branch=cond),
        st.ExperimentConditional(conditional_type=C.ELSE, predicate=tp,
                                 true_branch=grp, false_branch=grp),
        st.ExperimentConditional.construct(conditional_type=7, predicate=None,
                                           true_branch=grp, false_branch=None),
        st.ExperimentConditional.construct(conditional_type=EqAll(), predicate=tp,
                                           true_branch=grp, false_branch=None),
    )
]
# hand-built trees through the public generator, both layouts
hand_asts = [
    st.ExperimentAST(id="h1", splitting_fields=["b", "a", "b"], salt="",
                     conditions=cond),
    st.ExperimentAST(id="h2", splitting_fields=[], salt="s", conditions=grp),
    st.ExperimentAST(id="h3", splitting_fields=["fld"], salt=None,
                     conditions=st.ExperimentConditional(
                         conditional_type=C.IF,
                         predicate=st.RecursivePredicate(
                             left_predicate=rp, boolean_operator=B.OR,
                             right_predicate=st.TerminalPredicate(
                                 left_term=[1, [2, ident]],
                                 logical_operator=L.NOT_IN,
                                 right_term=st.Identifier(name="other"))),
                         true_branch=[st.ExperimentGroup(group_definition=1.5,
                                                         group_weight=2)],
                         false_branch=st.ExperimentConditional(
                             conditional_type=C.ELSE, true_branch=grp))),
]
OUT["hand_asts"] = [
    [outcome(PythonCodeGen(a, expose_experiment_variant_function=e).generate)
     for e in (False, True)]
    for a in hand_asts
]

# --------------------------------------------------------------------------
# 6. bucketing
# --------------------------------------------------------------------------
ids = [str(i) for i in range(300)] + ["", "é", "日本", "\udcff", "a" * 1000, "None"]
OUT["proba_sha"] = sha([outcome(deterministic_proba, i) for i in ids])
weight_sets = [
    None, [1, 1, 1], [1, 2, 3], [0, 0, 1], [0.5, 0.25, 0.25], [1e-300, 1, 1e300],
    [0, 0, 0], [1, -1, 1], [1, 2], [float("inf"), 1, 1], [float("nan"), 1, 1],
    [1.0, 2.0, 3.0], [10**30, 1, 1], [True, False, True],
]
bucket = {}
for wi, w in enumerate(weight_sets):
    for salt in ("", "s1", "sél"):
        res = [outcome(deterministic_choice, salt + i, ["A", "B", "C"], w)
               for i in ids]
        bucket[f"{wi}:{salt}"] = [sha(res), res[0], res[-1]]
bucket["cum"] = sha([outcome(deterministic_choice, i, [1, 2, 3],
                             cum_weights=[1, 3, 6]) for i in ids])
bucket["both"] = outcome(deterministic_choice, "x", [1, 2], [1, 1], cum_weights=[1, 2])
bucket["empty_pop"] = outcome(deterministic_choice, "x", [], None)
bucket["empty_pop_w"] = outcome(deterministic_choice, "x", [], [])
random.seed(99)
bucket["none_id"] = [outcome(deterministic_choice, None, ["A", "B"], [1, 3])
                     for _ in range(10)]
bucket["int_id"] = outcome(deterministic_choice, 5, ["A", "B"], [1, 3])
OUT["bucketing"] = bucket
OUT["custom_operators"] = [
    outcome(custom_operators.operator_in, 1, [1, 2]),
    outcome(custom_operators.operator_in, "a", "abc"),
    outcome(custom_operators.operator_not_in, 1, (2, 3)),
    outcome(custom_operators.operator_not_in, 1, 5),
]

# --------------------------------------------------------------------------
# 7. evaluator lifecycle
# --------------------------------------------------------------------------
life = []
ev = ExperimentEvaluator(VALID["splitter_is_cond"])
life.append(["checksum0", ev._checksum])
life.append(outcome(lambda: ev(uid=1, country="US")))
life.append(outcome(lambda: ev(uid=11, country="US")))
life.append(outcome(lambda: ev(uid=11)))
life.append(outcome(lambda: ev()))
fn_before = ev.run_experiment
ev.recompile(VALID["splitter_is_cond"])
life.append(["same_fn_after_same_text", ev.run_experiment is fn_before])
for bad in ("no_body", "illegal_char", "empty", "huge_int_weight", "digits_limit"):
    life.append(outcome(ev.recompile, INVALID[bad])[:2])
    life.append(["checksum_kept", ev._checksum])
    life.append(["fn_kept", ev.run_experiment is fn_before])
    life.append(outcome(ev.recompile, INVALID[bad])[:2])
life.append(outcome(lambda: ev(uid=11, country="US")))
ev.recompile(VALID["poly"])
life.append(["checksum1", ev._checksum])
life.append(["fn_changed", ev.run_experiment is not fn_before])
life.append([outcome(lambda i=i: ev(uid=i)) for i in range(40)])
life.append(outcome(lambda: ev(uid=1, country="US")))
ev.recompile(VALID["splitter_is_cond"])
life.append(["checksum2", ev._checksum])
life.append(outcome(lambda: ev(uid=11, country="US")))
ev.recompile(VALID["unroutable"])
life.append(outcome(lambda: ev(k=1, a=1)))
life.append(outcome(lambda: ev(k=1, a=2)))
life.append(["is_cond_failed",
             outcome(lambda: ev(k=1, a=2))[1] == ExperimentConditionalFailedError.__name__])
life.append(outcome(ExperimentEvaluator, "")[:2])
life.append(outcome(lambda: ExperimentEvaluator.run_experiment(None)))
life.append(["class_checksum", ExperimentEvaluator._checksum])
life.append(["parse_error_msg", str(ParseError()), ParseError().message])
ev2 = ExperimentEvaluator(VALID["nonascii"])
life.append([outcome(lambda i=i: ev2(k=i, a=("é", "x", "ß")[i % 3])) for i in range(30)])
ev3 = ExperimentEvaluator(VALID["plain"])
random.seed(3)
life.append([outcome(lambda: ev3()) for _ in range(3)])
OUT["lifecycle"] = life

# --------------------------------------------------------------------------
# 8. threads
# --------------------------------------------------------------------------
ev_t = ExperimentEvaluator(VALID["many_elif"])
expected = [ev_t(k=i, a=i % 26) for i in range(400)]
results = [None] * 8
texts = [VALID["many_elif"], VALID["deep"], VALID["prec"], VALID["nested_tuple"]]
parse_expect = [repr(parse_source(t)) for t in texts]
parse_ok = [None] * 8


def worker(slot):
    results[slot] = [ev_t(k=i, a=i % 26) for i in range(400)] == expected
    parse_ok[slot] = all(
        repr(parse_source(texts[(slot + j) % 4])) == parse_expect[(slot + j) % 4]
        for j in range(12)
    )


threads = [threading.Thread(target=worker, args=(s,)) for s in range(8)]
for t in threads:
    t.start()
for t in threads:
    t.join()


def recompiler(slot, box):
    e = ExperimentEvaluator(VALID["plain"])
    ok = True
    for j in range(10):
        e.recompile(texts[(slot + j) % 4])
        try:
            e.recompile(INVALID["no_body"])
        except Exception as exc:  # noqa: B902
            ok = ok and type(exc).__name__ == "YaccError"
    box[slot] = ok


box = [None] * 4
threads = [threading.Thread(target=recompiler, args=(s, box)) for s in range(4)]
for t in threads:
    t.start()
for t in threads:
    t.join()
OUT["threads"] = {"eval": results, "parse": parse_ok, "recompile": box,
                  "expected_sha": sha(expected)}

# --------------------------------------------------------------------------
# 9. stats
# --------------------------------------------------------------------------
OUT["stats"] = {
    "probit": [outcome(stats.probit, a)
               for a in (0.5, 0.975, 0.025, 0.001, 0.999, 0, 1, -1, 2, 0.3)],
    "ci": [
        outcome(stats.confidence_interval, n, p, c, m)
        for n in (0, 1, 10, 1000)
        for p in (0.0, 0.5, 1.0, 0.123)
        for c in (0.95, 0.99, 0.5)
        for m in ("agresti-coull", "WALD", "Wald", "wilson")
    ],
    "defaults": outcome(stats.confidence_interval),
}

print(json.dumps(OUT, sort_keys=True, ensure_ascii=True, indent=1))

"""Exercises the new capability of t2: optional docstring of the generated module."""

import ast
import random

from pyab_experiment.codegen.python.python_generator import PythonCodeGen
from pyab_experiment.utils.wraper_functions import parse_source

TEXT = (
    "def checkout{ salt: 's1' splitters: uid "
    "if country == 'US' { return 'a' weighted 1, 'b' weighted 3 } else { return 'c' weighted 1 } }"
)
tree = parse_source(TEXT)

# default: nothing changes
plain = PythonCodeGen(tree)
assert plain.module_docstring is None and plain.render_docstring() == ""
assert "_module_docstring" not in vars(plain)
assert PythonCodeGen(tree, module_docstring=None).generate() == plain.generate()
assert plain.render_topline().startswith("from functools import partial\n")

TRICKY = [
    "",
    "Generated from checkout.pyab (ticket AB-12)",
    "two\nlines",
    "trailing newline\n",
    'ends with a quote"',
    'has """triple""" quotes',
    '"""',
    "back\\slash and \\n literal and trailing \\",
    "\\",
    "it's",
    "carriage\rreturn and \r\n pair",
    "tab\tand bell\a and nul\x00",
    "unicode: Zürich 東京 Ω   \x85 \xa0 \U0001f600",
    "\ud800 lone surrogate",
    "{braces} %s %(x)s \\N{DASH} \\x41 \\u0041",
    " leading and trailing spaces  ",
    "\n\n",
]
rng = random.Random(7)
alphabet = ['"', "'", "\\", "\n", "\r", "a", " ", "é", "\t", "\x00", "{", "}", " ", "#"]
TRICKY += ["".join(rng.choice(alphabet) for _ in range(rng.randrange(1, 12))) for _ in range(3000)]

for expose in (True, False):
    reference = PythonCodeGen(tree, "\t", expose).generate()
    ref_ns = {}
    exec(compile(reference, "<t2>", "exec"), ref_ns)
    for doc in TRICKY:
        gen = PythonCodeGen(tree, "\t", expose, module_docstring=doc)
        assert gen.module_docstring == doc
        text = gen.generate()
        # the docstring is a prefix: the rest of the module is the text of today
        header = gen.render_docstring()
        assert text == header + reference and header.endswith("\n")
        assert gen.render_topline() == header + PythonCodeGen(tree, "\t", expose).render_topline()
        module = ast.parse(text)
        assert ast.get_docstring(module, clean=False) == doc, repr(doc)
        ns = {}
        exec(compile(text, "<t2>", "exec"), ns)
        assert ns["__doc__"] == doc
        if len(doc) < 20:
            for uid in range(5):
                assert ns["checkout"](uid=uid, country="US") == ref_ns["checkout"](uid=uid, country="US")

# readable spelling for ordinary text, repr() for anything risky
assert PythonCodeGen(tree, module_docstring="two\nlines").render_docstring() == '"""two\nlines"""\n'
assert PythonCodeGen(tree, module_docstring="a\rb").render_docstring() == "'a\\rb'\n"

# wrong type: rejected on the new path only
for bad in (5, b"bytes", ["x"]):
    try:
        PythonCodeGen(tree, module_docstring=bad)
    except TypeError:
        pass
    else:
        raise AssertionError(bad)
print("t2 usage ok")

"""Differential probe: uses only the API that exists on HEAD.

Run as  PYTHONPATH=/tmp/wt/TU/src /venv/bin/python probe.py
Prints a deterministic JSON summary; the output must be byte-identical with
and without the patch.
"""

import copy
import hashlib
import json
import pickle
import random
import re
import threading

from pyab_experiment.binning.binning import deterministic_choice, deterministic_proba
from pyab_experiment.codegen.python.custom_exceptions import (
    ExperimentConditionalFailedError,
)
from pyab_experiment.codegen.python.python_generator import PythonCodeGen
from pyab_experiment.experiment_evaluator import ExperimentEvaluator, ParseError
from pyab_experiment.utils.stats import confidence_interval, probit
from pyab_experiment.utils.wraper_functions import generate_code, parse_source

VALID = {
    "plain": "def plain{ return 'a' weighted 1, 'b' weighted 1 }",
    "salted": 'def salted{ salt: "s@lt" splitters: uid return "a" weighted 1, "b" weighted 3 }',
    "two_split": "def two_split{ splitters: b_id, a_id return 1 weighted 1, 2.5 weighted 2, 'x' weighted 0 }",
    "kwprefix": (
        "def define_me{ splitters: iffy, input_1 "
        "if android == 1 and note != 'x' or order in (1,2) { return 'k' weighted 1 } "
        "else if elsewhere not in ('p', 'q') { return 'l' weighted 1, 'm' weighted 1 } "
        "else { return 'n' weighted 2 } }"
    ),
    "nested_tuples": (
        "def nested_tuples{ splitters: uid "
        "if f in ((1,2),(3,(4,5)),('a')) { return 'in' weighted 1 } "
        "else if g == ((2), 1) { return 'eq' weighted 1 } "
        "else { return 'out' weighted 1, 'out2' weighted 1 } }"
    ),
    "single_tuple": "def single_tuple{ if f in (7) { return 'y' weighted 1 } else { return 'n' weighted 1 } }",
    "comments": (
        "/* head\n comment */ def comments{ // c1\n salt: 'x//y' /* mid */ splitters: uid // c2\n"
        " if a == '/* not a comment */' { return \"//\" weighted 1 } else { return '*/' weighted 1 } }"
    ),
    "quotes": (
        "def quotes{ salt: \"it's\" splitters: uid "
        "if a == 'say \"hi\"' { return 'back\\slash' weighted 1, \"q'q\" weighted 2 } "
        "else if a == \"tab\\t\" { return '\\n' weighted 1 } "
        "else { return '' weighted 1, ' ' weighted 1 } }"
    ),
    "nonascii": (
        "def nonascii{ salt: 'sél' splitters: uid "
        "if city in ('Zürich', '東京', 'ñ') { return 'café' weighted 1, 'naïve' weighted 1 } "
        "else { return 'Ω' weighted 1, ' ' weighted 1 } }"
    ),
    "no_else": (
        "def no_else{ splitters: uid if a > 1 { if b < 2 { return 'ab' weighted 1 } } "
        "else if c >= 3 { return 'c' weighted 1 } }"
    ),
    "shared": (
        "def shared{ splitters: uid, country if country == 'US' and not uid == 0 "
        "{ return 'us' weighted 1, 'us2' weighted 1 } else { return 'row' weighted 1, 'row2' weighted 2 } }"
    ),
    "numbers": (
        "def numbers{ splitters: uid if a == -1 or a == -2.50 or a <= 007 or b == 1.0 "
        "{ return -1 weighted 1, -2.5 weighted 0.5, 3 weighted 003 } else { return 0 weighted 1.0 } }"
    ),
    "huge": (
        "def huge{ splitters: uid if a < " + "9" * 400 + ".0 { return 'fin' weighted 1, 'g' weighted 2 } "
        "else if a == -" + "9" * 400 + ".0 { return 'ninf' weighted 1 } else { return 'inf' weighted 1 } }"
    ),
    "zero_w": "def zero_w{ splitters: uid return 'a' weighted 0, 'b' weighted 0 }",
    "inf_w": "def inf_w{ splitters: uid return 'a' weighted " + "9" * 400 + ".0, 'b' weighted 1 }",
    "literal_cmp": "def literal_cmp{ splitters: uid if 1 == 1 { return 'always' weighted 1 } }",
    "id_vs_id": "def id_vs_id{ if left_f == right_f { return 's' weighted 1 } else { return 'd' weighted 1 } }",
    "elseif_ws": "def elseif_ws{ if a==1 { return 'x' weighted 1 } else\n\n  if a==2 { return 'y' weighted 1 } elseif a==3 { return 'z' weighted 1 } }",
    "not_in_ws": "def not_in_ws{ if a not \n in (1,2) { return 'x' weighted 1 } else { return 'y' weighted 1 } }",
    "parens": "def parens{ if ((a == 1) and (not (b == 2 or c == 3))) { return 'p' weighted 1 } else { return 'q' weighted 1 } }",
    "pykw_field": "def pykw_field{ if lambda_ == 1 and class_ == 2 { return 'x' weighted 1 } else { return 'y' weighted 1 } }",
    "kwargs_like": "def kwargs_like{ splitters: self if partial == 1 { return 'x' weighted 1 } else { return 'y' weighted 1 } }",
    "name_clash": "def deterministic_choice{ splitters: uid return 'x' weighted 1, 'y' weighted 1 }",
    "inner_clash": "def choose_experiment_variant{ splitters: uid return 'x' weighted 1, 'y' weighted 1 }",
    "pykw_name": "def class{ return 'x' weighted 1 }",
    "kwargs_field": "def kwargs_field{ if kwargs == 1 { return 'x' weighted 1 } else { return 'y' weighted 1 } }",
    "open_comment": "def open_comment{ splitters: uid return 'a' weighted 1, 'b' weighted 1 } /* never closed",
    "dup_split": "def dup_split{ splitters: uid, uid return 'x' weighted 1, 'y' weighted 1 }",
}

INVALID = {
    "empty": "",
    "ws_only": "  \n ",
    "comment_only": "// nothing",
    "no_body": "def x{ }",
    "no_weight": "def x{ return 'a' }",
    "neg_weight": "def x{ return 'a' weighted -1 }",
    "bad_char": "def x{ return 'a' weighted 1 ; }",
    "unterminated": "def x{ return 'a weighted 1 }",
    "salt_after": "def x{ splitters: a salt: 's' return 'a' weighted 1 }",
    "trailing": "def x{ return 'a' weighted 1 } def",
    "two_defs": "def x{ return 'a' weighted 1 } def y{ return 'a' weighted 1 }",
    "kw_as_id": "def if{ return 'a' weighted 1 }",
    "kw_field": "def x{ splitters: in return 'a' weighted 1 }",
    "dollar": "def x{ if $a == 1 { return 'a' weighted 1 } }",
    "empty_tuple": "def x{ if a in () { return 'a' weighted 1 } }",
    "trailing_comma": "def x{ if a in (1,) { return 'a' weighted 1 } }",
    "else_first": "def x{ else { return 'a' weighted 1 } }",
    "exp_float": "def x{ return 'a' weighted 1e3 }",
    "dot_float": "def x{ return 'a' weighted .5 }",
    "newline_str": "def x{ return 'a\nb' weighted 1 }",
    "tuple_return": "def x{ return (1,2) weighted 1 }",
    "id_return": "def x{ return a weighted 1 }",
    "nonascii_id": "def é{ return 'a' weighted 1 }",
}

IDS = [0, 1, 2, 7, 42, -1, 10**12, 1.5, "0", "abc", "", "é", "東京", None, True, (1, 2), "a b", "\n"]
FIELD_VALUES = [None, 0, 1, 2, 3, -1, -2.5, 7, 1.0, "x", "a", "US", "p", "Zürich", "東京",
                'say "hi"', "tab\\t", "/* not a comment */", (1, 2), (3, (4, 5)), ("a",), [1, 2],
                float("inf"), float("-inf"), 1e308]


ADDRESS = re.compile(r" at 0x[0-9a-fA-F]+")


def digest(text):
    return hashlib.sha256(text.encode("utf-8", "surrogatepass")).hexdigest()[:16]


def outcome(fn, *args, **kwargs):
    try:
        return ["ok", ADDRESS.sub(" at 0x?", repr(fn(*args, **kwargs)))]
    except BaseException as exc:  # noqa: B902 - class names are the observation
        return ["err", type(exc).__name__, str(exc)[:200]]


def sample_calls(fn, fields):
    """call fn with a deterministic family of keyword sets"""
    rng = random.Random(1234)
    random.seed(4321)  # programs without splitters fall back on random.choices
    results = []
    for round_no in range(60):
        kwargs = {}
        for field in fields:
            if field in ("uid", "a_id", "b_id", "iffy", "input_1", "self"):
                kwargs[field] = IDS[(round_no * 7 + len(field)) % len(IDS)]
            else:
                kwargs[field] = rng.choice(FIELD_VALUES)
        if round_no % 9 == 0:
            kwargs["unused_extra"] = round_no
        if round_no == 59 and fields:
            kwargs.pop(fields[0])
        results.append(outcome(fn, **kwargs))
    return results


def parse_summary():
    out = {}
    for name, text in {**VALID, **INVALID}.items():
        try:
            tree = parse_source(text)
            out[name] = ["ok", repr(tree), None if tree is None else digest(tree.json())]
        except BaseException as exc:  # noqa: B902
            out[name] = ["err", type(exc).__name__, str(exc)[:200]]
    return out


def generator_summary():
    out = {}
    for name, text in VALID.items():
        tree = parse_source(text)
        per = {}
        for indent in ("\t", "    ", " ", "\t\t"):
            for expose in (True, False):
                gen = PythonCodeGen(tree, indent, expose)
                before = [gen.local_vars, gen.conditional_ids, gen.indent(), sorted(vars(gen))]
                topline = gen.render_topline()
                first = gen.generate()
                after = [gen.local_vars, gen.conditional_ids, gen.indent()]
                second = gen.generate()
                key_def = gen.generate_key_definition()
                per[f"{indent!r}/{expose}"] = {
                    "before": before,
                    "topline": digest(topline),
                    "text": first if indent == "\t" else digest(first),
                    "stable": first == second,
                    "after": after,
                    "key": key_def,
                    "vars": sorted(vars(gen)),
                    "pickle": digest(repr(sorted(
                        (k, sorted(v) if isinstance(v, set) else v)
                        for k, v in pickle.loads(pickle.dumps(gen)).__dict__.items()
                    ))),
                    "copy": copy.deepcopy(gen).generate() == first,
                }
        default = PythonCodeGen(tree)
        kw = PythonCodeGen(experiment_ast=tree, indentation_char="\t", expose_experiment_variant_function=True)
        per["default_eq_kw"] = default.generate() == kw.generate()
        per["bad_args"] = [
            outcome(lambda: PythonCodeGen()),
            outcome(lambda: PythonCodeGen(tree, "\t", True, None, None, None)),
            outcome(lambda: PythonCodeGen(tree, nonsense=1)),
        ]
        out[name] = per
    out["none_ast"] = [
        outcome(lambda: PythonCodeGen(None).local_vars),
        outcome(lambda: PythonCodeGen(None).render_topline()),
        outcome(lambda: PythonCodeGen(None).generate()),
    ]
    out["class_attrs"] = sorted(
        name for name in ("generate", "render_topline", "indent", "generate_key_definition",
                          "local_vars", "conditional_ids")
        if hasattr(PythonCodeGen, name)
    )
    return out


def codegen_exec_summary():
    out = {}
    for name, text in VALID.items():
        per = {}
        for expose in (False, True):
            try:
                code = generate_code(text, expose)
            except BaseException as exc:  # noqa: B902
                per[str(expose)] = ["gen-err", type(exc).__name__]
                continue
            namespace = {}
            try:
                exec(compile(code, "<probe>", "exec"), namespace)
            except BaseException as exc:  # noqa: B902
                per[str(expose)] = ["exec-err", type(exc).__name__, code]
                continue
            tree = parse_source(text)
            fn = namespace.get(tree.id)
            gen = PythonCodeGen(tree)
            gen.generate()
            fields = gen.local_vars + [f for f in gen.conditional_ids if f not in gen.local_vars]
            per[str(expose)] = {
                "code": code,
                "public": sorted(k for k in namespace if not k.startswith("__")),
                "calls": sample_calls(fn, fields),
            }
            if expose and "choose_experiment_variant" in namespace and tree.id != "choose_experiment_variant":
                inner = namespace["choose_experiment_variant"]
                per["inner"] = outcome(lambda: type(inner(**{f: 1 for f in gen.conditional_ids})).__name__)
        out[name] = per
    for name, text in INVALID.items():
        out["invalid:" + name] = [outcome(generate_code, text)[:2], outcome(generate_code, text, True)[:2]]
    return out


def evaluator_summary():
    out = {}
    for name, text in {**VALID, **INVALID}.items():
        try:
            ev = ExperimentEvaluator(text)
        except BaseException as exc:  # noqa: B902
            out[name] = ["ctor-err", type(exc).__name__, str(exc)[:200]]
            continue
        tree = parse_source(text)
        gen = PythonCodeGen(tree)
        gen.generate()
        fields = gen.local_vars + [f for f in gen.conditional_ids if f not in gen.local_vars]
        out[name] = {
            "checksum": ev._checksum,
            "vars": sorted(vars(ev)),
            "fn_name": ev.run_experiment.__name__,
            "calls": digest(json.dumps(sample_calls(ev, fields))),
            "first_calls": sample_calls(ev, fields)[:12],
            "positional": outcome(ev, 1),
            "direct": digest(json.dumps(sample_calls(ev.run_experiment, fields))),
        }

    # recompile histories
    histories = []
    order = ["salted", "salted", "bad_char", "salted", "two_split", "empty", "no_weight",
             "two_split", "plain", "pykw_name", "plain", "kwprefix", "unterminated", "kwprefix"]
    ev = ExperimentEvaluator(VALID["plain"])
    texts = {**VALID, **INVALID}
    for step in order:
        fn_before = ev.run_experiment
        random.seed(77)
        res = outcome(ev.recompile, texts[step])
        histories.append({
            "step": step,
            "res": res[:2],
            "checksum": ev._checksum,
            "same_fn": ev.run_experiment is fn_before,
            "name": ev.run_experiment.__name__,
            "call": outcome(ev, uid=5, a_id=1, b_id=2, iffy=1, input_1=2, android=1, note="x", order=9,
                            elsewhere="p"),
        })
    out["history"] = histories

    random.seed(78)
    class_level = ExperimentEvaluator.__new__(ExperimentEvaluator)
    out["unloaded"] = [outcome(class_level), class_level._checksum, ExperimentEvaluator._checksum]
    out["parse_error"] = [ParseError().message, issubclass(ParseError, Exception),
                          str(ExperimentConditionalFailedError())]

    # threads: concurrent calls and concurrent recompiles give the sequential answers
    ev = ExperimentEvaluator(VALID["shared"])
    expected = [ev(uid=i, country="US" if i % 2 else "FR") for i in range(400)]
    mismatches = []

    def worker(offset):
        for i in range(offset, 400, 8):
            if i % 50 == 0:
                ev.recompile(VALID["shared"])
            if ev(uid=i, country="US" if i % 2 else "FR") != expected[i]:
                mismatches.append(i)

    threads = [threading.Thread(target=worker, args=(k,)) for k in range(8)]
    for t in threads:
        t.start()
    for t in threads:
        t.join()
    out["threads"] = {"mismatches": sorted(mismatches), "expected": digest(json.dumps(expected))}
    return out


def binning_summary():
    out = {}
    keys = ["", "a", "abc", "0", "1", "é", "東京", "s@lt5", "x" * 1000, "\n", "\ud800"]
    out["proba"] = {repr(k): outcome(deterministic_proba, k) for k in keys}
    out["proba_bad"] = [outcome(deterministic_proba, 5)[:2], outcome(deterministic_proba, None)[:2]]
    weights_sets = [None, [1, 1, 1], [1, 0, 3], [0.5, 0.25, 0.25], [0, 0, 0], [1, 2], [1, -1, 1],
                    [float("inf"), 1, 1], [1e308, 1e308, 1], [0, 0, 1]]
    pop = ["a", "b", "c"]
    table = {}
    for w in weights_sets:
        row = []
        for i in range(200):
            row.append(outcome(deterministic_choice, f"salt{i}", pop, w))
        table[repr(w)] = digest(json.dumps(row))
        table[repr(w) + ":head"] = row[:6]
    out["choice"] = table
    out["cum"] = [outcome(deterministic_choice, f"k{i}", pop, cum_weights=[1, 3, 6]) for i in range(30)]
    out["both"] = outcome(deterministic_choice, "k", pop, [1, 1, 1], cum_weights=[1, 2, 3])
    out["empty_pop"] = [outcome(deterministic_choice, "k", [])[:2], outcome(deterministic_choice, "k", [], [])[:2]]
    random.seed(99)
    out["random_fallback"] = [outcome(deterministic_choice, None, pop, [1, 2, 3]) for _ in range(10)]
    counts = {}
    for i in range(5000):
        pick = deterministic_choice(f"user-{i}", pop, [1, 2, 7])
        counts[pick] = counts.get(pick, 0) + 1
    out["counts"] = counts
    return out


def stats_summary():
    out = {"probit": {}, "ci": {}}
    for alpha in (0.5, 0.975, 0.025, 0.9, 0.1, 0.001, 0.999999, 0, 1, -1, 2):
        out["probit"][repr(alpha)] = outcome(probit, alpha)
    out["probit"]["default"] = outcome(probit)
    for n in (1, 10, 1000, 0):
        for p in (0.0, 0.3, 0.5, 1.0):
            for conf in (0.95, 0.5, 0.999):
                for method in ("agresti-coull", "wald", "WALD", "Agresti-Coull", "wilson"):
                    key = f"{n}/{p}/{conf}/{method}"
                    out["ci"][key] = outcome(confidence_interval, n, p, conf, method)
    out["ci"]["default"] = outcome(confidence_interval)
    out["ci"]["bad_method"] = outcome(confidence_interval, method=None)[:2]
    return out


def main():
    summary = {
        "parse": parse_summary(),
        "generator": generator_summary(),
        "codegen_exec": codegen_exec_summary(),
        "evaluator": evaluator_summary(),
        "binning": binning_summary(),
        "stats": stats_summary(),
    }
    print(json.dumps(summary, indent=1, sort_keys=True, ensure_ascii=True, default=repr))


if __name__ == "__main__":
    main()

"""Exercises the new capability of t1: optional prefix of the generated entry function."""

from pyab_experiment.codegen.python.python_generator import (
    InvalidFunctionPrefixError,
    PythonCodeGen,
)
from pyab_experiment.utils.wraper_functions import generate_code, parse_source

TEXT = (
    "def checkout{ salt: 's1' splitters: uid "
    "if country == 'US' { return 'a' weighted 1, 'b' weighted 3 } else { return 'c' weighted 1 } }"
)
tree = parse_source(TEXT)

# default: nothing changes
plain = PythonCodeGen(tree)
assert plain.function_prefix == "" and plain.function_name == "checkout"
assert "_function_prefix" not in vars(plain)
assert PythonCodeGen(tree, function_prefix="").generate() == PythonCodeGen(tree).generate()

# prefixed
for expose in (True, False):
    gen = PythonCodeGen(tree, "\t", expose, function_prefix="exp_")
    assert gen.function_name == "exp_checkout" and gen.function_prefix == "exp_"
    text = gen.generate()
    assert "def exp_checkout(uid, country, **kwargs): \n" in text
    reference = PythonCodeGen(tree, "\t", expose).generate()
    assert text == reference.replace("def checkout(", "def exp_checkout(")
    ns, ref_ns = {}, {}
    exec(compile(text, "<t1>", "exec"), ns)
    exec(compile(reference, "<t1>", "exec"), ref_ns)
    assert "checkout" not in ns
    for uid in range(300):
        for country in ("US", "FR"):
            assert ns["exp_checkout"](uid=uid, country=country) == ref_ns["checkout"](
                uid=uid, country=country
            )

# two experiments with the same id side by side in one namespace
ns = {}
exec(generate_code(TEXT, False, "v1_"), ns)
exec(generate_code(TEXT.replace("'s1'", "'s2'"), function_prefix="v2_"), ns)
assert {"v1_checkout", "v2_checkout"} <= set(ns)
assert any(ns["v1_checkout"](uid=i, country="US") != ns["v2_checkout"](uid=i, country="US") for i in range(50))

# an experiment id that is a python keyword becomes usable
kw_text = "def class{ splitters: uid return 'x' weighted 1, 'y' weighted 1 }"
ns = {}
exec(generate_code(kw_text, function_prefix="exp_"), ns)
assert ns["exp_class"](uid=3) in ("x", "y")

# rejected prefixes: only on the new path, with the new ValueError subclass
for bad in ("1", "a-b", " ", "é ", 5, None, "with space"):
    try:
        PythonCodeGen(tree, function_prefix=bad)
    except InvalidFunctionPrefixError as exc:
        assert isinstance(exc, ValueError)
    else:
        raise AssertionError(bad)
try:
    PythonCodeGen(parse_source("def f{ return 1 weighted 1 }"), function_prefix="de")
except InvalidFunctionPrefixError:
    pass
else:
    raise AssertionError("keyword")
try:
    PythonCodeGen(parse_source("def variant{ return 1 weighted 1 }"), function_prefix="choose_experiment_")
except InvalidFunctionPrefixError:
    pass
else:
    raise AssertionError("inner name")
print("t1 usage ok")
